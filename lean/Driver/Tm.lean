import Esp.Model.Timing
import Driver.Util
/-! driver op for the timing model (C09): `tm.phase <start|finish|disc|discfin> <t0> <o:d>...` -/
open Esp Drv Esp.Timing

namespace DrvTm

def parseEv (w : String) : Option Timing.Ev :=
  match w.splitOn ":" with
  | ["ok", d] => d.toNat?.map (fun d => ⟨.ok, d⟩)
  | ["err", d] => d.toNat?.map (fun d => ⟨.err, d⟩)
  | ["silent"] => some ⟨.silent, 0⟩
  | _ => none

def showEnd : End → String | .success => "success" | .failed => "failed" | .timedOut => "timeout"

def tmStep (ws : List String) : String :=
  match ws with
  | "tm.phase" :: k :: t0 :: es =>
    let waits := match k with
      | "start" => some startWaits | "finish" => some finishWaits | "disc" => some discWaits
      | "discfin" => some discDuringFinishWaits | _ => none
    match waits, t0.toNat?, es.mapM parseEv with
    | some w, some t, some es => let r := phase t w es; s!"{r.1} {showEnd r.2}"
    | _, _, _ => "bad-op"
  | _ => "bad-op"

end DrvTm
