import Esp.Model.Keepalive
import Driver.Util
/-! driver ops for the keepalive automaton (C10) -/
open Esp Drv Esp.Keepalive

namespace DrvKa

def enabled (s : State) : Ev → Bool
  | .msg => s.alive
  | .tick => s.alive && s.now == s.pingAt
  | .pong => s.alive && s.pongAt == some s.now
  | .advance d => canAdvance s d
  | .close => true

def pings (l : List Entry) : Nat := (l.filter (fun e => match e with | .tick _ true => true | _ => false)).length
def deaths (l : List Entry) : List Nat := l.filterMap (fun e => match e with | .dead t => some t | _ => none)

def showSt (s : State) (en : Bool) : String :=
  let timers := if s.alive then ([s.pingAt] ++ (match s.pongAt with | some p => [p] | none => [])) else []
  let timers := timers.mergeSort (· ≤ ·)
  s!"alive={if s.alive then 1 else 0} pings={pings s.log} timers=[{" ".intercalate (timers.map toString)}] dead=[{" ".intercalate ((deaths s.log).map toString)}] enabled={if en then 1 else 0}"

def parseEntry (w : String) : Option Entry :=
  match w.splitOn ":" with
  | ["m", t] => t.toNat?.map .msg
  | ["d", t] => t.toNat?.map .dead
  | ["t", t, p] => match t.toNat? with
    | some t => some (.tick t (p == "1"))
    | none => none
  | _ => none

def kaStep (s : State) (ws : List String) : State × String :=
  let go (e : Ev) : State × String :=
    let en := enabled s e
    let s' := step s e
    (s', showSt s' en)
  match ws with
  | ["ka.reset", k] => match k.toNat? with
    | some k => (init k, "ok")
    | none => (s, "bad-op")
  | ["ka.msg"] => go .msg
  | ["ka.tick"] => go .tick
  | ["ka.pong"] => go .pong
  | ["ka.close"] => go .close
  | ["ka.adv", d] => match d.toNat? with
    | some d => go (.advance d)
    | none => (s, "bad-op")
  | "ka.spec" :: k :: es => match k.toNat?, es.mapM parseEntry with
    | some k, some es => match checkLog k es.reverse with
      | none => (s, "ok")
      | some r => (s, s!"fail:{r}")
    | _, _ => (s, "bad-op")
  | _ => (s, "bad-op")

end DrvKa
