import Esp.Model.Subs
import Driver.Util
/-! driver ops for the subscription model (C17) -/
open Esp Drv Esp.Subs

namespace DrvSb

def parseMsg (w : String) : Option Msg :=
  match w.splitOn ":" with
  | ["s", ty, id] => match ty.toNat?, id.toNat? with | some t, some i => some (.state t i) | _, _ => none
  | ["c", k, hx, d] => match k.toNat?, hexToBytes hx with
    | some k, some b => some (.cam k (b.map (·.toNat)) (d == "1"))
    | _, _ => none
  | _ => none

def showOut : Out → String
  | .model t i => s!"m:{t}:{i}"
  | .image k d => s!"i:{k}:{bytesToHex (d.map (fun x => UInt8.ofNat x))}"

def parseVa (w : String) : Option VaEv :=
  match w.splitOn ":" with
  | ["start"] => some .start | ["stop"] => some .reqStop | ["ann"] => some .announce
  | ["unsub"] => some .unsub | ["gone"] => some .connGone
  | ["audio", b] => some (.audio (b == "1"))
  | ["done", id, r] => match id.toNat? with
    | some id => some (.startDone id (if r == "none" then none else r.toNat?))
    | none => none
  | _ => none

def showVa : VaOut → String
  | .respPort p => s!"port:{p}" | .respError => "error" | .hStart i => s!"hstart:{i}"
  | .hStop a => s!"hstop:{if a then 1 else 0}" | .hAudio => "haudio" | .hAnnounce => "hann"

def parseOKind : String → Option OKind
  | "log" => some .log | "svc" => some .svc | "ha" => some .ha | "adv" => some .adv | "raw" => some .raw | "free" => some .free
  | _ => none
def showOKind : OKind → String
  | .log => "log" | .svc => "svc" | .ha => "ha" | .adv => "adv" | .raw => "raw" | .free => "free"

def parseOEv (w : String) : Option OEv :=
  match w.splitOn ":" with
  | ["m", k, id, once] => match parseOKind k, id.toNat? with
    | some k, some i => some (.msg k i (once == "1"))
    | _, _ => none
  | ["u", k] => (parseOKind k).map .unsub
  | _ => none

def showOOut : OOut → String
  | .handler k i => s!"{showOKind k}:{i}" | .request i => s!"hareq:{i}"

def sbStep (ws : List String) : String :=
  match ws with
  | "sb.run" :: ms => match ms.mapM parseMsg with
    | some ms => " ".intercalate ((run [] ms).map showOut)
    | none => "bad-op"
  | "sb.other" :: req :: kinds :: es =>
    -- kinds: comma-separated subscribed kinds; req: the one-shot home-assistant handler was given
    match (kinds.splitOn ",").mapM parseOKind, es.mapM parseOEv with
    | some ks, some es => " ".intercalate ((oRun { active := ks, hasRequest := req == "1" } es).map showOOut)
    | _, _ => "bad-op"
  | "va.run" :: aud :: ann :: es => match es.mapM parseVa with
    | some es => " ".intercalate ((vaRun { audioSub := aud == "1", announceSub := ann == "1" } es).out.map showVa)
    | none => "bad-op"
  | _ => "bad-op"

end DrvSb
