import Esp.Model.Commands
import Driver.Util
/-! driver ops for the command model (C15) -/
open Esp Drv Esp.Commands

namespace DrvCmd

def parseQ (w : String) : Option Val :=
  match w.splitOn "/" with
  | [n, d] => match n.toInt?, d.toNat? with | some n, some d => some (.q n d) | _, _ => none
  | _ => none

def parseVal (w : String) : Option Val :=
  match w.splitOn ":" with
  | ["b", x] => some (.b (x == "1"))
  | ["i", x] => x.toInt?.map .i
  | ["q", x] => parseQ x
  | ["s", x] => (hexToBytes x).map (fun b => .s (b.map (·.toNat)))
  | ["t", x] => match x.splitOn "," with
    | [a, b, c] => match parseQ a, parseQ b, parseQ c with
      | some a, some b, some c => some (.t3 a b c)
      | _, _, _ => none
    | _ => none
  | _ => none

def showVal : Val → String
  | .b x => s!"b:{if x then 1 else 0}" | .i x => s!"i:{x}" | .q n d => s!"q:{n}/{d}"
  | .s x => s!"s:{bytesToHex (x.map (fun c => UInt8.ofNat c))}"
  | .t3 _ _ _ => "t"

def showFields (l : List (String × Val)) : String := " ".intercalate (l.map (fun p => s!"{p.1}={showVal p.2}"))

def parseArgs (ws : List String) : Option (List (String × Val)) :=
  ws.mapM (fun w => match w.splitOn "=" with
    | [a, v] => (parseVal v).map (fun v => (a, v))
    | _ => none)

def parseOptVal (w : String) : Option (Option Val) := if w == "-" then some none else (parseVal w).map some

def cmdStep (ws : List String) : String :=
  match ws with
  | "cmd.enc" :: msg :: args =>
    match schemas.find? (fun s => s.msg == msg), parseArgs args with
    | some s, some a => showFields (encode s (fun n => a.lookup n))
    | _, _ => "bad-op"
  | ["cmd.cover", maj, min, p, t, stop] =>
    match maj.toNat?, min.toNat?, parseOptVal p, parseOptVal t with
    | some maj, some min, some p, some t => showFields (coverEncode ⟨maj, min⟩ p t (stop == "1"))
    | _, _, _, _ => "bad-op"
  | ["cmd.preset", maj, min, preset, away] =>
    match maj.toNat?, min.toNat?, preset.toInt? with
    | some maj, some min, some pr => showFields (climatePreset ⟨maj, min⟩ pr (away == "1"))
    | _, _, _ => "bad-op"
  | ["cmd.svcint", maj, min] =>
    match maj.toNat?, min.toNat? with
    | some maj, some min => serviceIntField ⟨maj, min⟩
    | _, _ => "bad-op"
  | "cmd.svc" :: maj :: min :: args =>
    -- args: name:type:token, token "-" = no value supplied; types b i f s B I F S u
    match maj.toNat?, min.toNat? with
    | some maj, some min =>
      let parsed := args.map (fun a => a.splitOn ":")
      let ty (c : String) : ArgTy := match c with
        | "b" => .bool | "i" => .int | "f" => .float | "s" => .string
        | "B" => .boolArr | "I" => .intArr | "F" => .floatArr | "S" => .stringArr | _ => .other
      let decl : List SvcArg := parsed.filterMap (fun p => match p with | [n, t, _] => some ⟨n, ty t⟩ | _ => none)
      if decl.length ≠ parsed.length then "bad-op" else
      let data (n : String) : Option String :=
        (parsed.findSome? (fun p => match p with | [n', _, tok] => if n' = n then some tok else none | _ => none)).bind
          (fun tok => if tok = "-" then none else some tok)
      match executeService ⟨maj, min⟩ data decl with
      | some out => "ok " ++ " ".intercalate (out.map (fun p => p.1 ++ "=" ++ p.2))
      | none => "raises"
    | _, _ => "bad-op"
  | _ => "bad-op"

end DrvCmd
