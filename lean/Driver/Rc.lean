import Esp.Model.Reconnect
import Driver.Util
/-! driver ops for the reconnect-manager model (C18) -/
open Esp Drv Esp.Reconnect

namespace DrvRc

def showState : RState → String
  | .connecting => "CONNECTING" | .handshaking => "HANDSHAKING" | .ready => "READY" | .disconnected => "DISCONNECTED"
def showErr : ErrK → String | .auth => "auth" | .other => "other"
def showCli : Cli → String | .idle => "idle" | .starting => "starting" | .finishing => "finishing" | .live => "live"
def b (x : Bool) : String := if x then "1" else "0"
def showAct : Act → String
  | .attempt => "attempt" | .onConnect => "on_connect" | .onDisconnect e => s!"on_disconnect:{b e}"
  | .onConnectError k => s!"on_connect_error:{showErr k}" | .zcAdd => "zc_add" | .zcRemove => "zc_remove"
  | .arm d => s!"arm:{d}" | .startRet => "start_ret" | .stopRet => "stop_ret" | .resetTries => "reset_tries"
  | .failCounted k => s!"fail_counted:{showErr k}"

def showKind : Kind → String
  | .connect => "connect" | .disc _ => "disc" | .startCall => "start" | .stopCall => "stop"

def parseRes : String → Option Res
  | "ok" => some .ok | "auth" => some (.fail .auth) | "other" => some (.fail .other) | _ => none

def parseEv : List String → Option Ev
  | ["start"] => some .callStart | ["stop"] => some .callStop
  | ["startDone", r] => (parseRes r).map .startDone
  | ["finishDone", r] => (parseRes r).map .finishDone
  | ["sessionEnd", e] => some (.sessionEnd (e == "1"))
  | ["zc", m] => some (.zc (m == "1"))
  | ["cbDone"] => some .cbDone
  | ["timerDue"] => some .timerDue
  | ["wait", d] => d.toNat?.map .wait
  | ["pop"] => some .pop
  | _ => none

/-- what `pop` is about to run -/
def headKind (s : St) : String :=
  match s.ready with
  | [] => "idle"
  | .timerCb :: _ => "timer"
  | .wake tid :: _ => match getTask s tid with
    | some t => showKind t.kind
    | none => "?"

def showSt (s : St) : String :=
  let timer := match s.timer with
    | some d => if s.timerQueued then "due" else toString (d - s.now)
    | none => "-"
  let inflight := (s.tasks.filter (fun t => t.pc = .inStart ∨ t.pc = .inFinish)).length
  let alive := (s.tasks.filter (fun t => t.pc ≠ .done)).length
  -- unreported session ends: `_on_disconnect` tasks that have not reached `on_disconnect` yet (the `pendD` of the proofs)
  let pd := (s.tasks.filter (fun t => (match t.kind with | .disc _ => true | _ => false) && (t.pc == .running || t.pc == .lockWait))).length
  s!"st={showState s.state} acc={b s.accept} stopped={b s.stopped} zc={b s.zcListening} tries={s.tries} timer={timer} " ++
  s!"locked={b s.locked} waiters={s.waiters.length} cli={showCli s.cli} inflight={inflight} alive={alive} ready={s.ready.length} pd={pd}"

def rcStep (s : St) (ws : List String) : St × String :=
  match ws with
  | ["rc.new", n] => (init (n == "1"), "ok")
  | ["rc.new", n, c, e, d] => (init (n == "1") (c == "1") (e == "1") (d == "1"), "ok")
  | "rc.ev" :: rest =>
    match parseEv rest with
    | some e =>
      let hk := if e = .pop then headKind s else "-"
      let s' := step s e
      let newLog := s'.log.drop s.log.length
      (s', s!"head={hk} acts=[{" ".intercalate (newLog.map showAct)}] {showSt s'}")
    | none => (s, "bad-op")
  | ["rc.backoff", n] => match n.toNat? with
    | some n => (s, toString (backoff n))
    | none => (s, "bad-op")
  | _ => (s, "bad-op")

end DrvRc
