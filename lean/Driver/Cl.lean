import Esp.Model.Client
import Driver.Util
/-! driver ops for the client model (C19) -/
open Esp Drv Esp.Client

namespace DrvCl

def showPh : Option Ph → String
  | none => "none" | some .starting => "starting" | some .opened => "opened" | some .finishing => "finishing"
  | some .hello => "hello" | some .connected => "connected" | some .closedStart => "closedStart"
  | some .closedFinish => "closedFinish" | some .closedIdle => "closedIdle"

def showRes : Res → String
  | .ok => "ok" | .alreadyConnected => "alreadyConnected" | .connError => "connError" | .rawError => "rawError" | .noop => "noop"

def parseEv : String → Option Ev
  | "callStart" => some .callStart | "startOk" => some .startOk | "startFail" => some .startFail
  | "callFinish" => some .callFinish | "hsDone" => some .hsDone | "finishOk" => some .finishOk
  | "finishFail" => some .finishFail | "close" => some .close | "disconnect" => some .disconnect | "api" => some .api | "closure" => some .closure
  | _ => none

def clStep (s : State) (ws : List String) : State × String :=
  match ws with
  | ["cl.reset"] => ({}, "ok")
  | ["cl.ev", e] => match parseEv e with
    | some ev =>
      let s' := step s ev
      (s', s!"conn={showPh s'.conn} last={showRes s'.last} dw={s'.writes - s.writes}")
    | none => (s, "bad-op")
  | _ => (s, "bad-op")

end DrvCl
