import Esp.Model.Resolver
import Driver.Util
/-! driver ops for the resolver / zeroconf-manager model (C20) -/
open Esp Drv Esp.Resolver

namespace DrvRs

def hexToChars (s : String) : Option (List Char) :=
  (hexToBytes s).map (fun b => b.map (fun x => Char.ofNat x.toNat))

def charsToHex (l : List Char) : String := bytesToHex (l.map (fun c => UInt8.ofNat c.toNat))

structure HostSpec where
  host : Host
  isIp : Bool
  mdns : Option (List Nat × List Nat)
  os : Option (List Addr)

def range' (start n : Nat) : List Nat := (List.range n).map (· + start)

/-- `<hosthex>:<isIp>:<mdns>:<os>` with mdns = `e` | `<n6>.<n4>`, os = `e` | `<n>`; ids are derived from the index -/
def parseHost (idx : Nat) (w : String) : Option HostSpec :=
  match w.splitOn ":" with
  | [hx, ip, md, os] =>
    match hexToChars hx with
    | none => none
    | some host =>
      let mdns : Option (Option (List Nat × List Nat)) :=
        if md == "e" then some none else
        match md.splitOn "." with
        | [a, b] => match a.toNat?, b.toNat? with
          | some a, some b => some (some (range' (100 * idx + 1) a, range' (100 * idx + 51) b))
          | _, _ => none
        | _ => none
      let osr : Option (Option (List Addr)) :=
        if os == "e" then some none else (os.toNat?).map (fun n => some ((range' (1000 * idx + 1) n).map Addr.v4))
      match mdns, osr with
      | some m, some o => some { host := host, isIp := ip == "1", mdns := m, os := o }
      | _, _ => none
  | _ => none

def showAddr : Addr → String
  | .v4 i => s!"v4:{i}" | .v6 i => s!"v6:{i}" | .lit h => s!"lit:{charsToHex h}"
def showCall : Call → String
  | .mdns n => s!"mdns:{charsToHex n}" | .os h => s!"os:{charsToHex h}"
def showInst : Option Inst → String
  | none => "none" | some (.supplied i) => s!"s:{i}" | some (.own i) => s!"o:{i}"

def showZc (z : Zc) : String :=
  s!"inst={showInst z.inst} created={if z.created then 1 else 0} closed=[{" ".intercalate (z.closed.map (fun i => showInst (some i)))}] raised={if z.raised then 1 else 0}"

def rsStep (z : Zc) (ws : List String) : Zc × String :=
  match ws with
  | "rs.resolve" :: specs =>
    match (specs.zipIdx.mapM (fun (w, i) => parseHost i w)) with
    | none => (z, "bad-op")
    | some hs =>
      let o : Oracle :=
        { isIp := fun h => (hs.find? (fun s => s.host == h)).any (·.isIp)
          mdns := fun n => ((hs.find? (fun s => firstLabel s.host == n)).map (·.mdns)).getD none
          os := fun h => ((hs.find? (fun s => s.host == h)).map (·.os)).getD none }
      let r := resolve o (hs.map (·.host))
      let calls := " ".intercalate (r.2.map showCall)
      match r.1 with
      | .ok l => (z, s!"ok [{" ".intercalate (l.map showAddr)}] calls [{calls}]")
      | .error e => (z, s!"err:{match e with | .zc => "zc" | .os => "os" | .none => "none"} calls [{calls}]")
  | ["rs.local", hx] => match hexToChars hx with
    | some h => (z, s!"namepart={if hostIsNamePart h then 1 else 0} local={if addressIsLocal h then 1 else 0} first={charsToHex (firstLabel h)}")
    | none => (z, "bad-op")
  | ["zc.reset", sup] =>
    let z' : Zc := { inst := if sup == "-" then none else (sup.toNat?).map Inst.supplied }
    (z', showZc z')
  | ["zc.op", op] =>
    let o : Option ZOp := match op.splitOn ":" with
      | ["set", i] => i.toNat?.map .setInstance
      | ["get"] => some .get | ["getfail"] => some .getFail | ["close"] => some .close
      | ["lookup", "1"] => some (.lookup .ok) | ["lookup", "0"] => some (.lookup .fail)
      | ["lookup", "c"] => some (.lookup .cancelled)
      | _ => none
    match o with
    | some o => let z' := zStep z o; (z', showZc z')
    | none => (z, "bad-op")
  | _ => (z, "bad-op")

end DrvRs
