import Esp.Model.Dispatch
import Driver.Util
/-! driver ops for the dispatch model (C12) -/
open Esp Drv Esp.Dispatch

namespace DrvDp

structure DSt where
  scripts : List (Nat × List Act) := []
  watch : List Nat := []
  n : Nat := 0
  st : St := {}

def cfgOf (d : DSt) : Cfg :=
  { n := d.n, discReq := 5, discResp := 6, pingReq := 7, pingResp := 8, timeReq := 36, timeResp := 37,
    scripts := fun h => (d.scripts.lookup h).getD [] }

def parseAct (w : String) : Option Act :=
  match w.splitOn ":" with
  | ["s", h, t] => match h.toNat?, t.toNat? with | some h, some t => some (.sub h t) | _, _ => none
  | ["u", h, t] => match h.toNat?, t.toNat? with | some h, some t => some (.unsub h t) | _, _ => none
  | _ => none

def showErr : Err → String
  | .protocol => "protocol" | .socketClosed => "socketClosed" | .notEstablished => "notEstablished"

def nats (l : List Nat) : String := " ".intercalate (l.map toString)

def showSt (d : DSt) (before : St) : String :=
  let s := d.st
  let newLog := (s.log.drop before.log.length).filterMap (fun e => if e.2.2 ≥ 3 then some e.2.2 else none)
  let tbl := d.watch.map (fun t => s!"{t}:[{nats ((s.table t).filter (· ≥ 3) |>.mergeSort (· ≤ ·))}]")
  let timers := if s.closed then 0 else (if s.pongArmed then 2 else 1)
  s!"closed={if s.closed then 1 else 0} fatal={match s.fatal with | none => "none" | some e => showErr e} stops=[{" ".intercalate (s.stops.map (fun b => if b then "1" else "0"))}] writes=[{nats (s.writes.drop before.writes.length)}] timers={timers} new=[{nats newLog}] tbl={" ".intercalate tbl}"

def dpStep (d : DSt) (ws : List String) : DSt × String :=
  let c := cfgOf d
  match ws with
  | "dp.reset" :: n :: watch =>
    match n.toNat?, watch.mapM (·.toNat?) with
    | some n, some w =>
      let d := { scripts := [], watch := w, n := n, st := {} : DSt }
      ({ d with st := init (cfgOf d) }, "ok")
    | _, _ => (d, "bad-op")
  | "dp.script" :: h :: acts =>
    match h.toNat?, acts.mapM parseAct with
    | some h, some a => ({ d with scripts := (h, a) :: d.scripts }, "ok")
    | _, _ => (d, "bad-op")
  | ["dp.sub", h, t] => match h.toNat?, t.toNat? with
    | some h, some t => let d' := { d with st := stepOp c d.st (.sub h t) }; (d', showSt d' d.st)
    | _, _ => (d, "bad-op")
  | ["dp.unsub", h, t] => match h.toNat?, t.toNat? with
    | some h, some t => let d' := { d with st := stepOp c d.st (.unsub h t) }; (d', showSt d' d.st)
    | _, _ => (d, "bad-op")
  | ["dp.write", b] => let d' := { d with st := stepOp c d.st (.setWrite (b == "1")) }; (d', showSt d' d.st)
  | ["dp.lost"] => let d' := { d with st := stepOp c d.st .lost }; (d', showSt d' d.st)
  | ["dp.tick"] => let d' := { d with st := stepOp c d.st .tick }; (d', showSt d' d.st)
  | "dp.packet" :: id :: ok :: order =>
    match id.toNat?, order.mapM (·.toNat?) with
    | some id, some order =>
      -- the harness reports the handlers it saw invoked, in order; those it did not see (dispatch aborted by a
      -- raising write) are appended in table order
      let snap := match klass c id with | some t => d.st.table t | none => []
      let full := order ++ snap.filter (fun h => !order.contains h)
      let r := processPacket c d.st id (ok == "1") full
      let d' := { d with st := r.1 }
      (d', (if r.2 == .badOrder then "BADORDER " else "") ++ showSt d' d.st)
    | _, _ => (d, "bad-op")
  | _ => (d, "bad-op")

end DrvDp
