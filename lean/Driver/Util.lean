import Esp.Model.Bytes
/-! driver helpers: hex, hashing, tokenising (core Lean only) -/
namespace Drv
open Esp

def hexVal (c : Char) : Option Nat :=
  if '0' ≤ c ∧ c ≤ '9' then some (c.toNat - '0'.toNat)
  else if 'a' ≤ c ∧ c ≤ 'f' then some (c.toNat - 'a'.toNat + 10)
  else if 'A' ≤ c ∧ c ≤ 'F' then some (c.toNat - 'A'.toNat + 10)
  else none

def hexToBytesAux : List Char → Bytes → Option Bytes
  | [], acc => some acc.reverse
  | [_], _ => none
  | a :: b :: rest, acc =>
    match hexVal a, hexVal b with
    | some x, some y => hexToBytesAux rest (UInt8.ofNat (x * 16 + y) :: acc)
    | _, _ => none

/-- `-` stands for the empty byte string -/
def hexToBytes (s : String) : Option Bytes :=
  if s == "-" then some [] else hexToBytesAux s.toList []

def hexDigit (n : Nat) : Char := if n < 10 then Char.ofNat (48 + n) else Char.ofNat (87 + n)

def bytesToHex (b : Bytes) : String :=
  if b.isEmpty then "-" else
  String.ofList (b.foldr (fun x acc => hexDigit (x.toNat / 16) :: hexDigit (x.toNat % 16) :: acc) [])

/-- polynomial hash shared with the Python side (`harness/lineproto.py::phash`) -/
def phash (b : Bytes) : Nat :=
  b.foldl (fun h x => (h * 257 + x.toNat + 1) % 2305843009213693951) 7

def showPacket (p : Nat × Bytes) : String := s!"{p.1}:{p.2.length}:{phash p.2}"
def showPackets (ps : List (Nat × Bytes)) : String := " ".intercalate (ps.map showPacket)

def words (s : String) : List String := (s.splitOn " ").filter (· ≠ "")

end Drv
