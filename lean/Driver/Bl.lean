import Esp.Model.Ble
import Driver.Util
/-! driver ops for the Bluetooth model (C16) -/
open Esp Drv Esp.Ble

namespace DrvBl

def parseKind : String → Option Kind
  | "read" => some .read | "write" => some .write | "notify" => some .notify | "error" => some .error
  | "conn1" => some (.conn true) | "conn0" => some (.conn false) | "pairing" => some .pairing
  | "unpairing" => some .unpairing | "clearcache" => some .clearCache | "other" => some .other
  | _ => none

def parseOpKind : String → Option OpKind
  | "read" => some .read | "write" => some .write | "notify" => some .notify | "pair" => some .pair
  | "unpair" => some .unpair | "clearcache" => some .clearCache | "disconnect" => some .disconnect
  | _ => none

def parseMsg (w : String) : Option Msg :=
  match w.splitOn ":" with
  | [k, a, h] => match parseKind k, a.toNat?, h.toNat? with
    | some k, some a, some h => some { kind := k, address := a, handle := h }
    | _, _, _ => none
  | _ => none

def showKind : Kind → String
  | .read => "read" | .write => "write" | .notify => "notify" | .error => "error" | .conn true => "conn1"
  | .conn false => "conn0" | .pairing => "pairing" | .unpairing => "unpairing" | .clearCache => "clearcache" | .other => "other"

def showMsg (m : Msg) : String := s!"{showKind m.kind}:{m.address}:{m.handle}"

def showOutcome : Outcome → String
  | .result m => s!"result:{showMsg m}" | .gattError m => s!"gatt:{showMsg m}" | .dropped m => s!"dropped:{showMsg m}"
  | .timeout => "timeout"

def parseCEv (w : String) : Option CEv :=
  match w.splitOn ":" with
  | ["resp", a, c] => a.toNat?.map (fun a => .resp a (c == "1"))
  | ["timeout"] => some .timeoutFire
  | ["disctimeout"] => some .discTimeout
  | _ => none

def showAct : Act → String
  | .unsub => "unsub" | .writeDisconnect a => s!"disconnect:{a}" | .raiseTimeout => "raise-timeout" | .returnOk => "ok"

def blStep (ws : List String) : String :=
  match ws with
  | "ble.outcome" :: k :: a :: h :: ms =>
    match parseOpKind k, a.toNat?, h.toNat?, ms.mapM parseMsg with
    | some k, some a, some h, some ms => showOutcome (outcome { kind := k, address := a, handle := h } ms)
    | _, _, _, _ => "bad-op"
  | "ble.notify" :: a :: h :: es =>
    -- events: d:<addr>:<handle>:<data> | rm
    let parse (w : String) : Option NEv := match w.splitOn ":" with
      | ["d", x, y, z] => match x.toNat?, y.toNat?, z.toNat? with
        | some x, some y, some z => some (.data ⟨x, y, z⟩)
        | _, _, _ => none
      | ["rm"] => some .remove
      | _ => none
    match a.toNat?, h.toNat?, es.mapM parse with
    | some a, some h, some es => " ".intercalate ((notifyRun a h true es).map toString)
    | _, _, _ => "bad-op"
  | "ble.services" :: a :: ms =>
    -- messages: s:<addr>:<id>,<id>… (s:<addr>:- = none listed) | done:<addr> | err:<addr> | conn:<addr> | x:<addr>
    let parse (w : String) : Option SMsg := match w.splitOn ":" with
      | ["s", x, ids] => match x.toNat?, (if ids = "-" then some [] else (ids.splitOn ",").mapM String.toNat?) with
        | some x, some ids => some ⟨.services ids, x⟩
        | _, _ => none
      | ["done", x] => x.toNat?.map (⟨.done, ·⟩)
      | ["err", x] => x.toNat?.map (⟨.error, ·⟩)
      | ["conn", x] => x.toNat?.map (⟨.conn, ·⟩)
      | ["x", x] => x.toNat?.map (⟨.other, ·⟩)
      | _ => none
    match a.toNat?, ms.mapM parse with
    | some a, some ms => match getServices a ms [] with
      | .services ids => "services " ++ ",".intercalate (ids.map toString)
      | .gattError => "gatt-error"
      | .dropped => "dropped"
      | .timeout => "timeout"
    | _, _ => "bad-op"
  | "ble.connect" :: a :: es =>
    match a.toNat?, es.mapM parseCEv with
    | some a, some es => " ".intercalate ((cRun { address := a } es).log.map showAct)
    | _, _ => "bad-op"
  | _ => "bad-op"

end DrvBl
