import Esp.Model.Request
import Driver.Util
/-! driver ops for the request model (C11) -/
open Esp Drv Esp.Request

namespace DrvRq

inductive Pred | all | never | typeIs (t : Nat) | typeEven (t : Nat) | tagIs (n : Nat) | even | typeTag (t n : Nat)
deriving Repr

def Pred.eval : Pred → Msg → Bool
  | .all, _ => true
  | .never, _ => false
  | .typeIs t, m => m.1 == t
  | .typeEven t, m => m.1 == t && m.2 % 2 == 0
  | .tagIs n, m => m.2 == n
  | .even, m => m.2 % 2 == 0
  | .typeTag t n, m => m.1 == t && m.2 == n

def parsePred (w : String) : Option Pred :=
  match w.splitOn ":" with
  | ["all"] => some .all
  | ["never"] => some .never
  | ["even"] => some .even
  | ["t", t] => t.toNat?.map .typeIs
  | ["te", t] => t.toNat?.map .typeEven
  | ["tag", n] => n.toNat?.map .tagIs
  | ["tt", t, n] => match t.toNat?, n.toNat? with | some t, some n => some (.typeTag t n) | _, _ => none
  | _ => none

structure RSt where
  defs : List (Nat × Params) := []
  st : State := {}
  watch : List Nat := []

def cfgOf (r : RSt) : Cfg := fun j =>
  (r.defs.lookup j).getD { types := [], accept := fun _ => true, stop := fun _ => true, timeout := 0 }

def showErr : Err → String
  | .timeout => "timeout" | .notEstablished => "notEstablished" | .socketClosed => "socketClosed" | .conn k => s!"conn:{k}"

def showPhase : Phase → String
  | .idle => "idle" | .waiting => "waiting"
  | .finished (.ok rs) => s!"ok[{",".intercalate (rs.map (fun m => s!"{m.1}.{m.2}"))}]"
  | .finished (.err e) => s!"err:{showErr e}"
  | .finished .cancelled => "cancelled"

def showSt (r : RSt) : String :=
  let s := r.st
  let ids := s.ids.mergeSort (· ≤ ·)
  let cs := ids.map (fun i => s!"{i}={showPhase (s.calls i).phase}")
  let regs := r.watch.map (fun t => s!"{t}:{(ids.filter (fun i => (s.calls i).registered && (cfgOf r i).types.contains t)).length}")
  let waiters := (ids.filter (fun i => (s.calls i).inWaiters)).length
  let timers := (ids.filter (fun i => (s.calls i).timerAt.isSome)).length
  s!"closed={if s.g.closed then 1 else 0} now={s.g.now} calls=[{" ".intercalate cs}] regs=[{" ".intercalate regs}] waiters={waiters} timers={timers}"

def enabled (r : RSt) : Ev → Bool
  | .call i => (r.st.calls i).phase == .idle
  | .msg _ => !r.st.g.closed
  | .fire i => (r.st.calls i).timerAt == some r.st.g.now
  | .cancel i => (r.st.calls i).phase == .waiting
  | .wake i => (r.st.calls i).phase == .waiting && ((r.st.calls i).fut != .pending || (r.st.calls i).cancelReq)
  | .close _ => !r.st.g.closed
  | .setWrite _ => true
  | .advance d => canAdvance r.st d

def rqStep (r : RSt) (ws : List String) : RSt × String :=
  let go (e : Ev) : RSt × String :=
    let en := enabled r e
    let r' := { r with st := step (cfgOf r) r.st e }
    (r', showSt r' ++ s!" enabled={if en then 1 else 0}")
  match ws with
  | "rq.reset" :: watch => match watch.mapM (·.toNat?) with
    | some w => ({ defs := [], st := {}, watch := w }, "ok")
    | none => (r, "bad-op")
  | "rq.def" :: i :: timeout :: acc :: stp :: types =>
    match i.toNat?, timeout.toNat?, parsePred acc, parsePred stp, types.mapM (·.toNat?) with
    | some i, some to, some a, some s, some ts =>
      ({ r with defs := (i, { types := ts, accept := a.eval, stop := s.eval, timeout := to }) :: r.defs }, "ok")
    | _, _, _, _, _ => (r, "bad-op")
  | ["rq.call", i] => match i.toNat? with | some i => go (.call i) | none => (r, "bad-op")
  | ["rq.msg", t, n] => match t.toNat?, n.toNat? with | some t, some n => go (.msg (t, n)) | _, _ => (r, "bad-op")
  | ["rq.fire", i] => match i.toNat? with | some i => go (.fire i) | none => (r, "bad-op")
  | ["rq.cancel", i] => match i.toNat? with | some i => go (.cancel i) | none => (r, "bad-op")
  | ["rq.wake", i] => match i.toNat? with | some i => go (.wake i) | none => (r, "bad-op")
  | ["rq.close", k] => match k.toNat? with | some k => go (.close (if k == 0 then none else some k)) | none => (r, "bad-op")
  | ["rq.write", b] => go (.setWrite (b == "1"))
  | ["rq.adv", d] => match d.toNat? with | some d => go (.advance d) | none => (r, "bad-op")
  | ["rq.nop"] => (r, showSt r ++ " enabled=1")
  | "rq.scan" :: i :: msgs =>
    match i.toNat?, msgs.mapM (fun w => match w.splitOn "." with
        | [t, n] => match t.toNat?, n.toNat? with | some t, some n => some (t, n) | _, _ => none
        | _ => none) with
    | some i, some ms =>
      let x := scan (cfgOf r i) ms
      (r, s!"[{",".intercalate (x.1.map (fun m => s!"{m.1}.{m.2}"))}] stop={if x.2 then 1 else 0}")
    | _, _ => (r, "bad-op")
  | _ => (r, "bad-op")

end DrvRq
