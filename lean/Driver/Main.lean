import Esp.Model.Plain
import Driver.Util
/-!
# Line-protocol driver

One operation per input line, one canonical observation line per operation.  The Python
harness (`harness/lineproto.py`) runs the real code on the same operations and diffs.
-/
open Esp Drv

structure St where
  plain : Plain.State := {}

def showPlainErr : Option PlainErr → String
  | none => "none" | some .requiresEncryption => "requiresEncryption" | some .protocol => "protocol"

def step (st : St) (line : String) : St × String :=
  match words line with
  | ["plain.reset"] => ({ st with plain := {} }, "ok")
  | ["plain.feed", hx] =>
    match hexToBytes hx with
    | none => (st, "bad-op")
    | some chunk =>
      let (s', ds) := Plain.feed st.plain chunk
      ({ st with plain := s' }, s!"d [{showPackets ds}] buf={s'.buf.length} closed={showPlainErr s'.closed}")
  | _ => (st, "bad-op")

partial def loop (h : IO.FS.Stream) (out : IO.FS.Stream) (st : St) : IO Unit := do
  let line ← h.getLine
  if line.isEmpty then return ()
  let (st', o) := step st (line.trimAscii.toString)
  out.putStrLn o
  loop h out st'

def main : IO Unit := do
  let out ← IO.getStdout
  loop (← IO.getStdin) out {}
  out.flush
