import Esp.Model.Plain
import Esp.Model.Noise
import Esp.Model.SymAead
import Esp.Spec.Wire
import Driver.Util
import Driver.Conv
import Driver.Ka
import Driver.Dp
import Driver.Rq
import Driver.Cn
import Driver.Cl
import Driver.Rs
import Driver.Sb
import Driver.Cmd
import Driver.Bl
import Driver.Rc
import Driver.Tm
/-!
# Line-protocol driver

One operation per input line, one canonical observation line per operation.  The Python
harness runs the real code on the same operations and diffs.
-/
open Esp Drv

structure St where
  plain : Plain.State := {}
  noiseCfg : Noise.Config := { expectedName := none, hs := fun _ => .raises, utf8 := fun _ => true }
  noise : Noise.Helper := {}
  ka : Keepalive.State := Keepalive.init 1
  dp : DrvDp.DSt := {}
  rq : DrvRq.RSt := {}
  cn : Conn.State := {}
  cl : Client.State := {}
  zc : Resolver.Zc := {}
  rc : Reconnect.St := {}

def showPlainErr : Option PlainErr → String
  | none => "none" | some .requiresEncryption => "requiresEncryption" | some .protocol => "protocol"

def showRaw : RawKind → String
  | .indexError => "IndexError" | .unicodeError => "UnicodeDecodeError" | .noiseLibError => "noiseLib"

def showNoiseErr : NoiseErr → String
  | .protocol => "protocol" | .handshake => "handshake" | .invalidKey => "invalidKey"
  | .badName n => s!"badName:{bytesToHex n}" | .socketClosed => "socketClosed" | .closedBase => "base"
  | .raw k => s!"raw:{showRaw k}" | .other => "other"

def showNoiseEv : Noise.Ev → String
  | .ready => "ready" | .deliver p => s!"d:{showPacket p}" | .fatal e => s!"f:{showNoiseErr e}"

def showPhase : Noise.Phase → String
  | .hello => "hello" | .handshake => "handshake" | .ready => "ready" | .closed => "closed"

def showReady : Noise.Ready → String
  | .pending => "pending" | .ok => "ok" | .err e => s!"err:{showNoiseErr e}"

def showNoise (r : Noise.State × List Noise.Ev) : String :=
  s!"e [{" ".intercalate (r.2.map showNoiseEv)}] phase={showPhase r.1.phase} ready={showReady r.1.ready} tclosed={r.1.transportClosed}"

/-- symbolic handshake oracle: the responder's handshake payload starts with 1 = accepted,
2 = `InvalidTag`, anything else = some other exception from the noise library -/
def symHs (b : Bytes) : HsResult :=
  match b with
  | 1 :: _ => .ok
  | 2 :: _ => .invalidTag
  | _ => .raises

def utf8Valid (b : Bytes) : Bool := ByteArray.validateUTF8 ⟨b.toArray⟩

def parsePacket (w : String) : Option Packet :=
  match w.splitOn ":" with
  | [t, h] => match t.toNat?, hexToBytes h with
    | some t, some b => some (t, b)
    | _, _ => none
  | _ => none

def parsePackets (ws : List String) : Option (List Packet) := ws.mapM parsePacket

def showBytes (b : Bytes) : String := s!"len={b.length} hash={phash b}"

def step (st : St) (line : String) : St × String :=
  match words line with
  | ["plain.reset"] => ({ st with plain := {} }, "ok")
  | ["plain.feed", hx] =>
    match hexToBytes hx with
    | none => (st, "bad-op")
    | some chunk =>
      let (s', ds) := Plain.feed st.plain chunk
      ({ st with plain := s' }, s!"d [{showPackets ds}] buf={s'.buf.length} closed={showPlainErr s'.closed}")
  | "plain.write" :: ws =>
    match parsePackets ws with
    | none => (st, "bad-op")
    | some ps => (st, s!"w {showBytes (Plain.write ps)}")
  | "noise.write" :: n :: ws =>
    match n.toNat?, parsePackets ws with
    | some n, some ps =>
      match Noise.writeChecked symAead n ps with
      | some r => (st, s!"w {showBytes r.1} next={r.2}")
      | none => (st, s!"refused next={n}")
    | _, _ => (st, "bad-op")
  | ["spec.decplain", hx] =>
    match hexToBytes hx with
    | none => (st, "bad-op")
    | some b => match Spec.decodePlain b with
      | none => (st, "none")
      | some ps => (st, s!"some [{showPackets ps}]")
  | ["spec.decnoise", n, hx] =>
    match n.toNat?, hexToBytes hx with
    | some n, some b => match Spec.decodeNoise symAead n b with
      | none => (st, "none")
      | some (ps, n') => (st, s!"some [{showPackets ps}] next={n'}")
    | _, _ => (st, "bad-op")
  | ["noise.reset", exp] =>
    let e := if exp == "none" then some none else (hexToBytes exp).map some
    match e with
    | none => (st, "bad-op")
    | some e => ({ st with noise := {}, noiseCfg := { expectedName := e, hs := symHs, utf8 := utf8Valid } }, "ok")
  | ["noise.feed", hx] =>
    match hexToBytes hx with
    | none => (st, "bad-op")
    | some chunk =>
      let r := Noise.feed st.noiseCfg symAead.dec st.noise chunk
      ({ st with noise := r.1 }, showNoise (r.1.st, r.2))
  | ["noise.lost", k] =>
    let x : Option (Option Noise.Exc) := match k with
      | "none" => some none | "reset" => some (some .reset) | "other" => some (some .other) | _ => none
    match x with
    | none => (st, "bad-op")
    | some x => let r := Noise.connectionLost st.noise.st x; ({ st with noise := { st.noise with st := r.1 } }, showNoise r)
  | ["noise.psk", d] =>
    let dec : Option (Option Bytes) := if d == "none" then some none else (hexToBytes d).map some
    match dec with
    | none => (st, "bad-op")
    | some dec => match Noise.checkPsk dec with
      | .ok _ => (st, "psk ok")
      | .error e => (st, s!"psk err:{showNoiseErr e}")
  | ["noise.eof"] =>
    let r := Noise.eofReceived st.noise.st; ({ st with noise := { st.noise with st := r.1 } }, showNoise r)
  | ws =>
    let h := ws.head?.getD ""
    if h.startsWith "conv." then (st, convStep ws)
    else if h.startsWith "ka." then let r := DrvKa.kaStep st.ka ws; ({ st with ka := r.1 }, r.2)
    else if h.startsWith "dp." then let r := DrvDp.dpStep st.dp ws; ({ st with dp := r.1 }, r.2)
    else if h.startsWith "rq." then let r := DrvRq.rqStep st.rq ws; ({ st with rq := r.1 }, r.2)
    else if h.startsWith "cn." then let r := DrvCn.cnStep st.cn ws; ({ st with cn := r.1 }, r.2)
    else if h.startsWith "cl." then let r := DrvCl.clStep st.cl ws; ({ st with cl := r.1 }, r.2)
    else if h.startsWith "rs." || h.startsWith "zc." then let r := DrvRs.rsStep st.zc ws; ({ st with zc := r.1 }, r.2)
    else if h.startsWith "sb." || h.startsWith "va." then (st, DrvSb.sbStep ws)
    else if h.startsWith "cmd." then (st, DrvCmd.cmdStep ws)
    else if h.startsWith "ble." then (st, DrvBl.blStep ws)
    else if h.startsWith "tm." then (st, DrvTm.tmStep ws)
    else if h.startsWith "rc." then let r := DrvRc.rcStep st.rc ws; ({ st with rc := r.1 }, r.2)
    else (st, "bad-op")

partial def loop (h : IO.FS.Stream) (out : IO.FS.Stream) (st : St) : IO Unit := do
  let line ← h.getLine
  if line.isEmpty then return ()
  let (st', o) := step st (line.trimAscii.toString)
  out.putStrLn o
  loop h out st'

def main : IO Unit := do
  let out ← IO.getStdout
  loop (← IO.getStdin) out {}
  out.flush
