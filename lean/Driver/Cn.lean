import Esp.Model.Conn
import Esp.Model.Session
import Driver.Util
/-! driver ops for the connection LTS (C05–C09, C19) -/
open Esp Drv Esp.Conn

namespace DrvCn

def showErr : Err → String
  | .resolve => "resolve" | .socket => "socket" | .socketClosed => "socketClosed" | .handshake => "handshake"
  | .protocol => "protocol" | .requiresEncryption => "requiresEncryption" | .pingFailed => "pingFailed"
  | .timeout => "timeout" | .invalidAuth => "invalidAuth" | .badName => "badName" | .base => "base"
  | .cancelledErr => "cancelled" | .unhandled => "unhandled" | .readFailed => "readFailed"
  | .notEstablished => "notEstablished"

def showSt : CSt → String
  | .init => "init" | .sockOpen => "sockOpen" | .hsDone => "hsDone" | .connected => "connected" | .closed => "closed"

def showOutcome : Outcome → String
  | .ok => "ok" | .err e => s!"err:{showErr e}"

def showState (s : State) : String :=
  let fatal := match s.fatal with | none => "none" | some (.api e) => showErr e | some .raw => "raw"
  let stops := " ".intercalate (s.stops.map (fun b => if b then "1" else "0"))
  let tr := if !s.helperMade then "none" else if s.transportOpen then "open" else "closed"
  let sock := if !s.sockMade then "none" else if s.sockClosed then "closed" else "open"
  let timers := ([] : List String)
    ++ (if s.resolveTimer then ["resolve"] else []) ++ (if s.tcpTimer then ["tcp"] else [])
    ++ (if s.hsTimer then ["hs"] else []) ++ (if s.hello.timer then ["hello"] else [])
    ++ (if s.pingArmed then ["ping"] else []) ++ (if s.pongArmed then ["pong"] else [])
    ++ (if s.discWaitTimer then ["discwait"] else []) ++ (if s.discReq.timer then ["discresp"] else [])
  let start := match s.start with | .idle => "idle" | .done o => showOutcome o | _ => "pending"
  let finish := match s.finish with | .idle => "idle" | .done o => showOutcome o | _ => "pending"
  let disc := match s.disc with | .idle => "idle" | .done => (if s.discRaw then "raw" else if s.discCancelled then "raw:CancelledError" else "done") | _ => "pending"
  s!"st={showSt s.st} conn={if s.st == .connected then 1 else 0} hs={if hsComplete s then 1 else 0} fatal={fatal} stops=[{stops}] tr={tr} sock={sock} timers=[{" ".intercalate timers}] writes={s.writes} deliv={s.deliveries} start={start} finish={finish} disc={disc} refused={s.refused}"

def parsePkt (w : String) : Option Pkt :=
  match w with
  | "discreq" => some .discReq | "discresp" => some .discResp | "pingreq" => some .pingReq
  | "other" => some .other | "bad" => some .badPayload | "garbage" => some .garbage
  | "srvhello" => some .wrongName
  | "connect:0" => some (.hresp (.connect false)) | "connect:1" => some (.hresp (.connect true))
  | "hello:11" => some (.hresp (.hello true true)) | "hello:10" => some (.hresp (.hello true false))
  | "hello:01" => some (.hresp (.hello false true)) | "hello:00" => some (.hresp (.hello false false))
  | _ => none

def parseEv (ws : List String) : Option Ev :=
  match ws with
  | ["callStart"] => some .callStart | ["resolved", b] => some (.resolved (b == "1"))
  | ["sockFault"] => some .sockFault
  | ["sockDone", b] => some (.sockDone (b == "1")) | ["wakeStart"] => some .wakeStart | ["cancelStart"] => some .cancelStart
  | ["callFinish"] => some .callFinish | ["connMade"] => some .connMade | ["hsOk"] => some .hsOk
  | ["wakeFinish"] => some .wakeFinish | ["cancelFinish"] => some .cancelFinish
  | ["cbStart"] => some .cbStart | ["cbFinish"] => some .cbFinish
  | ["callDisc"] => some .callDisc | ["wakeDisc"] => some .wakeDisc | ["cancelDisc"] => some .cancelDisc
  | ["force"] => some .force | ["cbDiscWait"] => some .cbDiscWait | ["eof"] => some .eof | ["lost"] => some .lost | ["reset"] => some .reset
  | ["fireResolve"] => some .fireResolve | ["fireTcp"] => some .fireTcp | ["fireHs"] => some .fireHs
  | ["fireHello"] => some .fireHello | ["firePing"] => some .firePing | ["firePong"] => some .firePong
  | ["fireDiscWait"] => some .fireDiscWait | ["fireDiscResp"] => some .fireDiscResp
  | ["setWrite", b] => some (.setWrite (b == "1"))
  | "data" :: ps => (ps.mapM parsePkt).map .data
  | _ => none

def cnStep (s : State) (ws : List String) : State × String :=
  match ws with
  | ["cn.reset", noise, login] => let s' : State := { noise := noise == "1", login := login == "1" }; (s', "ok")
  | ["cn.nop"] => (s, showState s)
  | "cn.judge" :: login :: expected :: resps =>
    -- resps: h:<major>:<name hex> | c:<invalid 0/1>
    let exp : Option (Option (List Nat)) := if expected == "-" then some none else (hexToBytes expected).map (fun b => some (b.map (·.toNat)))
    let parse (w : String) : Option HResp := match w.splitOn ":" with
      | ["h", m, n] => match m.toNat?, hexToBytes n, exp with
        | some m, some nb, some e => some (.hello (versionOk m) (nameOk e (nb.map (·.toNat))))
        | _, _, _ => none
      | ["c", i] => some (.connect (i == "1"))
      | _ => none
    match resps.mapM parse with
    | some rs => (s, match judge (login == "1") rs with
        | none => "accept"
        | some (.api e) => s!"err:{showErr e}"
        | some _ => "err:unhandled")
    | none => (s, "bad-op")
  | ["cn.session", noise, announced, expected, login, major, name, invalid] =>
    -- announced / expected: `-` = none, else hex (`e` = the empty string); name: hex (`e` = empty)
    let opt (w : String) : Option (Option (List Nat)) :=
      if w == "-" then some none else if w == "e" then some (some []) else (hexToBytes w).map (fun b => some (b.map (·.toNat)))
    let nm : Option (List Nat) := if name == "e" then some [] else (hexToBytes name).map (fun b => b.map (·.toNat))
    match opt announced, opt expected, major.toNat?, nm with
    | some a, some e, some m, some n =>
      (s, match judgeSession (noise == "1") a e (login == "1") m n (invalid == "1") with
        | .accept => "accept" | .badServerName => "err:badServerName"
        | .reject (.api x) => s!"err:{showErr x}" | .reject _ => "err:unhandled")
    | _, _, _, _ => (s, "bad-op")
  | "cn.ev" :: rest =>
    match parseEv rest with
    | some e => let s' := step s e; (s', showState s')
    | none => (s, "bad-op")
  | _ => (s, "bad-op")

end DrvCn
