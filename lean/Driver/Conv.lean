import Esp.Model.Convert
import Esp.Gen.Fields
import Esp.Gen.Enums
import Driver.Util
/-! driver side of the conversion model: token (de)serialisation of wire / model values -/
namespace Drv
open Esp Esp.Convert

def genTables : Tables := { classes := Gen.modelClasses, enums := Gen.modelEnums }

def nameOfString (x : String) : Name := x.toList.map Char.toNat
def stringOfName (n : Name) : String := String.ofList (n.map Char.ofNat)

def parseInt (x : String) : Option Int :=
  if x.startsWith "-" then (String.ofList (x.toList.drop 1)).toNat?.map (fun n => -(n : Int)) else x.toNat?.map (fun n => (n : Int))

def hexToNat (x : String) : Option Nat :=
  x.toList.foldlM (fun acc c => (hexVal c).map (fun v => acc * 16 + v)) 0

mutual
partial def parseW : List String → Option (WVal × List String)
  | [] => none
  | t :: rest =>
    let tag := (t.toList.head?).getD ' '
    let body := String.ofList (t.toList.drop 1)
    if tag == 'i' then (parseInt body).map (fun i => (.int i, rest))
    else if tag == 'b' then some (.bool (body == "1"), rest)
    else if tag == 's' then (hexToBytes body).map (fun b => (.str b, rest))
    else if tag == 'y' then (hexToBytes body).map (fun b => (.bytes b, rest))
    else if tag == 'f' then (hexToNat body).map (fun b => (.f32 b, rest))
    else if tag == 'L' then body.toNat?.bind (fun n => (parseWList n rest).map (fun r => (.list r.1, r.2)))
    else if tag == 'M' then body.toNat?.bind (fun n => (parseWFields n rest).map (fun r => (.msg r.1, r.2)))
    else none
partial def parseWList : Nat → List String → Option (List WVal × List String)
  | 0, rest => some ([], rest)
  | n + 1, rest => (parseW rest).bind fun (v, r1) => (parseWList n r1).map fun (vs, r2) => (v :: vs, r2)
partial def parseWFields : Nat → List String → Option (List (Name × WVal) × List String)
  | 0, rest => some ([], rest)
  | _ + 1, [] => none
  | n + 1, name :: rest =>
    (parseW rest).bind fun (v, r1) => (parseWFields n r1).map fun (vs, r2) => ((nameOfString name, v) :: vs, r2)
end

partial def showM : MVal → String
  | .int i => s!"i{i}" | .bool b => if b then "b1" else "b0"
  | .str x => s!"s{bytesToHex x}" | .bytes x => s!"y{bytesToHex x}"
  | .fzero n => if n then "F-0" else "F0"
  | .finf n => if n then "F-inf" else "Finf"
  | .fnan => "Fnan"
  | .rat n d => s!"R{n}/{d}"
  | .none => "N"
  | .enum e v => s!"e{stringOfName e}:{v}"
  | .list xs => s!"L{xs.length}" ++ String.join (xs.map (fun x => " " ++ showM x))
  | .obj c fs => s!"O{stringOfName c} {fs.length}" ++ String.join (fs.map (fun f => s!" {stringOfName f.1} {showM f.2}"))
  | .dict kvs => s!"D{kvs.length}" ++ String.join (kvs.map (fun f => s!" {bytesToHex f.1} {showM f.2}"))
  | .error => "ERR"

def convStep (ws : List String) : String :=
  match ws with
  | ["conv.float7", h] => match hexToNat h with | some b => showM (float7 b) | none => "bad-op"
  | ["conv.widen", h] => match hexToNat h with | some b => showM (widen b) | none => "bad-op"
  | ["conv.enum", e, v] => match parseInt v with | some i => showM (enumConvert genTables (nameOfString e) i) | none => "bad-op"
  | "conv.frompb" :: cls :: toks =>
    match parseW toks with
    | some (v, []) => showM (fromPb genTables 8 (nameOfString cls) v)
    | _ => "bad-op"
  | _ => "bad-op"

end Drv
