import Esp.Model.Bytes
import Esp.Model.Seg
import Esp.Model.Plain
