import Lean
/-!
`lake env lean --run Audit.lean Esp.Props.C01 [more modules]`

Loads the compiled modules and prints one JSON line per theorem declared in them:
`{"module":…, "name":…, "axioms":[…]}`.  The check runner counts obligations from this
output and rejects any axiom outside {propext, Classical.choice, Quot.sound}.
-/
open Lean

def isAuto (n : Name) : Bool :=
  n.isInternal || (match n with
    | .str _ s => s.startsWith "eq_" || s == "eq_def" || s == "inj" || s == "injEq" || s == "sizeOf_spec"
                  || s.startsWith "match_" || s.startsWith "proof_" || s == "induct" || s == "induct_unfolding"
                  || s == "fun_cases" || s == "fun_cases_unfolding" || s == "congr_simp" || s == "noConfusion"
    | _ => false)

abbrev EnvM := StateM Environment
instance : MonadEnv EnvM := { getEnv := get, modifyEnv := modify }

unsafe def main (args : List String) : IO UInt32 := do
  initSearchPath (← findSysroot)
  unsafe enableInitializersExecution
  let mods := args.map (·.toName)
  let env ← importModules (mods.toArray.map fun m => { module := m }) {} (loadExts := true)
  let mut bad := 0
  for m in mods do
    let some idx := env.getModuleIdx? m | throw <| IO.userError s!"module {m} not found"
    let names := env.header.moduleData[idx.toNat]!.constNames
    for n in names do
      if isAuto n then continue
      let some ci := env.find? n | continue
      match ci with
      | .thmInfo _ =>
        let axs : Array Name := (collectAxioms (m := EnvM) n).run' env
        let js := Json.mkObj [("module", toString m), ("name", toString n), ("axioms", Json.arr (axs.map (Json.str ∘ toString)))]
        IO.println js.compress
      | .axiomInfo _ =>
        bad := bad + 1
        IO.println (Json.mkObj [("module", toString m), ("name", toString n), ("axiom_decl", true)]).compress
      | _ => pure ()
  return (if bad > 0 then 1 else 0)
