import Esp.Lemmas.Seg
/-! chunk-by-chunk feeding equals one drain of the concatenation -/
namespace Esp
variable {E F : Type}

/-- what a clean drain retains is settled: draining it again hands over nothing -/
theorem drain_retained_settled (S : Splitter E F) (a : Bytes) :
    ∀ es b, drain S a = (es, b, none) → drain S b = ([], b, none) := by
  induction a using drain.induct S with
  | case1 => intro es b h; rw [drain_nil] at h; simp only [Prod.mk.injEq] at h; obtain ⟨_, rfl, _⟩ := h; exact drain_nil S
  | case2 buf hne hp =>
    intro es b h; rw [drain_need S buf hne hp] at h; simp only [Prod.mk.injEq] at h
    obtain ⟨_, rfl, _⟩ := h; exact drain_need S _ hne hp
  | case3 buf hne e hp => intro es b h; rw [drain_bad S buf e hne hp] at h; simp at h
  | case4 buf hne f rest hp hlt ih =>
    intro es b h; rw [drain_frame S buf f rest hp] at h; simp only [Prod.mk.injEq] at h
    obtain ⟨_, rfl, hnone⟩ := h
    exact ih (drain S rest).1 _ (by rw [← hnone])

/-- If no prefix of the chunk sequence makes the loop fail, feeding chunk by chunk hands over,
in total, exactly what one pass over the concatenation hands over, and retains the same bytes. -/
theorem feedAll_eq_drain (S : Splitter E F) : ∀ (chunks : List Bytes) (b : Bytes),
    drain S b = ([], b, none) →
    (∀ j, j ≤ chunks.length → (drain S (b ++ (chunks.take j).flatten)).2.2 = none) →
    (feedAll S b chunks).1.flatten = (drain S (b ++ chunks.flatten)).1 ∧
    (feedAll S b chunks).2.1 = (drain S (b ++ chunks.flatten)).2.1 ∧
    (feedAll S b chunks).2.2 = none := by
  intro chunks
  induction chunks with
  | nil => intro b hb _; simp [feedAll, hb]
  | cons c cs ih =>
    intro b hb hall
    have h1 := hall 1 (by simp)
    simp only [List.take_succ_cons, List.take_zero, List.flatten_cons, List.flatten_nil, List.append_nil] at h1
    generalize hd : drain S (b ++ c) = d at h1
    obtain ⟨es, b1, f1⟩ := d
    simp only at h1; subst h1
    have hset := drain_retained_settled S _ _ _ hd
    have happ := drain_append S (b ++ c) cs.flatten es b1 hd
    have hall' : ∀ j, j ≤ cs.length → (drain S (b1 ++ (cs.take j).flatten)).2.2 = none := by
      intro j hj
      have := hall (j + 1) (by simp; omega)
      simp only [List.take_succ_cons, List.flatten_cons] at this
      rw [← List.append_assoc, drain_append S (b ++ c) _ es b1 hd] at this
      exact this
    obtain ⟨i1, i2, i3⟩ := ih b1 hset hall'
    simp only [feedAll, hd, List.flatten_cons]
    rw [← List.append_assoc, happ]
    simp [i1, i2, i3]

/-- the first `k` calls of a history are the history of the first `k` chunks (no error case) -/
theorem feedAll_take (S : Splitter E F) : ∀ (chunks : List Bytes) (b : Bytes) (k : Nat),
    (feedAll S b chunks).2.2 = none →
    (feedAll S b chunks).1.take k = (feedAll S b (chunks.take k)).1 := by
  intro chunks
  induction chunks with
  | nil => intro b k _; simp [feedAll]
  | cons c cs ih =>
    intro b k h
    cases k with
    | zero => simp [feedAll]
    | succ k =>
      simp only [feedAll, List.take_succ_cons] at h ⊢
      generalize hd : drain S (b ++ c) = d at h ⊢
      obtain ⟨es, b1, f1⟩ := d
      cases f1 with
      | none => simp only [List.take_succ_cons, List.cons.injEq, true_and] at h ⊢; exact ih b1 k h
      | some e => simp at h

end Esp
