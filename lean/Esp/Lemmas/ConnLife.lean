import Esp.Lemmas.ConnReach
/-!
Lifecycle view of the primitive actions: what each primitive does to `st`, `start`, `finish`
(proved by unfolding, no search), so that lifecycle invariants are checked on these small facts
instead of on 55-field record terms.
-/
namespace Esp.Conn

/-- the lifecycle effect of one primitive -/
inductive Life (a b : State) : Prop
  | same (h1 : b.st = a.st) (h2 : b.start = a.start) (h3 : b.finish = a.finish)
  | closed (h1 : b.st = .closed) (h2 : b.start = a.start) (h3 : b.finish = a.finish)
  | startBegin (g1 : a.st = .init) (g2 : a.start = .idle) (h1 : b.st = a.st) (h2 : b.start = .awaitResolve) (h3 : b.finish = a.finish)
  | toSocket (g : a.start = .awaitResolve) (h1 : b.st = a.st) (h2 : b.start = .awaitSocket) (h3 : b.finish = a.finish)
  | startFail (g1 : a.st = .closed) (g2 : StartPend a) (e : Err) (h1 : b.st = a.st) (h2 : b.start = .done (.err e)) (h3 : b.finish = a.finish)
  | sockOpened (g1 : a.start = .awaitSocket) (g2 : a.st ≠ .closed) (h1 : b.st = .sockOpen) (h2 : b.start = .done .ok) (h3 : b.finish = a.finish)
  | finishBegin (g1 : a.st = .sockOpen) (g2 : a.finish = .idle) (h1 : b.st = a.st) (h2 : b.start = a.start) (h3 : b.finish = .awaitTransport)
  | toReady (g : a.finish = .awaitTransport) (h1 : b.st = a.st) (h2 : b.start = a.start) (h3 : b.finish = .awaitReady)
  | finFail (g1 : a.st = .closed) (g2 : FinPend a) (e : Err) (h1 : b.st = a.st) (h2 : b.start = a.start) (h3 : b.finish = .done (.err e))
  | hsEnter (g1 : a.finish = .awaitTransport ∨ a.finish = .awaitReady) (g2 : a.st ≠ .closed) (h1 : b.st = .hsDone)
      (h2 : b.start = a.start) (h3 : b.finish = a.finish)
  | helloStart (g1 : a.finish = .awaitTransport ∨ a.finish = .awaitReady) (g2 : a.st = .hsDone) (h1 : b.st = a.st)
      (h2 : b.start = a.start) (h3 : b.finish = .awaitHello)
  | connected (g1 : a.finish = .awaitHello) (g2 : a.st ≠ .closed) (h1 : b.st = .connected) (h2 : b.start = a.start)
      (h3 : b.finish = .done .ok)

set_option maxHeartbeats 1000000 in
theorem prim_life (a b : State) (p : Prim a b) : Life a b := by
  cases p
  case cleanup => exact .closed rfl rfl rfl
  case sockFaultClose => exact .closed rfl rfl rfl
  case startBegin g1 g2 => exact .startBegin g1 g2 rfl rfl rfl
  case startToSocket g => exact .toSocket g rfl rfl rfl
  case startFail e g1 g2 _ _ _ => exact .startFail g1 g2 e rfl rfl rfl
  case startOk g =>
    have hst : (aStartFutCb (aStartAttach a)).st = a.st := by
      simp only [aStartFutCb]; split <;> simp [aStartAttach]
    have hfin : (aStartFutCb (aStartAttach a)).finish = a.finish := by
      simp only [aStartFutCb]; split <;> simp [aStartAttach]
    by_cases hc : a.st = .closed
    · have h1 : (aStartFutCb (aStartAttach a)).st = .closed := hst.trans hc
      refine .startFail hc (Or.inr g) (wrap (cleanup (aStartFutCb (aStartAttach a))) .interrupted) ?_ ?_ ?_
      · simp [startOkPath, h1, aStartDone, cleanup, hc]
      · simp [startOkPath, h1, aStartDone]
      · simp [startOkPath, h1, aStartDone, cleanup, hfin]
    · have h1 : (aStartFutCb (aStartAttach a)).st ≠ .closed := by rw [hst]; exact hc
      refine .sockOpened g hc ?_ ?_ ?_
      · simp [startOkPath, h1, aSockOpened]
      · simp [startOkPath, h1, aSockOpened]
      · simp [startOkPath, h1, aSockOpened, hfin]
  case finishBegin g1 g2 => exact .finishBegin g1 g2 rfl rfl rfl
  case finToReady g _ _ => exact .toReady g rfl rfl rfl
  case finFail e g1 g2 _ _ _ _ => exact .finFail g1 g2 e rfl rfl rfl
  case hsEnter g1 g2 _ _ => exact .hsEnter g1 g2 rfl rfl rfl
  case helloStart g1 g2 _ _ => exact .helloStart g1 g2 rfl rfl rfl
  case helloOk g _ =>
    have hst : (aFinFutCb (aKeepalive a)).st = a.st := by
      simp only [aFinFutCb]; split <;> simp [aKeepalive]
    have hs : (aFinFutCb (aKeepalive a)).start = a.start := by
      simp only [aFinFutCb]; split <;> simp [aKeepalive]
    by_cases hc : a.st = .closed
    · have h1 : (aFinFutCb (aKeepalive a)).st = .closed := hst.trans hc
      refine .finFail hc (Or.inr (Or.inr g)) (wrap (cleanup (aFinFutCb (aKeepalive a))) .interrupted) ?_ ?_ ?_
      · simp [helloOkPath, h1, aFinDone, cleanup, hc]
      · simp [helloOkPath, h1, aFinDone, cleanup, hs]
      · simp [helloOkPath, h1, aFinDone]
    · have h1 : (aFinFutCb (aKeepalive a)).st ≠ .closed := by rw [hst]; exact hc
      refine .connected g hc ?_ ?_ ?_
      · simp [helloOkPath, h1, aConnected]
      · simp [helloOkPath, h1, aConnected, hs]
      · simp [helloOkPath, h1, aConnected]
  case collect r _ => refine .same ?_ ?_ ?_ <;> (simp only [collect]; (repeat' split) <;> rfl)
  case finFutQuiet => refine .same ?_ ?_ ?_ <;> (simp only [aFinFutQuiet]; split <;> rfl)
  case trCancelled => refine .same ?_ ?_ ?_ <;> (simp only [aTrCancelled]; split <;> rfl)
  all_goals exact .same rfl rfl rfl

end Esp.Conn
