import Esp.Model.Plain
import Esp.Lemmas.Varint
import Esp.Lemmas.SegRun
/-! the plaintext parser on conformant streams and on their prefixes -/
namespace Esp
namespace Plain

theorem readVarint_zero_cons (r : Bytes) : readVarint ((0 : UInt8) :: r) = some (0, r) := by
  simp [readVarint, readVarintAux]

theorem readN_exact (p rest : Bytes) : readN (p ++ rest) p.length = some (p, rest) := by
  simp [readN]

/-- the reader inverts the writer, whatever follows -/
theorem parseOne_encode (f : Packet) (rest : Bytes) :
    parseOne (encodeFrame f ++ rest) = .frame f rest := by
  obtain ⟨ty, p⟩ := f
  simp only [parseOne, encodeFrame, List.cons_append, readVarint_zero_cons, List.append_assoc,
    readVarint_encode, ne_eq, not_true_eq_false, ↓reduceIte]
  by_cases hl : p.length = 0
  · have : p = [] := List.length_eq_zero_iff.mp hl
    subst this; simp
  · simp only [hl, ↓reduceIte, readN_exact]

theorem encodeFrame_ne_nil (f : Packet) : encodeFrame f ≠ [] := by simp [encodeFrame]

/-- splitting `p ++ q = x ++ y` with the cut strictly inside `x`, or at/after its end -/
theorem append_split {α} (p q x y : List α) (h : p ++ q = x ++ y) :
    (∃ a, a ≠ [] ∧ x = p ++ a) ∨ (∃ c, p = x ++ c ∧ c ++ q = y) := by
  rcases List.append_eq_append_iff.mp h with ⟨a, ha, hq⟩ | ⟨c, hc, hrest⟩
  · by_cases hane : a = []
    · subst hane; right; exact ⟨[], by simpa using ha.symm, by simpa using hq⟩
    · left; exact ⟨a, hane, ha⟩
  · right; exact ⟨c, hc, hrest.symm⟩

/-- a non-empty proper prefix of a frame makes the loop wait (`return` without error) -/
theorem parseOne_proper_prefix (f : Packet) (p q : Bytes) (h : p ++ q = encodeFrame f)
    (hq : q ≠ []) (hp : p ≠ []) : parseOne p = .need := by
  obtain ⟨ty, pl⟩ := f
  simp only [encodeFrame] at h
  cases p with
  | nil => exact absurd rfl hp
  | cons x p1 =>
    simp only [List.cons_append, List.cons.injEq] at h
    obtain ⟨rfl, h⟩ := h
    simp only [parseOne, readVarint_zero_cons, ne_eq, not_true_eq_false, ↓reduceIte]
    -- p1 ++ q = varint len ++ (varint ty ++ pl)
    rcases append_split _ _ _ _ h with ⟨a, hane, ha⟩ | ⟨c, hc, hrest⟩
    · rw [readVarint_proper_prefix pl.length p1 a ha.symm hane]
    · subst hc
      simp only [readVarint_encode]
      rcases append_split _ _ _ _ hrest with ⟨a, hane, ha⟩ | ⟨c2, hc2, hrest2⟩
      · rw [readVarint_proper_prefix ty c a ha.symm hane]
      · subst hc2
        simp only [readVarint_encode]
        -- c2 ++ q = pl with q ≠ []
        have hlen : c2.length < pl.length := by
          have := congrArg List.length hrest2; simp at this
          have : 0 < q.length := List.length_pos_iff.mpr hq
          omega
        have hl : pl.length ≠ 0 := by omega
        simp [hl, readN, hlen]

/-- `tail` is empty or a proper prefix of some frame's encoding -/
def Incomplete (tail : Bytes) : Prop := ∃ (f : Packet) (q : Bytes), q ≠ [] ∧ tail ++ q = encodeFrame f

theorem incomplete_nil : Incomplete [] := ⟨(0, []), encodeFrame (0, []), encodeFrame_ne_nil _, by simp⟩

/-- number of leading frames whose last byte lies within the first `n` bytes of the stream -/
def within : List Packet → Nat → Nat
  | [], _ => 0
  | f :: fs, n => if (encodeFrame f).length ≤ n then 1 + within fs (n - (encodeFrame f).length) else 0

theorem write_cons (f : Packet) (fs : List Packet) : write (f :: fs) = encodeFrame f ++ write fs := by
  simp [write]

theorem drain_incomplete_prefix (f : Packet) (p q : Bytes) (h : p ++ q = encodeFrame f) (hq : q ≠ []) :
    drain splitter p = ([], p, none) := by
  by_cases hp : p = []
  · subst hp; exact drain_nil _
  · exact drain_need splitter p hp (parseOne_proper_prefix f p q h hq hp)

/-- **the loop on any prefix of a conformant stream**: exactly the frames that are complete within
the prefix are handed over, exactly the bytes after them are retained, and there is no error. -/
theorem drain_prefix : ∀ (fs : List Packet) (tail p s : Bytes), Incomplete tail →
    p ++ s = write fs ++ tail →
    drain splitter p =
      (fs.take (within fs p.length), p.drop (write (fs.take (within fs p.length))).length, none) := by
  intro fs
  induction fs with
  | nil =>
    intro tail p s ⟨f, q, hq, hf⟩ h
    simp only [write, List.map_nil, List.flatten_nil, List.nil_append] at h
    subst h
    rw [List.append_assoc] at hf
    rw [drain_incomplete_prefix f p (s ++ q) hf (by simp [hq])]
    simp [within, write]
  | cons f fs ih =>
    intro tail p s htail h
    rw [write_cons, List.append_assoc] at h
    rcases append_split _ _ _ _ h with ⟨a, hane, ha⟩ | ⟨c, hc, hrest⟩
    · -- the prefix ends strictly inside the first frame
      have hlen : ¬ (encodeFrame f).length ≤ p.length := by
        have := congrArg List.length ha; simp at this
        have : 0 < a.length := List.length_pos_iff.mpr hane
        omega
      rw [drain_incomplete_prefix f p a ha.symm hane]
      simp [within, hlen, write]
    · -- p = encodeFrame f ++ c,  c ++ s = write fs ++ tail
      subst hc
      have hp : splitter.parseOne (encodeFrame f ++ c) = .frame f c := parseOne_encode f c
      rw [drain_frame splitter _ f c hp, ih tail c s htail hrest]
      have hle : (encodeFrame f).length ≤ (encodeFrame f).length + c.length := by omega
      simp only [within, List.length_append, hle, ↓reduceIte, Nat.add_sub_cancel_left]
      rw [Nat.add_comm 1, List.take_succ_cons, write_cons]
      simp only [List.length_append]
      rw [List.drop_length_add_append]

end Plain
end Esp
