import Esp.Lemmas.ReconnectLock
/-!
# Reconnect manager: what `stopped` guarantees, and the mDNS gate

Per procedure one `Step2` record: `stopped` is not touched; while stopped, a quiet state (no attempt
in flight, no retry timer, not listening) stays quiet and nothing "noisy" (an attempt, a listener
registration, a timer) is logged; pending `start()` calls do not appear; `accept → state ∈
{DISCONNECTED, CONNECTING}` is kept.  `startLocked` / `stopLocked` and the procedures that may run
them get their own lemmas.
-/
namespace Esp.Reconnect

/-! ## projections (generated) -/
section proj
variable (s : St)
@[simp] theorem locked_setTask (tid : Nat) (f : Task → Task) : (setTask s tid f).locked = s.locked := rfl
@[simp] theorem stopped_setTask (tid : Nat) (f : Task → Task) : (setTask s tid f).stopped = s.stopped := rfl
@[simp] theorem timer_setTask (tid : Nat) (f : Task → Task) : (setTask s tid f).timer = s.timer := rfl
@[simp] theorem zcListening_setTask (tid : Nat) (f : Task → Task) : (setTask s tid f).zcListening = s.zcListening := rfl
@[simp] theorem accept_setTask (tid : Nat) (f : Task → Task) : (setTask s tid f).accept = s.accept := rfl
@[simp] theorem state_setTask (tid : Nat) (f : Task → Task) : (setTask s tid f).state = s.state := rfl
@[simp] theorem log_setTask (tid : Nat) (f : Task → Task) : (setTask s tid f).log = s.log := rfl
@[simp] theorem waiters_setTask (tid : Nat) (f : Task → Task) : (setTask s tid f).waiters = s.waiters := rfl
@[simp] theorem locked_finish (tid : Nat) : (finish s tid).locked = s.locked := rfl
@[simp] theorem stopped_finish (tid : Nat) : (finish s tid).stopped = s.stopped := rfl
@[simp] theorem timer_finish (tid : Nat) : (finish s tid).timer = s.timer := rfl
@[simp] theorem zcListening_finish (tid : Nat) : (finish s tid).zcListening = s.zcListening := rfl
@[simp] theorem accept_finish (tid : Nat) : (finish s tid).accept = s.accept := rfl
@[simp] theorem state_finish (tid : Nat) : (finish s tid).state = s.state := rfl
@[simp] theorem log_finish (tid : Nat) : (finish s tid).log = s.log := rfl
@[simp] theorem waiters_finish (tid : Nat) : (finish s tid).waiters = s.waiters := rfl
@[simp] theorem stopped_emit (a : Act) : (emit s a).stopped = s.stopped := rfl
@[simp] theorem timer_emit (a : Act) : (emit s a).timer = s.timer := rfl
@[simp] theorem zcListening_emit (a : Act) : (emit s a).zcListening = s.zcListening := rfl
@[simp] theorem accept_emit (a : Act) : (emit s a).accept = s.accept := rfl
@[simp] theorem state_emit (a : Act) : (emit s a).state = s.state := rfl
@[simp] theorem locked_wakeUpFirst  : (wakeUpFirst s).locked = s.locked := by unfold wakeUpFirst; split <;> rfl
@[simp] theorem stopped_wakeUpFirst  : (wakeUpFirst s).stopped = s.stopped := by unfold wakeUpFirst; split <;> rfl
@[simp] theorem timer_wakeUpFirst  : (wakeUpFirst s).timer = s.timer := by unfold wakeUpFirst; split <;> rfl
@[simp] theorem zcListening_wakeUpFirst  : (wakeUpFirst s).zcListening = s.zcListening := by unfold wakeUpFirst; split <;> rfl
@[simp] theorem accept_wakeUpFirst  : (wakeUpFirst s).accept = s.accept := by unfold wakeUpFirst; split <;> rfl
@[simp] theorem state_wakeUpFirst  : (wakeUpFirst s).state = s.state := by unfold wakeUpFirst; split <;> rfl
@[simp] theorem log_wakeUpFirst  : (wakeUpFirst s).log = s.log := by unfold wakeUpFirst; split <;> rfl
@[simp] theorem tasks_wakeUpFirst  : (wakeUpFirst s).tasks = s.tasks := by unfold wakeUpFirst; split <;> rfl
@[simp] theorem stopped_release  : (release s).stopped = s.stopped := by unfold release wakeUpFirst; dsimp only; split <;> rfl
@[simp] theorem timer_release  : (release s).timer = s.timer := by unfold release wakeUpFirst; dsimp only; split <;> rfl
@[simp] theorem zcListening_release  : (release s).zcListening = s.zcListening := by unfold release wakeUpFirst; dsimp only; split <;> rfl
@[simp] theorem accept_release  : (release s).accept = s.accept := by unfold release wakeUpFirst; dsimp only; split <;> rfl
@[simp] theorem state_release  : (release s).state = s.state := by unfold release wakeUpFirst; dsimp only; split <;> rfl
@[simp] theorem log_release  : (release s).log = s.log := by unfold release wakeUpFirst; dsimp only; split <;> rfl
@[simp] theorem tasks_release  : (release s).tasks = s.tasks := by unfold release wakeUpFirst; dsimp only; split <;> rfl
@[simp] theorem stopped_setState (st : RState) : (setState s st).stopped = s.stopped := rfl
@[simp] theorem timer_setState (st : RState) : (setState s st).timer = s.timer := rfl
@[simp] theorem zcListening_setState (st : RState) : (setState s st).zcListening = s.zcListening := rfl
@[simp] theorem log_setState (st : RState) : (setState s st).log = s.log := rfl
@[simp] theorem stopped_stopZc  : (stopZc s).stopped = s.stopped := by unfold stopZc; split <;> rfl
@[simp] theorem timer_stopZc  : (stopZc s).timer = s.timer := by unfold stopZc; split <;> rfl
@[simp] theorem accept_stopZc  : (stopZc s).accept = s.accept := by unfold stopZc; split <;> rfl
@[simp] theorem state_stopZc  : (stopZc s).state = s.state := by unfold stopZc; split <;> rfl
@[simp] theorem stopped_startZc  : (startZc s).stopped = s.stopped := by unfold startZc; split <;> rfl
@[simp] theorem timer_startZc  : (startZc s).timer = s.timer := by unfold startZc; split <;> rfl
@[simp] theorem accept_startZc  : (startZc s).accept = s.accept := by unfold startZc; split <;> rfl
@[simp] theorem state_startZc  : (startZc s).state = s.state := by unfold startZc; split <;> rfl
@[simp] theorem stopped_cancelTimer  : (cancelTimer s).stopped = s.stopped := rfl
@[simp] theorem zcListening_cancelTimer  : (cancelTimer s).zcListening = s.zcListening := rfl
@[simp] theorem accept_cancelTimer  : (cancelTimer s).accept = s.accept := rfl
@[simp] theorem state_cancelTimer  : (cancelTimer s).state = s.state := rfl
@[simp] theorem log_cancelTimer  : (cancelTimer s).log = s.log := rfl
@[simp] theorem locked_removeWaiter (tid : Nat) : (removeWaiter s tid).locked = s.locked := rfl
@[simp] theorem stopped_removeWaiter (tid : Nat) : (removeWaiter s tid).stopped = s.stopped := rfl
@[simp] theorem timer_removeWaiter (tid : Nat) : (removeWaiter s tid).timer = s.timer := rfl
@[simp] theorem zcListening_removeWaiter (tid : Nat) : (removeWaiter s tid).zcListening = s.zcListening := rfl
@[simp] theorem accept_removeWaiter (tid : Nat) : (removeWaiter s tid).accept = s.accept := rfl
@[simp] theorem state_removeWaiter (tid : Nat) : (removeWaiter s tid).state = s.state := rfl
@[simp] theorem log_removeWaiter (tid : Nat) : (removeWaiter s tid).log = s.log := rfl
@[simp] theorem tasks_removeWaiter (tid : Nat) : (removeWaiter s tid).tasks = s.tasks := rfl
@[simp] theorem locked_release : (release s).locked = false := by unfold release wakeUpFirst; dsimp only; split <;> rfl
end proj

def noisy : Act → Bool | .attempt | .zcAdd | .arm _ => true | _ => false
def nlog (s : St) : List Act := s.log.filter noisy

/-- the connect task is busy with an attempt: in a client call, or in `on_connect` / `on_connect_error` -/
def attemptPc : Pc → Bool | .inStart | .inFinish | .inOnConnect | .inOnError _ => true | _ => false

theorem attempt_inflight (pc : Pc) (h : attemptPc pc = true) : inflightPc pc = true := by
  cases pc <;> simp_all [attemptPc, inflightPc]

def NoInflight (s : St) : Prop := ∀ (i : Nat) (t : Task), s.tasks[i]? = some t → attemptPc t.pc = false
def NoPendingStart (s : St) : Prop := ∀ (i : Nat) (t : Task), s.tasks[i]? = some t → t.kind = .startCall → t.pc = .done
def AccOk (s : St) : Prop := s.accept = true → s.state = .disconnected ∨ s.state = .connecting

structure Quiet (s : St) : Prop where
  n : NoInflight s
  t : s.timer = none
  z : s.zcListening = false

structure Step2 (s s' : St) : Prop where
  stopped : s'.stopped = s.stopped
  quiet : s.stopped = true → Quiet s → Quiet s' ∧ nlog s' = nlog s
  nps : s.stopped = true → NoPendingStart s → NoPendingStart s'
  acc : AccOk s → AccOk s'

theorem Step2.refl (s : St) : Step2 s s := ⟨rfl, fun _ h => ⟨h, rfl⟩, fun _ h => h, id⟩

theorem Step2.trans {a b c : St} (h1 : Step2 a b) (h2 : Step2 b c) : Step2 a c := by
  refine ⟨by rw [h2.stopped, h1.stopped], ?_, ?_, fun h => h2.acc (h1.acc h)⟩
  · intro hs hq
    obtain ⟨q1, l1⟩ := h1.quiet hs hq
    obtain ⟨q2, l2⟩ := h2.quiet (by rw [h1.stopped]; exact hs) q1
    exact ⟨q2, by rw [l2, l1]⟩
  · intro hs hn
    exact h2.nps (by rw [h1.stopped]; exact hs) (h1.nps hs hn)

/-- nothing is claimed about a running (not stopped) manager except `stopped` itself and `AccOk` -/
theorem Step2.running {s s' : St} (h0 : s.stopped = false) (h1 : s'.stopped = s.stopped) (h2 : AccOk s → AccOk s') :
    Step2 s s' := ⟨h1, fun h => by simp [h0] at h, fun h => by simp [h0] at h, h2⟩

/-- control fields untouched -/
structure SameCtl (s s' : St) : Prop where
  stopped : s'.stopped = s.stopped
  timer : s'.timer = s.timer
  zc : s'.zcListening = s.zcListening
  log : s'.log = s.log
  accept : s'.accept = s.accept
  state : s'.state = s.state

theorem Step2.of_sim {s s' : St} (h : Sim s s') (c : SameCtl s s') : Step2 s s' := by
  obtain ⟨_, _, ht, _⟩ := h
  refine ⟨c.stopped, ?_, ?_, ?_⟩
  · intro _ ⟨n, t, z⟩
    refine ⟨⟨?_, by rw [c.timer]; exact t, by rw [c.zc]; exact z⟩, by simp [nlog, c.log]⟩
    intro i t' hi
    obtain ⟨t0, h0, hp, _⟩ := ht i t' hi
    rw [← hp]; exact n i t0 h0
  · intro _ hn i t' hi hk
    obtain ⟨t0, h0, hp, hk0⟩ := ht i t' hi
    rw [← hp]; exact hn i t0 h0 (by rw [hk0]; exact hk)
  · intro ha; unfold AccOk; rw [c.accept, c.state]; exact ha

theorem Step2.ofEq {s s' : St} (ht : s'.tasks = s.tasks) (c : SameCtl s s') : Step2 s s' := by
  refine ⟨c.stopped, ?_, ?_, ?_⟩
  · intro _ ⟨n, t, z⟩
    exact ⟨⟨by unfold NoInflight; rw [ht]; exact n, by rw [c.timer]; exact t, by rw [c.zc]; exact z⟩, by simp [nlog, c.log]⟩
  · intro _ hn; unfold NoPendingStart; rw [ht]; exact hn
  · intro ha; unfold AccOk; rw [c.accept, c.state]; exact ha

/-! ## task-list updates -/

theorem noInflight_setTask (s : St) (tid : Nat) (f : Task → Task) (hf : ∀ t, attemptPc t.pc = false → attemptPc (f t).pc = false)
    (h : NoInflight s) : NoInflight (setTask s tid f) := by
  intro i t hi
  simp only [setTask] at hi
  rw [List.getElem?_modify] at hi
  cases h0 : s.tasks[i]? with
  | none => simp [h0] at hi
  | some t0 =>
    simp only [h0, Option.map_eq_map, Option.map_some, Option.some.injEq] at hi
    have := h i t0 h0
    split at hi
    · rw [← hi]; exact hf t0 this
    · rw [← hi]; exact this

theorem nps_setTask (s : St) (tid : Nat) (f : Task → Task) (hk : ∀ t, (f t).kind = t.kind)
    (hf : ∀ t, s.tasks[tid]? = some t → t.kind = .startCall → (f t).pc = .done)
    (h : NoPendingStart s) : NoPendingStart (setTask s tid f) := by
  intro i t hi hkind
  simp only [setTask] at hi
  rw [List.getElem?_modify] at hi
  cases h0 : s.tasks[i]? with
  | none => simp [h0] at hi
  | some t0 =>
    simp only [h0, Option.map_eq_map, Option.map_some, Option.some.injEq] at hi
    split at hi
    · rename_i heq
      subst heq
      rw [← hi] at hkind ⊢
      exact hf t0 h0 (by rw [← hk t0]; exact hkind)
    · rw [← hi] at hkind ⊢; exact h i t0 h0 hkind

theorem step2_setTask (s : St) (tid : Nat) (f : Task → Task) (hk : ∀ t, (f t).kind = t.kind)
    (hf : ∀ t, attemptPc t.pc = false → attemptPc (f t).pc = false)
    (hd : ∀ t, s.tasks[tid]? = some t → t.kind = .startCall → t.pc = .done → (f t).pc = .done) : Step2 s (setTask s tid f) := by
  refine ⟨rfl, fun _ ⟨n, t, z⟩ => ⟨⟨noInflight_setTask s tid f hf n, t, z⟩, rfl⟩, ?_, id⟩
  intro _ hn
  exact nps_setTask s tid f hk (fun t ht hkk => hd t ht hkk (hn tid t ht hkk)) hn

theorem step2_finish (s : St) (tid : Nat) : Step2 s (finish s tid) :=
  step2_setTask s tid _ (fun _ => rfl) (fun _ _ => rfl) (fun _ _ _ _ => rfl)

/-! ## helpers -/

theorem step2_setState (s : St) (st : RState) : Step2 s (setState s st) := by
  refine ⟨rfl, fun _ h => ⟨⟨h.n, h.t, h.z⟩, rfl⟩, fun _ h => h, ?_⟩
  intro _ ha
  simpa [setState] using ha

theorem step2_emit (s : St) (a : Act) (h : noisy a = false) : Step2 s (emit s a) := by
  refine ⟨rfl, fun _ q => ⟨⟨q.n, q.t, q.z⟩, ?_⟩, fun _ h => h, id⟩
  simp [nlog, emit, List.filter_append, h]

theorem step2_stopZc (s : St) : Step2 s (stopZc s) := by
  unfold stopZc
  split
  · refine ⟨rfl, fun _ q => ⟨⟨q.n, q.t, rfl⟩, ?_⟩, fun _ h => h, id⟩
    simp [nlog, emit, List.filter_append, noisy]
  · exact Step2.refl s

theorem step2_cancelTimer (s : St) : Step2 s (cancelTimer s) :=
  ⟨rfl, fun _ q => ⟨⟨q.n, rfl, q.z⟩, rfl⟩, fun _ h => h, id⟩

theorem cancelTask_ctl (s : St) (tid : Nat) : SameCtl s (cancelTask s tid) := by
  unfold cancelTask getTask
  split
  · exact ⟨rfl, rfl, rfl, rfl, rfl, rfl⟩
  · split
    · exact ⟨rfl, rfl, rfl, rfl, rfl, rfl⟩
    · dsimp only
      split
      · split <;> exact ⟨rfl, rfl, rfl, rfl, rfl, rfl⟩
      · split <;> exact ⟨rfl, rfl, rfl, rfl, rfl, rfl⟩

theorem cancelConnectTask_ctl (s : St) : SameCtl s (cancelConnectTask s) := by
  unfold cancelConnectTask
  split
  · rename_i tid _
    obtain ⟨a, b, c, d, e, f⟩ := cancelTask_ctl s tid
    exact ⟨a, b, c, d, e, f⟩
  · exact ⟨rfl, rfl, rfl, rfl, rfl, rfl⟩

theorem step2_cancelConnectTask (s : St) : Step2 s (cancelConnectTask s) :=
  Step2.of_sim (cancelConnectTask_sim s) (cancelConnectTask_ctl s)

theorem zcListening_stopZc' (s : St) : (stopZc s).zcListening = false := by
  unfold stopZc; split
  · rfl
  · rename_i h; simpa using h

theorem nlog_congr {s s' : St} (h : s'.log = s.log) : nlog s' = nlog s := by simp [nlog, h]
theorem nlog_emit (s : St) (a : Act) (h : noisy a = false) : nlog (emit s a) = nlog s := by
  simp [nlog, emit, List.filter_append, h]
theorem nlog_stopZc (s : St) : nlog (stopZc s) = nlog s := by
  unfold stopZc; split
  · exact nlog_emit _ _ rfl
  · rfl

theorem step2_cancelConnect (s : St) : Step2 s (cancelConnect s) :=
  (step2_cancelTimer s).trans (step2_cancelConnectTask _)

/-! ## the lock primitives -/

theorem step2_wakeUpFirst (s : St) : Step2 s (wakeUpFirst s) := by
  unfold wakeUpFirst
  split
  · exact ⟨rfl, fun _ q => ⟨⟨q.n, q.t, q.z⟩, rfl⟩, fun _ h => h, id⟩
  · exact Step2.refl s

theorem step2_release (s : St) : Step2 s (release s) := by
  have : Step2 s { s with locked := false } := ⟨rfl, fun _ q => ⟨⟨q.n, q.t, q.z⟩, rfl⟩, fun _ h => h, id⟩
  exact this.trans (step2_wakeUpFirst _)

theorem step2_removeWaiter (s : St) (tid : Nat) : Step2 s (removeWaiter s tid) :=
  ⟨rfl, fun _ q => ⟨⟨q.n, q.t, q.z⟩, rfl⟩, fun _ h => h, id⟩

/-- `acquire` on a task that is not a `start()` call -/
theorem step2_acquire (s : St) (tid : Nat) (hk : ∀ t, s.tasks[tid]? = some t → t.kind ≠ .startCall) :
    Step2 s (acquire s tid).1 := by
  unfold acquire
  split
  · exact ⟨rfl, fun _ q => ⟨⟨q.n, q.t, q.z⟩, rfl⟩, fun _ h => h, id⟩
  · have h1 : Step2 s { s with waiters := s.waiters ++ [(tid, .pending)] } :=
      ⟨rfl, fun _ q => ⟨⟨q.n, q.t, q.z⟩, rfl⟩, fun _ h => h, id⟩
    refine h1.trans (step2_setTask _ tid _ (fun _ => rfl) (fun _ _ => rfl) ?_)
    intro t ht hkk; exact absurd hkk (hk t ht)

/-! ## the manager's procedures -/

theorem afterFail_ctl (s : St) (tid : Nat) :
    (afterFail s tid).stopped = s.stopped ∧ (afterFail s tid).accept = s.accept ∧ (afterFail s tid).state = s.state := by
  unfold afterFail
  dsimp only
  split <;> simp

theorem step2_afterFail (s : St) (tid : Nat) (h : s.stopped = false) : Step2 s (afterFail s tid) := by
  obtain ⟨a, b, c⟩ := afterFail_ctl s tid
  exact Step2.running h a (fun ha => by unfold AccOk; rw [b, c]; exact ha)

theorem step2_failEnd (s : St) (k : ErrK) (tid : Nat) (h : s.stopped = false) : Step2 s (failEnd s k tid) := by
  unfold failEnd
  have e1 : Step2 s (emit { s with tries := if k = .auth then maxTries else s.tries + 1 } (.failCounted k)) :=
    (Step2.ofEq (s := s) (s' := { s with tries := if k = .auth then maxTries else s.tries + 1 }) rfl ⟨rfl, rfl, rfl, rfl, rfl, rfl⟩).trans
      (step2_emit _ (.failCounted k) rfl)
  exact e1.trans (step2_afterFail _ tid (by rw [e1.stopped]; exact h))

theorem step2_failBegin (s : St) (k : ErrK) (tid : Nat) (h : s.stopped = false) : Step2 s (failBegin s k tid) := by
  unfold failBegin
  dsimp only
  have e1 : Step2 s (emit (setState s .disconnected) (.onConnectError k)) := (step2_setState s _).trans (step2_emit _ _ rfl)
  split
  · refine e1.trans (Step2.running (by rw [e1.stopped]; exact h) rfl (fun ha => ha))
  · exact e1.trans (step2_failEnd _ k tid (by rw [e1.stopped]; exact h))

theorem step2_connectLocked (s : St) (tid : Nat) : Step2 s (connectLocked s tid) := by
  unfold connectLocked
  split
  · exact (step2_release s).trans (step2_finish _ tid)
  · rename_i hc
    have hs : s.stopped = false := by
      cases h : s.stopped
      · rfl
      · exact absurd (Or.inr h) hc
    dsimp only
    have h1 : Step2 s (emit (setState s .connecting) .attempt) :=
      Step2.running hs rfl (fun _ => by intro _; right; rfl)
    split
    · exact h1.trans (step2_failBegin _ .other tid (by simpa using hs))
    · refine h1.trans ((Step2.ofEq rfl ⟨rfl, rfl, rfl, rfl, rfl, rfl⟩).trans (Step2.running ?_ rfl ?_))
      · simpa using hs
      · intro ha; exact ha

theorem step2_append (s : St) (k : Kind) (hk : k ≠ .startCall) :
    Step2 s { s with tasks := s.tasks ++ [{ kind := k, pc := .running }] } := by
  refine ⟨rfl, fun _ ⟨n, t, z⟩ => ⟨⟨?_, t, z⟩, rfl⟩, ?_, id⟩
  · intro i t hi
    simp only at hi
    rcases Nat.lt_or_ge i s.tasks.length with hlt | hge
    · rw [List.getElem?_append_left hlt] at hi; exact n i t hi
    · rw [List.getElem?_append_right hge] at hi
      cases hj : i - s.tasks.length with
      | zero => simp [hj] at hi; rw [← hi]; rfl
      | succ j => simp [hj] at hi
  · intro _ hn i t hi hkk
    simp only at hi
    rcases Nat.lt_or_ge i s.tasks.length with hlt | hge
    · rw [List.getElem?_append_left hlt] at hi; exact hn i t hi hkk
    · rw [List.getElem?_append_right hge] at hi
      cases hj : i - s.tasks.length with
      | zero => simp [hj] at hi; rw [← hi] at hkk; exact absurd hkk hk
      | succ j => simp [hj] at hi

theorem step2_spawnConnect (s : St) : Step2 s (spawnConnect s) := by
  unfold spawnConnect
  dsimp only
  have h1 := step2_append s .connect (by decide)
  generalize hs1 : ({ s with tasks := s.tasks ++ [{ kind := Kind.connect, pc := Pc.running }] } : St) = s1 at h1
  have hk : ∀ t, s1.tasks[s.tasks.length]? = some t → t.kind ≠ .startCall := by
    intro t ht; rw [← hs1] at ht; simp at ht; rw [← ht]; decide
  have h2 := step2_acquire s1 s.tasks.length hk
  cases hg : (acquire s1 s.tasks.length).2
  · rw [show acquire s1 s.tasks.length = ((acquire s1 s.tasks.length).1, false) from by rw [← hg]]
    exact (h1.trans h2).trans (Step2.ofEq rfl ⟨rfl, rfl, rfl, rfl, rfl, rfl⟩)
  · rw [show acquire s1 s.tasks.length = ((acquire s1 s.tasks.length).1, true) from by rw [← hg]]
    exact ((h1.trans h2).trans (step2_connectLocked _ _)).trans (Step2.ofEq rfl ⟨rfl, rfl, rfl, rfl, rfl, rfl⟩)

theorem step2_callConnectOnce (s : St) : Step2 s (callConnectOnce s) := by
  unfold callConnectOnce
  split
  · split
    · exact step2_spawnConnect s
    · split
      · exact Step2.refl s
      · exact ((step2_cancelConnectTask s).trans (step2_setState _ _)).trans (step2_spawnConnect _)
  · exact step2_spawnConnect s

theorem step2_scheduleConnect (s : St) (d : Nat) (h : d = 0 ∨ s.stopped = false) : Step2 s (scheduleConnect s d) := by
  unfold scheduleConnect
  split
  · exact step2_callConnectOnce s
  · rename_i hd
    rcases h with h | h
    · exact absurd h hd
    · exact Step2.running h rfl id

theorem step2_discEnd (s : St) (tid : Nat) (e : Bool) : Step2 s (discEnd s tid e) := by
  unfold discEnd
  dsimp only
  have h1 : Step2 s (finish (release s) tid) := (step2_release s).trans (step2_finish _ _)
  split
  · exact h1
  · rename_i hs
    exact h1.trans (step2_scheduleConnect _ _ (Or.inr (by simpa using hs)))

theorem step2_discLocked (s : St) (tid : Nat) (e : Bool) (hk : ∀ t, s.tasks[tid]? = some t → t.kind ≠ .startCall) :
    Step2 s (discLocked s tid e) := by
  unfold discLocked
  dsimp only
  have h1 : Step2 s (emit (setState s .disconnected) (.onDisconnect e)) := (step2_setState s _).trans (step2_emit _ _ rfl)
  split
  · refine h1.trans (step2_setTask _ tid _ (fun _ => rfl) (fun _ _ => rfl) ?_)
    intro t ht hkk _; exact absurd hkk (hk t (by simpa using ht))
  · exact h1.trans (step2_discEnd _ _ _)

/-- `start()` with the lock held: the manager is running afterwards -/
theorem startLocked_facts (s : St) (tid : Nat) :
    (startLocked s tid).stopped = false ∧ (AccOk s → AccOk (startLocked s tid)) := by
  unfold startLocked
  dsimp only
  have key : ∀ X : St, X.stopped = false → (AccOk s → AccOk X) →
      (emit (finish (release X) tid) .startRet).stopped = false ∧ (AccOk s → AccOk (emit (finish (release X) tid) .startRet)) := by
    intro X hx ha
    have h1 := ((step2_release X).trans (step2_finish _ tid)).trans (step2_emit _ .startRet rfl)
    exact ⟨by rw [h1.stopped, hx], fun h => h1.acc (ha h)⟩
  apply key
  · split
    · rfl
    · rw [(step2_scheduleConnect _ 0 (Or.inl rfl)).stopped]; rfl
  · intro ha
    split
    · exact fun h => ha h
    · exact (step2_scheduleConnect _ 0 (Or.inl rfl)).acc (fun h => ha h)

theorem noInflight_of_unlocked (s : St) (h : LockInv s) (hl : s.locked = false) : NoInflight s := by
  intro i t ht
  cases hp : attemptPc t.pc
  · rfl
  · have := h.a i t ht (attempt_inflight _ hp); simp [hl] at this

theorem stopLocked_eq (s : St) (tid : Nat) : stopLocked s tid =
    emit (finish (release (setState (stopZc (cancelConnectTask (cancelTimer { s with stopped := true }))) .disconnected)) tid) .stopRet := rfl

/-- `stop()` with the lock held -/
theorem stopLocked_facts (s : St) (tid : Nat) (h : HeldBy s tid) :
    (stopLocked s tid).stopped = true ∧ Quiet (stopLocked s tid) ∧ nlog (stopLocked s tid) = nlog s ∧
    (NoPendingStart s → NoPendingStart (stopLocked s tid)) ∧ AccOk (stopLocked s tid) := by
  have hinv := stopLocked_inv s tid h
  rw [stopLocked_eq] at hinv ⊢
  have hctl := cancelConnectTask_ctl (cancelTimer { s with stopped := true })
  have h1 : Step2 { s with stopped := true } (emit (finish (release (setState (stopZc (cancelConnectTask
      (cancelTimer { s with stopped := true }))) .disconnected)) tid) .stopRet) :=
    ((((((step2_cancelTimer _).trans (step2_cancelConnectTask _)).trans (step2_stopZc _)).trans (step2_setState _ _)).trans
      (step2_release _)).trans (step2_finish _ _)).trans (step2_emit _ _ rfl)
  refine ⟨?_, ⟨noInflight_of_unlocked _ hinv (by simp), ?_, ?_⟩, ?_, ?_, ?_⟩
  · rw [h1.stopped]
  · simp only [timer_emit, timer_finish, timer_release, timer_setState, timer_stopZc]
    rw [hctl.timer]; rfl
  · simp only [zcListening_emit, zcListening_finish, zcListening_release, zcListening_setState]
    exact zcListening_stopZc' _
  · rw [nlog_emit _ _ rfl, nlog_congr (s := setState (stopZc (cancelConnectTask (cancelTimer { s with stopped := true }))) .disconnected) (by simp),
      nlog_congr (s := stopZc (cancelConnectTask (cancelTimer { s with stopped := true }))) (by simp), nlog_stopZc]
    exact nlog_congr (by rw [hctl.log]; rfl)
  · intro hn
    exact h1.nps rfl hn
  · intro _
    simp [setState]

/-! ## the invariant of every run: `G` -/

def StopInv (s : St) : Prop := s.stopped = true → Quiet s

structure G (s : St) : Prop where
  lock : LockInv s
  stop : StopInv s
  acc : AccOk s

/-- `Step2` without the clause on pending `start()` calls -/
structure Step2w (s s' : St) : Prop where
  stopped : s'.stopped = s.stopped
  quiet : s.stopped = true → Quiet s → Quiet s' ∧ nlog s' = nlog s
  acc : AccOk s → AccOk s'

theorem Step2.w {s s' : St} (h : Step2 s s') : Step2w s s' := ⟨h.stopped, h.quiet, h.acc⟩

theorem Step2w.trans {a b c : St} (h1 : Step2w a b) (h2 : Step2w b c) : Step2w a c := by
  refine ⟨by rw [h2.stopped, h1.stopped], ?_, fun h => h2.acc (h1.acc h)⟩
  intro hs hq
  obtain ⟨q1, l1⟩ := h1.quiet hs hq
  obtain ⟨q2, l2⟩ := h2.quiet (by rw [h1.stopped]; exact hs) q1
  exact ⟨q2, by rw [l2, l1]⟩

theorem Step2w.stopInv {s s' : St} (h : Step2w s s') (hs : StopInv s) : StopInv s' := by
  intro h'
  rw [h.stopped] at h'
  exact (h.quiet h' (hs h')).1

theorem step2w_append (s : St) (k : Kind) : Step2w s { s with tasks := s.tasks ++ [{ kind := k, pc := .running }] } := by
  refine ⟨rfl, fun _ ⟨n, t, z⟩ => ⟨⟨?_, t, z⟩, rfl⟩, id⟩
  intro i t hi
  simp only at hi
  rcases Nat.lt_or_ge i s.tasks.length with hlt | hge
  · rw [List.getElem?_append_left hlt] at hi; exact n i t hi
  · rw [List.getElem?_append_right hge] at hi
    cases hj : i - s.tasks.length with
    | zero => simp [hj] at hi; rw [← hi]; rfl
    | succ j => simp [hj] at hi

theorem step2w_acquire (s : St) (tid : Nat) : Step2w s (acquire s tid).1 := by
  unfold acquire
  split
  · exact ⟨rfl, fun _ q => ⟨⟨q.n, q.t, q.z⟩, rfl⟩, id⟩
  · refine ⟨rfl, fun _ ⟨n, t, z⟩ => ⟨⟨?_, t, z⟩, rfl⟩, id⟩
    exact noInflight_setTask _ tid _ (fun _ _ => rfl) n

theorem lockedBody_G (s : St) (tid : Nat) (k : Kind) (hkind : ∀ t, s.tasks[tid]? = some t → t.kind = k) (h : HeldBy s tid)
    (hs : StopInv s) (ha : AccOk s) : StopInv (lockedBody s tid k) ∧ AccOk (lockedBody s tid k) := by
  unfold lockedBody
  split
  · have := (step2_connectLocked s tid).w; exact ⟨this.stopInv hs, this.acc ha⟩
  · rename_i e
    have := (step2_discLocked s tid e (fun t ht => by rw [hkind t ht]; intro hc; cases hc)).w
    exact ⟨this.stopInv hs, this.acc ha⟩
  · obtain ⟨h1, h2⟩ := startLocked_facts s tid
    exact ⟨fun h' => by rw [h1] at h'; exact Bool.noConfusion h', h2 ha⟩
  · obtain ⟨_, h2, _, _, h5⟩ := stopLocked_facts s tid h
    exact ⟨fun _ => h2, h5⟩

theorem spawn_G (s : St) (k : Kind) (h : G s) : G (spawn s k) := by
  suffices h2 : StopInv (spawn s k) ∧ AccOk (spawn s k) from ⟨spawn_inv s k h.lock, h2.1, h2.2⟩
  unfold spawn
  dsimp only
  have h1 := append_inv s k h.lock
  have w1 := step2w_append s k
  generalize hs1 : ({ s with tasks := s.tasks ++ [{ kind := k, pc := Pc.running }] } : St) = s1 at h1 w1
  have hlen : ∃ t : Task, s1.tasks[s.tasks.length]? = some t ∧ t.pc ≠ .done := by
    rw [← hs1]; exact ⟨_, by simp; rfl, by simp⟩
  have w2 := w1.trans (step2w_acquire s1 s.tasks.length)
  cases hg : (acquire s1 s.tasks.length).2
  · rw [show acquire s1 s.tasks.length = ((acquire s1 s.tasks.length).1, false) from by rw [← hg]]
    exact ⟨w2.stopInv h.stop, w2.acc h.acc⟩
  · have hh := acquire_got s1 _ h1 hlen hg
    rw [show acquire s1 s.tasks.length = ((acquire s1 s.tasks.length).1, true) from by rw [← hg]]
    refine lockedBody_G _ _ _ ?_ hh (w2.stopInv h.stop) (w2.acc h.acc)
    intro t ht
    obtain ⟨t0, h0, hk0⟩ := kind_acquire s1 _ _ t ht
    rw [← hk0]
    have : s1.tasks[s.tasks.length]? = some { kind := k, pc := .running } := by rw [← hs1]; simp
    rw [this] at h0; cases h0; rfl

theorem not_stopped_of_inflight (s : St) (tid : Nat) (t : Task) (hs : StopInv s) (ht : s.tasks[tid]? = some t)
    (hp : attemptPc t.pc = true) : s.stopped = false := by
  cases h : s.stopped
  · rfl
  · have := (hs h).n tid t ht; simp [hp] at this

theorem G.mk' {s : St} (hl : LockInv s) (p : StopInv s ∧ AccOk s) : G s := ⟨hl, p.1, p.2⟩

/-- an update of fields no invariant reads -/
theorem w_eq {s s' : St} (ht : s'.tasks = s.tasks) (c : SameCtl s s') : Step2w s s' := (Step2.ofEq ht c).w

theorem running_pair {s' : St} (h1 : s'.stopped = false) (h2 : AccOk s') : StopInv s' ∧ AccOk s' :=
  ⟨fun h => by rw [h1] at h; exact Bool.noConfusion h, h2⟩

theorem Step2w.pair {s s' : St} (w : Step2w s s') (hs : StopInv s) (ha : AccOk s) : StopInv s' ∧ AccOk s' :=
  ⟨w.stopInv hs, w.acc ha⟩

theorem failPath (s : St) (tid : Nat) (k : ErrK) (h0 : s.stopped = false) :
    Step2w s (failBegin { s with cli := .idle } k tid) := by
  have e1 : Step2 s { s with cli := .idle } := Step2.ofEq rfl ⟨rfl, rfl, rfl, rfl, rfl, rfl⟩
  exact (e1.trans (step2_failBegin _ k tid (by rw [e1.stopped]; exact h0))).w

theorem wakeTask_G (s : St) (tid : Nat) (t : Task) (h : G s) (ht : s.tasks[tid]? = some t) : G (wakeTask s tid t) := by
  suffices h2 : StopInv (wakeTask s tid t) ∧ AccOk (wakeTask s tid t) from ⟨wakeTask_inv s tid t h.lock ht, h2.1, h2.2⟩
  obtain ⟨hl, hs, ha⟩ := h
  unfold wakeTask
  split
  · exact ⟨hs, ha⟩
  · exact ⟨hs, ha⟩
  · rename_i hpc
    dsimp only
    split
    · have w1 := (step2_removeWaiter s tid).w
      have w2 : Step2w s (if (removeWaiter s tid).locked = true then removeWaiter s tid else wakeUpFirst (removeWaiter s tid)) := by
        split
        · exact w1
        · exact w1.trans (step2_wakeUpFirst _).w
      exact (w2.trans (step2_finish _ tid).w).pair hs ha
    · split
      · rename_i hgr
        have hh := granted_held s tid t hl ht hpc hgr
        have w1 : Step2w s { removeWaiter s tid with locked := true } :=
          w_eq rfl ⟨rfl, rfl, rfl, rfl, rfl, rfl⟩
        have w2 : Step2w { removeWaiter s tid with locked := true }
            (setTask { removeWaiter s tid with locked := true } tid fun t => { t with pc := .running }) :=
          ⟨rfl, fun _ ⟨n, t, z⟩ => ⟨⟨noInflight_setTask _ tid _ (fun _ _ => rfl) n, t, z⟩, rfl⟩, id⟩
        have w3 := w1.trans w2
        refine lockedBody_G _ _ _ ?_ hh (w3.stopInv hs) (w3.acc ha)
        intro t' ht'
        obtain ⟨t0, h0, rfl⟩ := getElem?_setTask ht'
        have h0' : s.tasks[tid]? = some t0 := h0
        rw [ht] at h0'; cases h0'; simp
      · exact ⟨hs, ha⟩
  · -- inStart
    rename_i hpc
    have h0 := not_stopped_of_inflight s tid t hs ht (by simp [hpc, attemptPc])
    split
    · exact (failPath s tid .other h0).pair hs ha
    · split
      · apply running_pair
        · simpa [setTask] using h0
        · intro hacc; simp [setTask, setState] at hacc
      · exact (failPath s tid _ h0).pair hs ha
      · exact ⟨hs, ha⟩
  · -- inFinish
    rename_i hpc
    have h0 := not_stopped_of_inflight s tid t hs ht (by simp [hpc, attemptPc])
    split
    · exact (failPath s tid .other h0).pair hs ha
    · split
      · dsimp only
        split
        · apply running_pair
          · simpa [setTask] using h0
          · intro hacc; simp [setTask, setState] at hacc
        · apply running_pair
          · simpa using h0
          · intro hacc; simp [setState] at hacc
      · exact (failPath s tid _ h0).pair hs ha
      · exact ⟨hs, ha⟩
  · -- inOnConnect
    split
    · exact ((step2_release s).trans (step2_finish _ tid)).w.pair hs ha
    · exact ⟨hs, ha⟩
  · -- inOnError
    rename_i k hpc
    have h0 := not_stopped_of_inflight s tid t hs ht (by simp [hpc, attemptPc])
    split
    · exact ((step2_release s).trans (step2_finish _ tid)).w.pair hs ha
    · split
      · exact (step2_failEnd s k tid h0).w.pair hs ha
      · exact ⟨hs, ha⟩
  · -- inOnDisc
    split
    · split
      · exact (step2_discEnd s tid _).w.pair hs ha
      · exact ⟨hs, ha⟩
    · exact ⟨hs, ha⟩

theorem complete_G (s : St) (pc : Pc) (r : Res) (h : G s) : G (complete s pc r) := by
  refine ⟨complete_inv s pc r h.lock, ?_, ?_⟩
  all_goals
    unfold complete
    split
    · rename_i tid _
      have w : Step2w s { setTask s tid (fun t => { t with result := some r }) with ready := s.ready ++ [.wake tid] } :=
        ⟨rfl, fun _ ⟨n, t, z⟩ => ⟨⟨noInflight_setTask _ tid _ (fun _ h => h) n, t, z⟩, rfl⟩, id⟩
      first | exact w.stopInv h.stop | exact w.acc h.acc
    · first | exact h.stop | exact h.acc

theorem step_G (s : St) (e : Ev) (h : G s) : G (step s e) := by
  cases e with
  | callStart => exact spawn_G s _ h
  | callStop =>
    simp only [step]
    apply spawn_G
    split
    · exact ⟨h.lock.sim (cancelConnect_sim s), (step2_cancelConnect s).w.stopInv h.stop, (step2_cancelConnect s).acc h.acc⟩
    · exact h
  | startDone r => exact complete_G s _ r h
  | finishDone r => exact complete_G s _ r h
  | cbDone =>
    refine G.mk' (step_inv s .cbDone h.lock) ?_
    simp only [step]
    unfold completeCb
    split
    · rename_i tid _
      have w : Step2w s { setTask s tid (fun t => { t with result := some .ok }) with ready := s.ready ++ [.wake tid] } :=
        ⟨rfl, fun _ ⟨n, t, z⟩ => ⟨⟨noInflight_setTask _ tid _ (fun _ h => h) n, t, z⟩, rfl⟩, id⟩
      exact w.pair h.stop h.acc
    · exact ⟨h.stop, h.acc⟩
  | sessionEnd e =>
    simp only [step]
    split
    · have w : Step2w s { s with cli := .idle } := w_eq rfl ⟨rfl, rfl, rfl, rfl, rfl, rfl⟩
      exact spawn_G _ _ (G.mk' (h.lock.congr rfl rfl rfl) (w.pair h.stop h.acc))
    · exact h
  | zc m =>
    refine G.mk' (step_inv s (.zc m) h.lock) ?_
    simp only [step]
    split
    · exact ⟨h.stop, h.acc⟩
    · rename_i hc
      have h0 : s.stopped = false := by
        cases hst : s.stopped
        · rfl
        · simp [hst] at hc
      have w := ((step2_stopZc s).trans (step2_scheduleConnect _ 0 (Or.inl rfl))).w
      apply running_pair
      · show (scheduleConnect (stopZc s) 0).stopped = false
        rw [w.stopped]; exact h0
      · intro hacc; exact Bool.noConfusion hacc
  | timerDue =>
    refine G.mk' (step_inv s .timerDue h.lock) ?_
    simp only [step]
    split
    · split
      · exact ⟨h.stop, h.acc⟩
      · exact Step2w.pair (s := s) (w_eq rfl ⟨rfl, rfl, rfl, rfl, rfl, rfl⟩) h.stop h.acc
    · exact ⟨h.stop, h.acc⟩
  | wait dt =>
    refine G.mk' (step_inv s (.wait dt) h.lock) ?_
    simp only [step]
    split
    · split
      · exact Step2w.pair (s := s) (w_eq rfl ⟨rfl, rfl, rfl, rfl, rfl, rfl⟩) h.stop h.acc
      · exact ⟨h.stop, h.acc⟩
    · exact Step2w.pair (s := s) (w_eq rfl ⟨rfl, rfl, rfl, rfl, rfl, rfl⟩) h.stop h.acc
  | pop =>
    simp only [step]
    split
    · exact h
    · rename_i rest hr
      have hl := callConnectOnce_inv _ (h.lock.congr (s' := { s with ready := rest, timer := none, timerQueued := false }) rfl rfl rfl)
      have w : Step2w s { s with ready := rest, timer := none, timerQueued := false } :=
        ⟨rfl, fun _ ⟨n, t, z⟩ => ⟨⟨n, rfl, z⟩, rfl⟩, id⟩
      have w2 := w.trans (step2_callConnectOnce _).w
      exact ⟨hl, w2.stopInv h.stop, w2.acc h.acc⟩
    · rename_i tid rest hr
      have w : Step2w s { s with ready := rest } := w_eq rfl ⟨rfl, rfl, rfl, rfl, rfl, rfl⟩
      split
      · rename_i t ht
        exact wakeTask_G _ tid t (G.mk' (h.lock.congr rfl rfl rfl) (w.pair h.stop h.acc)) ht
      · exact G.mk' (h.lock.congr rfl rfl rfl) (w.pair h.stop h.acc)

theorem init_G (b : Bool) (c e d : Bool := false) : G (init b c e d) := by
  refine ⟨init_inv b c e d, fun _ => ⟨?_, rfl, rfl⟩, fun _ => Or.inl rfl⟩
  intro i t hi; simp [init] at hi

theorem run_G (s : St) (evs : List Ev) (h : G s) : G (run s evs) := by
  induction evs generalizing s with
  | nil => exact h
  | cons e es ih => exact ih _ (step_G s e h)

/-! ## after `stop()`: `F` is kept by every event except a new `start()` -/

structure F (s : St) : Prop where
  stopped : s.stopped = true
  quiet : Quiet s
  nps : NoPendingStart s

theorem Step2.F {s s' : St} (h : Step2 s s') (f : F s) : F s' ∧ nlog s' = nlog s := by
  obtain ⟨q, l⟩ := h.quiet f.stopped f.quiet
  exact ⟨⟨by rw [h.stopped]; exact f.stopped, q, h.nps f.stopped f.nps⟩, l⟩

theorem lockedBody_F (s : St) (tid : Nat) (k : Kind) (hk : k ≠ .startCall) (hkind : ∀ t, s.tasks[tid]? = some t → t.kind = k)
    (h : HeldBy s tid) (f : F s) : F (lockedBody s tid k) ∧ nlog (lockedBody s tid k) = nlog s := by
  unfold lockedBody
  split
  · exact (step2_connectLocked s tid).F f
  · rename_i e; exact (step2_discLocked s tid e (fun t ht => by rw [hkind t ht]; intro hc; cases hc)).F f
  · exact absurd rfl hk
  · obtain ⟨h1, h2, h3, h4, _⟩ := stopLocked_facts s tid h
    exact ⟨⟨h1, h2, h4 f.nps⟩, h3⟩

theorem spawn_F (s : St) (k : Kind) (hk : k ≠ .startCall) (hl : LockInv s) (f : F s) :
    F (spawn s k) ∧ nlog (spawn s k) = nlog s := by
  unfold spawn
  dsimp only
  have h1 := append_inv s k hl
  have w1 := step2_append s k hk
  generalize hs1 : ({ s with tasks := s.tasks ++ [{ kind := k, pc := Pc.running }] } : St) = s1 at h1 w1
  have hlen : ∃ t : Task, s1.tasks[s.tasks.length]? = some t ∧ t.pc ≠ .done := by
    rw [← hs1]; exact ⟨_, by simp; rfl, by simp⟩
  have hkk : ∀ t, s1.tasks[s.tasks.length]? = some t → t.kind ≠ .startCall := by
    intro t ht; rw [← hs1] at ht; simp at ht; rw [← ht]; exact hk
  have w2 := w1.trans (step2_acquire s1 s.tasks.length hkk)
  cases hg : (acquire s1 s.tasks.length).2
  · rw [show acquire s1 s.tasks.length = ((acquire s1 s.tasks.length).1, false) from by rw [← hg]]
    simp only [Bool.false_eq_true, ↓reduceIte]
    exact w2.F f
  · have hh := acquire_got s1 _ h1 hlen hg
    rw [show acquire s1 s.tasks.length = ((acquire s1 s.tasks.length).1, true) from by rw [← hg]]
    simp only [↓reduceIte]
    obtain ⟨f2, l2⟩ := w2.F f
    have hkind : ∀ t, (acquire s1 s.tasks.length).1.tasks[s.tasks.length]? = some t → t.kind = k := by
      intro t ht
      obtain ⟨t0, h0, hk0⟩ := kind_acquire s1 _ _ t ht
      rw [← hk0]
      have : s1.tasks[s.tasks.length]? = some { kind := k, pc := .running } := by rw [← hs1]; simp
      rw [this] at h0; cases h0; rfl
    obtain ⟨f3, l3⟩ := lockedBody_F _ _ k hk hkind hh f2
    exact ⟨f3, by rw [l3, l2]⟩

theorem wakeTask_F (s : St) (tid : Nat) (t : Task) (hl : LockInv s) (f : F s) (ht : s.tasks[tid]? = some t) :
    F (wakeTask s tid t) ∧ nlog (wakeTask s tid t) = nlog s := by
  unfold wakeTask
  split
  · exact ⟨f, rfl⟩
  · exact ⟨f, rfl⟩
  · rename_i hpc
    dsimp only
    split
    · have w1 := step2_removeWaiter s tid
      have w2 : Step2 s (if (removeWaiter s tid).locked = true then removeWaiter s tid else wakeUpFirst (removeWaiter s tid)) := by
        split
        · exact w1
        · exact w1.trans (step2_wakeUpFirst _)
      exact (w2.trans (step2_finish _ tid)).F f
    · split
      · rename_i hgr
        have hh := granted_held s tid t hl ht hpc hgr
        have hk : t.kind ≠ .startCall := by
          intro hk; have := f.nps tid t ht hk; rw [hpc] at this; cases this
        have w1 : Step2 s { removeWaiter s tid with locked := true } := Step2.ofEq rfl ⟨rfl, rfl, rfl, rfl, rfl, rfl⟩
        have w2 : Step2 { removeWaiter s tid with locked := true }
            (setTask { removeWaiter s tid with locked := true } tid fun t => { t with pc := .running }) := by
          refine step2_setTask _ tid _ (fun _ => rfl) (fun _ _ => rfl) ?_
          intro t' ht' hk' _
          have : t' = t := by
            have : s.tasks[tid]? = some t' := ht'
            rw [ht] at this; exact (Option.some.inj this).symm
          rw [this] at hk'; exact absurd hk' hk
        obtain ⟨f2, l2⟩ := (w1.trans w2).F f
        have hkind : ∀ t', (setTask { removeWaiter s tid with locked := true } tid fun t => { t with pc := .running }).tasks[tid]? = some t' →
            t'.kind = t.kind := by
          intro t' ht'
          obtain ⟨t0, h0, rfl⟩ := getElem?_setTask ht'
          have h0' : s.tasks[tid]? = some t0 := h0
          rw [ht] at h0'; cases h0'; simp
        obtain ⟨f3, l3⟩ := lockedBody_F _ _ t.kind hk hkind hh f2
        exact ⟨f3, by rw [l3, l2]⟩
      · exact ⟨f, rfl⟩
  · rename_i hpc
    have := f.quiet.n tid t ht; simp [hpc, attemptPc] at this
  · rename_i hpc
    have := f.quiet.n tid t ht; simp [hpc, attemptPc] at this
  · rename_i hpc
    have := f.quiet.n tid t ht; simp [hpc, attemptPc] at this
  · rename_i k hpc
    have := f.quiet.n tid t ht; simp [hpc, attemptPc] at this
  · -- inOnDisc: the report of a session that ended after stop(): nothing is scheduled
    split
    · split
      · exact (step2_discEnd s tid _).F f
      · exact ⟨f, rfl⟩
    · exact ⟨f, rfl⟩

theorem step_F (s : St) (e : Ev) (he : e ≠ .callStart) (hl : LockInv s) (f : F s) :
    F (step s e) ∧ nlog (step s e) = nlog s := by
  cases e with
  | callStart => exact absurd rfl he
  | callStop =>
    simp only [step]
    have hc : Step2 s (if s.state = .disconnected ∨ s.state = .connecting then cancelConnect s else s) := by
      split
      · exact step2_cancelConnect s
      · exact Step2.refl s
    have hl2 : LockInv (if s.state = .disconnected ∨ s.state = .connecting then cancelConnect s else s) := by
      split
      · exact hl.sim (cancelConnect_sim s)
      · exact hl
    obtain ⟨f2, l2⟩ := hc.F f
    obtain ⟨f3, l3⟩ := spawn_F _ .stopCall (by decide) hl2 f2
    exact ⟨f3, by rw [l3, l2]⟩
  | cbDone =>
    simp only [step]
    unfold completeCb
    split
    · rename_i tid _
      have w1 := step2_setTask s tid (fun t => { t with result := some .ok }) (fun _ => rfl) (fun _ h => h) (fun _ _ _ h => h)
      dsimp only
      refine Step2.F (s := s) ?_ f
      exact w1.trans (Step2.ofEq rfl ⟨rfl, rfl, rfl, rfl, rfl, rfl⟩)
    · exact ⟨f, rfl⟩
  | startDone r | finishDone r =>
    simp only [step]
    unfold complete
    split
    · rename_i tid _
      have w1 := step2_setTask s tid (fun t => { t with result := some r }) (fun _ => rfl) (fun _ h => h) (fun _ _ _ h => h)
      dsimp only
      refine Step2.F (s := s) ?_ f
      exact w1.trans (Step2.ofEq rfl ⟨rfl, rfl, rfl, rfl, rfl, rfl⟩)
    · exact ⟨f, rfl⟩
  | sessionEnd e =>
    simp only [step]
    split
    · have w : Step2 s { s with cli := .idle } := Step2.ofEq rfl ⟨rfl, rfl, rfl, rfl, rfl, rfl⟩
      obtain ⟨f2, l2⟩ := w.F f
      obtain ⟨f3, l3⟩ := spawn_F { s with cli := .idle } (.disc e) (by intro h; cases h) (hl.congr rfl rfl rfl) f2
      exact ⟨f3, by rw [l3, l2]⟩
    · exact ⟨f, rfl⟩
  | zc m =>
    simp only [step]
    split
    · exact ⟨f, rfl⟩
    · rename_i hc; simp [f.stopped] at hc
  | timerDue =>
    simp only [step]
    split
    · rename_i d hd; rw [f.quiet.t] at hd; cases hd
    · exact ⟨f, rfl⟩
  | wait dt =>
    simp only [step]
    split
    · rename_i d hd; rw [f.quiet.t] at hd; cases hd
    · exact Step2.F (s := s) (Step2.ofEq rfl ⟨rfl, rfl, rfl, rfl, rfl, rfl⟩) f
  | pop =>
    simp only [step]
    split
    · exact ⟨f, rfl⟩
    · rename_i rest hr
      have w : Step2 s { s with ready := rest, timer := none, timerQueued := false } :=
        ⟨rfl, fun _ ⟨n, t, z⟩ => ⟨⟨n, rfl, z⟩, rfl⟩, fun _ h => h, id⟩
      exact (w.trans (step2_callConnectOnce _)).F f
    · rename_i tid rest hr
      have w : Step2 s { s with ready := rest } := Step2.ofEq rfl ⟨rfl, rfl, rfl, rfl, rfl, rfl⟩
      obtain ⟨f2, l2⟩ := w.F f
      split
      · rename_i t ht
        obtain ⟨f3, l3⟩ := wakeTask_F { s with ready := rest } tid t (hl.congr rfl rfl rfl) f2 ht
        exact ⟨f3, by rw [l3, l2]⟩
      · exact ⟨f2, l2⟩

theorem run_F (s : St) (evs : List Ev) (he : ∀ e ∈ evs, e ≠ .callStart) (hl : LockInv s) (f : F s) :
    F (run s evs) ∧ nlog (run s evs) = nlog s := by
  induction evs generalizing s with
  | nil => exact ⟨f, rfl⟩
  | cons e es ih =>
    obtain ⟨f2, l2⟩ := step_F s e (he e (by simp)) hl f
    obtain ⟨f3, l3⟩ := ih (step s e) (fun e' h' => he e' (by simp [h'])) (step_inv s e hl) f2
    exact ⟨f3, by rw [show run s (e :: es) = run (step s e) es from rfl, l3, l2]⟩

end Esp.Reconnect
