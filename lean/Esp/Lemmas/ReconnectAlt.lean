import Esp.Lemmas.ReconnectStop
import Esp.Lemmas.ReconnectCli
/-!
# Reconnect manager: on_connect / on_disconnect alternate in every history without `stop()`

(With `stop()` the claim is false, `Props/C18.c18_alternate_witness`.)  `altState` scans the log: `some open?` while the
callbacks alternate (starting with `on_connect`), `none` once they do not.  `Alt` ties it to the state: the sequence is
"open" exactly while a session is live or its end has not been reported yet.
-/
namespace Esp.Reconnect

def altStep (o : Option Bool) (a : Act) : Option Bool :=
  match o, a with
  | some false, .onConnect => some true
  | some true, .onDisconnect _ => some false
  | _, .onConnect => none
  | _, .onDisconnect _ => none
  | o, _ => o

def altState (l : List Act) : Option Bool := l.foldl altStep (some false)

theorem altState_append (l : List Act) (a : Act) : altState (l ++ [a]) = altStep (altState l) a := by
  simp [altState, List.foldl_append]

def isCb : Act → Bool | .onConnect | .onDisconnect _ => true | _ => false

theorem altStep_other (o : Option Bool) (a : Act) (h : isCb a = false) : altStep o a = o := by
  cases a <;> simp_all [isCb, altStep] <;> (cases o <;> simp [altStep]) <;> (rename_i b; cases b <;> simp [altStep])

@[simp] theorem altStep_attempt (o) : altStep o .attempt = o := altStep_other _ _ rfl
@[simp] theorem altStep_err (o k) : altStep o (.onConnectError k) = o := altStep_other _ _ rfl
@[simp] theorem altStep_zcAdd (o) : altStep o .zcAdd = o := altStep_other _ _ rfl
@[simp] theorem altStep_zcRemove (o) : altStep o .zcRemove = o := altStep_other _ _ rfl
@[simp] theorem altStep_arm (o d) : altStep o (.arm d) = o := altStep_other _ _ rfl
@[simp] theorem altStep_startRet (o) : altStep o .startRet = o := altStep_other _ _ rfl
@[simp] theorem altStep_stopRet (o) : altStep o .stopRet = o := altStep_other _ _ rfl
@[simp] theorem altStep_resetTries (o) : altStep o .resetTries = o := altStep_other _ _ rfl
@[simp] theorem altStep_failCounted (o k) : altStep o (.failCounted k) = o := altStep_other _ _ rfl

def isDiscK : Kind → Bool | .disc _ => true | _ => false
/-- the connect task is trying: inside a client call, or reporting the failure of the attempt -/
def tryPc : Pc → Bool | .inStart | .inFinish | .inOnError _ => true | _ => false

theorem try_inflight (pc : Pc) (h : tryPc pc = true) : inflightPc pc = true := by
  cases pc <;> simp_all [tryPc, inflightPc]

/-- a report of a session's end that has not been made yet (the task has not reached `on_disconnect`) -/
def pendD (t : Task) : Bool := isDiscK t.kind && (t.pc == .running || t.pc == .lockWait)
def PD (s : St) : Prop := ∃ (i : Nat) (t : Task), s.tasks[i]? = some t ∧ pendD t = true

structure Alt (s : St) : Prop where
  a1 : s.cli = .live → s.state = .ready
  a2 : ∀ (i : Nat) (t : Task), s.tasks[i]? = some t → tryPc t.pc = true → s.state ≠ .ready
  a3 : ∀ (i : Nat) (t : Task), s.tasks[i]? = some t → pendD t = true → s.cli = .idle ∧ s.state = .ready
  a3u : ∀ (i j : Nat) (ti tj : Task), s.tasks[i]? = some ti → s.tasks[j]? = some tj → pendD ti = true → pendD tj = true → i = j
  a4 : s.state = .ready → s.cli = .live ∨ PD s
  a5o : s.cli = .live ∨ PD s → altState s.log = some true
  a5c : ¬(s.cli = .live ∨ PD s) → altState s.log = some false

/-- what `Alt` reads of a task -/
def proj (t : Task) : Bool × Bool := (tryPc t.pc, pendD t)

theorem proj_of_map {s s' : St} (h : s'.tasks.map proj = s.tasks.map proj) (i : Nat) (t' : Task) (hi : s'.tasks[i]? = some t') :
    ∃ t, s.tasks[i]? = some t ∧ proj t = proj t' := by
  have := congrArg (fun l => l[i]?) h
  simp only [List.getElem?_map, hi, Option.map_some] at this
  cases h0 : s.tasks[i]? with
  | none => simp [h0] at this
  | some t => simp [h0] at this; exact ⟨t, rfl, this.symm⟩

theorem PD_of_map {s s' : St} (h : s'.tasks.map proj = s.tasks.map proj) : PD s' → PD s := by
  rintro ⟨i, t', hi, hp⟩
  obtain ⟨t, ht, hpr⟩ := proj_of_map h i t' hi
  exact ⟨i, t, ht, by have := congrArg Prod.snd hpr; simp [proj] at this; rw [this]; exact hp⟩

/-- same tasks as far as `Alt` can see, same state, client and callback history -/
theorem Alt.same {s s' : St} (h : Alt s) (ht : s'.tasks.map proj = s.tasks.map proj) (hs : s'.state = s.state)
    (hc : s'.cli = s.cli) (hl : altState s'.log = altState s.log) : Alt s' := by
  have hpd : PD s' ↔ PD s := ⟨PD_of_map ht, PD_of_map ht.symm⟩
  constructor
  · rw [hc, hs]; exact h.a1
  · intro i t' hi hp
    obtain ⟨t, h0, hpr⟩ := proj_of_map ht i t' hi
    rw [hs]; exact h.a2 i t h0 (by have := congrArg Prod.fst hpr; simp [proj] at this; rw [this]; exact hp)
  · intro i t' hi hp
    obtain ⟨t, h0, hpr⟩ := proj_of_map ht i t' hi
    rw [hc, hs]; exact h.a3 i t h0 (by have := congrArg Prod.snd hpr; simp [proj] at this; rw [this]; exact hp)
  · intro i j ti tj hi hj hpi hpj
    obtain ⟨t0, h0, hpr0⟩ := proj_of_map ht i ti hi
    obtain ⟨t1, h1, hpr1⟩ := proj_of_map ht j tj hj
    exact h.a3u i j t0 t1 h0 h1 (by have := congrArg Prod.snd hpr0; simp [proj] at this; rw [this]; exact hpi)
      (by have := congrArg Prod.snd hpr1; simp [proj] at this; rw [this]; exact hpj)
  · rw [hs, hc, hpd]; exact h.a4
  · rw [hc, hpd, hl]; exact h.a5o
  · rw [hc, hpd, hl]; exact h.a5c

theorem map_proj_modify (l : List Task) (tid : Nat) (f : Task → Task) (hf : ∀ t, l[tid]? = some t → proj (f t) = proj t) :
    (l.modify tid f).map proj = l.map proj := by
  apply List.ext_getElem?
  intro i
  simp only [List.getElem?_map, List.getElem?_modify]
  cases h0 : l[i]? with
  | none => simp
  | some t =>
    simp only [Option.map_eq_map, Option.map_some]
    split
    · rename_i heq; subst heq; rw [hf t h0]
    · rfl

theorem altState_emit (s : St) (a : Act) (h : isCb a = false) : altState (emit s a).log = altState s.log := by
  simp [emit, altState_append, altStep_other _ _ h]

/-- tasks only lose in-flight status, pending disconnect reports are the same; new tasks are neither -/
theorem Alt.mono {s s' : St} (h : Alt s)
    (h1 : ∀ (i : Nat) (t' : Task), s'.tasks[i]? = some t' → (∃ t, s.tasks[i]? = some t ∧
      (tryPc t'.pc = true → tryPc t.pc = true) ∧ pendD t' = pendD t) ∨ (tryPc t'.pc = false ∧ pendD t' = false))
    (h2 : PD s → PD s') (hs : s'.state = s.state) (hc : s'.cli = s.cli) (hl : altState s'.log = altState s.log) : Alt s' := by
  have hpd : PD s' ↔ PD s := by
    constructor
    · rintro ⟨i, t', hi, hp⟩
      rcases h1 i t' hi with ⟨t, ht, _, hpe⟩ | ⟨_, hn⟩
      · exact ⟨i, t, ht, by rw [← hpe]; exact hp⟩
      · rw [hn] at hp; cases hp
    · exact h2
  constructor
  · rw [hc, hs]; exact h.a1
  · intro i t' hi hp
    rcases h1 i t' hi with ⟨t, h0, hin, _⟩ | ⟨hn, _⟩
    · rw [hs]; exact h.a2 i t h0 (hin hp)
    · rw [hn] at hp; cases hp
  · intro i t' hi hp
    rcases h1 i t' hi with ⟨t, h0, _, hpe⟩ | ⟨_, hn⟩
    · rw [hc, hs]; exact h.a3 i t h0 (by rw [← hpe]; exact hp)
    · rw [hn] at hp; cases hp
  · intro i j ti tj hi hj hpi hpj
    rcases h1 i ti hi with ⟨t0, h0, _, hp0⟩ | ⟨_, hn⟩
    · rcases h1 j tj hj with ⟨t1, h1', _, hp1⟩ | ⟨_, hn⟩
      · exact h.a3u i j t0 t1 h0 h1' (by rw [← hp0]; exact hpi) (by rw [← hp1]; exact hpj)
      · rw [hn] at hpj; cases hpj
    · rw [hn] at hpi; cases hpi
  · rw [hs, hc, hpd]; exact h.a4
  · rw [hc, hpd, hl]; exact h.a5o
  · rw [hc, hpd, hl]; exact h.a5c

def NonDisc (s : St) (tid : Nat) : Prop := ∀ t, s.tasks[tid]? = some t → isDiscK t.kind = false

theorem getElem?_setTask' {s : St} {tid : Nat} {f : Task → Task} {i : Nat} {t : Task}
    (h : (setTask s tid f).tasks[i]? = some t) : ∃ t0, s.tasks[i]? = some t0 ∧ t = (if tid = i then f t0 else t0) :=
  getElem?_setTask h

/-- a `setTask` that does not change what `Alt` reads -/
theorem alt_setTask_proj (s : St) (tid : Nat) (f : Task → Task) (hf : ∀ t, s.tasks[tid]? = some t → proj (f t) = proj t)
    (h : Alt s) : Alt (setTask s tid f) :=
  h.same (by simp only [setTask]; exact map_proj_modify _ _ _ hf) rfl rfl rfl

theorem NonDisc.pend {s : St} {tid : Nat} (hk : NonDisc s tid) : ∀ t, s.tasks[tid]? = some t → pendD t = false := by
  intro t ht; simp [pendD, hk t ht]

theorem alt_finish (s : St) (tid : Nat) (hk : ∀ t, s.tasks[tid]? = some t → pendD t = false) (h : Alt s) : Alt (finish s tid) := by
  refine h.mono ?_ ?_ rfl rfl rfl
  · intro i t' hi
    obtain ⟨t0, h0, rfl⟩ := getElem?_setTask hi
    refine Or.inl ⟨t0, h0, ?_, ?_⟩
    · split
      · intro hp; simp [tryPc] at hp
      · exact id
    · split
      · rename_i heq; subst heq
        rw [hk t0 h0]; simp [pendD]
      · rfl
  · rintro ⟨i, t, hi, hp⟩
    have hne : tid ≠ i := by
      intro heq; subst heq
      rw [hk t hi] at hp; cases hp
    exact ⟨i, t, by simp only [finish, setTask]; rw [List.getElem?_modify_ne _ _ hne]; exact hi, hp⟩

theorem alt_release (s : St) (h : Alt s) : Alt (release s) := h.same (by simp) (by simp) (by simp) (by simp)

theorem alt_afterFail (s : St) (tid : Nat) (hk : ∀ t, s.tasks[tid]? = some t → pendD t = false) (h : Alt s) :
    Alt (afterFail s tid) := by
  unfold afterFail
  dsimp only
  apply alt_finish
  · intro t ht
    refine hk t ?_
    have : (release (emit { cancelTimer (if backoff s.tries ≠ 0 then startZc s else s) with
        timer := some ((if backoff s.tries ≠ 0 then startZc s else s).now + backoff s.tries) } (.arm (backoff s.tries)))).tasks = s.tasks := by
      simp only [tasks_release, tasks_emit, tasks_cancelTimer]
      split <;> simp
    rw [this] at ht; exact ht
  · apply alt_release
    have h1 : Alt (if backoff s.tries ≠ 0 then startZc s else s) := by
      split
      · exact h.same (by simp) (by simp) (by simp) (by unfold startZc; split <;> simp [emit, altState_append])
      · exact h
    exact h1.same rfl rfl rfl (by simp [emit, altState_append])

/-- a task past its first suspension under the lock is not an unreported disconnect -/
theorem pendD_false_of_pc (t : Task) (h : t.pc ≠ .running ∧ t.pc ≠ .lockWait) : pendD t = false := by
  cases hp : t.pc <;> simp_all [pendD]

theorem pendD_false_of_try (t : Task) (h : tryPc t.pc = true) : pendD t = false := by
  apply pendD_false_of_pc
  cases hp : t.pc <;> simp_all [tryPc]

theorem not_PD_of_not_ready (s : St) (h : Alt s) (hs : s.state ≠ .ready) : ¬PD s := by
  rintro ⟨i, t, hi, hp⟩; exact hs (h.a3 i t hi hp).2

theorem not_live_of_not_ready (s : St) (h : Alt s) (hs : s.state ≠ .ready) : s.cli ≠ .live :=
  fun hl => hs (h.a1 hl)

/-- a state that is not READY, with a client that is not live, after an update that reports no callback -/
theorem alt_not_ready {s s' : St} (h : Alt s) (hs : s.state ≠ .ready) (ht : s'.tasks.map proj = s.tasks.map proj)
    (hs' : s'.state ≠ .ready) (hc : s'.cli ≠ .live) (hl : altState s'.log = altState s.log) : Alt s' := by
  have hnpd := not_PD_of_not_ready s h hs
  have hnpd' : ¬PD s' := fun hp => hnpd (PD_of_map ht hp)
  have hnl := not_live_of_not_ready s h hs
  constructor
  · intro hl; exact absurd hl hc
  · intro _ _ _ _; exact hs'
  · intro i t' hi hp; exact absurd ⟨i, t', hi, hp⟩ hnpd'
  · intro i j ti tj hi _ hpi _; exact absurd ⟨i, ti, hi, hpi⟩ hnpd'
  · intro hr; exact absurd hr hs'
  · rintro (hl' | hp)
    · exact absurd hl' hc
    · exact absurd hp hnpd'
  · intro _; rw [hl]; exact h.a5c (by rintro (hl' | hp); exact hnl hl'; exact hnpd hp)

theorem alt_failEnd (s : St) (tid : Nat) (t : Task) (k : ErrK) (h : Alt s) (ht : s.tasks[tid]? = some t)
    (hp : tryPc t.pc = true) : Alt (failEnd s k tid) := by
  unfold failEnd
  apply alt_afterFail
  · intro t' ht'
    have : s.tasks[tid]? = some t' := ht'
    rw [ht] at this; cases this
    exact pendD_false_of_try t hp
  · exact h.same rfl rfl rfl (by simp [emit, altState_append])

theorem alt_failBegin (s : St) (tid : Nat) (t : Task) (k : ErrK) (h : Alt s) (ht : s.tasks[tid]? = some t)
    (hp : tryPc t.pc = true) : Alt (failBegin { s with cli := .idle } k tid) := by
  have hnr := h.a2 tid t ht hp
  unfold failBegin
  dsimp only
  have h1 : Alt (emit (setState { s with cli := .idle } .disconnected) (.onConnectError k)) :=
    alt_not_ready h hnr rfl (by simp [setState]) (by simp) (by simp [emit, setState, altState_append])
  split
  · refine alt_setTask_proj _ tid _ ?_ h1
    intro t' ht'
    have : s.tasks[tid]? = some t' := ht'
    rw [ht] at this; cases this
    have hpd := pendD_false_of_try t hp
    have hpd' : pendD { t with pc := .inOnError k, result := none, mustCancel := false } = false := pendD_false_of_pc _ (by simp)
    simp only [proj, hp, hpd, hpd']
    rfl
  · exact alt_failEnd _ tid t k h1 ht hp

/-! ## kinds of tasks never change; new tasks made inside procedures are connect tasks; only connect tasks are cancelled -/

structure KR (s s' : St) : Prop where
  fwd : ∀ (i : Nat) (t : Task), s.tasks[i]? = some t → ∃ t', s'.tasks[i]? = some t' ∧ t'.kind = t.kind
  bwd : ∀ (i : Nat) (t' : Task), s'.tasks[i]? = some t' → (∃ t, s.tasks[i]? = some t ∧ t.kind = t'.kind) ∨ t'.kind = .connect
  mc : ∀ (i : Nat) (t' : Task), s'.tasks[i]? = some t' → t'.mustCancel = true →
        t'.kind = .connect ∨ ∃ t, s.tasks[i]? = some t ∧ t.mustCancel = true ∧ t.kind = t'.kind

theorem KR.refl (s : St) : KR s s :=
  ⟨fun _ t h => ⟨t, h, rfl⟩, fun _ t h => Or.inl ⟨t, h, rfl⟩, fun _ t h hm => Or.inr ⟨t, h, hm, rfl⟩⟩

theorem KR.trans {a b c : St} (h1 : KR a b) (h2 : KR b c) : KR a c := by
  refine ⟨?_, ?_, ?_⟩
  · intro i t h
    obtain ⟨t1, hb, k1⟩ := h1.fwd i t h
    obtain ⟨t2, hc, k2⟩ := h2.fwd i t1 hb
    exact ⟨t2, hc, by rw [k2, k1]⟩
  · intro i t' h
    rcases h2.bwd i t' h with ⟨t1, hb, k1⟩ | hk
    · rcases h1.bwd i t1 hb with ⟨t0, ha, k0⟩ | hk
      · exact Or.inl ⟨t0, ha, by rw [k0, k1]⟩
      · exact Or.inr (by rw [← k1]; exact hk)
    · exact Or.inr hk
  · intro i t' h hm
    rcases h2.mc i t' h hm with hk | ⟨t1, hb, m1, k1⟩
    · exact Or.inl hk
    · rcases h1.mc i t1 hb m1 with hk | ⟨t0, ha, m0, k0⟩
      · exact Or.inl (by rw [← k1]; exact hk)
      · exact Or.inr ⟨t0, ha, m0, by rw [k0, k1]⟩

theorem KR.ofEq {s s' : St} (h : s'.tasks = s.tasks) : KR s s' := by
  refine ⟨?_, ?_, ?_⟩
  · intro i t hi; exact ⟨t, by rw [h]; exact hi, rfl⟩
  · intro i t hi; exact Or.inl ⟨t, by rw [← h]; exact hi, rfl⟩
  · intro i t hi hm; exact Or.inr ⟨t, by rw [← h]; exact hi, hm, rfl⟩

theorem kr_setTask (s : St) (tid : Nat) (f : Task → Task) (hf : ∀ t, (f t).kind = t.kind)
    (hm : ∀ t, (f t).mustCancel = true → t.mustCancel = true ∨ t.kind = .connect) : KR s (setTask s tid f) := by
  refine ⟨?_, ?_, ?_⟩
  · intro i t hi
    refine ⟨if tid = i then f t else t, ?_, by split <;> simp [hf]⟩
    simp only [setTask, List.getElem?_modify, hi, Option.map_eq_map, Option.map_some]
  · intro i t' hi
    obtain ⟨t0, h0, rfl⟩ := getElem?_setTask hi
    exact Or.inl ⟨t0, h0, by split <;> simp [hf]⟩
  · intro i t' hi hmc
    obtain ⟨t0, h0, rfl⟩ := getElem?_setTask hi
    by_cases hti : tid = i
    · rw [if_pos hti] at hmc ⊢
      rcases hm t0 hmc with h1 | h1
      · exact Or.inr ⟨t0, h0, h1, (hf t0).symm⟩
      · exact Or.inl (by rw [hf]; exact h1)
    · rw [if_neg hti] at hmc ⊢
      exact Or.inr ⟨t0, h0, hmc, rfl⟩

theorem kr_append (s : St) (k : Kind) (hk : k = .connect ∨ True) :
    ∀ i t', ({ s with tasks := s.tasks ++ [{ kind := k, pc := .running }] } : St).tasks[i]? = some t' →
      s.tasks[i]? = some t' ∨ (i = s.tasks.length ∧ t' = { kind := k, pc := .running }) := by
  intro i t' hi
  simp only at hi
  rcases Nat.lt_or_ge i s.tasks.length with hlt | hge
  · rw [List.getElem?_append_left hlt] at hi; exact Or.inl hi
  · rw [List.getElem?_append_right hge] at hi
    cases hj : i - s.tasks.length with
    | zero => simp [hj] at hi; exact Or.inr ⟨by omega, hi.symm⟩
    | succ j => simp [hj] at hi

theorem kr_append_connect (s : St) : KR s { s with tasks := s.tasks ++ [{ kind := .connect, pc := .running }] } := by
  refine ⟨?_, ?_, ?_⟩
  · intro i t hi
    exact ⟨t, by simp only; rw [List.getElem?_append_left (List.getElem?_eq_some_iff.mp hi).1]; exact hi, rfl⟩
  · intro i t' hi
    rcases kr_append s .connect (Or.inl rfl) i t' hi with h0 | ⟨_, rfl⟩
    · exact Or.inl ⟨t', h0, rfl⟩
    · exact Or.inr rfl
  · intro i t' hi hm
    rcases kr_append s .connect (Or.inl rfl) i t' hi with h0 | ⟨_, rfl⟩
    · exact Or.inr ⟨t', h0, hm, rfl⟩
    · exact Or.inl rfl

theorem kr_cancelTask (s : St) (tid : Nat) : KR s (cancelTask s tid) := by
  unfold cancelTask getTask
  split
  · exact KR.refl s
  · rename_i t ht
    split
    · exact KR.refl s
    · rename_i hc
      have hk : t.kind = .connect := by
        cases h : t.kind <;> simp [h] at hc <;> rfl
      have h0 : KR s (setTask s tid fun t => { t with mustCancel := true }) := by
        refine ⟨?_, ?_, ?_⟩
        · intro i t0 hi
          refine ⟨if tid = i then { t0 with mustCancel := true } else t0, ?_, by split <;> rfl⟩
          simp only [setTask, List.getElem?_modify, hi, Option.map_eq_map, Option.map_some]
        · intro i t' hi
          obtain ⟨t0, h0, rfl⟩ := getElem?_setTask hi
          exact Or.inl ⟨t0, h0, by split <;> rfl⟩
        · intro i t' hi hmc
          obtain ⟨t0, h0, rfl⟩ := getElem?_setTask hi
          by_cases hti : tid = i
          · subst hti
            rw [if_pos rfl]
            have : t0 = t := by rw [ht] at h0; exact (Option.some.inj h0).symm
            exact Or.inl (by rw [this]; exact hk)
          · rw [if_neg hti] at hmc ⊢
            exact Or.inr ⟨t0, h0, hmc, rfl⟩
      dsimp only
      split
      · split
        · exact h0.trans (KR.ofEq rfl)
        · exact h0
      · split
        · exact h0
        · exact h0.trans (KR.ofEq rfl)

theorem kr_cancelConnectTask (s : St) : KR s (cancelConnectTask s) := by
  unfold cancelConnectTask
  split
  · exact (kr_cancelTask s _).trans (KR.ofEq rfl)
  · exact KR.refl s

theorem KR.nonDisc {s s' : St} (h : KR s s') (tid : Nat) (hk : NonDisc s tid) : NonDisc s' tid := by
  intro t' ht'
  rcases h.bwd tid t' ht' with ⟨t, ht, k⟩ | k
  · rw [← k]; exact hk t ht
  · rw [k]; rfl

def NoStopTask (s : St) : Prop := ∀ (i : Nat) (t : Task), s.tasks[i]? = some t → t.kind ≠ .stopCall

theorem KR.noStop {s s' : St} (h : KR s s') (hn : NoStopTask s) : NoStopTask s' := by
  intro i t' ht'
  rcases h.bwd i t' ht' with ⟨t, ht, k⟩ | k
  · rw [← k]; exact hn i t ht
  · rw [k]; intro hc; cases hc

/-- only connect tasks carry a pending cancellation -/
def MC (s : St) : Prop := ∀ (i : Nat) (t : Task), s.tasks[i]? = some t → t.mustCancel = true → t.kind = .connect

theorem KR.mcInv {s s' : St} (h : KR s s') (hm : MC s) : MC s' := by
  intro i t' ht' hmc
  rcases h.mc i t' ht' hmc with hk | ⟨t, ht, m, k⟩
  · exact hk
  · rw [← k]; exact hm i t ht m

theorem kr_finish (s : St) (tid : Nat) : KR s (finish s tid) :=
  kr_setTask s tid _ (fun _ => rfl) (fun _ h => by simp at h)
theorem kr_release (s : St) : KR s (release s) := KR.ofEq (by simp)

theorem kr_afterFail (s : St) (tid : Nat) : KR s (afterFail s tid) := by
  unfold afterFail
  dsimp only
  refine KR.trans (KR.ofEq ?_) (kr_finish _ tid)
  simp only [tasks_release, tasks_emit, tasks_cancelTimer]
  split <;> simp

theorem kr_acquire (s : St) (tid : Nat) : KR s (acquire s tid).1 := by
  unfold acquire
  split
  · exact KR.ofEq rfl
  · exact (KR.ofEq (s := s) (s' := { s with waiters := s.waiters ++ [(tid, .pending)] }) rfl).trans
      (kr_setTask _ tid _ (fun _ => rfl) (fun _ h => Or.inl h))

theorem kr_failEnd (s : St) (k : ErrK) (tid : Nat) : KR s (failEnd s k tid) := by
  unfold failEnd
  exact (KR.ofEq (s := s) (s' := emit { s with tries := if k = .auth then maxTries else s.tries + 1 } (.failCounted k)) rfl).trans
    (kr_afterFail _ tid)

theorem kr_failBegin (s : St) (k : ErrK) (tid : Nat) : KR s (failBegin s k tid) := by
  unfold failBegin
  dsimp only
  have e1 : KR s (emit (setState s .disconnected) (.onConnectError k)) := KR.ofEq rfl
  split
  · exact e1.trans (kr_setTask _ tid _ (fun _ => rfl) (fun _ h => by simp at h))
  · exact e1.trans (kr_failEnd _ k tid)

theorem kr_connectLocked (s : St) (tid : Nat) : KR s (connectLocked s tid) := by
  unfold connectLocked
  split
  · exact (kr_release s).trans (kr_finish _ tid)
  · dsimp only
    split
    · exact (KR.ofEq (s := s) (s' := emit (setState s .connecting) .attempt) rfl).trans (kr_failBegin _ .other tid)
    · exact (KR.ofEq (s := s) (s' := { emit (setState s .connecting) .attempt with cli := .starting }) rfl).trans
        (kr_setTask _ tid _ (fun _ => rfl) (fun _ h => Or.inl h))

theorem kr_spawnConnect (s : St) : KR s (spawnConnect s) := by
  unfold spawnConnect
  dsimp only
  have h1 := kr_append_connect s
  generalize hs1 : ({ s with tasks := s.tasks ++ [{ kind := Kind.connect, pc := Pc.running }] } : St) = s1 at h1
  have h2 := h1.trans (kr_acquire s1 s.tasks.length)
  cases hg : (acquire s1 s.tasks.length).2
  · rw [show acquire s1 s.tasks.length = ((acquire s1 s.tasks.length).1, false) from by rw [← hg]]
    exact h2.trans (KR.ofEq rfl)
  · rw [show acquire s1 s.tasks.length = ((acquire s1 s.tasks.length).1, true) from by rw [← hg]]
    exact (h2.trans (kr_connectLocked _ _)).trans (KR.ofEq rfl)

theorem kr_callConnectOnce (s : St) : KR s (callConnectOnce s) := by
  unfold callConnectOnce
  split
  · split
    · exact kr_spawnConnect s
    · split
      · exact KR.refl s
      · exact ((kr_cancelConnectTask s).trans (KR.ofEq (s := cancelConnectTask s) (s' := setState (cancelConnectTask s) .disconnected) rfl)).trans
          (kr_spawnConnect _)
  · exact kr_spawnConnect s

theorem kr_scheduleConnect (s : St) (d : Nat) : KR s (scheduleConnect s d) := by
  unfold scheduleConnect
  split
  · exact kr_callConnectOnce s
  · exact KR.ofEq rfl

/-! ## `Alt` through the procedures -/

theorem alt_connectLocked (s : St) (tid : Nat) (hk : NonDisc s tid) (h : Alt s) : Alt (connectLocked s tid) := by
  unfold connectLocked
  split
  · exact alt_finish _ tid (fun t ht => NonDisc.pend hk t (by simpa using ht)) (alt_release s h)
  · rename_i hc
    have hst : s.state = .disconnected := by
      cases hs : s.state <;> simp [hs] at hc <;> rfl
    have hnr : s.state ≠ .ready := by rw [hst]; decide
    have hnl := not_live_of_not_ready s h hnr
    dsimp only
    have hcl : (emit (setState s .connecting) .attempt).cli ≠ .live := hnl
    rw [if_neg hcl]
    -- what `Alt` reads of the tasks changes at `tid` only: it becomes in-flight, the state is CONNECTING
    have h1 : Alt { emit (setState s .connecting) .attempt with cli := .starting } :=
      alt_not_ready h hnr rfl (by simp [setState]) (by simp) (by simp [emit, setState, altState_append])
    have hnpd : ¬PD ({ emit (setState s .connecting) .attempt with cli := .starting } : St) :=
      not_PD_of_not_ready _ h1 (by simp [setState])
    constructor
    · intro hl; simp [setTask] at hl
    · intro _ _ _ _; simp [setTask, setState]
    · intro i t' hi hp
      obtain ⟨t0, h0, rfl⟩ := getElem?_setTask hi
      exfalso
      split at hp
      · rename_i heq; subst heq
        have := hk t0 (by simpa using h0)
        simp [pendD, this] at hp
      · exact hnpd ⟨i, t0, h0, hp⟩
    · intro i j ti tj hi _ hpi _
      obtain ⟨t0, h0, rfl⟩ := getElem?_setTask hi
      exfalso
      split at hpi
      · rename_i heq; subst heq
        have := hk t0 (by simpa using h0)
        simp [pendD, this] at hpi
      · exact hnpd ⟨i, t0, h0, hpi⟩
    · intro hr; simp [setTask, setState] at hr
    · rintro (hl | ⟨i, t', hi, hp⟩)
      · simp [setTask] at hl
      · obtain ⟨t0, h0, rfl⟩ := getElem?_setTask hi
        exfalso
        split at hp
        · rename_i heq; subst heq
          have := hk t0 (by simpa using h0)
          simp [pendD, this] at hp
        · exact hnpd ⟨i, t0, h0, hp⟩
    · intro _
      have := h1.a5c (by rintro (hl | hp); simp at hl; exact hnpd hp)
      simpa [setTask] using this

theorem alt_append (s : St) (k : Kind) (hk : isDiscK k = false) (h : Alt s) :
    Alt { s with tasks := s.tasks ++ [{ kind := k, pc := .running }] } := by
  refine h.mono ?_ ?_ rfl rfl rfl
  · intro i t' hi
    simp only at hi
    rcases Nat.lt_or_ge i s.tasks.length with hlt | hge
    · rw [List.getElem?_append_left hlt] at hi; exact Or.inl ⟨t', hi, id, rfl⟩
    · rw [List.getElem?_append_right hge] at hi
      cases hj : i - s.tasks.length with
      | zero =>
        simp [hj] at hi
        exact Or.inr (by rw [← hi]; simp [tryPc, pendD, hk])
      | succ j => simp [hj] at hi
  · rintro ⟨i, t, hi, hp⟩
    exact ⟨i, t, by simp only; rw [List.getElem?_append_left (List.getElem?_eq_some_iff.mp hi).1]; exact hi, hp⟩

theorem alt_acquire (s : St) (tid : Nat) (h : Alt s) (hr : ∀ t, s.tasks[tid]? = some t → t.pc = .running) :
    Alt (acquire s tid).1 := by
  unfold acquire
  split
  · exact h.same rfl rfl rfl rfl
  · refine alt_setTask_proj _ tid _ ?_ (h.same rfl rfl rfl rfl)
    intro t ht
    have := hr t ht
    simp only [proj, pendD, this, tryPc]
    cases isDiscK t.kind <;> rfl

theorem alt_spawnConnect (s : St) (h : Alt s) : Alt (spawnConnect s) := by
  unfold spawnConnect
  dsimp only
  have h1 := alt_append s .connect rfl h
  generalize hs1 : ({ s with tasks := s.tasks ++ [{ kind := Kind.connect, pc := Pc.running }] } : St) = s1 at h1
  have hnew : ∀ t, s1.tasks[s.tasks.length]? = some t → t.pc = .running ∧ isDiscK t.kind = false := by
    intro t ht; rw [← hs1] at ht; simp at ht; rw [← ht]; exact ⟨rfl, rfl⟩
  have h2 := alt_acquire s1 s.tasks.length h1 (fun t ht => (hnew t ht).1)
  cases hg : (acquire s1 s.tasks.length).2
  · rw [show acquire s1 s.tasks.length = ((acquire s1 s.tasks.length).1, false) from by rw [← hg]]
    exact h2.same rfl rfl rfl rfl
  · rw [show acquire s1 s.tasks.length = ((acquire s1 s.tasks.length).1, true) from by rw [← hg]]
    refine (alt_connectLocked _ _ ?_ h2).same rfl rfl rfl rfl
    exact (kr_acquire s1 s.tasks.length).nonDisc _ (fun t ht => (hnew t ht).2)

theorem Sim.map_proj {s s' : St} (h : Sim s s') : s'.tasks.map proj = s.tasks.map proj := by
  apply List.ext_getElem?
  intro i
  simp only [List.getElem?_map]
  cases h' : s'.tasks[i]? with
  | none =>
    have : s.tasks[i]? = none := by
      rw [List.getElem?_eq_none_iff] at h' ⊢; rw [← h.len]; exact h'
    simp [this]
  | some t' =>
    obtain ⟨t0, h0, hp, hk⟩ := h.t i t' h'
    simp [h0, proj, pendD, hp, hk]

theorem alt_callConnectOnce (s : St) (h : Alt s) : Alt (callConnectOnce s) := by
  unfold callConnectOnce
  split
  · split
    · exact alt_spawnConnect s h
    · split
      · exact h
      · rename_i hc
        have hst : s.state = .connecting := by simpa using hc
        apply alt_spawnConnect
        have hnr : s.state ≠ .ready := by rw [hst]; decide
        refine alt_not_ready h hnr (s' := setState (cancelConnectTask s) .disconnected)
          (by simpa using Sim.map_proj (cancelConnectTask_sim s)) (by simp [setState]) ?_ ?_
        · simp only [cli_setState, cli_cancelConnectTask]; exact not_live_of_not_ready s h hnr
        · simp only [log_setState]; rw [(cancelConnectTask_ctl s).log]
  · exact alt_spawnConnect s h

theorem alt_scheduleConnect (s : St) (d : Nat) (h : Alt s) : Alt (scheduleConnect s d) := by
  unfold scheduleConnect
  split
  · exact alt_callConnectOnce s h
  · exact h.same rfl rfl rfl (by simp [emit, altState_append])

/-- the rest of `_on_disconnect` once `on_disconnect` has returned: the task is past its report -/
theorem alt_discEnd (s : St) (tid : Nat) (e : Bool) (hk : ∀ t, s.tasks[tid]? = some t → pendD t = false) (h : Alt s) :
    Alt (discEnd s tid e) := by
  unfold discEnd
  dsimp only
  have h2 : Alt (finish (release s) tid) := alt_finish _ tid (fun t ht => hk t (by simpa using ht)) (alt_release s h)
  split
  · exact h2
  · exact alt_scheduleConnect _ _ h2

/-- the report of a session's end, with the lock held: `on_disconnect` is called; afterwards the task is either suspended
in it (`f` = "pc := inOnDisc") or finished (`f` = "pc := done") -/
theorem alt_reported (s : St) (tid : Nat) (e : Bool) (t : Task) (ht : s.tasks[tid]? = some t) (hp : pendD t = true)
    (h : Alt s) (f : Task → Task) (hf : ∀ t, pendD (f t) = false ∧ tryPc (f t).pc = false) :
    Alt (setTask (emit (setState s .disconnected) (.onDisconnect e)) tid f) := by
  have hci := (h.a3 tid t ht hp).1
  have hopen := h.a5o (Or.inr ⟨tid, t, ht, hp⟩)
  have hnpd : ¬PD (setTask (emit (setState s .disconnected) (.onDisconnect e)) tid f) := by
    rintro ⟨i, t', hi, hp'⟩
    obtain ⟨t0, h0, rfl⟩ := getElem?_setTask hi
    have h0' : s.tasks[i]? = some t0 := by simpa using h0
    by_cases hti : tid = i
    · rw [if_pos hti, (hf t0).1] at hp'; cases hp'
    · rw [if_neg hti] at hp'
      exact hti (h.a3u tid i t t0 ht h0' hp hp')
  constructor
  · intro hl; simp [hci] at hl
  · intro _ _ _ _; simp [setTask, setState]
  · intro i t' hi hp'; exact absurd ⟨i, t', hi, hp'⟩ hnpd
  · intro i j ti tj hi _ hpi _; exact absurd ⟨i, ti, hi, hpi⟩ hnpd
  · intro hr; simp [setTask, setState] at hr
  · rintro (hl | hpd)
    · simp [hci] at hl
    · exact absurd hpd hnpd
  · intro _
    simp [setTask, emit, setState, altState_append, hopen, altStep]

theorem alt_discLocked (s : St) (tid : Nat) (e : Bool) (t : Task) (ht : s.tasks[tid]? = some t) (hp : pendD t = true)
    (h : Alt s) : Alt (discLocked s tid e) := by
  unfold discLocked
  dsimp only
  split
  · exact alt_reported s tid e t ht hp h _ (fun t => ⟨pendD_false_of_pc _ (by simp), rfl⟩)
  · -- not suspended: finish at once; `release` does not touch what `Alt` reads
    unfold discEnd
    dsimp only
    have h2 : Alt (finish (release (emit (setState s .disconnected) (.onDisconnect e))) tid) := by
      have := alt_reported s tid e t ht hp h (fun t => { t with pc := .done, mustCancel := false, result := none })
        (fun t => ⟨pendD_false_of_pc _ (by simp), rfl⟩)
      exact this.same (by simp [finish, setTask]) (by simp [finish, setTask]) (by simp [finish, setTask]) (by simp [finish, setTask])
    split
    · exact h2
    · exact alt_scheduleConnect _ _ h2

theorem alt_startLocked (s : St) (tid : Nat) (hk : NonDisc s tid) (h : Alt s) : Alt (startLocked s tid) := by
  unfold startLocked
  dsimp only
  have key : ∀ X : St, KR s X → Alt X → Alt (emit (finish (release X) tid) .startRet) := by
    intro X kx hx
    refine (alt_finish _ tid ?_ (alt_release X hx)).same rfl rfl rfl (by simp [emit, altState_append])
    exact NonDisc.pend ((kx.trans (kr_release X)).nonDisc tid hk)
  apply key
  · split
    · exact KR.ofEq rfl
    · exact (KR.ofEq (s := s) (s' := emit { { s with stopped := false } with tries := 0 } .resetTries) rfl).trans (kr_scheduleConnect _ 0)
  · split
    · exact h.same rfl rfl rfl rfl
    · exact alt_scheduleConnect _ 0 (h.same rfl rfl rfl (by simp [emit, altState_append]))

/-- a body runs for the task at `tid` whose kind is `k` (never `stop()`) -/
theorem alt_lockedBody (s : St) (tid : Nat) (t : Task) (ht : s.tasks[tid]? = some t) (hnd : t.pc = .running)
    (hs : t.kind ≠ .stopCall) (h : Alt s) : Alt (lockedBody s tid t.kind) := by
  unfold lockedBody
  split
  · rename_i hk
    exact alt_connectLocked s tid (fun t' ht' => by rw [ht] at ht'; cases ht'; simp [hk, isDiscK]) h
  · rename_i e hk
    exact alt_discLocked s tid e t ht (by simp [pendD, hk, isDiscK, hnd]) h
  · rename_i hk
    exact alt_startLocked s tid (fun t' ht' => by rw [ht] at ht'; cases ht'; simp [hk, isDiscK]) h
  · rename_i hk; exact absurd hk hs

/-- spawning a task that is not a disconnect report -/
theorem alt_spawn_nondisc (s : St) (k : Kind) (hk : isDiscK k = false) (hs : k ≠ .stopCall) (h : Alt s) : Alt (spawn s k) := by
  unfold spawn
  dsimp only
  have h1 := alt_append s k hk h
  generalize hs1 : ({ s with tasks := s.tasks ++ [{ kind := k, pc := Pc.running }] } : St) = s1 at h1
  have hnew : s1.tasks[s.tasks.length]? = some { kind := k, pc := .running } := by rw [← hs1]; simp
  have h2 := alt_acquire s1 s.tasks.length h1 (fun t ht => by rw [hnew] at ht; cases ht; rfl)
  cases hg : (acquire s1 s.tasks.length).2
  · rw [show acquire s1 s.tasks.length = ((acquire s1 s.tasks.length).1, false) from by rw [← hg]]
    simp only [Bool.false_eq_true, ↓reduceIte]
    exact h2
  · rw [show acquire s1 s.tasks.length = ((acquire s1 s.tasks.length).1, true) from by rw [← hg]]
    simp only [↓reduceIte]
    -- the lock was free: the task is still the one just appended
    have hacq : (acquire s1 s.tasks.length).1.tasks = s1.tasks := by
      unfold acquire at hg ⊢
      split
      · rfl
      · rename_i hf; simp [hf] at hg
    have ht : (acquire s1 s.tasks.length).1.tasks[s.tasks.length]? = some { kind := k, pc := .running } := by rw [hacq]; exact hnew
    exact alt_lockedBody _ _ _ ht (by simp) hs h2

/-- the end of a live session: the client forgets the connection and the report task is created (and runs if it can) -/
theorem alt_sessionEnd (s : St) (e : Bool) (hl : s.cli = .live) (h : Alt s) : Alt (spawn { s with cli := .idle } (.disc e)) := by
  have hready := h.a1 hl
  have hnpd : ¬PD s := by
    rintro ⟨i, t, hi, hp⟩
    have := (h.a3 i t hi hp).1; rw [hl] at this; cases this
  have hopen := h.a5o (Or.inl hl)
  unfold spawn
  dsimp only
  -- with the new (pending) report task the sequence stays "open"
  have h1 : Alt ({ { s with cli := .idle } with tasks := s.tasks ++ [{ kind := .disc e, pc := .running }] } : St) := by
    have hidx : ∀ (i : Nat) (t' : Task), (s.tasks ++ [({ kind := .disc e, pc := .running } : Task)])[i]? = some t' →
        (s.tasks[i]? = some t') ∨ (i = s.tasks.length ∧ t' = { kind := .disc e, pc := .running }) := by
      intro i t' hi
      rcases Nat.lt_or_ge i s.tasks.length with hlt | hge
      · rw [List.getElem?_append_left hlt] at hi; exact Or.inl hi
      · rw [List.getElem?_append_right hge] at hi
        cases hj : i - s.tasks.length with
        | zero => simp [hj] at hi; exact Or.inr ⟨by omega, hi.symm⟩
        | succ j => simp [hj] at hi
    constructor
    · intro hc; cases hc
    · intro i t' hi hp
      rcases hidx i t' hi with h0 | ⟨_, rfl⟩
      · exact h.a2 i t' h0 hp
      · simp [tryPc] at hp
    · intro i t' hi hp
      exact ⟨rfl, hready⟩
    · intro i j ti tj hi hj hpi hpj
      rcases hidx i ti hi with h0 | ⟨hi', _⟩
      · exact absurd ⟨i, ti, h0, hpi⟩ hnpd
      · rcases hidx j tj hj with h1 | ⟨hj', _⟩
        · exact absurd ⟨j, tj, h1, hpj⟩ hnpd
        · omega
    · intro _; right
      exact ⟨s.tasks.length, { kind := .disc e, pc := .running }, by simp, by simp [pendD, isDiscK]⟩
    · intro _; exact hopen
    · intro hn; exfalso; apply hn; right
      exact ⟨s.tasks.length, { kind := .disc e, pc := .running }, by simp, by simp [pendD, isDiscK]⟩
  generalize hs1 : ({ { s with cli := .idle } with tasks := s.tasks ++ [{ kind := Kind.disc e, pc := Pc.running }] } : St) = s1 at h1
  have hnew : s1.tasks[s.tasks.length]? = some { kind := .disc e, pc := .running } := by rw [← hs1]; simp
  have h2 := alt_acquire s1 s.tasks.length h1 (fun t ht => by rw [hnew] at ht; cases ht; rfl)
  show Alt (if (acquire s1 s.tasks.length).2 = true then lockedBody (acquire s1 s.tasks.length).1 s.tasks.length (.disc e)
    else (acquire s1 s.tasks.length).1)
  cases hg : (acquire s1 s.tasks.length).2
  · simp only [Bool.false_eq_true, ↓reduceIte]; exact h2
  · simp only [↓reduceIte]
    have hacq : (acquire s1 s.tasks.length).1.tasks = s1.tasks := by
      unfold acquire at hg ⊢
      split
      · rfl
      · rename_i hf; simp [hf] at hg
    have ht : (acquire s1 s.tasks.length).1.tasks[s.tasks.length]? = some { kind := .disc e, pc := .running } := by rw [hacq]; exact hnew
    exact alt_lockedBody _ _ _ ht (by simp) (by simp) h2

/-! ## the kind relation through the remaining procedures (histories without `stop()`) -/

theorem kr_discEnd (s : St) (tid : Nat) (e : Bool) : KR s (discEnd s tid e) := by
  unfold discEnd
  dsimp only
  have h1 : KR s (finish (release s) tid) := (kr_release s).trans (kr_finish _ tid)
  split
  · exact h1
  · exact h1.trans (kr_scheduleConnect _ _)

theorem kr_discLocked (s : St) (tid : Nat) (e : Bool) : KR s (discLocked s tid e) := by
  unfold discLocked
  dsimp only
  have h1 : KR s (emit (setState s .disconnected) (.onDisconnect e)) := KR.ofEq rfl
  split
  · exact h1.trans (kr_setTask _ tid _ (fun _ => rfl) (fun _ h => Or.inl h))
  · exact h1.trans (kr_discEnd _ _ _)

theorem kr_startLocked (s : St) (tid : Nat) : KR s (startLocked s tid) := by
  unfold startLocked
  dsimp only
  have key : ∀ X : St, KR s X → KR s (emit (finish (release X) tid) .startRet) := by
    intro X kx
    exact ((kx.trans (kr_release X)).trans (kr_finish _ tid)).trans (KR.ofEq rfl)
  apply key
  split
  · exact KR.ofEq rfl
  · exact (KR.ofEq (s := s) (s' := emit { { s with stopped := false } with tries := 0 } .resetTries) rfl).trans (kr_scheduleConnect _ 0)

theorem kr_lockedBody (s : St) (tid : Nat) (k : Kind) (hk : k ≠ .stopCall) : KR s (lockedBody s tid k) := by
  unfold lockedBody
  split
  · exact kr_connectLocked s tid
  · exact kr_discLocked s tid _
  · exact kr_startLocked s tid
  · exact absurd rfl hk

/-- spawning a task of kind `k`: the relation holds up to the new task, whose kind is `k` -/
theorem spawn_tasks (s : St) (k : Kind) (hk : k ≠ .stopCall) (hn : NoStopTask s) (hm : MC s) :
    NoStopTask (spawn s k) ∧ MC (spawn s k) := by
  unfold spawn
  dsimp only
  have hn1 : NoStopTask ({ s with tasks := s.tasks ++ [{ kind := k, pc := .running }] } : St) := by
    intro i t hi
    rcases kr_append s k (Or.inr trivial) i t hi with h0 | ⟨_, rfl⟩
    · exact hn i t h0
    · exact hk
  have hm1 : MC ({ s with tasks := s.tasks ++ [{ kind := k, pc := .running }] } : St) := by
    intro i t hi hmc
    rcases kr_append s k (Or.inr trivial) i t hi with h0 | ⟨_, rfl⟩
    · exact hm i t h0 hmc
    · simp at hmc
  generalize ({ s with tasks := s.tasks ++ [{ kind := k, pc := Pc.running }] } : St) = s1 at hn1 hm1
  have k2 := kr_acquire s1 s.tasks.length
  cases hg : (acquire s1 s.tasks.length).2
  · rw [show acquire s1 s.tasks.length = ((acquire s1 s.tasks.length).1, false) from by rw [← hg]]
    simp only [Bool.false_eq_true, ↓reduceIte]
    exact ⟨k2.noStop hn1, k2.mcInv hm1⟩
  · rw [show acquire s1 s.tasks.length = ((acquire s1 s.tasks.length).1, true) from by rw [← hg]]
    simp only [↓reduceIte]
    have k3 := k2.trans (kr_lockedBody _ s.tasks.length k hk)
    exact ⟨k3.noStop hn1, k3.mcInv hm1⟩

theorem kr_wakeTask (s : St) (tid : Nat) (t : Task) (hk : t.kind ≠ .stopCall) : KR s (wakeTask s tid t) := by
  unfold wakeTask
  split
  · exact KR.refl s
  · exact KR.refl s
  · dsimp only
    split
    · have w2 : KR s (if (removeWaiter s tid).locked = true then removeWaiter s tid else wakeUpFirst (removeWaiter s tid)) := by
        split
        · exact KR.ofEq rfl
        · exact KR.ofEq (by simp)
      exact w2.trans (kr_finish _ tid)
    · split
      · have e1 : KR s { removeWaiter s tid with locked := true } := KR.ofEq rfl
        have e2 : KR { removeWaiter s tid with locked := true }
            (setTask { removeWaiter s tid with locked := true } tid fun t => { t with pc := .running }) :=
          kr_setTask _ tid _ (fun _ => rfl) (fun _ h => Or.inl h)
        exact (e1.trans e2).trans (kr_lockedBody _ tid t.kind hk)
      · exact KR.refl s
  · split
    · exact (KR.ofEq (s := s) (s' := { s with cli := .idle }) rfl).trans (kr_failBegin _ _ tid)
    · split
      · have e1 : KR s (setState (stopZc { s with cli := .finishing }) .handshaking) := KR.ofEq (by simp)
        have e2 : KR (setState (stopZc { s with cli := .finishing }) .handshaking)
            (setTask (setState (stopZc { s with cli := .finishing }) .handshaking) tid fun t => { t with pc := .inFinish, result := none }) :=
          kr_setTask _ tid _ (fun _ => rfl) (fun _ h => Or.inl h)
        exact e1.trans e2
      · exact (KR.ofEq (s := s) (s' := { s with cli := .idle }) rfl).trans (kr_failBegin _ _ tid)
      · exact KR.refl s
  · split
    · exact (KR.ofEq (s := s) (s' := { s with cli := .idle }) rfl).trans (kr_failBegin _ _ tid)
    · split
      · dsimp only
        have e1 : KR s (emit (setState { s with cli := .live, tries := 0 } .ready) .onConnect) := KR.ofEq rfl
        split
        · exact e1.trans (kr_setTask _ tid _ (fun _ => rfl) (fun _ h => Or.inl h))
        · exact e1.trans ((kr_release _).trans (kr_finish _ tid))
      · exact (KR.ofEq (s := s) (s' := { s with cli := .idle }) rfl).trans (kr_failBegin _ _ tid)
      · exact KR.refl s
  · split
    · exact (kr_release s).trans (kr_finish _ tid)
    · exact KR.refl s
  · split
    · exact (kr_release s).trans (kr_finish _ tid)
    · split
      · exact kr_failEnd s _ tid
      · exact KR.refl s
  · split
    · split
      · exact kr_discEnd s tid _
      · exact KR.refl s
    · exact KR.refl s

/-! ## wake-ups and events -/

/-- the session is established: `on_connect` is called; afterwards the task is suspended in it or finished -/
theorem alt_connected (s : St) (tid : Nat) (t : Task) (hl : LockInv s) (h : Alt s) (ht : s.tasks[tid]? = some t)
    (hp : tryPc t.pc = true) (f : Task → Task) (hf : ∀ t, pendD (f t) = false ∧ tryPc (f t).pc = false) :
    Alt (setTask (emit (setState { s with cli := .live, tries := 0 } .ready) .onConnect) tid f) := by
  have hnr := h.a2 tid t ht hp
  have hnpd := not_PD_of_not_ready s h hnr
  have hnl := not_live_of_not_ready s h hnr
  have hclosed := h.a5c (by rintro (hl' | hp'); exact hnl hl'; exact hnpd hp')
  have hheld := held_of_inflight s tid t hl ht (try_inflight _ hp)
  have hnpd' : ¬PD (setTask (emit (setState { s with cli := .live, tries := 0 } .ready) .onConnect) tid f) := by
    rintro ⟨i, t', hi, hp'⟩
    obtain ⟨t0, h0, rfl⟩ := getElem?_setTask hi
    by_cases hti : tid = i
    · rw [if_pos hti, (hf t0).1] at hp'; cases hp'
    · rw [if_neg hti] at hp'; exact hnpd ⟨i, t0, by simpa using h0, hp'⟩
  constructor
  · intro _; simp [setTask, setState]
  · intro i t' hi hp'
    obtain ⟨t0, h0, rfl⟩ := getElem?_setTask hi
    by_cases hti : tid = i
    · rw [if_pos hti, (hf t0).2] at hp'; cases hp'
    · rw [if_neg hti] at hp'
      have := hheld.n i t0 (Ne.symm hti) (by simpa using h0)
      rw [try_inflight _ hp'] at this; cases this
  · intro i t' hi hp'; exact absurd ⟨i, t', hi, hp'⟩ hnpd'
  · intro i j ti tj hi _ hpi _; exact absurd ⟨i, ti, hi, hpi⟩ hnpd'
  · intro _; left; simp [setTask]
  · intro _; simp [setTask, emit, setState, altState_append, hclosed, altStep]
  · intro hc; exfalso; apply hc; left; simp [setTask]

theorem alt_wakeTask (s : St) (tid : Nat) (t : Task) (hl : LockInv s) (hn : NoStopTask s) (hm : MC s) (h : Alt s)
    (ht : s.tasks[tid]? = some t) :
    Alt (wakeTask s tid t) := by
  unfold wakeTask
  split
  · exact h
  · exact h
  · rename_i hpc
    dsimp only
    split
    · -- a cancelled waiter: only connect tasks are ever cancelled
      rename_i hmc
      have hk := hm tid t ht hmc
      have hnd : NonDisc s tid := fun t' ht' => by rw [ht] at ht'; cases ht'; simp [hk, isDiscK]
      have h1 : Alt (if (removeWaiter s tid).locked = true then removeWaiter s tid else wakeUpFirst (removeWaiter s tid)) := by
        split
        · exact h.same rfl rfl rfl rfl
        · exact h.same (by simp) (by simp) (by simp) (by simp)
      refine alt_finish _ tid ?_ h1
      intro t' ht'
      refine NonDisc.pend hnd t' ?_
      have : (if (removeWaiter s tid).locked = true then removeWaiter s tid else wakeUpFirst (removeWaiter s tid)).tasks = s.tasks := by
        split <;> simp
      rw [this] at ht'; exact ht'
    · split
      · -- the lock is granted: the body of the task runs
        have h1 : Alt (setTask { removeWaiter s tid with locked := true } tid fun t => { t with pc := .running }) := by
          refine alt_setTask_proj _ tid _ ?_ (h.same rfl rfl rfl rfl)
          intro t' ht'
          have : t' = t := by
            have h0 : s.tasks[tid]? = some t' := ht'
            rw [ht] at h0; exact (Option.some.inj h0).symm
          subst this
          simp only [proj, pendD, hpc, tryPc]
          cases isDiscK t'.kind <;> rfl
        have ht1 : (setTask { removeWaiter s tid with locked := true } tid fun t => { t with pc := .running }).tasks[tid]? =
            some { t with pc := .running } := by
          simp only [setTask]
          rw [List.getElem?_modify_eq]
          show Option.map _ (s.tasks[tid]?) = _
          rw [ht]; rfl
        have := alt_lockedBody _ tid { t with pc := .running } ht1 rfl (hn tid t ht) h1
        exact this
      · exact h
  · -- inStart
    rename_i hpc
    have hp : tryPc t.pc = true := by simp [hpc, tryPc]
    split
    · exact alt_failBegin s tid t .other h ht hp
    · split
      · -- the socket is open: the task goes on into finish_connection
        have hnr := h.a2 tid t ht hp
        have h1 : Alt (setState (stopZc { s with cli := .finishing }) .handshaking) :=
          alt_not_ready h hnr (by simp) (by simp [setState]) (by simp) (by simp; unfold stopZc; split <;> simp [emit, altState_append])
        refine alt_setTask_proj _ tid _ ?_ h1
        intro t' ht'
        have h0 : s.tasks[tid]? = some t' := by simpa using ht'
        have : t' = t := by rw [ht] at h0; exact (Option.some.inj h0).symm
        subst this
        have hpd := pendD_false_of_try t' hp
        have hpd' : pendD { t' with pc := .inFinish, result := none } = false := pendD_false_of_pc _ (by simp)
        simp only [proj, hp, hpd, hpd']
        rfl
      · rename_i k _
        exact alt_failBegin s tid t k h ht hp
      · exact h
  · -- inFinish
    rename_i hpc
    have hp : tryPc t.pc = true := by simp [hpc, tryPc]
    split
    · exact alt_failBegin s tid t .other h ht hp
    · split
      · -- the session is established: on_connect
        dsimp only
        split
        · exact alt_connected s tid t hl h ht hp _ (fun t => ⟨pendD_false_of_pc _ (by simp), rfl⟩)
        · have := alt_connected s tid t hl h ht hp (fun t => { t with pc := .done, mustCancel := false, result := none })
            (fun t => ⟨pendD_false_of_pc _ (by simp), rfl⟩)
          exact this.same (by simp [finish, setTask]) (by simp [finish, setTask]) (by simp [finish, setTask]) (by simp [finish, setTask])
      · rename_i k _
        exact alt_failBegin s tid t k h ht hp
      · exact h
  · -- inOnConnect: the callback returned (or the task was cancelled in it): the lock is released
    rename_i hpc
    split
    · refine alt_finish _ tid ?_ (alt_release s h)
      intro t' ht'
      have h0 : s.tasks[tid]? = some t' := by simpa using ht'
      rw [ht] at h0; cases h0
      exact pendD_false_of_pc _ (by simp [hpc])
    · exact h
  · -- inOnError
    rename_i k hpc
    have hp : tryPc t.pc = true := by simp [hpc, tryPc]
    split
    · refine alt_finish _ tid ?_ (alt_release s h)
      intro t' ht'
      have h0 : s.tasks[tid]? = some t' := by simpa using ht'
      rw [ht] at h0; cases h0
      exact pendD_false_of_try _ hp
    · split
      · exact alt_failEnd s tid t k h ht hp
      · exact h
  · -- inOnDisc: `on_disconnect` returned
    rename_i hpc
    split
    · split
      · refine alt_discEnd s tid _ ?_ h
        intro t' ht'
        rw [ht] at ht'; cases ht'
        exact pendD_false_of_pc _ (by simp [hpc])
      · exact h
    · exact h

/-- everything `Alt` needs of a state -/
structure AltInv (s : St) : Prop where
  lock : LockInv s
  nostop : NoStopTask s
  mc : MC s
  alt : Alt s

theorem AltInv.mk' {s : St} (hl : LockInv s) (p : NoStopTask s ∧ MC s ∧ Alt s) : AltInv s := ⟨hl, p.1, p.2.1, p.2.2⟩

theorem complete_facts (s : St) (pc : Pc) (r : Res) : KR s (complete s pc r) ∧ (Alt s → Alt (complete s pc r)) := by
  unfold complete
  split
  · rename_i tid _
    have e1 : KR s (setTask s tid fun t => { t with result := some r }) :=
      kr_setTask s tid _ (fun _ => rfl) (fun _ h => Or.inl h)
    refine ⟨e1.trans (KR.ofEq rfl), fun h => ?_⟩
    have a1 : Alt (setTask s tid fun t => { t with result := some r }) := alt_setTask_proj s tid _ (fun _ _ => rfl) h
    exact a1.same rfl rfl rfl rfl
  · exact ⟨KR.refl s, id⟩

theorem step_altInv (s : St) (e : Ev) (he : e ≠ .callStop) (h : AltInv s) : AltInv (step s e) := by
  obtain ⟨hl, hn, hm, ha⟩ := h
  have hlock := step_inv s e hl
  cases e with
  | callStop => exact absurd rfl he
  | callStart =>
    obtain ⟨n', m'⟩ := spawn_tasks s .startCall (by decide) hn hm
    exact ⟨hlock, n', m', alt_spawn_nondisc s .startCall rfl (by decide) ha⟩
  | startDone r =>
    obtain ⟨k, a⟩ := complete_facts s .inStart r
    exact ⟨hlock, k.noStop hn, k.mcInv hm, a ha⟩
  | finishDone r =>
    obtain ⟨k, a⟩ := complete_facts s .inFinish r
    exact ⟨hlock, k.noStop hn, k.mcInv hm, a ha⟩
  | cbDone =>
    refine AltInv.mk' hlock ?_
    simp only [step]
    unfold completeCb
    split
    · rename_i tid _
      have e1 : KR s (setTask s tid fun t => { t with result := some .ok }) :=
        kr_setTask s tid _ (fun _ => rfl) (fun _ h => Or.inl h)
      have k := e1.trans (KR.ofEq (s' := { setTask s tid (fun t => { t with result := some .ok }) with ready := s.ready ++ [.wake tid] }) rfl)
      have a1 : Alt (setTask s tid fun t => { t with result := some .ok }) := alt_setTask_proj s tid _ (fun _ _ => rfl) ha
      exact ⟨k.noStop hn, k.mcInv hm, a1.same rfl rfl rfl rfl⟩
    · exact ⟨hn, hm, ha⟩
  | sessionEnd e =>
    refine AltInv.mk' hlock ?_
    simp only [step]
    split
    · rename_i hlive
      obtain ⟨n', m'⟩ := spawn_tasks { s with cli := .idle } (.disc e) (by intro h; cases h) hn hm
      exact ⟨n', m', alt_sessionEnd s e hlive ha⟩
    · exact ⟨hn, hm, ha⟩
  | zc m =>
    refine AltInv.mk' hlock ?_
    simp only [step]
    split
    · exact ⟨hn, hm, ha⟩
    · have k : KR s (scheduleConnect (stopZc s) 0) := (KR.ofEq (s := s) (s' := stopZc s) (by simp)).trans (kr_scheduleConnect _ 0)
      have a1 : Alt (stopZc s) := ha.same (by simp) (by simp) (by simp) (by unfold stopZc; split <;> simp [emit, altState_append])
      exact ⟨(k.trans (KR.ofEq rfl)).noStop hn, (k.trans (KR.ofEq rfl)).mcInv hm, (alt_scheduleConnect _ 0 a1).same rfl rfl rfl rfl⟩
  | timerDue =>
    refine AltInv.mk' hlock ?_
    simp only [step]
    split
    · split
      · exact ⟨hn, hm, ha⟩
      · exact ⟨hn, hm, ha.same rfl rfl rfl rfl⟩
    · exact ⟨hn, hm, ha⟩
  | wait dt =>
    refine AltInv.mk' hlock ?_
    simp only [step]
    split
    · split
      · exact ⟨hn, hm, ha.same rfl rfl rfl rfl⟩
      · exact ⟨hn, hm, ha⟩
    · exact ⟨hn, hm, ha.same rfl rfl rfl rfl⟩
  | pop =>
    refine AltInv.mk' hlock ?_
    simp only [step]
    split
    · exact ⟨hn, hm, ha⟩
    · rename_i rest _
      have k : KR s (callConnectOnce { s with ready := rest, timer := none, timerQueued := false }) :=
        (KR.ofEq (s := s) (s' := { s with ready := rest, timer := none, timerQueued := false }) rfl).trans (kr_callConnectOnce _)
      exact ⟨k.noStop hn, k.mcInv hm, alt_callConnectOnce _ (ha.same rfl rfl rfl rfl)⟩
    · rename_i tid rest _
      split
      · rename_i t ht
        have ht' : s.tasks[tid]? = some t := ht
        have k : KR s (wakeTask { s with ready := rest } tid t) :=
          (KR.ofEq (s := s) (s' := { s with ready := rest }) rfl).trans (kr_wakeTask _ tid t (hn tid t ht'))
        exact ⟨k.noStop hn, k.mcInv hm,
          alt_wakeTask { s with ready := rest } tid t (hl.congr rfl rfl rfl) hn hm (ha.same rfl rfl rfl rfl) ht⟩
      · exact ⟨hn, hm, ha.same rfl rfl rfl rfl⟩

theorem init_altInv (b : Bool) (c e d : Bool := false) : AltInv (init b c e d) := by
  refine ⟨init_inv b c e d, ?_, ?_, ?_⟩
  · intro i t hi; simp [init] at hi
  · intro i t hi; simp [init] at hi
  · constructor
    · intro h; simp [init] at h
    · intro i t hi; simp [init] at hi
    · intro i t hi; simp [init] at hi
    · intro i j ti tj hi; simp [init] at hi
    · intro h; simp [init] at h
    · rintro (h | ⟨i, t, hi, _⟩)
      · simp [init] at h
      · simp [init] at hi
    · intro _; rfl

theorem run_altInv (s : St) (evs : List Ev) (he : ∀ e ∈ evs, e ≠ .callStop) (h : AltInv s) : AltInv (run s evs) := by
  induction evs generalizing s with
  | nil => exact h
  | cons e es ih =>
    exact ih (step s e) (fun e' h' => he e' (by simp [h'])) (step_altInv s e (he e (by simp)) h)

/-- the callbacks alternate (starting with on_connect) in every history without `stop()` -/
theorem alternates_without_stop (named : Bool) (evs : List Ev) (he : ∀ e ∈ evs, e ≠ .callStop) (c e d : Bool := false) :
    altState (run (init named c e d) evs).log ≠ none := by
  have h := (run_altInv (init named c e d) evs he (init_altInv named c e d)).alt
  by_cases hc : (run (init named c e d) evs).cli = .live ∨ PD (run (init named c e d) evs)
  · rw [h.a5o hc]; simp
  · rw [h.a5c hc]; simp

end Esp.Reconnect
