import Esp.Lemmas.ReconnectStop
/-!
# Reconnect manager: the failure counter is the number of consecutive failed attempts

`consec log` recomputes the counter from the history alone: a failure counted (after `on_connect_error`
returned) for an authentication / encryption error sets it to 100, any other adds one, `on_connect`
and the reset made by `start()` clear it.  `TL s s'` = "if the counter agreed with the history before, it
agrees after"; every procedure satisfies it.
-/
namespace Esp.Reconnect

def consecStep (n : Nat) : Act → Nat
  | .failCounted .auth => maxTries
  | .failCounted .other => n + 1
  | .onConnect => 0
  | .resetTries => 0
  | _ => n

def consec (l : List Act) : Nat := l.foldl consecStep 0

theorem consec_append (l : List Act) (a : Act) : consec (l ++ [a]) = consecStep (consec l) a := by
  simp [consec, List.foldl_append]

def neutral : Act → Bool
  | .failCounted _ | .onConnect | .resetTries => false
  | _ => true

theorem consecStep_neutral (n : Nat) (a : Act) (h : neutral a = true) : consecStep n a = n := by
  cases a <;> simp_all [neutral, consecStep]

def TL (s s' : St) : Prop := s.tries = consec s.log → s'.tries = consec s'.log

theorem TL.refl (s : St) : TL s s := id
theorem TL.trans {a b c : St} (h1 : TL a b) (h2 : TL b c) : TL a c := fun h => h2 (h1 h)
theorem TL.ofEq {s s' : St} (h1 : s'.tries = s.tries) (h2 : s'.log = s.log) : TL s s' := by
  intro h; rw [h1, h2]; exact h

@[simp] theorem tries_setTask (s : St) (tid : Nat) (f : Task → Task) : (setTask s tid f).tries = s.tries := rfl
@[simp] theorem tries_finish (s : St) (tid : Nat) : (finish s tid).tries = s.tries := rfl
@[simp] theorem tries_emit (s : St) (a : Act) : (emit s a).tries = s.tries := rfl
@[simp] theorem tries_setState (s : St) (st : RState) : (setState s st).tries = s.tries := rfl
@[simp] theorem tries_cancelTimer (s : St) : (cancelTimer s).tries = s.tries := rfl
@[simp] theorem tries_removeWaiter (s : St) (tid : Nat) : (removeWaiter s tid).tries = s.tries := rfl
@[simp] theorem tries_wakeUpFirst (s : St) : (wakeUpFirst s).tries = s.tries := by unfold wakeUpFirst; split <;> rfl
@[simp] theorem tries_release (s : St) : (release s).tries = s.tries := by unfold release wakeUpFirst; dsimp only; split <;> rfl

theorem tl_emit (s : St) (a : Act) (h : neutral a = true) : TL s (emit s a) := by
  intro h0
  simp only [emit, consec_append, consecStep_neutral _ _ h]
  exact h0

theorem tl_stopZc (s : St) : TL s (stopZc s) := by
  unfold stopZc; split
  · exact (TL.ofEq (s' := { s with zcListening := false }) rfl rfl).trans (tl_emit _ _ rfl)
  · exact TL.refl s

theorem tl_startZc (s : St) : TL s (startZc s) := by
  unfold startZc; split
  · exact (TL.ofEq (s' := { s with zcListening := true }) rfl rfl).trans (tl_emit _ _ rfl)
  · exact TL.refl s

theorem tl_cancelTask (s : St) (tid : Nat) : TL s (cancelTask s tid) := by
  apply TL.ofEq
  · unfold cancelTask getTask
    split
    · rfl
    · split
      · rfl
      · dsimp only
        split
        · split <;> rfl
        · split <;> rfl
  · exact (cancelTask_ctl s tid).log

theorem tl_cancelConnectTask (s : St) : TL s (cancelConnectTask s) := by
  unfold cancelConnectTask
  split
  · rename_i tid _
    exact (tl_cancelTask s tid).trans (TL.ofEq rfl rfl)
  · exact TL.refl s

theorem tl_cancelConnect (s : St) : TL s (cancelConnect s) :=
  (TL.ofEq (s' := cancelTimer s) rfl rfl).trans (tl_cancelConnectTask _)

theorem tl_release (s : St) : TL s (release s) := TL.ofEq (by simp) (by simp)
theorem tl_finish (s : St) (tid : Nat) : TL s (finish s tid) := TL.ofEq rfl rfl

theorem tl_afterFail (s : St) (tid : Nat) : TL s (afterFail s tid) := by
  unfold afterFail
  dsimp only
  have h1 : TL s (if backoff s.tries ≠ 0 then startZc s else s) := by
    split
    · exact tl_startZc s
    · exact TL.refl s
  refine (h1.trans ?_).trans ((tl_release _).trans (tl_finish _ tid))
  refine (TL.ofEq (s' := { cancelTimer (if backoff s.tries ≠ 0 then startZc s else s) with
      timer := some ((if backoff s.tries ≠ 0 then startZc s else s).now + backoff s.tries) }) rfl rfl).trans ?_
  exact tl_emit _ _ rfl

theorem tl_failEnd (s : St) (k : ErrK) (tid : Nat) : TL s (failEnd s k tid) := by
  unfold failEnd
  refine TL.trans (b := emit { s with tries := if k = .auth then maxTries else s.tries + 1 } (.failCounted k)) ?_ (tl_afterFail _ tid)
  intro h0
  simp only [emit, consec_append]
  cases k <;> simp [consecStep, h0]

theorem tl_failBegin (s : St) (k : ErrK) (tid : Nat) : TL s (failBegin s k tid) := by
  unfold failBegin
  dsimp only
  have e1 : TL s (emit (setState s .disconnected) (.onConnectError k)) :=
    (TL.ofEq (s' := setState s .disconnected) rfl rfl).trans (tl_emit _ _ rfl)
  split
  · exact e1.trans (TL.ofEq rfl rfl)
  · exact e1.trans (tl_failEnd _ k tid)

theorem tl_acquire (s : St) (tid : Nat) : TL s (acquire s tid).1 := by
  unfold acquire; split <;> exact TL.ofEq rfl rfl

theorem tl_connectLocked (s : St) (tid : Nat) : TL s (connectLocked s tid) := by
  unfold connectLocked
  split
  · exact (tl_release s).trans (tl_finish _ tid)
  · dsimp only
    have h1 : TL s (emit (setState s .connecting) .attempt) :=
      (TL.ofEq (s' := setState s .connecting) rfl rfl).trans (tl_emit _ _ rfl)
    split
    · exact h1.trans (tl_failBegin _ _ tid)
    · exact h1.trans (TL.ofEq rfl rfl)

theorem tl_spawnConnect (s : St) : TL s (spawnConnect s) := by
  unfold spawnConnect
  dsimp only
  have h1 : TL s { s with tasks := s.tasks ++ [{ kind := Kind.connect, pc := Pc.running }] } := TL.ofEq rfl rfl
  generalize hs1 : ({ s with tasks := s.tasks ++ [{ kind := Kind.connect, pc := Pc.running }] } : St) = s1 at h1
  have h2 := h1.trans (tl_acquire s1 s.tasks.length)
  cases hg : (acquire s1 s.tasks.length).2
  · rw [show acquire s1 s.tasks.length = ((acquire s1 s.tasks.length).1, false) from by rw [← hg]]
    exact h2.trans (TL.ofEq rfl rfl)
  · rw [show acquire s1 s.tasks.length = ((acquire s1 s.tasks.length).1, true) from by rw [← hg]]
    exact (h2.trans (tl_connectLocked _ _)).trans (TL.ofEq rfl rfl)

theorem tl_callConnectOnce (s : St) : TL s (callConnectOnce s) := by
  unfold callConnectOnce
  split
  · split
    · exact tl_spawnConnect s
    · split
      · exact TL.refl s
      · exact ((tl_cancelConnectTask s).trans (TL.ofEq (s' := setState (cancelConnectTask s) .disconnected) rfl rfl)).trans
          (tl_spawnConnect _)
  · exact tl_spawnConnect s

theorem tl_scheduleConnect (s : St) (d : Nat) : TL s (scheduleConnect s d) := by
  unfold scheduleConnect
  split
  · exact tl_callConnectOnce s
  · exact (TL.ofEq (s' := { cancelTimer s with timer := some (s.now + d) }) rfl rfl).trans (tl_emit _ _ rfl)

theorem tl_discEnd (s : St) (tid : Nat) (e : Bool) : TL s (discEnd s tid e) := by
  unfold discEnd
  dsimp only
  have h1 : TL s (finish (release s) tid) := (tl_release s).trans (tl_finish _ _)
  split
  · exact h1
  · exact h1.trans (tl_scheduleConnect _ _)

theorem tl_discLocked (s : St) (tid : Nat) (e : Bool) : TL s (discLocked s tid e) := by
  unfold discLocked
  dsimp only
  have h1 : TL s (emit (setState s .disconnected) (.onDisconnect e)) :=
    (TL.ofEq (s' := setState s .disconnected) rfl rfl).trans (tl_emit _ _ rfl)
  split
  · exact h1.trans (TL.ofEq rfl rfl)
  · exact h1.trans (tl_discEnd _ _ _)

theorem tl_startLocked (s : St) (tid : Nat) : TL s (startLocked s tid) := by
  unfold startLocked
  dsimp only
  have key : ∀ X : St, TL s X → TL s (emit (finish (release X) tid) .startRet) := by
    intro X hx
    exact ((hx.trans (tl_release X)).trans (tl_finish _ tid)).trans (tl_emit _ _ rfl)
  apply key
  split
  · exact TL.ofEq rfl rfl
  · refine TL.trans (b := emit { { s with stopped := false } with tries := 0 } .resetTries) ?_ (tl_scheduleConnect _ 0)
    intro _
    simp [emit, consec_append, consecStep]

theorem tl_stopLocked (s : St) (tid : Nat) : TL s (stopLocked s tid) := by
  rw [stopLocked_eq]
  have h0 : TL s { s with stopped := true } := TL.ofEq rfl rfl
  exact ((((((h0.trans (TL.ofEq (s' := cancelTimer { s with stopped := true }) rfl rfl)).trans (tl_cancelConnectTask _)).trans
    (tl_stopZc _)).trans (TL.ofEq (s' := setState _ .disconnected) rfl rfl)).trans (tl_release _)).trans (tl_finish _ tid)).trans
    (tl_emit _ _ rfl)

theorem tl_lockedBody (s : St) (tid : Nat) (k : Kind) : TL s (lockedBody s tid k) := by
  unfold lockedBody
  split
  · exact tl_connectLocked s tid
  · exact tl_discLocked s tid _
  · exact tl_startLocked s tid
  · exact tl_stopLocked s tid

theorem tl_spawn (s : St) (k : Kind) : TL s (spawn s k) := by
  unfold spawn
  dsimp only
  have h1 : TL s { s with tasks := s.tasks ++ [{ kind := k, pc := Pc.running }] } := TL.ofEq rfl rfl
  generalize hs1 : ({ s with tasks := s.tasks ++ [{ kind := k, pc := Pc.running }] } : St) = s1 at h1
  have h2 := h1.trans (tl_acquire s1 s.tasks.length)
  cases hg : (acquire s1 s.tasks.length).2
  · rw [show acquire s1 s.tasks.length = ((acquire s1 s.tasks.length).1, false) from by rw [← hg]]
    simp only [Bool.false_eq_true, ↓reduceIte]
    exact h2
  · rw [show acquire s1 s.tasks.length = ((acquire s1 s.tasks.length).1, true) from by rw [← hg]]
    simp only [↓reduceIte]
    exact h2.trans (tl_lockedBody _ _ k)

theorem tl_wakeTask (s : St) (tid : Nat) (t : Task) : TL s (wakeTask s tid t) := by
  unfold wakeTask
  split
  · exact TL.refl s
  · exact TL.refl s
  · dsimp only
    split
    · have w1 : TL s (removeWaiter s tid) := TL.ofEq rfl rfl
      have w2 : TL s (if (removeWaiter s tid).locked = true then removeWaiter s tid else wakeUpFirst (removeWaiter s tid)) := by
        split
        · exact w1
        · exact w1.trans (TL.ofEq (by simp) (by simp))
      exact w2.trans (tl_finish _ tid)
    · split
      · exact (TL.ofEq (s' := setTask { removeWaiter s tid with locked := true } tid fun t => { t with pc := .running }) rfl rfl).trans
          (tl_lockedBody _ _ _)
      · exact TL.refl s
  · split
    · exact (TL.ofEq (s' := { s with cli := .idle }) rfl rfl).trans (tl_failBegin _ _ tid)
    · split
      · exact (TL.ofEq (s' := { s with cli := .finishing }) rfl rfl).trans
          ((tl_stopZc _).trans (TL.ofEq (by simp [setTask]) (by simp [setTask])))
      · exact (TL.ofEq (s' := { s with cli := .idle }) rfl rfl).trans (tl_failBegin _ _ tid)
      · exact TL.refl s
  · split
    · exact (TL.ofEq (s' := { s with cli := .idle }) rfl rfl).trans (tl_failBegin _ _ tid)
    · split
      · dsimp only
        have e1 : TL s (emit (setState { s with cli := .live, tries := 0 } .ready) .onConnect) := by
          intro _
          simp [emit, setState, consec_append, consecStep]
        split
        · exact e1.trans (TL.ofEq rfl rfl)
        · exact e1.trans ((tl_release _).trans (tl_finish _ tid))
      · exact (TL.ofEq (s' := { s with cli := .idle }) rfl rfl).trans (tl_failBegin _ _ tid)
      · exact TL.refl s
  · split
    · exact (tl_release s).trans (tl_finish _ tid)
    · exact TL.refl s
  · split
    · exact (tl_release s).trans (tl_finish _ tid)
    · split
      · exact tl_failEnd s _ tid
      · exact TL.refl s
  · split
    · split
      · exact tl_discEnd s tid _
      · exact TL.refl s
    · exact TL.refl s

theorem tl_step (s : St) (e : Ev) : TL s (step s e) := by
  cases e with
  | callStart => exact tl_spawn s _
  | callStop =>
    simp only [step]
    refine TL.trans ?_ (tl_spawn _ _)
    split
    · exact tl_cancelConnect s
    · exact TL.refl s
  | startDone r | finishDone r =>
    simp only [step]
    unfold complete
    split <;> exact TL.ofEq rfl rfl
  | cbDone =>
    simp only [step]
    unfold completeCb
    split <;> exact TL.ofEq rfl rfl
  | sessionEnd e =>
    simp only [step]
    split
    · exact (TL.ofEq (s' := { s with cli := .idle }) rfl rfl).trans (tl_spawn _ _)
    · exact TL.refl s
  | zc m =>
    simp only [step]
    split
    · exact TL.refl s
    · exact ((tl_stopZc s).trans (tl_scheduleConnect _ 0)).trans (TL.ofEq rfl rfl)
  | timerDue =>
    simp only [step]
    split
    · split <;> exact TL.ofEq rfl rfl
    · exact TL.refl s
  | wait dt =>
    simp only [step]
    split
    · split <;> exact TL.ofEq rfl rfl
    · exact TL.ofEq rfl rfl
  | pop =>
    simp only [step]
    split
    · exact TL.refl s
    · rename_i rest _
      exact (TL.ofEq (s' := { s with ready := rest, timer := none, timerQueued := false }) rfl rfl).trans (tl_callConnectOnce _)
    · rename_i tid rest _
      split
      · rename_i t _
        exact (TL.ofEq (s' := { s with ready := rest }) rfl rfl).trans (tl_wakeTask _ tid t)
      · exact TL.ofEq rfl rfl

theorem tries_eq_consec (named : Bool) (evs : List Ev) (c e d : Bool := false) :
    (run (init named c e d) evs).tries = consec (run (init named c e d) evs).log := by
  have : ∀ (s : St), s.tries = consec s.log → (run s evs).tries = consec (run s evs).log := by
    induction evs with
    | nil => intro s h; exact h
    | cons e es ih => intro s h; exact ih _ (tl_step s e h)
  exact this _ rfl

end Esp.Reconnect
