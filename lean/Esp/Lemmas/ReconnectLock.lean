import Esp.Model.Reconnect
/-!
# Reconnect manager: the lock discipline

`LockInv` holds between events; `HeldBy s tid` holds while task `tid` runs the body of its
`async with self._connected_lock` block.  Every procedure of the model maps one of the two to one
of the two.
-/
namespace Esp.Reconnect

/-- suspended while holding the lock: in a client call or in a user callback -/
def inflightPc : Pc → Bool | .inStart | .inFinish | .inOnConnect | .inOnError _ | .inOnDisc => true | _ => false

structure LockInv (s : St) : Prop where
  a : ∀ (i : Nat) (t : Task), s.tasks[i]? = some t → inflightPc t.pc = true → s.locked = true
  b : ∀ (i j : Nat) (ti tj : Task), s.tasks[i]? = some ti → s.tasks[j]? = some tj →
        inflightPc ti.pc = true → inflightPc tj.pc = true → i = j
  c : ∀ w ∈ s.waiters, w.2 = .granted → s.locked = false
  d : ∀ w ∈ s.waiters.tail, w.2 ≠ .granted

structure HeldBy (s : St) (tid : Nat) : Prop where
  e : ∃ t : Task, s.tasks[tid]? = some t ∧ t.pc ≠ .done
  l : s.locked = true
  n : ∀ (i : Nat) (t : Task), i ≠ tid → s.tasks[i]? = some t → inflightPc t.pc = false
  g : ∀ w ∈ s.waiters, w.2 ≠ .granted

theorem getElem?_setTask {s : St} {tid : Nat} {f : Task → Task} {i : Nat} {t : Task}
    (h : (setTask s tid f).tasks[i]? = some t) : ∃ t0, s.tasks[i]? = some t0 ∧ t = (if tid = i then f t0 else t0) := by
  simp only [setTask] at h
  rw [List.getElem?_modify] at h
  cases h0 : s.tasks[i]? with
  | none => simp [h0] at h
  | some t0 =>
    simp only [h0, Option.map_eq_map, Option.map_some, Option.some.injEq] at h
    exact ⟨t0, rfl, h.symm⟩

theorem kind_acquire (s : St) (tid i : Nat) (t : Task) (h : (acquire s tid).1.tasks[i]? = some t) :
    ∃ t0, s.tasks[i]? = some t0 ∧ t0.kind = t.kind := by
  unfold acquire at h
  split at h
  · exact ⟨t, h, rfl⟩
  · obtain ⟨t0, h0, rfl⟩ := getElem?_setTask h
    exact ⟨t0, h0, by split <;> rfl⟩

/-! ## frame: procedures that leave lock, waiters and tasks alone -/

theorem LockInv.congr {s s' : St} (h : LockInv s) (h1 : s'.locked = s.locked) (h2 : s'.waiters = s.waiters)
    (h3 : s'.tasks = s.tasks) : LockInv s' := by
  obtain ⟨a, b, c, d⟩ := h
  constructor <;> (try rw [h1]) <;> (try rw [h2]) <;> (try rw [h3]) <;> assumption

theorem HeldBy.congr {s s' : St} {tid : Nat} (h : HeldBy s tid) (h1 : s'.locked = s.locked) (h2 : s'.waiters = s.waiters)
    (h3 : s'.tasks = s.tasks) : HeldBy s' tid := by
  obtain ⟨e, l, n, g⟩ := h
  constructor <;> (try rw [h1]) <;> (try rw [h2]) <;> (try rw [h3]) <;> assumption

section frame
variable (s : St)
@[simp] theorem locked_setState (st) : (setState s st).locked = s.locked := rfl
@[simp] theorem waiters_setState (st) : (setState s st).waiters = s.waiters := rfl
@[simp] theorem tasks_setState (st) : (setState s st).tasks = s.tasks := rfl
@[simp] theorem locked_emit (a) : (emit s a).locked = s.locked := rfl
@[simp] theorem waiters_emit (a) : (emit s a).waiters = s.waiters := rfl
@[simp] theorem tasks_emit (a) : (emit s a).tasks = s.tasks := rfl
@[simp] theorem locked_startZc : (startZc s).locked = s.locked := by unfold startZc; split <;> rfl
@[simp] theorem waiters_startZc : (startZc s).waiters = s.waiters := by unfold startZc; split <;> rfl
@[simp] theorem tasks_startZc : (startZc s).tasks = s.tasks := by unfold startZc; split <;> rfl
@[simp] theorem locked_stopZc : (stopZc s).locked = s.locked := by unfold stopZc; split <;> rfl
@[simp] theorem waiters_stopZc : (stopZc s).waiters = s.waiters := by unfold stopZc; split <;> rfl
@[simp] theorem tasks_stopZc : (stopZc s).tasks = s.tasks := by unfold stopZc; split <;> rfl
@[simp] theorem locked_cancelTimer : (cancelTimer s).locked = s.locked := rfl
@[simp] theorem waiters_cancelTimer : (cancelTimer s).waiters = s.waiters := rfl
@[simp] theorem tasks_cancelTimer : (cancelTimer s).tasks = s.tasks := rfl
end frame

/-! ## list facts -/

theorem mem_tail_filter {α} (p : α → Bool) (l : List α) (x : α) (h : x ∈ (l.filter p).tail) : x ∈ l.tail := by
  cases l with
  | nil => simp at h
  | cons a l =>
    simp only [List.filter] at h
    split at h
    · simp only [List.tail_cons] at h ⊢; exact (List.mem_filter.mp h).1
    · simp only [List.tail_cons]; exact (List.mem_filter.mp (List.mem_of_mem_tail h)).1

theorem mem_tail_append_single {α} (l : List α) (a x : α) (h : x ∈ (l ++ [a]).tail) : x ∈ l.tail ∨ (x = a ∧ l ≠ []) := by
  cases l with
  | nil => simp at h
  | cons b l => simp at h ⊢; exact h

theorem granted_is_head (l : List (Nat × WFut)) (hd : ∀ w ∈ l.tail, w.2 ≠ .granted) (w : Nat × WFut) (hw : w ∈ l)
    (hg : w.2 = .granted) : l = w :: l.tail := by
  cases l with
  | nil => simp at hw
  | cons a l =>
    simp only [List.tail_cons] at hd ⊢
    rcases List.mem_cons.mp hw with rfl | h
    · rfl
    · exact absurd hg (hd w h)

/-! ## the lock primitives -/

theorem finish_inv (s : St) (tid : Nat) (h : LockInv s) : LockInv (finish s tid) := by
  obtain ⟨a, b, c, d⟩ := h
  constructor
  · intro i t ht hp
    simp only [finish, setTask] at ht ⊢
    grind [inflightPc]
  · intro i j ti tj hi hj
    simp only [finish, setTask] at hi hj
    grind [inflightPc]
  · exact c
  · exact d

theorem release_finish (s : St) (tid : Nat) (h : HeldBy s tid) : LockInv (finish (release s) tid) := by
  obtain ⟨_, hl, hn, hg⟩ := h
  constructor
  · intro i t ht hp
    simp only [finish, setTask, release, wakeUpFirst] at ht
    split at ht <;> grind [inflightPc]
  · intro i j ti tj hi hj
    simp only [finish, setTask, release, wakeUpFirst] at hi hj
    split at hi <;> grind [inflightPc]
  · intro w hw
    simp only [finish, setTask, release, wakeUpFirst] at hw ⊢
    split <;> grind
  · intro w hw
    simp only [finish, setTask, release, wakeUpFirst] at hw ⊢
    split at hw
    · rename_i t rest hw'
      simp only [List.tail_cons] at hw
      exact hg w (by rw [hw']; exact List.mem_cons_of_mem _ hw)
    · exact hg w (List.mem_of_mem_tail hw)

theorem lockFree_iff (s : St) : lockFree s = true ↔ s.locked = false ∧ ∀ w ∈ s.waiters, w.2 = .cancelled := by
  simp [lockFree, List.all_eq_true]

theorem acquire_got (s : St) (tid : Nat) (h : LockInv s) (he : ∃ t : Task, s.tasks[tid]? = some t ∧ t.pc ≠ .done)
    (hg : (acquire s tid).2 = true) :
    HeldBy (acquire s tid).1 tid := by
  unfold acquire at hg ⊢
  split at hg
  · rename_i hf
    rw [if_pos hf]
    have ⟨hl, hw⟩ := (lockFree_iff s).mp hf
    refine ⟨he, rfl, ?_, ?_⟩
    · intro i t _ ht
      cases hp : inflightPc t.pc
      · rfl
      · have := h.a i t ht hp; simp [hl] at this
    · intro w hw'; rw [hw w hw']; decide
  · simp at hg

theorem acquire_wait (s : St) (tid : Nat) (h : LockInv s) (hg : (acquire s tid).2 = false) :
    LockInv (acquire s tid).1 := by
  unfold acquire at hg ⊢
  split at hg
  · simp at hg
  · rename_i hf
    rw [if_neg hf]
    obtain ⟨a, b, c, d⟩ := h
    constructor
    · intro i t ht hp
      simp only [setTask] at ht ⊢
      grind [inflightPc]
    · intro i j ti tj hi hj
      simp only [setTask] at hi hj
      grind [inflightPc]
    · intro w hw
      simp only [setTask, List.mem_append, List.mem_singleton] at hw ⊢
      rcases hw with hw | rfl
      · exact c w hw
      · intro h; simp at h
    · intro w hw
      simp only [setTask] at hw
      rcases mem_tail_append_single _ _ _ hw with h | ⟨rfl, _⟩
      · exact d w h
      · simp

theorem acquire_held (s : St) (tid h : Nat) (hh : HeldBy s h) (hne : tid ≠ h) :
    (acquire s tid).2 = false ∧ HeldBy (acquire s tid).1 h := by
  have hf : lockFree s = false := by simp [lockFree, hh.l]
  unfold acquire
  simp only [hf, Bool.false_eq_true, ↓reduceIte, true_and]
  obtain ⟨e, l, n, g⟩ := hh
  refine ⟨?_, l, ?_, ?_⟩
  · obtain ⟨t, ht, hp⟩ := e
    exact ⟨t, by simp only [setTask]; rw [List.getElem?_modify_ne _ _ hne]; exact ht, hp⟩
  · intro i t hi ht
    simp only [setTask] at ht
    grind [inflightPc]
  · intro w hw
    simp only [setTask, List.mem_append, List.mem_singleton] at hw
    rcases hw with hw | rfl
    · exact g w hw
    · simp

/-! ## cancellation -/

/-- what `LockInv` / `HeldBy` can see of a state -/
structure Sim (s s' : St) : Prop where
  len : s'.tasks.length = s.tasks.length
  l : s'.locked = s.locked
  t : ∀ (i : Nat) (t' : Task), s'.tasks[i]? = some t' → ∃ t0, s.tasks[i]? = some t0 ∧ t0.pc = t'.pc ∧ t0.kind = t'.kind
  w : ∃ f : Nat × WFut → Nat × WFut, s'.waiters = s.waiters.map f ∧ ∀ w, (f w).2 = .granted → w.2 = .granted

theorem LockInv.sim {s s' : St} (h : LockInv s) (hs : Sim s s') : LockInv s' := by
  obtain ⟨a, b, c, d⟩ := h
  obtain ⟨_, hl, ht, f, hw, hf⟩ := hs
  constructor
  · intro i t' hi hp
    obtain ⟨t0, h0, hpc, _⟩ := ht i t' hi
    rw [hl]; exact a i t0 h0 (by rw [hpc]; exact hp)
  · intro i j ti tj hi hj hpi hpj
    obtain ⟨t0, h0, hpc, _⟩ := ht i ti hi
    obtain ⟨t1, h1, hpc1, _⟩ := ht j tj hj
    exact b i j t0 t1 h0 h1 (by rw [hpc]; exact hpi) (by rw [hpc1]; exact hpj)
  · intro w hw' hg
    rw [hw] at hw'
    obtain ⟨w0, hw0, rfl⟩ := List.mem_map.mp hw'
    rw [hl]; exact c w0 hw0 (hf w0 hg)
  · intro w hw' hg
    rw [hw, ← List.map_tail] at hw'
    obtain ⟨w0, hw0, rfl⟩ := List.mem_map.mp hw'
    exact d w0 hw0 (hf w0 hg)

theorem HeldBy.sim {s s' : St} {tid : Nat} (h : HeldBy s tid) (hs : Sim s s') : HeldBy s' tid := by
  obtain ⟨e, l, n, g⟩ := h
  obtain ⟨hlen, hl, ht, f, hw, hf⟩ := hs
  refine ⟨?_, by rw [hl]; exact l, ?_, ?_⟩
  · obtain ⟨t, hte, hp⟩ := e
    have hlt : tid < s'.tasks.length := by rw [hlen]; exact (List.getElem?_eq_some_iff.mp hte).1
    obtain ⟨t0, h0, hpc, _⟩ := ht tid s'.tasks[tid] (List.getElem?_eq_getElem hlt)
    refine ⟨s'.tasks[tid], List.getElem?_eq_getElem hlt, ?_⟩
    rw [← hpc]; rw [hte] at h0; cases h0; exact hp
  · intro i t' hi ht'
    obtain ⟨t0, h0, hpc, _⟩ := ht i t' ht'
    rw [← hpc]; exact n i t0 hi h0
  · intro w hw' hg
    rw [hw] at hw'
    obtain ⟨w0, hw0, rfl⟩ := List.mem_map.mp hw'
    exact g w0 hw0 (hf w0 hg)

theorem Sim.refl (s : St) : Sim s s := ⟨rfl, rfl, fun i t h => ⟨t, h, rfl, rfl⟩, id, by simp, fun _ h => h⟩

theorem sim_mustCancel (s : St) (tid : Nat) : Sim s (setTask s tid fun t => { t with mustCancel := true }) := by
  refine ⟨by simp [setTask], rfl, ?_, id, by simp [setTask], fun _ h => h⟩
  intro i t' h
  simp only [setTask] at h
  grind

theorem cancelTask_sim (s : St) (tid : Nat) : Sim s (cancelTask s tid) := by
  unfold cancelTask getTask
  split
  · exact Sim.refl s
  · rename_i t ht
    split
    · exact Sim.refl s
    · have h0 := sim_mustCancel s tid
      dsimp only
      split
      · split
        · obtain ⟨hlen, hl, ht', _⟩ := h0
          refine ⟨hlen, hl, ht', fun w => if w.1 = tid then (w.1, .cancelled) else w, by simp [setTask], ?_⟩
          intro w hg
          dsimp only at hg
          split at hg
          · simp at hg
          · exact hg
        · exact h0
      · split
        · exact h0
        · obtain ⟨hlen, hl, ht', hw⟩ := h0
          exact ⟨hlen, hl, ht', hw⟩

theorem cancelConnectTask_sim (s : St) : Sim s (cancelConnectTask s) := by
  unfold cancelConnectTask
  split
  · rename_i tid _
    obtain ⟨hlen, hl, ht', hw⟩ := cancelTask_sim s tid
    exact ⟨hlen, hl, ht', hw⟩
  · exact Sim.refl s

theorem cancelConnect_sim (s : St) : Sim s (cancelConnect s) := by
  unfold cancelConnect
  obtain ⟨hlen, hl, ht', hw⟩ := cancelConnectTask_sim (cancelTimer s)
  exact ⟨hlen, hl, ht', hw⟩

/-! ## the manager's procedures -/

theorem afterFail_inv (s : St) (tid : Nat) (h : HeldBy s tid) : LockInv (afterFail s tid) := by
  unfold afterFail
  dsimp only
  apply release_finish
  split <;> exact h.congr (by simp) (by simp) (by simp)

theorem HeldBy.setPc {s : St} {tid : Nat} (h : HeldBy s tid) (f : Task → Task) :
    LockInv (setTask s tid f) := by
  obtain ⟨e, l, n, g⟩ := h
  constructor
  · intro _ _ _ _; exact l
  · intro i j ti tj hi hj hpi hpj
    simp only [setTask] at hi hj
    have : ∀ (k : Nat) (t : Task), (s.tasks.modify tid f)[k]? = some t → inflightPc t.pc = true → k = tid := by
      intro k t hk hp
      by_cases hkt : k = tid
      · exact hkt
      · rw [List.getElem?_modify_ne _ _ (Ne.symm hkt)] at hk
        have := n k t hkt hk; simp [hp] at this
    rw [this i ti hi hpi, this j tj hj hpj]
  · intro w hw hg; exact absurd hg (g w hw)
  · intro w hw; exact g w (List.mem_of_mem_tail hw)

theorem failEnd_inv (s : St) (k : ErrK) (tid : Nat) (h : HeldBy s tid) : LockInv (failEnd s k tid) := by
  unfold failEnd
  exact afterFail_inv _ _ (h.congr rfl rfl rfl)

theorem failBegin_inv (s : St) (k : ErrK) (tid : Nat) (h : HeldBy s tid) : LockInv (failBegin s k tid) := by
  unfold failBegin
  dsimp only
  have h1 : HeldBy (emit (setState s .disconnected) (.onConnectError k)) tid := h.congr rfl rfl rfl
  split
  · exact h1.setPc _
  · exact failEnd_inv _ _ _ h1

theorem connectLocked_inv (s : St) (tid : Nat) (h : HeldBy s tid) : LockInv (connectLocked s tid) := by
  unfold connectLocked
  split
  · exact release_finish s tid h
  · dsimp only
    split
    · exact failBegin_inv _ _ _ (h.congr (by simp) (by simp) (by simp))
    · have h' : HeldBy { emit (setState s .connecting) .attempt with cli := .starting } tid := h.congr rfl rfl rfl
      exact h'.setPc _

theorem append_inv (s : St) (k : Kind) (h : LockInv s) :
    LockInv { s with tasks := s.tasks ++ [{ kind := k, pc := .running }] } := by
  obtain ⟨a, b, c, d⟩ := h
  constructor
  · intro i t ht hp
    simp only at ht ⊢
    grind [inflightPc]
  · intro i j ti tj hi hj hpi hpj
    simp only at hi hj
    grind [inflightPc]
  · exact c
  · exact d

theorem append_held (s : St) (k : Kind) (tid : Nat) (h : HeldBy s tid) :
    HeldBy { s with tasks := s.tasks ++ [{ kind := k, pc := .running }] } tid := by
  obtain ⟨e, l, n, g⟩ := h
  refine ⟨?_, l, ?_, g⟩
  · obtain ⟨t, ht, hp⟩ := e
    refine ⟨t, ?_, hp⟩
    simp only
    rw [List.getElem?_append_left (List.getElem?_eq_some_iff.mp ht).1]; exact ht
  · intro i t hi ht
    simp only at ht
    grind [inflightPc]

theorem spawnConnect_inv (s : St) (h : LockInv s) : LockInv (spawnConnect s) := by
  unfold spawnConnect
  dsimp only
  have h1 := append_inv s .connect h
  generalize hs1 : ({ s with tasks := s.tasks ++ [{ kind := Kind.connect, pc := Pc.running }] } : St) = s1 at h1
  have hlen : ∃ t : Task, s1.tasks[s.tasks.length]? = some t ∧ t.pc ≠ .done := by
    rw [← hs1]; exact ⟨_, by simp; rfl, by simp⟩
  cases hg : (acquire s1 s.tasks.length).2
  · have := acquire_wait s1 _ h1 hg
    rw [show acquire s1 s.tasks.length = ((acquire s1 s.tasks.length).1, false) from by rw [← hg]]
    exact this.congr rfl rfl rfl
  · have := acquire_got s1 _ h1 hlen hg
    rw [show acquire s1 s.tasks.length = ((acquire s1 s.tasks.length).1, true) from by rw [← hg]]
    exact (connectLocked_inv _ _ this).congr rfl rfl rfl

theorem spawnConnect_held (s : St) (tid : Nat) (h : HeldBy s tid) : HeldBy (spawnConnect s) tid := by
  unfold spawnConnect
  dsimp only
  have h1 := append_held s .connect tid h
  generalize hs1 : ({ s with tasks := s.tasks ++ [{ kind := Kind.connect, pc := Pc.running }] } : St) = s1 at h1
  have hne : s.tasks.length ≠ tid := by
    obtain ⟨t, ht, _⟩ := h.e
    have := (List.getElem?_eq_some_iff.mp ht).1; omega
  obtain ⟨hg, hh⟩ := acquire_held s1 s.tasks.length tid h1 hne
  rw [show acquire s1 s.tasks.length = ((acquire s1 s.tasks.length).1, false) from by rw [← hg]]
  exact hh.congr rfl rfl rfl

theorem Sim.trans {a b c : St} (h1 : Sim a b) (h2 : Sim b c) : Sim a c := by
  obtain ⟨l1, k1, t1, f1, w1, g1⟩ := h1
  obtain ⟨l2, k2, t2, f2, w2, g2⟩ := h2
  refine ⟨by omega, by rw [k2, k1], ?_, f2 ∘ f1, by rw [w2, w1]; simp, fun w h => g1 w (g2 _ h)⟩
  intro i t' h
  obtain ⟨tb, hb, pb, kb⟩ := t2 i t' h
  obtain ⟨ta, ha, pa, ka⟩ := t1 i tb hb
  exact ⟨ta, ha, by rw [pa, pb], by rw [ka, kb]⟩

theorem callConnectOnce_inv (s : St) (h : LockInv s) : LockInv (callConnectOnce s) := by
  unfold callConnectOnce
  split
  · split
    · exact spawnConnect_inv s h
    · split
      · exact h
      · exact spawnConnect_inv _ ((h.sim (cancelConnectTask_sim s)).congr rfl rfl rfl)
  · exact spawnConnect_inv s h

theorem callConnectOnce_held (s : St) (tid : Nat) (h : HeldBy s tid) : HeldBy (callConnectOnce s) tid := by
  unfold callConnectOnce
  split
  · split
    · exact spawnConnect_held s tid h
    · split
      · exact h
      · exact spawnConnect_held _ tid ((h.sim (cancelConnectTask_sim s)).congr rfl rfl rfl)
  · exact spawnConnect_held s tid h

theorem scheduleConnect_inv (s : St) (d : Nat) (h : LockInv s) : LockInv (scheduleConnect s d) := by
  unfold scheduleConnect
  split
  · exact callConnectOnce_inv s h
  · exact h.congr rfl rfl rfl

theorem scheduleConnect_held (s : St) (d tid : Nat) (h : HeldBy s tid) : HeldBy (scheduleConnect s d) tid := by
  unfold scheduleConnect
  split
  · exact callConnectOnce_held s tid h
  · exact h.congr rfl rfl rfl

theorem discEnd_inv (s : St) (tid : Nat) (e : Bool) (h : HeldBy s tid) : LockInv (discEnd s tid e) := by
  unfold discEnd
  dsimp only
  have h1 := release_finish _ tid h
  split
  · exact h1
  · exact scheduleConnect_inv _ _ h1

theorem discLocked_inv (s : St) (tid : Nat) (e : Bool) (h : HeldBy s tid) : LockInv (discLocked s tid e) := by
  unfold discLocked
  dsimp only
  have h1 : HeldBy (emit (setState s .disconnected) (.onDisconnect e)) tid := h.congr rfl rfl rfl
  split
  · exact h1.setPc _
  · exact discEnd_inv _ _ _ h1

theorem startLocked_inv (s : St) (tid : Nat) (h : HeldBy s tid) : LockInv (startLocked s tid) := by
  unfold startLocked
  dsimp only
  have h0 : HeldBy { s with stopped := false } tid := h.congr rfl rfl rfl
  have h1 : HeldBy (if ({ s with stopped := false } : St).state ≠ .disconnected then { s with stopped := false }
      else scheduleConnect (emit { { s with stopped := false } with tries := 0 } .resetTries) 0) tid := by
    split
    · exact h0
    · exact scheduleConnect_held _ _ _ (h0.congr rfl rfl rfl)
  exact (release_finish _ tid h1).congr rfl rfl rfl

theorem stopLocked_inv (s : St) (tid : Nat) (h : HeldBy s tid) : LockInv (stopLocked s tid) := by
  unfold stopLocked
  dsimp only
  have h0 : HeldBy { s with stopped := true } tid := h.congr rfl rfl rfl
  have h1 := h0.sim (cancelConnect_sim _)
  have h2 : HeldBy (setState (stopZc (cancelConnect { s with stopped := true })) .disconnected) tid :=
    h1.congr (by simp) (by simp) (by simp)
  exact (release_finish _ tid h2).congr rfl rfl rfl

theorem lockedBody_inv (s : St) (tid : Nat) (k : Kind) (h : HeldBy s tid) : LockInv (lockedBody s tid k) := by
  unfold lockedBody
  split
  · exact connectLocked_inv s tid h
  · exact discLocked_inv s tid _ h
  · exact startLocked_inv s tid h
  · exact stopLocked_inv s tid h

theorem spawn_inv (s : St) (k : Kind) (h : LockInv s) : LockInv (spawn s k) := by
  unfold spawn
  dsimp only
  have h1 := append_inv s k h
  generalize hs1 : ({ s with tasks := s.tasks ++ [{ kind := k, pc := Pc.running }] } : St) = s1 at h1
  have hlen : ∃ t : Task, s1.tasks[s.tasks.length]? = some t ∧ t.pc ≠ .done := by
    rw [← hs1]; exact ⟨_, by simp; rfl, by simp⟩
  cases hg : (acquire s1 s.tasks.length).2
  · have := acquire_wait s1 _ h1 hg
    rw [show acquire s1 s.tasks.length = ((acquire s1 s.tasks.length).1, false) from by rw [← hg]]
    exact this
  · have := acquire_got s1 _ h1 hlen hg
    rw [show acquire s1 s.tasks.length = ((acquire s1 s.tasks.length).1, true) from by rw [← hg]]
    exact lockedBody_inv _ _ _ this

/-! ## wake-ups -/

theorem removeWaiter_inv (s : St) (tid : Nat) (h : LockInv s) : LockInv (removeWaiter s tid) := by
  obtain ⟨a, b, c, d⟩ := h
  refine ⟨a, b, ?_, ?_⟩
  · intro w hw; exact c w (List.mem_filter.mp hw).1
  · intro w hw; exact d w (mem_tail_filter _ _ _ hw)

theorem wakeUpFirst_inv (s : St) (h : LockInv s) (hl : s.locked = false) : LockInv (wakeUpFirst s) := by
  obtain ⟨a, b, c, d⟩ := h
  unfold wakeUpFirst
  split
  · rename_i t rest hw
    refine ⟨a, b, fun _ _ _ => hl, ?_⟩
    intro w hw'
    simp only [List.tail_cons] at hw'
    exact d w (by rw [hw]; simpa using hw')
  · exact ⟨a, b, c, d⟩

/-- the holder of the lock, seen from an in-flight task -/
theorem held_of_inflight (s : St) (tid : Nat) (t : Task) (h : LockInv s) (ht : s.tasks[tid]? = some t)
    (hp : inflightPc t.pc = true) : HeldBy s tid := by
  obtain ⟨a, b, c, d⟩ := h
  have hl := a tid t ht hp
  refine ⟨⟨t, ht, by intro h; simp [h, inflightPc] at hp⟩, hl, ?_, ?_⟩
  · intro i t' hi ht'
    cases hp' : inflightPc t'.pc
    · rfl
    · exact absurd (b i tid t' t ht' ht hp' hp) hi
  · intro w hw hg
    have := c w hw hg; simp [hl] at this

theorem setRunning_held (s : St) (tid : Nat) (h : HeldBy s tid) :
    HeldBy (setTask s tid fun t => { t with pc := .running }) tid := by
  obtain ⟨⟨t, ht, hp⟩, l, n, g⟩ := h
  refine ⟨⟨{ t with pc := .running }, by simp [setTask, ht], by simp⟩, l, ?_, g⟩
  intro i t' hi ht'
  simp only [setTask] at ht'
  rw [List.getElem?_modify_ne _ _ (Ne.symm hi)] at ht'
  exact n i t' hi ht'

/-- a task woken with the lock granted to it holds it -/
theorem granted_held (s : St) (tid : Nat) (t : Task) (h : LockInv s) (ht : s.tasks[tid]? = some t) (hpc : t.pc = .lockWait)
    (hgr : (s.waiters.any fun w => decide (w.1 = tid ∧ w.2 = .granted)) = true) :
    HeldBy (setTask { removeWaiter s tid with locked := true } tid fun t => { t with pc := .running }) tid := by
  apply setRunning_held
  -- the granted waiter is the head; nobody holds the lock
  obtain ⟨w, hw, hwt, hwg⟩ : ∃ w ∈ s.waiters, w.1 = tid ∧ w.2 = .granted := by
    simpa [List.any_eq_true] using hgr
  have hl : s.locked = false := h.c w hw hwg
  have hhead := granted_is_head s.waiters h.d w hw hwg
  refine ⟨⟨t, ht, by rw [hpc]; decide⟩, rfl, ?_, ?_⟩
  · intro i t' _ ht'
    cases hp' : inflightPc t'.pc
    · rfl
    · have := h.a i t' ht' hp'; simp [hl] at this
  · intro w' hw' hg'
    simp only [removeWaiter] at hw'
    have ⟨hm, hne⟩ := List.mem_filter.mp hw'
    have : w' = w := by
      rw [hhead] at hm
      rcases List.mem_cons.mp hm with h1 | h1
      · exact h1
      · exact absurd hg' (h.d w' h1)
    rw [this] at hne
    simp [hwt] at hne

theorem wakeTask_inv (s : St) (tid : Nat) (t : Task) (h : LockInv s) (ht : s.tasks[tid]? = some t) :
    LockInv (wakeTask s tid t) := by
  unfold wakeTask
  split
  · exact h
  · exact h
  · -- lockWait
    rename_i hpc
    dsimp only
    split
    · have h1 := removeWaiter_inv s tid h
      apply finish_inv
      split
      · exact h1
      · rename_i hl
        exact wakeUpFirst_inv _ h1 (by simpa using hl)
    · split
      · rename_i hgr
        exact lockedBody_inv _ _ _ (granted_held s tid t h ht hpc hgr)
      · exact h
  · -- inStart
    have hh := held_of_inflight s tid t h ht (by rename_i hp; simp [hp, inflightPc])
    split
    · exact failBegin_inv _ _ _ (hh.congr (s' := { s with cli := .idle }) rfl rfl rfl)
    · split
      · have : HeldBy (setState (stopZc { s with cli := .finishing }) .handshaking) tid :=
          hh.congr (by simp) (by simp) (by simp)
        exact this.setPc _
      · exact failBegin_inv _ _ _ (hh.congr (s' := { s with cli := .idle }) rfl rfl rfl)
      · exact h
  · -- inFinish
    have hh := held_of_inflight s tid t h ht (by rename_i hp; simp [hp, inflightPc])
    split
    · exact failBegin_inv _ _ _ (hh.congr (s' := { s with cli := .idle }) rfl rfl rfl)
    · split
      · dsimp only
        have h1 : HeldBy (emit (setState { s with cli := .live, tries := 0 } .ready) .onConnect) tid := hh.congr rfl rfl rfl
        split
        · exact h1.setPc _
        · exact release_finish _ _ h1
      · exact failBegin_inv _ _ _ (hh.congr (s' := { s with cli := .idle }) rfl rfl rfl)
      · exact h
  · -- inOnConnect
    have hh := held_of_inflight s tid t h ht (by rename_i hp; simp [hp, inflightPc])
    split
    · exact release_finish _ _ hh
    · exact h
  · -- inOnError
    have hh := held_of_inflight s tid t h ht (by rename_i hp; simp [hp, inflightPc])
    split
    · exact release_finish _ _ hh
    · split
      · exact failEnd_inv _ _ _ hh
      · exact h
  · -- inOnDisc
    have hh := held_of_inflight s tid t h ht (by rename_i hp; simp [hp, inflightPc])
    split
    · split
      · exact discEnd_inv _ _ _ hh
      · exact h
    · exact h

theorem complete_inv (s : St) (pc : Pc) (r : Res) (h : LockInv s) : LockInv (complete s pc r) := by
  unfold complete
  split
  · rename_i tid _
    have : Sim s (setTask s tid fun t => { t with result := some r }) := by
      refine ⟨by simp [setTask], rfl, ?_, id, by simp [setTask], fun _ h => h⟩
      intro i t' h
      simp only [setTask] at h
      grind
    exact (h.sim this).congr rfl rfl rfl
  · exact h

theorem completeCb_inv (s : St) (h : LockInv s) : LockInv (completeCb s) := by
  unfold completeCb
  split
  · rename_i tid _
    have : Sim s (setTask s tid fun t => { t with result := some .ok }) := by
      refine ⟨by simp [setTask], rfl, ?_, id, by simp [setTask], fun _ h => h⟩
      intro i t' h
      simp only [setTask] at h
      grind
    exact (h.sim this).congr rfl rfl rfl
  · exact h

theorem step_inv (s : St) (e : Ev) (h : LockInv s) : LockInv (step s e) := by
  cases e with
  | callStart => exact spawn_inv s _ h
  | callStop =>
    simp only [step]
    apply spawn_inv
    split
    · exact h.sim (cancelConnect_sim s)
    · exact h
  | startDone r => exact complete_inv s _ r h
  | finishDone r => exact complete_inv s _ r h
  | cbDone => exact completeCb_inv s h
  | sessionEnd e =>
    simp only [step]
    split
    · exact spawn_inv _ _ (h.congr rfl rfl rfl)
    · exact h
  | zc m =>
    simp only [step]
    split
    · exact h
    · exact (scheduleConnect_inv _ _ (h.congr (by simp) (by simp) (by simp))).congr rfl rfl rfl
  | timerDue =>
    simp only [step]
    split
    · split
      · exact h
      · exact h.congr rfl rfl rfl
    · exact h
  | wait dt =>
    simp only [step]
    split
    · split
      · exact h.congr rfl rfl rfl
      · exact h
    · exact h.congr rfl rfl rfl
  | pop =>
    simp only [step]
    split
    · exact h
    · exact callConnectOnce_inv _ (h.congr rfl rfl rfl)
    · split
      · rename_i t ht
        exact wakeTask_inv _ _ _ (h.congr rfl rfl rfl) ht
      · exact h.congr rfl rfl rfl

theorem init_inv (b : Bool) (c e d : Bool := false) : LockInv (init b c e d) := by
  constructor <;> simp [init]

theorem run_inv (s : St) (evs : List Ev) (h : LockInv s) : LockInv (run s evs) := by
  induction evs generalizing s with
  | nil => exact h
  | cons e es ih => exact ih _ (step_inv s e h)

end Esp.Reconnect
