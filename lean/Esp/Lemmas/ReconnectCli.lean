import Esp.Lemmas.ReconnectStop
/-!
# Reconnect manager: the client is only ever inside the call the in-flight task made

`CliOk`: a task suspended in `start_connection` ⇒ the client is `starting`; in `finish_connection` ⇒ `finishing`.  Hence while a session is `live` no task is inside a client call.  Whenever the lock is free nobody is suspended under it at all (`LockInv`), so only the states that keep the lock matter.
-/
namespace Esp.Reconnect

/-- the client phase that goes with a suspension point of the connect task -/
def cliOf : Pc → Option Cli
  | .inStart => some .starting | .inFinish => some .finishing
  | _ => none

theorem cliOf_inflight (pc : Pc) (c : Cli) (h : cliOf pc = some c) : inflightPc pc = true := by
  cases pc <;> simp_all [cliOf, inflightPc]

def CliOk (s : St) : Prop :=
  ∀ (i : Nat) (t : Task) (c : Cli), s.tasks[i]? = some t → cliOf t.pc = some c → s.cli = c

theorem cliOk_of_unlocked (s : St) (h : LockInv s) (hl : s.locked = false) : CliOk s := by
  intro i t c ht hc
  have := h.a i t ht (cliOf_inflight _ _ hc)
  simp [hl] at this

section proj
variable (s : St)
@[simp] theorem cli_setTask (tid : Nat) (f : Task → Task) : (setTask s tid f).cli = s.cli := rfl
@[simp] theorem cli_finish (tid : Nat) : (finish s tid).cli = s.cli := rfl
@[simp] theorem cli_emit (a : Act) : (emit s a).cli = s.cli := rfl
@[simp] theorem cli_setState (st : RState) : (setState s st).cli = s.cli := rfl
@[simp] theorem cli_cancelTimer : (cancelTimer s).cli = s.cli := rfl
@[simp] theorem cli_removeWaiter (tid : Nat) : (removeWaiter s tid).cli = s.cli := rfl
@[simp] theorem cli_wakeUpFirst : (wakeUpFirst s).cli = s.cli := by unfold wakeUpFirst; split <;> rfl
@[simp] theorem cli_release : (release s).cli = s.cli := by unfold release wakeUpFirst; dsimp only; split <;> rfl
@[simp] theorem cli_stopZc : (stopZc s).cli = s.cli := by unfold stopZc; split <;> rfl
@[simp] theorem cli_startZc : (startZc s).cli = s.cli := by unfold startZc; split <;> rfl
end proj

theorem cli_cancelTask (s : St) (tid : Nat) : (cancelTask s tid).cli = s.cli := by
  unfold cancelTask getTask
  split
  · rfl
  · split
    · rfl
    · dsimp only
      split
      · split <;> rfl
      · split <;> rfl

theorem cli_cancelConnectTask (s : St) : (cancelConnectTask s).cli = s.cli := by
  unfold cancelConnectTask
  split
  · exact cli_cancelTask s _
  · rfl

theorem cli_cancelConnect (s : St) : (cancelConnect s).cli = s.cli := by
  unfold cancelConnect; rw [cli_cancelConnectTask]; rfl

theorem CliOk.sim {s s' : St} (h : CliOk s) (hs : Sim s s') (hc : s'.cli = s.cli) : CliOk s' := by
  intro i t' c hi hcl
  obtain ⟨t0, h0, hp, _⟩ := hs.t i t' hi
  rw [hc]; exact h i t0 c h0 (by rw [hp]; exact hcl)

theorem CliOk.congr {s s' : St} (h : CliOk s) (ht : s'.tasks = s.tasks) (hc : s'.cli = s.cli) : CliOk s' := by
  intro i t c hi; rw [ht] at hi; rw [hc]; exact h i t c hi

theorem locked_afterFail (s : St) (tid : Nat) : (afterFail s tid).locked = false := by
  unfold afterFail; dsimp only; simp

theorem locked_failEnd (s : St) (k : ErrK) (tid : Nat) : (failEnd s k tid).locked = false := by
  unfold failEnd; exact locked_afterFail _ _

/-- the task at `tid` is the only one that may be suspended under the lock; it is set to `pc` and the client to what goes
with `pc` -/
theorem cliOk_setPc (s : St) (tid : Nat) (f : Task → Task) (h : HeldBy s tid)
    (hf : ∀ t c, cliOf (f t).pc = some c → s.cli = c) : CliOk (setTask s tid f) := by
  intro i t' c hi hc
  obtain ⟨t0, h0, rfl⟩ := getElem?_setTask hi
  by_cases hti : tid = i
  · rw [if_pos hti] at hc; simpa using hf t0 c hc
  · rw [if_neg hti] at hc
    have := h.n i t0 (Ne.symm hti) h0
    rw [cliOf_inflight _ _ hc] at this; cases this

theorem failEnd_cli (s : St) (k : ErrK) (tid : Nat) (h : HeldBy s tid) : CliOk (failEnd s k tid) :=
  cliOk_of_unlocked _ (failEnd_inv s k tid h) (locked_failEnd s k tid)

theorem failBegin_cli (s : St) (k : ErrK) (tid : Nat) (h : HeldBy s tid) : CliOk (failBegin s k tid) := by
  have hinv := failBegin_inv s k tid h
  unfold failBegin at hinv ⊢
  dsimp only at hinv ⊢
  split
  · refine cliOk_setPc _ tid _ (h.congr rfl rfl rfl) ?_
    intro t c hcl
    simp [cliOf] at hcl
  · rename_i hsusp
    rw [if_neg hsusp] at hinv
    exact cliOk_of_unlocked _ hinv (locked_failEnd _ _ _)

theorem connectLocked_cli (s : St) (tid : Nat) (h : HeldBy s tid) : CliOk (connectLocked s tid) := by
  have hinv := connectLocked_inv s tid h
  unfold connectLocked at hinv ⊢
  split
  · rename_i hc
    rw [if_pos hc] at hinv
    exact cliOk_of_unlocked _ hinv (by simp)
  · dsimp only
    split
    · exact failBegin_cli _ _ _ (h.congr (by simp) (by simp) (by simp))
    · refine cliOk_setPc _ tid _ (h.congr rfl rfl rfl) ?_
      intro t c hcl
      simp only [cliOf, Option.some.injEq] at hcl
      rw [← hcl]

theorem acquire_cli (s : St) (tid : Nat) (h : CliOk s) : CliOk (acquire s tid).1 := by
  unfold acquire
  split
  · exact h.congr rfl rfl
  · intro i t c hi hc
    obtain ⟨t0, h0, rfl⟩ := getElem?_setTask hi
    by_cases hti : tid = i
    · rw [if_pos hti] at hc; simp [cliOf] at hc
    · rw [if_neg hti] at hc; simpa [setTask] using h i t0 c h0 hc

theorem append_cli (s : St) (k : Kind) (h : CliOk s) : CliOk { s with tasks := s.tasks ++ [{ kind := k, pc := .running }] } := by
  intro i t c hi hc
  simp only at hi
  rcases Nat.lt_or_ge i s.tasks.length with hlt | hge
  · rw [List.getElem?_append_left hlt] at hi; exact h i t c hi hc
  · rw [List.getElem?_append_right hge] at hi
    cases hj : i - s.tasks.length with
    | zero => simp [hj] at hi; rw [← hi] at hc; simp [cliOf] at hc
    | succ j => simp [hj] at hi

theorem spawnConnect_cli (s : St) (hl : LockInv s) (h : CliOk s) : CliOk (spawnConnect s) := by
  unfold spawnConnect
  dsimp only
  have h1 := append_inv s .connect hl
  have c1 := append_cli s .connect h
  generalize hs1 : ({ s with tasks := s.tasks ++ [{ kind := Kind.connect, pc := Pc.running }] } : St) = s1 at h1 c1
  have hlen : ∃ t : Task, s1.tasks[s.tasks.length]? = some t ∧ t.pc ≠ .done := by
    rw [← hs1]; exact ⟨_, by simp; rfl, by simp⟩
  cases hg : (acquire s1 s.tasks.length).2
  · rw [show acquire s1 s.tasks.length = ((acquire s1 s.tasks.length).1, false) from by rw [← hg]]
    exact (acquire_cli s1 _ c1).congr rfl rfl
  · have hh := acquire_got s1 _ h1 hlen hg
    rw [show acquire s1 s.tasks.length = ((acquire s1 s.tasks.length).1, true) from by rw [← hg]]
    exact (connectLocked_cli _ _ hh).congr rfl rfl

theorem callConnectOnce_cli (s : St) (hl : LockInv s) (h : CliOk s) : CliOk (callConnectOnce s) := by
  unfold callConnectOnce
  split
  · split
    · exact spawnConnect_cli s hl h
    · split
      · exact h
      · refine spawnConnect_cli _ ((hl.sim (cancelConnectTask_sim s)).congr rfl rfl rfl) ?_
        exact (h.sim (cancelConnectTask_sim s) (cli_cancelConnectTask s)).congr rfl rfl
  · exact spawnConnect_cli s hl h

theorem scheduleConnect_cli (s : St) (d : Nat) (hl : LockInv s) (h : CliOk s) : CliOk (scheduleConnect s d) := by
  unfold scheduleConnect
  split
  · exact callConnectOnce_cli s hl h
  · exact h.congr rfl rfl

theorem discEnd_cli (s : St) (tid : Nat) (e : Bool) (h : HeldBy s tid) : CliOk (discEnd s tid e) := by
  unfold discEnd
  dsimp only
  have h1 := release_finish _ tid h
  have c1 := cliOk_of_unlocked _ h1 (by simp)
  split
  · exact c1
  · exact scheduleConnect_cli _ _ h1 c1

theorem discLocked_cli (s : St) (tid : Nat) (e : Bool) (h : HeldBy s tid) : CliOk (discLocked s tid e) := by
  unfold discLocked
  dsimp only
  have h1 : HeldBy (emit (setState s .disconnected) (.onDisconnect e)) tid := h.congr rfl rfl rfl
  split
  · refine cliOk_setPc _ tid _ h1 ?_
    intro t c hcl; simp [cliOf] at hcl
  · exact discEnd_cli _ _ _ h1

theorem startLocked_cli (s : St) (tid : Nat) (h : HeldBy s tid) : CliOk (startLocked s tid) := by
  have hinv := startLocked_inv s tid h
  refine cliOk_of_unlocked _ hinv ?_
  unfold startLocked; dsimp only; simp

theorem stopLocked_cli (s : St) (tid : Nat) (h : HeldBy s tid) : CliOk (stopLocked s tid) := by
  have hinv := stopLocked_inv s tid h
  refine cliOk_of_unlocked _ hinv ?_
  rw [stopLocked_eq]; simp

theorem lockedBody_cli (s : St) (tid : Nat) (k : Kind) (h : HeldBy s tid) : CliOk (lockedBody s tid k) := by
  unfold lockedBody
  split
  · exact connectLocked_cli s tid h
  · exact discLocked_cli s tid _ h
  · exact startLocked_cli s tid h
  · exact stopLocked_cli s tid h

theorem spawn_cli (s : St) (k : Kind) (hl : LockInv s) (h : CliOk s) : CliOk (spawn s k) := by
  unfold spawn
  dsimp only
  have h1 := append_inv s k hl
  have c1 := append_cli s k h
  generalize hs1 : ({ s with tasks := s.tasks ++ [{ kind := k, pc := Pc.running }] } : St) = s1 at h1 c1
  have hlen : ∃ t : Task, s1.tasks[s.tasks.length]? = some t ∧ t.pc ≠ .done := by
    rw [← hs1]; exact ⟨_, by simp; rfl, by simp⟩
  cases hg : (acquire s1 s.tasks.length).2
  · rw [show acquire s1 s.tasks.length = ((acquire s1 s.tasks.length).1, false) from by rw [← hg]]
    simp only [Bool.false_eq_true, ↓reduceIte]
    exact acquire_cli s1 _ c1
  · have hh := acquire_got s1 _ h1 hlen hg
    rw [show acquire s1 s.tasks.length = ((acquire s1 s.tasks.length).1, true) from by rw [← hg]]
    simp only [↓reduceIte]
    exact lockedBody_cli _ _ k hh

theorem finish_cli (s : St) (tid : Nat) (h : CliOk s) : CliOk (finish s tid) := by
  intro i t c hi hc
  obtain ⟨t0, h0, rfl⟩ := getElem?_setTask hi
  by_cases hti : tid = i
  · rw [if_pos hti] at hc; simp [cliOf] at hc
  · rw [if_neg hti] at hc; simpa [finish] using h i t0 c h0 hc

theorem wakeTask_cli (s : St) (tid : Nat) (t : Task) (hl : LockInv s) (h : CliOk s) (ht : s.tasks[tid]? = some t) :
    CliOk (wakeTask s tid t) := by
  have hinv := wakeTask_inv s tid t hl ht
  unfold wakeTask at hinv ⊢
  split
  · exact h
  · exact h
  · rename_i hpc
    dsimp only
    split
    · apply finish_cli
      split
      · exact h.congr rfl rfl
      · exact h.congr (by simp) (by simp)
    · split
      · rename_i hgr
        exact lockedBody_cli _ _ _ (granted_held s tid t hl ht hpc hgr)
      · exact h
  · -- inStart
    rename_i hpc
    have hh := held_of_inflight s tid t hl ht (by simp [hpc, inflightPc])
    split
    · exact failBegin_cli _ _ _ (hh.congr (s' := { s with cli := .idle }) rfl rfl rfl)
    · split
      · refine cliOk_setPc _ tid _ (hh.congr (by simp) (by simp) (by simp)) ?_
        intro t' c hcl
        simp only [cliOf, Option.some.injEq] at hcl
        rw [← hcl]; simp
      · exact failBegin_cli _ _ _ (hh.congr (s' := { s with cli := .idle }) rfl rfl rfl)
      · exact h
  · -- inFinish
    rename_i hpc
    have hh := held_of_inflight s tid t hl ht (by simp [hpc, inflightPc])
    split
    · exact failBegin_cli _ _ _ (hh.congr (s' := { s with cli := .idle }) rfl rfl rfl)
    · split
      · dsimp only
        have h1 : HeldBy (emit (setState { s with cli := .live, tries := 0 } .ready) .onConnect) tid := hh.congr rfl rfl rfl
        split
        · refine cliOk_setPc _ tid _ h1 ?_
          intro t' c hcl
          simp [cliOf] at hcl
        · exact cliOk_of_unlocked _ (release_finish _ _ h1) (by simp)
      · exact failBegin_cli _ _ _ (hh.congr (s' := { s with cli := .idle }) rfl rfl rfl)
      · exact h
  · -- inOnConnect
    rename_i hpc
    have hh := held_of_inflight s tid t hl ht (by simp [hpc, inflightPc])
    split
    · exact cliOk_of_unlocked _ (release_finish _ _ hh) (by simp)
    · exact h
  · -- inOnError
    rename_i k hpc
    have hh := held_of_inflight s tid t hl ht (by simp [hpc, inflightPc])
    split
    · exact cliOk_of_unlocked _ (release_finish _ _ hh) (by simp)
    · split
      · exact failEnd_cli _ _ _ hh
      · exact h
  · -- inOnDisc
    rename_i hpc
    have hh := held_of_inflight s tid t hl ht (by simp [hpc, inflightPc])
    split
    · split
      · exact discEnd_cli _ _ _ hh
      · exact h
    · exact h

theorem setResult_cli (s : St) (tid : Nat) (r : Res) (h : CliOk s) : CliOk (setTask s tid fun t => { t with result := some r }) := by
  intro i t c hi hc
  obtain ⟨t0, h0, rfl⟩ := getElem?_setTask hi
  by_cases hti : tid = i
  · rw [if_pos hti] at hc; simpa [setTask] using h i t0 c h0 hc
  · rw [if_neg hti] at hc; simpa [setTask] using h i t0 c h0 hc

theorem step_cli (s : St) (e : Ev) (hl : LockInv s) (h : CliOk s) : CliOk (step s e) := by
  cases e with
  | callStart => exact spawn_cli s _ hl h
  | callStop =>
    simp only [step]
    split
    · exact spawn_cli _ _ (hl.sim (cancelConnect_sim s)) (h.sim (cancelConnect_sim s) (cli_cancelConnect s))
    · exact spawn_cli _ _ hl h
  | startDone r | finishDone r =>
    simp only [step]
    unfold complete
    split
    · exact (setResult_cli s _ r h).congr rfl rfl
    · exact h
  | cbDone =>
    simp only [step]
    unfold completeCb
    split
    · exact (setResult_cli s _ .ok h).congr rfl rfl
    · exact h
  | sessionEnd e =>
    simp only [step]
    split
    · rename_i hlive
      -- a live session: nobody is inside a client call (the client would be starting / finishing)
      have hn : CliOk { s with cli := .idle } := by
        intro i t c hi hc
        have := h i t c hi hc
        rw [hlive] at this
        subst this
        cases hp : t.pc <;> simp [cliOf, hp] at hc
      exact spawn_cli _ _ (hl.congr rfl rfl rfl) hn
    · exact h
  | zc m =>
    simp only [step]
    split
    · exact h
    · exact (scheduleConnect_cli _ 0 (hl.congr (by simp) (by simp) (by simp)) (h.congr (by simp) (by simp))).congr rfl rfl
  | timerDue =>
    simp only [step]
    split
    · split
      · exact h
      · exact h.congr rfl rfl
    · exact h
  | wait dt =>
    simp only [step]
    split
    · split
      · exact h.congr rfl rfl
      · exact h
    · exact h.congr rfl rfl
  | pop =>
    simp only [step]
    split
    · exact h
    · exact callConnectOnce_cli _ (hl.congr rfl rfl rfl) (h.congr rfl rfl)
    · split
      · rename_i t ht
        exact wakeTask_cli _ _ t (hl.congr rfl rfl rfl) (h.congr rfl rfl) ht
      · exact h.congr rfl rfl

theorem run_cli (s : St) (evs : List Ev) (hl : LockInv s) (h : CliOk s) : CliOk (run s evs) := by
  induction evs generalizing s with
  | nil => exact h
  | cons e es ih => exact ih _ (step_inv s e hl) (step_cli s e hl h)

theorem init_cli (b : Bool) (c e d : Bool := false) : CliOk (init b c e d) := by
  intro i t c' hi; simp [init] at hi

end Esp.Reconnect
