import Esp.Lemmas.ReconnectStop
/-!
# Reconnect manager: the client is only ever inside the call the in-flight task made

`CliOk`: a task suspended in `start_connection` ⇒ the client is `starting`; in `finish_connection` ⇒
`finishing`.  Hence while a session is `live` no attempt is in flight.  Whenever the lock is free
there is no in-flight task at all (`LockInv`), so only the states that keep the lock matter.
-/
namespace Esp.Reconnect

def CliOk (s : St) : Prop :=
  ∀ (i : Nat) (t : Task), s.tasks[i]? = some t → (t.pc = .inStart → s.cli = .starting) ∧ (t.pc = .inFinish → s.cli = .finishing)

theorem getElem?_setTask {s : St} {tid : Nat} {f : Task → Task} {i : Nat} {t : Task}
    (h : (setTask s tid f).tasks[i]? = some t) : ∃ t0, s.tasks[i]? = some t0 ∧ t = (if tid = i then f t0 else t0) := by
  simp only [setTask] at h
  rw [List.getElem?_modify] at h
  cases h0 : s.tasks[i]? with
  | none => simp [h0] at h
  | some t0 =>
    simp only [h0, Option.map_eq_map, Option.map_some, Option.some.injEq] at h
    exact ⟨t0, rfl, h.symm⟩

theorem cliOk_of_unlocked (s : St) (h : LockInv s) (hl : s.locked = false) : CliOk s := by
  intro i t ht
  have := noInflight_of_unlocked s h hl i t ht
  constructor <;> intro hp <;> simp [hp, inflightPc] at this

section proj
variable (s : St)
@[simp] theorem cli_setTask (tid : Nat) (f : Task → Task) : (setTask s tid f).cli = s.cli := rfl
@[simp] theorem cli_finish (tid : Nat) : (finish s tid).cli = s.cli := rfl
@[simp] theorem cli_emit (a : Act) : (emit s a).cli = s.cli := rfl
@[simp] theorem cli_setState (st : RState) : (setState s st).cli = s.cli := rfl
@[simp] theorem cli_cancelTimer : (cancelTimer s).cli = s.cli := rfl
@[simp] theorem cli_removeWaiter (tid : Nat) : (removeWaiter s tid).cli = s.cli := rfl
@[simp] theorem cli_handleFailure (k : ErrK) : (handleFailure s k).cli = s.cli := rfl
@[simp] theorem cli_wakeUpFirst : (wakeUpFirst s).cli = s.cli := by unfold wakeUpFirst; split <;> rfl
@[simp] theorem cli_release : (release s).cli = s.cli := by unfold release wakeUpFirst; dsimp only; split <;> rfl
@[simp] theorem cli_stopZc : (stopZc s).cli = s.cli := by unfold stopZc; split <;> rfl
@[simp] theorem cli_startZc : (startZc s).cli = s.cli := by unfold startZc; split <;> rfl
end proj

theorem cli_cancelTask (s : St) (tid : Nat) : (cancelTask s tid).cli = s.cli := by
  unfold cancelTask getTask
  split
  · rfl
  · split
    · rfl
    · dsimp only
      split
      · split <;> rfl
      · split <;> rfl

theorem cli_cancelConnectTask (s : St) : (cancelConnectTask s).cli = s.cli := by
  unfold cancelConnectTask
  split
  · exact cli_cancelTask s _
  · rfl

theorem cli_cancelConnect (s : St) : (cancelConnect s).cli = s.cli := by
  unfold cancelConnect; rw [cli_cancelConnectTask]; rfl

theorem CliOk.sim {s s' : St} (h : CliOk s) (hs : Sim s s') (hc : s'.cli = s.cli) : CliOk s' := by
  intro i t' hi
  obtain ⟨t0, h0, hp, _⟩ := hs.t i t' hi
  rw [hc, ← hp]; exact h i t0 h0

theorem CliOk.congr {s s' : St} (h : CliOk s) (ht : s'.tasks = s.tasks) (hc : s'.cli = s.cli) : CliOk s' := by
  intro i t hi; rw [ht] at hi; rw [hc]; exact h i t hi

theorem locked_afterFail (s : St) (tid : Nat) : (afterFail s tid).locked = false := by
  unfold afterFail; dsimp only; simp

theorem connectLocked_cli (s : St) (tid : Nat) (h : HeldBy s tid) : CliOk (connectLocked s tid) := by
  have hinv := connectLocked_inv s tid h
  unfold connectLocked at hinv ⊢
  split
  · rename_i hc
    rw [if_pos hc] at hinv
    exact cliOk_of_unlocked _ hinv (by simp)
  · rename_i hc
    rw [if_neg hc] at hinv
    dsimp only at hinv ⊢
    split
    · rename_i hl
      rw [if_pos hl] at hinv
      exact cliOk_of_unlocked _ hinv (locked_afterFail _ _)
    · intro i t hi
      obtain ⟨t0, h0, rfl⟩ := getElem?_setTask hi
      split
      · simp [setTask]
      · rename_i hne
        have := h.n i t0 (Ne.symm hne) h0
        constructor <;> intro hp <;> simp [hp, inflightPc] at this

theorem acquire_cli (s : St) (tid : Nat) (h : CliOk s) : CliOk (acquire s tid).1 := by
  unfold acquire
  split
  · exact h.congr rfl rfl
  · intro i t hi
    obtain ⟨t0, h0, rfl⟩ := getElem?_setTask hi
    split
    · simp [setTask]
    · simpa [setTask] using h i t0 h0

theorem append_cli (s : St) (k : Kind) (h : CliOk s) : CliOk { s with tasks := s.tasks ++ [{ kind := k, pc := .running }] } := by
  intro i t hi
  simp only at hi
  rcases Nat.lt_or_ge i s.tasks.length with hlt | hge
  · rw [List.getElem?_append_left hlt] at hi; exact h i t hi
  · rw [List.getElem?_append_right hge] at hi
    cases hj : i - s.tasks.length with
    | zero => simp [hj] at hi; rw [← hi]; simp
    | succ j => simp [hj] at hi

theorem spawnConnect_cli (s : St) (hl : LockInv s) (h : CliOk s) : CliOk (spawnConnect s) := by
  unfold spawnConnect
  dsimp only
  have h1 := append_inv s .connect hl
  have c1 := append_cli s .connect h
  generalize hs1 : ({ s with tasks := s.tasks ++ [{ kind := Kind.connect, pc := Pc.running }] } : St) = s1 at h1 c1
  have hlen : ∃ t : Task, s1.tasks[s.tasks.length]? = some t ∧ t.pc ≠ .done := by
    rw [← hs1]; exact ⟨_, by simp; rfl, by simp⟩
  cases hg : (acquire s1 s.tasks.length).2
  · rw [show acquire s1 s.tasks.length = ((acquire s1 s.tasks.length).1, false) from by rw [← hg]]
    exact (acquire_cli s1 _ c1).congr rfl rfl
  · have hh := acquire_got s1 _ h1 hlen hg
    rw [show acquire s1 s.tasks.length = ((acquire s1 s.tasks.length).1, true) from by rw [← hg]]
    exact (connectLocked_cli _ _ hh).congr rfl rfl

theorem callConnectOnce_cli (s : St) (hl : LockInv s) (h : CliOk s) : CliOk (callConnectOnce s) := by
  unfold callConnectOnce
  split
  · split
    · exact spawnConnect_cli s hl h
    · split
      · exact h
      · refine spawnConnect_cli _ ((hl.sim (cancelConnectTask_sim s)).congr rfl rfl rfl) ?_
        exact (h.sim (cancelConnectTask_sim s) (cli_cancelConnectTask s)).congr rfl rfl
  · exact spawnConnect_cli s hl h

theorem scheduleConnect_cli (s : St) (d : Nat) (hl : LockInv s) (h : CliOk s) : CliOk (scheduleConnect s d) := by
  unfold scheduleConnect
  split
  · exact callConnectOnce_cli s hl h
  · exact h.congr rfl rfl

theorem discLocked_cli (s : St) (tid : Nat) (e : Bool) (h : HeldBy s tid) : CliOk (discLocked s tid e) := by
  unfold discLocked
  dsimp only
  have h1 := release_finish _ tid (h.congr (s' := emit (setState s .disconnected) (.onDisconnect e)) rfl rfl rfl)
  have c1 := cliOk_of_unlocked _ h1 (by simp)
  split
  · exact c1
  · exact scheduleConnect_cli _ _ h1 c1

theorem startLocked_cli (s : St) (tid : Nat) (h : HeldBy s tid) : CliOk (startLocked s tid) := by
  have hinv := startLocked_inv s tid h
  refine cliOk_of_unlocked _ hinv ?_
  unfold startLocked; dsimp only; simp

theorem stopLocked_cli (s : St) (tid : Nat) (h : HeldBy s tid) : CliOk (stopLocked s tid) := by
  have hinv := stopLocked_inv s tid h
  refine cliOk_of_unlocked _ hinv ?_
  rw [stopLocked_eq]; simp

theorem lockedBody_cli (s : St) (tid : Nat) (k : Kind) (h : HeldBy s tid) : CliOk (lockedBody s tid k) := by
  unfold lockedBody
  split
  · exact connectLocked_cli s tid h
  · exact discLocked_cli s tid _ h
  · exact startLocked_cli s tid h
  · exact stopLocked_cli s tid h

theorem spawn_cli (s : St) (k : Kind) (hl : LockInv s) (h : CliOk s) : CliOk (spawn s k) := by
  unfold spawn
  dsimp only
  have h1 := append_inv s k hl
  have c1 := append_cli s k h
  generalize hs1 : ({ s with tasks := s.tasks ++ [{ kind := k, pc := Pc.running }] } : St) = s1 at h1 c1
  have hlen : ∃ t : Task, s1.tasks[s.tasks.length]? = some t ∧ t.pc ≠ .done := by
    rw [← hs1]; exact ⟨_, by simp; rfl, by simp⟩
  cases hg : (acquire s1 s.tasks.length).2
  · rw [show acquire s1 s.tasks.length = ((acquire s1 s.tasks.length).1, false) from by rw [← hg]]
    simp only [Bool.false_eq_true, ↓reduceIte]
    exact acquire_cli s1 _ c1
  · have hh := acquire_got s1 _ h1 hlen hg
    rw [show acquire s1 s.tasks.length = ((acquire s1 s.tasks.length).1, true) from by rw [← hg]]
    simp only [↓reduceIte]
    exact lockedBody_cli _ _ k hh

theorem finish_cli (s : St) (tid : Nat) (h : CliOk s) : CliOk (finish s tid) := by
  intro i t hi
  obtain ⟨t0, h0, rfl⟩ := getElem?_setTask hi
  split
  · simp
  · simpa [finish] using h i t0 h0

theorem wakeTask_cli (s : St) (tid : Nat) (t : Task) (hl : LockInv s) (h : CliOk s) (ht : s.tasks[tid]? = some t) :
    CliOk (wakeTask s tid t) := by
  have hinv := wakeTask_inv s tid t hl ht
  unfold wakeTask at hinv ⊢
  split
  · exact h
  · exact h
  · rename_i hpc
    dsimp only
    split
    · apply finish_cli
      split
      · exact h.congr rfl rfl
      · exact h.congr (by simp) (by simp)
    · split
      · rename_i hgr
        exact lockedBody_cli _ _ _ (granted_held s tid t hl ht hpc hgr)
      · exact h
  · -- inStart
    rename_i hpc
    have hh := held_of_inflight s tid t hl ht (by simp [hpc, inflightPc])
    split
    · rename_i hm
      simp only [hpc, hm, ↓reduceIte] at hinv
      exact cliOk_of_unlocked _ hinv (locked_afterFail _ _)
    · rename_i hm
      split
      · -- start ok: the task moves into finish_connection, the client with it
        intro i t' hi
        obtain ⟨t0, h0, rfl⟩ := getElem?_setTask hi
        split
        · simp [setTask]
        · rename_i hne
          have h0' : s.tasks[i]? = some t0 := by simpa using h0
          have := hh.n i t0 (Ne.symm hne) h0'
          constructor <;> intro hp <;> simp [hp, inflightPc] at this
      · rename_i k hr
        simp only [hpc, hm, hr] at hinv
        exact cliOk_of_unlocked _ hinv (locked_afterFail _ _)
      · exact h
  · -- inFinish
    rename_i hpc
    split
    · rename_i hm
      simp only [hpc, hm, ↓reduceIte] at hinv
      exact cliOk_of_unlocked _ hinv (locked_afterFail _ _)
    · rename_i hm
      split
      · rename_i hr
        simp only [hpc, hm, hr] at hinv
        exact cliOk_of_unlocked _ hinv (by simp)
      · rename_i k hr
        simp only [hpc, hm, hr] at hinv
        exact cliOk_of_unlocked _ hinv (locked_afterFail _ _)
      · exact h

theorem step_cli (s : St) (e : Ev) (hl : LockInv s) (h : CliOk s) : CliOk (step s e) := by
  cases e with
  | callStart => exact spawn_cli s _ hl h
  | callStop =>
    simp only [step]
    split
    · exact spawn_cli _ _ (hl.sim (cancelConnect_sim s)) (h.sim (cancelConnect_sim s) (cli_cancelConnect s))
    · exact spawn_cli _ _ hl h
  | startDone r | finishDone r =>
    simp only [step]
    unfold complete
    split
    · rename_i tid _
      intro i t hi
      have hi' : (setTask s tid fun t => { t with result := some r }).tasks[i]? = some t := hi
      obtain ⟨t0, h0, rfl⟩ := getElem?_setTask hi'
      split <;> simpa [setTask] using h i t0 h0
    · exact h
  | sessionEnd e =>
    simp only [step]
    split
    · rename_i hlive
      -- a live session: nobody is in flight (the client would be starting / finishing)
      have hn : CliOk { s with cli := .idle } := by
        intro i t hi
        have := h i t hi
        constructor <;> intro hp
        · have := this.1 hp; rw [hlive] at this; cases this
        · have := this.2 hp; rw [hlive] at this; cases this
      exact spawn_cli _ _ (hl.congr rfl rfl rfl) hn
    · exact h
  | zc m =>
    simp only [step]
    split
    · exact h
    · exact (scheduleConnect_cli _ 0 (hl.congr (by simp) (by simp) (by simp)) (h.congr (by simp) (by simp))).congr rfl rfl
  | timerDue =>
    simp only [step]
    split
    · split
      · exact h
      · exact h.congr rfl rfl
    · exact h
  | wait dt =>
    simp only [step]
    split
    · split
      · exact h.congr rfl rfl
      · exact h
    · exact h.congr rfl rfl
  | pop =>
    simp only [step]
    split
    · exact h
    · exact callConnectOnce_cli _ (hl.congr rfl rfl rfl) (h.congr rfl rfl)
    · split
      · rename_i t ht
        exact wakeTask_cli _ _ t (hl.congr rfl rfl rfl) (h.congr rfl rfl) ht
      · exact h.congr rfl rfl

theorem run_cli (s : St) (evs : List Ev) (hl : LockInv s) (h : CliOk s) : CliOk (run s evs) := by
  induction evs generalizing s with
  | nil => exact h
  | cons e es ih => exact ih _ (step_inv s e hl) (step_cli s e hl h)

theorem init_cli (b : Bool) : CliOk (init b) := by
  intro i t hi; simp [init] at hi

end Esp.Reconnect
