import Esp.Model.Seg
/-! segmentation independence of the generic receive loop -/
namespace Esp
variable {E F : Type}

theorem drain_nil (S : Splitter E F) : drain S [] = ([], [], none) := by
  rw [drain]; simp

theorem drain_need (S : Splitter E F) (b : Bytes) (hne : b ≠ []) (h : S.parseOne b = .need) :
    drain S b = ([], b, none) := by
  rw [drain]; simp only [hne, ↓reduceDIte]; split <;> simp_all

theorem drain_bad (S : Splitter E F) (b : Bytes) (e : E) (hne : b ≠ []) (h : S.parseOne b = .bad e) :
    drain S b = ([], b, some e) := by
  rw [drain]; simp only [hne, ↓reduceDIte]; split <;> simp_all

theorem drain_frame (S : Splitter E F) (b : Bytes) (f : F) (r : Bytes) (h : S.parseOne b = .frame f r) :
    drain S b = (f :: (drain S r).1, (drain S r).2.1, (drain S r).2.2) := by
  have hne : b ≠ [] := by
    intro hb; subst hb; have := S.shrink _ _ _ h; simp at this
  rw [drain]; simp only [hne, ↓reduceDIte]
  split
  · simp_all
  · simp_all
  · rename_i f' r' h'; rw [h] at h'; cases h'; rfl

/-- Feeding `a` and later `c` delivers what feeding `a ++ c` at once delivers: if the loop ran
over `a` without error and retained `b`, then the loop over `a ++ c` hands over the same frames
first and continues exactly like the loop over `b ++ c`. -/
theorem drain_append (S : Splitter E F) (a c : Bytes) :
    ∀ es b, drain S a = (es, b, none) →
      drain S (a ++ c) = (es ++ (drain S (b ++ c)).1, (drain S (b ++ c)).2.1, (drain S (b ++ c)).2.2) := by
  induction a using drain.induct S with
  | case1 =>
    intro es b h
    rw [drain_nil] at h
    simp only [Prod.mk.injEq] at h
    obtain ⟨rfl, rfl, _⟩ := h
    simp
  | case2 buf hne hp =>
    intro es b h
    rw [drain_need S buf hne hp] at h
    simp only [Prod.mk.injEq] at h
    obtain ⟨rfl, rfl, _⟩ := h
    simp
  | case3 buf hne e hp =>
    intro es b h
    rw [drain_bad S buf e hne hp] at h
    simp at h
  | case4 buf hne f rest hp hlt ih =>
    intro es b h
    rw [drain_frame S buf f rest hp] at h
    simp only [Prod.mk.injEq] at h
    obtain ⟨rfl, rfl, hnone⟩ := h
    have ih' := ih (drain S rest).1 (drain S rest).2.1 (by rw [← hnone])
    rw [drain_frame S (buf ++ c) f (rest ++ c) (S.stable_frame buf c f rest hp), ih']
    simp

end Esp

namespace Esp
variable {E F : Type}

/-- for a splitter whose "bad" verdicts are prefix-stable (noise: the marker byte), an error
found while draining `a` is found, at the same place, while draining `a ++ c` -/
theorem drain_append_bad (S : Splitter E F)
    (hstab : ∀ b c e, S.parseOne b = .bad e → S.parseOne (b ++ c) = .bad e) (a c : Bytes) :
    ∀ es b e, drain S a = (es, b, some e) → drain S (a ++ c) = (es, b ++ c, some e) := by
  induction a using drain.induct S with
  | case1 => intro es b e h; rw [drain_nil] at h; simp at h
  | case2 buf hne hp => intro es b e h; rw [drain_need S buf hne hp] at h; simp at h
  | case3 buf hne e' hp =>
    intro es b e h
    rw [drain_bad S buf e' hne hp] at h
    simp only [Prod.mk.injEq, Option.some.injEq] at h
    obtain ⟨rfl, rfl, rfl⟩ := h
    exact drain_bad S (buf ++ c) e' (by simp [hne]) (hstab _ _ _ hp)
  | case4 buf hne f rest hp hlt ih =>
    intro es b e h
    rw [drain_frame S buf f rest hp] at h
    simp only [Prod.mk.injEq] at h
    obtain ⟨rfl, rfl, hsome⟩ := h
    have ih' := ih (drain S rest).1 (drain S rest).2.1 e (by rw [← hsome])
    rw [drain_frame S (buf ++ c) f (rest ++ c) (S.stable_frame buf c f rest hp), ih']

end Esp
