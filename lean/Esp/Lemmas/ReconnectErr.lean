import Esp.Lemmas.ReconnectCli
import Esp.Lemmas.ReconnectLog
/-!
# Reconnect manager: a failure being reported is counted unless `stop()` intervenes

`ErrOk`: while a task is suspended inside `on_connect_error` the manager's state is DISCONNECTED (it
holds the lock, so nobody else moves the state).  Hence `_call_connect_once` — from an mDNS record or a
timer — never cancels it (it only restarts a task in state CONNECTING), and only `stop()` does.
-/
namespace Esp.Reconnect

def isErrPc : Pc → Bool | .inOnError _ => true | _ => false

theorem isErr_inflight (pc : Pc) (h : isErrPc pc = true) : inflightPc pc = true := by
  cases pc <;> simp_all [isErrPc, inflightPc]

def ErrOk (s : St) : Prop :=
  ∀ (i : Nat) (t : Task), s.tasks[i]? = some t → isErrPc t.pc = true → s.state = .disconnected

theorem errOk_of_unlocked (s : St) (h : LockInv s) (hl : s.locked = false) : ErrOk s := by
  intro i t ht hc
  have := h.a i t ht (isErr_inflight _ hc)
  simp [hl] at this

theorem errOk_of_disc (s : St) (h : s.state = .disconnected) : ErrOk s := fun _ _ _ _ => h

theorem state_cancelTask (s : St) (tid : Nat) : (cancelTask s tid).state = s.state := by
  unfold cancelTask getTask
  split
  · rfl
  · split
    · rfl
    · dsimp only
      split
      · split <;> rfl
      · split <;> rfl

theorem state_cancelConnectTask (s : St) : (cancelConnectTask s).state = s.state := by
  unfold cancelConnectTask
  split
  · exact state_cancelTask s _
  · rfl

theorem state_cancelConnect (s : St) : (cancelConnect s).state = s.state := by
  unfold cancelConnect; rw [state_cancelConnectTask]; rfl

theorem ErrOk.sim {s s' : St} (h : ErrOk s) (hs : Sim s s') (hc : s'.state = s.state) : ErrOk s' := by
  intro i t' hi hcl
  obtain ⟨t0, h0, hp, _⟩ := hs.t i t' hi
  rw [hc]; exact h i t0 h0 (by rw [hp]; exact hcl)

theorem ErrOk.congr {s s' : St} (h : ErrOk s) (ht : s'.tasks = s.tasks) (hc : s'.state = s.state) : ErrOk s' := by
  intro i t hi; rw [ht] at hi; rw [hc]; exact h i t hi

/-- the task at `tid` is the only one that may be suspended under the lock -/
theorem errOk_setPc (s : St) (tid : Nat) (f : Task → Task) (h : HeldBy s tid)
    (hf : ∀ t, isErrPc (f t).pc = true → s.state = .disconnected) : ErrOk (setTask s tid f) := by
  intro i t' hi hc
  obtain ⟨t0, h0, rfl⟩ := getElem?_setTask hi
  by_cases hti : tid = i
  · rw [if_pos hti] at hc; simpa using hf t0 hc
  · rw [if_neg hti] at hc
    have := h.n i t0 (Ne.symm hti) h0
    rw [isErr_inflight _ hc] at this; cases this

theorem failEnd_err (s : St) (k : ErrK) (tid : Nat) (h : HeldBy s tid) : ErrOk (failEnd s k tid) :=
  errOk_of_unlocked _ (failEnd_inv s k tid h) (locked_failEnd s k tid)

theorem failBegin_err (s : St) (k : ErrK) (tid : Nat) (h : HeldBy s tid) : ErrOk (failBegin s k tid) := by
  have hinv := failBegin_inv s k tid h
  unfold failBegin at hinv ⊢
  dsimp only at hinv ⊢
  split
  · exact errOk_of_disc _ (by simp [setState])
  · rename_i hsusp
    rw [if_neg hsusp] at hinv
    exact errOk_of_unlocked _ hinv (locked_failEnd _ _ _)

theorem connectLocked_err (s : St) (tid : Nat) (h : HeldBy s tid) : ErrOk (connectLocked s tid) := by
  have hinv := connectLocked_inv s tid h
  unfold connectLocked at hinv ⊢
  split
  · rename_i hc
    rw [if_pos hc] at hinv
    exact errOk_of_unlocked _ hinv (by simp)
  · dsimp only
    split
    · exact failBegin_err _ _ _ (h.congr (by simp) (by simp) (by simp))
    · refine errOk_setPc _ tid _ (h.congr rfl rfl rfl) ?_
      intro t hcl
      simp [isErrPc] at hcl

theorem acquire_err (s : St) (tid : Nat) (h : ErrOk s) : ErrOk (acquire s tid).1 := by
  unfold acquire
  split
  · exact h.congr rfl rfl
  · intro i t hi hc
    obtain ⟨t0, h0, rfl⟩ := getElem?_setTask hi
    by_cases hti : tid = i
    · rw [if_pos hti] at hc; simp [isErrPc] at hc
    · rw [if_neg hti] at hc; simpa [setTask] using h i t0 h0 hc

theorem append_err (s : St) (k : Kind) (h : ErrOk s) : ErrOk { s with tasks := s.tasks ++ [{ kind := k, pc := .running }] } := by
  intro i t hi hc
  simp only at hi
  rcases Nat.lt_or_ge i s.tasks.length with hlt | hge
  · rw [List.getElem?_append_left hlt] at hi; exact h i t hi hc
  · rw [List.getElem?_append_right hge] at hi
    cases hj : i - s.tasks.length with
    | zero => simp [hj] at hi; rw [← hi] at hc; simp [isErrPc] at hc
    | succ j => simp [hj] at hi

theorem spawnConnect_err (s : St) (hl : LockInv s) (h : ErrOk s) : ErrOk (spawnConnect s) := by
  unfold spawnConnect
  dsimp only
  have h1 := append_inv s .connect hl
  have c1 := append_err s .connect h
  generalize hs1 : ({ s with tasks := s.tasks ++ [{ kind := Kind.connect, pc := Pc.running }] } : St) = s1 at h1 c1
  have hlen : ∃ t : Task, s1.tasks[s.tasks.length]? = some t ∧ t.pc ≠ .done := by
    rw [← hs1]; exact ⟨_, by simp; rfl, by simp⟩
  cases hg : (acquire s1 s.tasks.length).2
  · rw [show acquire s1 s.tasks.length = ((acquire s1 s.tasks.length).1, false) from by rw [← hg]]
    exact (acquire_err s1 _ c1).congr rfl rfl
  · have hh := acquire_got s1 _ h1 hlen hg
    rw [show acquire s1 s.tasks.length = ((acquire s1 s.tasks.length).1, true) from by rw [← hg]]
    exact (connectLocked_err _ _ hh).congr rfl rfl

theorem callConnectOnce_err (s : St) (hl : LockInv s) (h : ErrOk s) : ErrOk (callConnectOnce s) := by
  unfold callConnectOnce
  split
  · split
    · exact spawnConnect_err s hl h
    · split
      · exact h
      · refine spawnConnect_err _ ((hl.sim (cancelConnectTask_sim s)).congr rfl rfl rfl) ?_
        exact errOk_of_disc _ (by simp [setState])
  · exact spawnConnect_err s hl h

theorem scheduleConnect_err (s : St) (d : Nat) (hl : LockInv s) (h : ErrOk s) : ErrOk (scheduleConnect s d) := by
  unfold scheduleConnect
  split
  · exact callConnectOnce_err s hl h
  · exact h.congr rfl rfl

theorem discEnd_err (s : St) (tid : Nat) (e : Bool) (h : HeldBy s tid) : ErrOk (discEnd s tid e) := by
  unfold discEnd
  dsimp only
  have h1 := release_finish _ tid h
  have c1 := errOk_of_unlocked _ h1 (by simp)
  split
  · exact c1
  · exact scheduleConnect_err _ _ h1 c1

theorem discLocked_err (s : St) (tid : Nat) (e : Bool) (h : HeldBy s tid) : ErrOk (discLocked s tid e) := by
  unfold discLocked
  dsimp only
  have h1 : HeldBy (emit (setState s .disconnected) (.onDisconnect e)) tid := h.congr rfl rfl rfl
  split
  · exact errOk_of_disc _ (by simp [setState])
  · exact discEnd_err _ _ _ h1

theorem startLocked_err (s : St) (tid : Nat) (h : HeldBy s tid) : ErrOk (startLocked s tid) := by
  have hinv := startLocked_inv s tid h
  refine errOk_of_unlocked _ hinv ?_
  unfold startLocked; dsimp only; simp

theorem stopLocked_err (s : St) (tid : Nat) (h : HeldBy s tid) : ErrOk (stopLocked s tid) := by
  have hinv := stopLocked_inv s tid h
  refine errOk_of_unlocked _ hinv ?_
  rw [stopLocked_eq]; simp

theorem lockedBody_err (s : St) (tid : Nat) (k : Kind) (h : HeldBy s tid) : ErrOk (lockedBody s tid k) := by
  unfold lockedBody
  split
  · exact connectLocked_err s tid h
  · exact discLocked_err s tid _ h
  · exact startLocked_err s tid h
  · exact stopLocked_err s tid h

theorem spawn_err (s : St) (k : Kind) (hl : LockInv s) (h : ErrOk s) : ErrOk (spawn s k) := by
  unfold spawn
  dsimp only
  have h1 := append_inv s k hl
  have c1 := append_err s k h
  generalize hs1 : ({ s with tasks := s.tasks ++ [{ kind := k, pc := Pc.running }] } : St) = s1 at h1 c1
  have hlen : ∃ t : Task, s1.tasks[s.tasks.length]? = some t ∧ t.pc ≠ .done := by
    rw [← hs1]; exact ⟨_, by simp; rfl, by simp⟩
  cases hg : (acquire s1 s.tasks.length).2
  · rw [show acquire s1 s.tasks.length = ((acquire s1 s.tasks.length).1, false) from by rw [← hg]]
    simp only [Bool.false_eq_true, ↓reduceIte]
    exact acquire_err s1 _ c1
  · have hh := acquire_got s1 _ h1 hlen hg
    rw [show acquire s1 s.tasks.length = ((acquire s1 s.tasks.length).1, true) from by rw [← hg]]
    simp only [↓reduceIte]
    exact lockedBody_err _ _ k hh

theorem finish_err (s : St) (tid : Nat) (h : ErrOk s) : ErrOk (finish s tid) := by
  intro i t hi hc
  obtain ⟨t0, h0, rfl⟩ := getElem?_setTask hi
  by_cases hti : tid = i
  · rw [if_pos hti] at hc; simp [isErrPc] at hc
  · rw [if_neg hti] at hc; simpa [finish] using h i t0 h0 hc

theorem wakeTask_err (s : St) (tid : Nat) (t : Task) (hl : LockInv s) (h : ErrOk s) (ht : s.tasks[tid]? = some t) :
    ErrOk (wakeTask s tid t) := by
  have hinv := wakeTask_inv s tid t hl ht
  unfold wakeTask at hinv ⊢
  split
  · exact h
  · exact h
  · rename_i hpc
    dsimp only
    split
    · apply finish_err
      split
      · exact h.congr rfl rfl
      · exact h.congr (by simp) (by simp)
    · split
      · rename_i hgr
        exact lockedBody_err _ _ _ (granted_held s tid t hl ht hpc hgr)
      · exact h
  · -- inStart
    rename_i hpc
    have hh := held_of_inflight s tid t hl ht (by simp [hpc, inflightPc])
    split
    · exact failBegin_err _ _ _ (hh.congr (s' := { s with cli := .idle }) rfl rfl rfl)
    · split
      · refine errOk_setPc _ tid _ (hh.congr (by simp) (by simp) (by simp)) ?_
        intro t' hcl
        simp [isErrPc] at hcl
      · exact failBegin_err _ _ _ (hh.congr (s' := { s with cli := .idle }) rfl rfl rfl)
      · exact h
  · -- inFinish
    rename_i hpc
    have hh := held_of_inflight s tid t hl ht (by simp [hpc, inflightPc])
    split
    · exact failBegin_err _ _ _ (hh.congr (s' := { s with cli := .idle }) rfl rfl rfl)
    · split
      · dsimp only
        have h1 : HeldBy (emit (setState { s with cli := .live, tries := 0 } .ready) .onConnect) tid := hh.congr rfl rfl rfl
        split
        · refine errOk_setPc _ tid _ h1 ?_
          intro t' hcl
          simp [isErrPc] at hcl
        · exact errOk_of_unlocked _ (release_finish _ _ h1) (by simp)
      · exact failBegin_err _ _ _ (hh.congr (s' := { s with cli := .idle }) rfl rfl rfl)
      · exact h
  · -- inOnConnect
    rename_i hpc
    have hh := held_of_inflight s tid t hl ht (by simp [hpc, inflightPc])
    split
    · exact errOk_of_unlocked _ (release_finish _ _ hh) (by simp)
    · exact h
  · -- inOnError
    rename_i k hpc
    have hh := held_of_inflight s tid t hl ht (by simp [hpc, inflightPc])
    split
    · exact errOk_of_unlocked _ (release_finish _ _ hh) (by simp)
    · split
      · exact failEnd_err _ _ _ hh
      · exact h
  · -- inOnDisc
    rename_i hpc
    have hh := held_of_inflight s tid t hl ht (by simp [hpc, inflightPc])
    split
    · split
      · exact discEnd_err _ _ _ hh
      · exact h
    · exact h

theorem setResult_err (s : St) (tid : Nat) (r : Res) (h : ErrOk s) : ErrOk (setTask s tid fun t => { t with result := some r }) := by
  intro i t hi hc
  obtain ⟨t0, h0, rfl⟩ := getElem?_setTask hi
  by_cases hti : tid = i
  · rw [if_pos hti] at hc; simpa [setTask] using h i t0 h0 hc
  · rw [if_neg hti] at hc; simpa [setTask] using h i t0 h0 hc

theorem step_err (s : St) (e : Ev) (hl : LockInv s) (h : ErrOk s) : ErrOk (step s e) := by
  cases e with
  | callStart => exact spawn_err s _ hl h
  | callStop =>
    simp only [step]
    split
    · exact spawn_err _ _ (hl.sim (cancelConnect_sim s)) (h.sim (cancelConnect_sim s) (state_cancelConnect s))
    · exact spawn_err _ _ hl h
  | startDone r | finishDone r =>
    simp only [step]
    unfold complete
    split
    · exact (setResult_err s _ r h).congr rfl rfl
    · exact h
  | cbDone =>
    simp only [step]
    unfold completeCb
    split
    · exact (setResult_err s _ .ok h).congr rfl rfl
    · exact h
  | sessionEnd e =>
    simp only [step]
    split
    · exact spawn_err _ _ (hl.congr rfl rfl rfl) (h.congr rfl rfl)
    · exact h
  | zc m =>
    simp only [step]
    split
    · exact h
    · exact (scheduleConnect_err _ 0 (hl.congr (by simp) (by simp) (by simp)) (h.congr (by simp) (by simp))).congr rfl rfl
  | timerDue =>
    simp only [step]
    split
    · split
      · exact h
      · exact h.congr rfl rfl
    · exact h
  | wait dt =>
    simp only [step]
    split
    · split
      · exact h.congr rfl rfl
      · exact h
    · exact h.congr rfl rfl
  | pop =>
    simp only [step]
    split
    · exact h
    · exact callConnectOnce_err _ (hl.congr rfl rfl rfl) (h.congr rfl rfl)
    · split
      · rename_i t ht
        exact wakeTask_err _ _ t (hl.congr rfl rfl rfl) (h.congr rfl rfl) ht
      · exact h.congr rfl rfl

theorem run_err (s : St) (evs : List Ev) (hl : LockInv s) (h : ErrOk s) : ErrOk (run s evs) := by
  induction evs generalizing s with
  | nil => exact h
  | cons e es ih => exact ih _ (step_inv s e hl) (step_err s e hl h)

theorem init_err (b : Bool) (c e d : Bool := false) : ErrOk (init b c e d) := by
  intro i t hi; simp [init] at hi

/-- task `tid` keeps its suspension point and its cancellation flag, and nothing logged is an attempt -/
structure Keep (tid : Nat) (s s' : St) : Prop where
  t : ∀ t, s.tasks[tid]? = some t → ∃ t', s'.tasks[tid]? = some t' ∧ t'.pc = t.pc ∧ t'.mustCancel = t.mustCancel
  l : ∃ l, s'.log = s.log ++ l ∧ Act.attempt ∉ l

theorem Keep.refl (tid : Nat) (s : St) : Keep tid s s := ⟨fun t h => ⟨t, h, rfl, rfl⟩, [], by simp, by simp⟩

theorem Keep.trans {tid : Nat} {a b c : St} (h1 : Keep tid a b) (h2 : Keep tid b c) : Keep tid a c := by
  constructor
  · intro t ht
    obtain ⟨t1, ht1, hp1, hm1⟩ := h1.t t ht
    obtain ⟨t2, ht2, hp2, hm2⟩ := h2.t t1 ht1
    exact ⟨t2, ht2, hp2.trans hp1, hm2.trans hm1⟩
  · obtain ⟨l1, hl1, hn1⟩ := h1.l
    obtain ⟨l2, hl2, hn2⟩ := h2.l
    exact ⟨l1 ++ l2, by rw [hl2, hl1, List.append_assoc], by simp [hn1, hn2]⟩

theorem Keep.of_eq {tid : Nat} {s s' : St} (ht : s'.tasks = s.tasks) (hl : s'.log = s.log) : Keep tid s s' :=
  ⟨fun t h => ⟨t, by rw [ht]; exact h, rfl, rfl⟩, [], by simp [hl], by simp⟩

theorem Keep.congr_right {tid : Nat} {s s1 s2 : St} (h : Keep tid s s1) (ht : s2.tasks = s1.tasks) (hl : s2.log = s1.log) :
    Keep tid s s2 := by
  obtain ⟨h1, h2⟩ := h
  exact ⟨by rw [ht]; exact h1, by rw [hl]; exact h2⟩

theorem Keep.congr_left {tid : Nat} {s0 s1 s2 : St} (h : Keep tid s1 s2) (ht : s1.tasks = s0.tasks) (hl : s1.log = s0.log) :
    Keep tid s0 s2 := by
  obtain ⟨h1, h2⟩ := h
  exact ⟨by rw [← ht]; exact h1, by rw [← hl]; exact h2⟩

theorem keep_emit (tid : Nat) (s : St) (a : Act) (ha : a ≠ .attempt) : Keep tid s (emit s a) :=
  ⟨fun t h => ⟨t, h, rfl, rfl⟩, [a], rfl, by simp; exact fun h => ha h.symm⟩

theorem keep_setTask_ne (tid tid' : Nat) (s : St) (f : Task → Task) (hne : tid' ≠ tid) : Keep tid s (setTask s tid' f) := by
  refine ⟨fun t h => ⟨t, ?_, rfl, rfl⟩, [], by simp [setTask], by simp⟩
  simp only [setTask]; rw [List.getElem?_modify]; simp [h, hne]

theorem keep_setTask_same (tid tid' : Nat) (s : St) (f : Task → Task)
    (hf : ∀ t, (f t).pc = t.pc ∧ (f t).mustCancel = t.mustCancel) : Keep tid s (setTask s tid' f) := by
  refine ⟨fun t h => ?_, [], by simp [setTask], by simp⟩
  simp only [setTask]; rw [List.getElem?_modify]
  by_cases hti : tid' = tid
  · subst hti; exact ⟨f t, by simp [h], (hf t).1, (hf t).2⟩
  · exact ⟨t, by simp [h, hti], rfl, rfl⟩

theorem keep_setResult (tid tid' : Nat) (s : St) (r : Res) (rdy : List RItem) :
    Keep tid s { setTask s tid' (fun t => { t with result := some r }) with ready := rdy } := by
  refine ⟨fun t h => ?_, [], by simp [setTask], by simp⟩
  simp only [setTask]; rw [List.getElem?_modify]
  by_cases hti : tid' = tid
  · subst hti; exact ⟨{ t with result := some r }, by simp [h], rfl, rfl⟩
  · exact ⟨t, by simp [h, hti], rfl, rfl⟩

theorem keep_finish_ne (tid tid' : Nat) (s s' : St) (ht : s'.tasks = s.tasks) (hl : s'.log = s.log) (hne : tid' ≠ tid) :
    Keep tid s (finish s' tid') := by
  refine ⟨fun t h => ⟨t, ?_, rfl, rfl⟩, [], by simp [finish, setTask, hl], by simp⟩
  simp only [finish, setTask]; rw [List.getElem?_modify, ht]; simp [h, hne]

theorem keep_append (tid : Nat) (s : St) (x : Task) : Keep tid s { s with tasks := s.tasks ++ [x] } := by
  refine ⟨fun t h => ⟨t, ?_, rfl, rfl⟩, [], by simp, by simp⟩
  have hlt : tid < s.tasks.length := by
    rcases Nat.lt_or_ge tid s.tasks.length with h1 | h1
    · exact h1
    · rw [List.getElem?_eq_none h1] at h; cases h
  simp only; rw [List.getElem?_append_left hlt]; exact h

theorem keep_stopZc (tid : Nat) (s : St) : Keep tid s (stopZc s) := by
  unfold stopZc
  split
  · exact ⟨fun t h => ⟨t, h, rfl, rfl⟩, [.zcRemove], rfl, by simp⟩
  · exact Keep.refl _ _

theorem acquire_locked (s : St) (tid' : Nat) (hl : s.locked = true) :
    acquire s tid' = (setTask { s with waiters := s.waiters ++ [(tid', .pending)] } tid' (fun t => { t with pc := .lockWait }), false) := by
  unfold acquire lockFree; simp [hl]

theorem keep_spawn (tid : Nat) (s : St) (k : Kind) (hl : s.locked = true) (hlt : tid < s.tasks.length) : Keep tid s (spawn s k) := by
  unfold spawn
  dsimp only
  rw [acquire_locked _ _ (by simpa using hl)]
  simp only [Bool.false_eq_true, ↓reduceIte]
  refine ⟨fun t h => ⟨t, ?_, rfl, rfl⟩, [], by simp [setTask], by simp⟩
  simp only [setTask]; rw [List.getElem?_modify]
  have : ¬ s.tasks.length = tid := by omega
  simp [this, List.getElem?_append_left hlt, h]

theorem keep_spawnConnect (tid : Nat) (s : St) (hl : s.locked = true) (hlt : tid < s.tasks.length) : Keep tid s (spawnConnect s) := by
  unfold spawnConnect
  dsimp only
  rw [acquire_locked _ _ (by simpa using hl)]
  simp only [Bool.false_eq_true, ↓reduceIte]
  refine ⟨fun t h => ⟨t, ?_, rfl, rfl⟩, [], by simp [setTask], by simp⟩
  simp only [setTask]; rw [List.getElem?_modify]
  have : ¬ s.tasks.length = tid := by omega
  simp [this, List.getElem?_append_left hlt, h]

theorem keep_callConnectOnce (tid : Nat) (s : St) (hl : s.locked = true) (hlt : tid < s.tasks.length)
    (hst : s.state ≠ .connecting) : Keep tid s (callConnectOnce s) := by
  unfold callConnectOnce
  split
  · split
    · exact keep_spawnConnect tid s hl hlt
    · exact Keep.refl _ _
  · exact keep_spawnConnect tid s hl hlt

theorem log_afterFail (s : St) (tid : Nat) : ∃ l, (afterFail s tid).log = s.log ++ l := by
  unfold afterFail startZc
  dsimp only
  split
  · split
    · exact ⟨[.zcAdd, .arm (backoff s.tries)], by simp [finish, setTask, release, wakeUpFirst, emit, cancelTimer]; split <;> simp⟩
    · exact ⟨[.arm (backoff s.tries)], by simp [finish, setTask, release, wakeUpFirst, emit, cancelTimer]; split <;> simp⟩
  · exact ⟨[.arm (backoff s.tries)], by simp [finish, setTask, release, wakeUpFirst, emit, cancelTimer]; split <;> simp⟩

theorem log_failEnd (s : St) (k : ErrK) (tid : Nat) : ∃ l, (failEnd s k tid).log = s.log ++ .failCounted k :: l := by
  unfold failEnd
  obtain ⟨l, hl⟩ := log_afterFail (emit { s with tries := if k = .auth then maxTries else s.tries + 1 } (.failCounted k)) tid
  exact ⟨l, by rw [hl]; simp [emit]⟩

/-- a failure being reported (task `tid` suspended in `on_connect_error`, not cancelled) survives every event other than
`stop()`: either the task is still there, uncancelled, and no attempt was started, or this very step counted the failure
(the first thing it logs). -/
theorem step_counts (s : St) (hl : LockInv s) (he : ErrOk s) (ev : Ev) (hev : ev ≠ .callStop) (tid : Nat) (t : Task) (k : ErrK)
    (ht : s.tasks[tid]? = some t) (hpc : t.pc = .inOnError k) (hmc : t.mustCancel = false) :
    Keep tid s (step s ev) ∨ ∃ l, (step s ev).log = s.log ++ .failCounted k :: l := by
  have hlk : s.locked = true := hl.a tid t ht (by simp [hpc, inflightPc])
  have hst : s.state = .disconnected := he tid t ht (by simp [hpc, isErrPc])
  have hlt : tid < s.tasks.length := by
    rcases Nat.lt_or_ge tid s.tasks.length with h1 | h1
    · exact h1
    · rw [List.getElem?_eq_none h1] at ht; cases ht
  cases ev with
  | callStop => exact absurd rfl hev
  | callStart => exact .inl (keep_spawn tid s _ hlk hlt)
  | startDone r | finishDone r =>
    left
    simp only [step]; unfold complete
    split
    · exact keep_setResult tid _ s _ _
    · exact Keep.refl _ _
  | cbDone =>
    left
    simp only [step]; unfold completeCb
    split
    · exact keep_setResult tid _ s _ _
    · exact Keep.refl _ _
  | sessionEnd e =>
    left
    simp only [step]
    split
    · exact (keep_spawn tid { s with cli := .idle } _ hlk hlt).congr_left rfl rfl
    · exact Keep.refl _ _
  | zc m =>
    left
    simp only [step]
    split
    · exact Keep.refl _ _
    · refine Keep.congr_right (s1 := scheduleConnect (stopZc s) 0) ((keep_stopZc tid s).trans ?_) rfl rfl
      unfold scheduleConnect
      rw [if_pos rfl]
      refine keep_callConnectOnce tid _ (by simpa using hlk) ?_ (by simp [hst])
      obtain ⟨t', ht', _, _⟩ := (keep_stopZc tid s).t t ht
      rcases Nat.lt_or_ge tid (stopZc s).tasks.length with h1 | h1
      · exact h1
      · rw [List.getElem?_eq_none h1] at ht'; cases ht'
  | timerDue =>
    left
    simp only [step]
    split
    · split
      · exact Keep.refl _ _
      · exact Keep.of_eq rfl rfl
    · exact Keep.refl _ _
  | wait dt =>
    left
    simp only [step]
    split
    · split
      · exact Keep.of_eq rfl rfl
      · exact Keep.refl _ _
    · exact Keep.of_eq rfl rfl
  | pop =>
    simp only [step]
    split
    · exact .inl (Keep.refl _ _)
    · rename_i rest hr
      left
      exact (keep_callConnectOnce tid { s with ready := rest, timer := none, timerQueued := false } hlk hlt (by simp [hst])).congr_left rfl rfl
    · rename_i tid' rest hr
      split
      · rename_i t' ht'
        have ht'' : s.tasks[tid']? = some t' := ht'
        by_cases hsame : tid' = tid
        · subst hsame
          have : t' = t := by rw [ht] at ht''; exact (Option.some.inj ht'').symm
          subst this
          unfold wakeTask
          simp only [hpc, hmc, Bool.false_eq_true, ↓reduceIte]
          split
          · right
            obtain ⟨l, hl'⟩ := log_failEnd { s with ready := rest } k tid'
            exact ⟨l, hl'⟩
          · exact .inl (Keep.of_eq rfl rfl)
        · left
          refine Keep.congr_left (s1 := { s with ready := rest }) ?_ rfl rfl
          have hnin : inflightPc t'.pc = false := by
            cases hin : inflightPc t'.pc with
            | false => rfl
            | true => exact absurd (hl.b tid' tid t' t ht'' ht hin (by simp [hpc, inflightPc])) hsame
          unfold wakeTask
          cases hp : t'.pc with
          | done | running => exact Keep.refl _ _
          | lockWait =>
            dsimp only
            split
            · simp only [removeWaiter, hlk, ↓reduceIte]
              exact keep_finish_ne tid tid' _ _ rfl rfl hsame
            · split
              · rename_i hgr
                exfalso
                obtain ⟨w, hw, hwg⟩ := List.any_eq_true.mp hgr
                have := hl.c w hw (by simpa using (of_decide_eq_true hwg).2)
                rw [hlk] at this; cases this
              · exact Keep.refl _ _
          | inStart | inFinish | inOnConnect | inOnDisc => simp [hp, inflightPc] at hnin
          | inOnError k' => simp [hp, inflightPc] at hnin
      · exact .inl (Keep.of_eq rfl rfl)


/-- … and over any continuation without `stop()`: either the failure is still being reported (same task, uncancelled)
and no attempt has been started since, or it has been counted, before any attempt -/
theorem run_counts (rest : List Ev) (hns : Ev.callStop ∉ rest) (tid : Nat) (k : ErrK) :
    ∀ (s : St) (t : Task), LockInv s → ErrOk s → s.tasks[tid]? = some t → t.pc = .inOnError k → t.mustCancel = false →
      Keep tid s (run s rest) ∨
      ∃ l1 l2, (run s rest).log = s.log ++ l1 ++ Act.failCounted k :: l2 ∧ Act.attempt ∉ l1 := by
  induction rest with
  | nil => intro s t _ _ _ _ _; exact .inl (Keep.refl _ _)
  | cons e es ih =>
    intro s t hl he ht hpc hmc
    have hev : e ≠ .callStop := fun h => hns (by simp [h])
    have hes : Ev.callStop ∉ es := fun h => hns (List.mem_cons_of_mem _ h)
    rcases step_counts s hl he e hev tid t k ht hpc hmc with hk | ⟨l, hlog⟩
    · obtain ⟨t', ht', hp', hm'⟩ := hk.t t ht
      rcases ih hes (step s e) t' (step_inv s e hl) (step_err s e hl he) ht' (hp'.trans hpc) (hm'.trans hmc) with h2 | ⟨l1, l2, h2, hn⟩
      · exact .inl (hk.trans h2)
      · right
        obtain ⟨l0, hl0, hn0⟩ := hk.l
        refine ⟨l0 ++ l1, l2, ?_, by simp [hn0, hn]⟩
        show (run (step s e) es).log = _
        rw [h2, hl0]; simp
    · right
      obtain ⟨l', h'⟩ := lm_run (step s e) es
      refine ⟨[], l ++ l', ?_, by simp⟩
      show (run (step s e) es).log = _
      rw [h', hlog]; simp

end Esp.Reconnect
