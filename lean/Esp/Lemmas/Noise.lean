import Esp.Model.Noise
import Esp.Lemmas.SegRun
import Esp.Lemmas.Plain
import Esp.Lemmas.Bits
/-! helper lemmas about the noise helper model -/
namespace Esp.Noise

/-- a well-formed frame: marker, 16-bit big-endian length, body -/
def frameBytes (body : Bytes) : Bytes := [1, hi8 body.length, lo8 body.length] ++ body

theorem parseOne_frame (body rest : Bytes) (h : body.length < 65536) :
    parseOne (frameBytes body ++ rest) = .frame body rest := by
  have h1 : ¬ ((1 : UInt8).toNat ≠ 1) := by decide
  simp only [frameBytes, parseOne, List.cons_append, List.nil_append, h1, ↓reduceIte, be16_hi_lo _ h,
    Plain.readN_exact]

theorem parseOne_bad_stable (b c : Bytes) (e : Unit) (h : parseOne b = .bad e) : parseOne (b ++ c) = .bad e := by
  unfold parseOne at h
  split at h
  · rename_i m hh l rest
    split at h
    · rename_i hm; simp only [parseOne, List.cons_append]; rw [if_pos hm]
    · split at h <;> simp at h
  · simp at h

/-! ### `handleAll` composes over concatenation of frame lists -/

theorem handleAll_append (cfg : Config) (D : Dec) : ∀ (fs1 fs2 : List Bytes) (s : State),
    (handleAll cfg D s fs1).2.2.2 = none →
    handleAll cfg D s (fs1 ++ fs2) =
      ((handleAll cfg D (handleAll cfg D s fs1).1 fs2).1,
       (handleAll cfg D s fs1).2.1 ++ (handleAll cfg D (handleAll cfg D s fs1).1 fs2).2.1,
       (handleAll cfg D (handleAll cfg D s fs1).1 fs2).2.2.1 + (handleAll cfg D s fs1).2.2.1,
       (handleAll cfg D (handleAll cfg D s fs1).1 fs2).2.2.2) := by
  intro fs1
  induction fs1 with
  | nil => intro fs2 s _; simp [handleAll]
  | cons f fs ih =>
    intro fs2 s h
    simp only [handleAll, List.cons_append] at h ⊢
    cases hd : dispatch cfg D s f with
    | error x => simp [hd] at h
    | ok r =>
      obtain ⟨s1, ev⟩ := r
      simp only [hd] at h ⊢
      rw [ih fs2 s1 h]
      simp [Nat.add_assoc]

/-- the number of frames consumed never exceeds the number offered; without an exception all
are consumed -/
theorem handleAll_count (cfg : Config) (D : Dec) : ∀ (fs : List Bytes) (s : State),
    (handleAll cfg D s fs).2.2.2 = none → (handleAll cfg D s fs).2.2.1 = fs.length := by
  intro fs
  induction fs with
  | nil => intro s _; simp [handleAll]
  | cons f fs ih =>
    intro s h
    simp only [handleAll] at h ⊢
    cases hd : dispatch cfg D s f with
    | error x => simp [hd] at h
    | ok r => obtain ⟨s1, ev⟩ := r; simp only [hd] at h ⊢; simp [ih s1 h]

/-! ### closing is absorbing -/

theorem close_closed (s : State) : (close s).transportClosed = true ∧ (close s).phase = .closed := by
  simp [close]

theorem handleError_closed (s : State) (e : NoiseErr) :
    (handleError s e).1.transportClosed = true ∧ (handleError s e).1.phase = .closed := by
  simp [handleError, close]

theorem dispatch_keeps_tclosed (cfg : Config) (D : Dec) (s : State) (f : Bytes) (h : s.transportClosed = true) :
    match dispatch cfg D s f with
    | .ok r => r.1.transportClosed = true
    | .error r => r.1.transportClosed = true := by
  split
  · rename_i r hr
    unfold dispatch handleHello handleHandshake handleFrame handleClosed at hr
    (repeat' split at hr) <;>
      simp_all [handleErrorAndClose, handleError, close] <;>
      (try (obtain ⟨rfl, _⟩ := hr; simp_all)) <;> (try (subst hr; simp_all))
  · rename_i r hr
    unfold dispatch handleHello handleHandshake handleFrame handleClosed at hr
    (repeat' split at hr) <;>
      simp_all [handleErrorAndClose, handleError, close] <;>
      (try (obtain ⟨rfl, _⟩ := hr; simp_all)) <;> (try (subst hr; simp_all))

theorem handleAll_keeps_tclosed (cfg : Config) (D : Dec) : ∀ (fs : List Bytes) (s : State),
    s.transportClosed = true → (handleAll cfg D s fs).1.transportClosed = true := by
  intro fs
  induction fs with
  | nil => intro s h; simpa [handleAll]
  | cons f fs ih =>
    intro s h
    have hd := dispatch_keeps_tclosed cfg D s f h
    simp only [handleAll]
    cases hdd : dispatch cfg D s f with
    | error x => simp only [hdd] at hd ⊢; exact hd
    | ok r => obtain ⟨s1, ev⟩ := r; simp only [hdd] at hd ⊢; exact ih s1 hd

/-! ### chunked feeding = one pass, when the one pass meets no error -/

/-- If draining the whole input finds no bad marker, and handling all its frames raises no
exception and does not close the helper, then feeding the input in *any* chunking emits, in
total, exactly the events of the one pass, ends in the same protocol state and retains the same
bytes. -/
theorem run_eq_onepass (cfg : Config) (D : Dec) : ∀ (chunks : List Bytes) (h : Helper),
    drain splitter h.buf = ([], h.buf, none) →
    h.st.transportClosed = false →
    (drain splitter (h.buf ++ chunks.flatten)).2.2 = none →
    (handleAll cfg D h.st (drain splitter (h.buf ++ chunks.flatten)).1).2.2.2 = none →
    (handleAll cfg D h.st (drain splitter (h.buf ++ chunks.flatten)).1).1.transportClosed = false →
    (run cfg D h chunks).2.flatten = (handleAll cfg D h.st (drain splitter (h.buf ++ chunks.flatten)).1).2.1 ∧
    (run cfg D h chunks).1.st = (handleAll cfg D h.st (drain splitter (h.buf ++ chunks.flatten)).1).1 ∧
    (run cfg D h chunks).1.buf = (drain splitter (h.buf ++ chunks.flatten)).2.1 := by
  intro chunks
  induction chunks with
  | nil =>
    intro h hset _ _ _ _
    simp [run, hset, handleAll]
  | cons c cs ih =>
    intro h hset hopen hbad hexc hcl
    simp only [List.flatten_cons, ← List.append_assoc] at hbad hexc hcl ⊢
    generalize hd : drain splitter (h.buf ++ c) = d at *
    obtain ⟨fs1, b1, e1⟩ := d
    -- no bad marker in the first chunk either (bad verdicts are prefix-stable)
    cases e1 with
    | some e =>
      rw [drain_append_bad splitter parseOne_bad_stable _ cs.flatten fs1 b1 e hd] at hbad
      simp at hbad
    | none =>
      have happ := drain_append splitter (h.buf ++ c) cs.flatten fs1 b1 hd
      have hset1 := drain_retained_settled splitter _ _ _ hd
      rw [happ] at hbad hexc hcl ⊢
      simp only at hbad hexc hcl ⊢
      generalize hd2 : drain splitter (b1 ++ cs.flatten) = d2 at *
      obtain ⟨fs2, b2, e2⟩ := d2
      simp only at hbad hexc hcl ⊢
      -- the first part raises nothing and does not close
      have hexc1 : (handleAll cfg D h.st fs1).2.2.2 = none := by
        cases hx : (handleAll cfg D h.st fs1).2.2.2 with
        | none => rfl
        | some x =>
          exfalso
          -- an exception in the first part is an exception of the whole
          have : ∀ (fs : List Bytes) (s : State) x, (handleAll cfg D s fs).2.2.2 = some x →
              (handleAll cfg D s (fs ++ fs2)).2.2.2 = some x := by
            intro fs
            induction fs with
            | nil => intro s x hh; simp [handleAll] at hh
            | cons f fs ihf =>
              intro s x hh
              simp only [handleAll, List.cons_append] at hh ⊢
              cases hdd : dispatch cfg D s f with
              | error y => simp only [hdd] at hh ⊢; exact hh
              | ok r => obtain ⟨s1, ev⟩ := r; simp only [hdd] at hh ⊢; exact ihf s1 x hh
          rw [this fs1 h.st x hx] at hexc
          simp at hexc
      rw [handleAll_append cfg D fs1 fs2 h.st hexc1] at hexc hcl ⊢
      simp only at hexc hcl ⊢
      have hopen1 : (handleAll cfg D h.st fs1).1.transportClosed = false := by
        cases hx : (handleAll cfg D h.st fs1).1.transportClosed with
        | false => rfl
        | true =>
          rw [handleAll_keeps_tclosed cfg D fs2 _ hx] at hcl
          simp at hcl
      -- one feed step
      have hfeed : feed cfg D h c = ({ st := (handleAll cfg D h.st fs1).1, buf := b1 }, (handleAll cfg D h.st fs1).2.1) := by
        simp only [feed, hopen, Bool.false_eq_true, ↓reduceIte, hd, hexc1]
      simp only [run, hfeed]
      have ih' := ih { st := (handleAll cfg D h.st fs1).1, buf := b1 } hset1 hopen1
        (by simp only [hd2]; exact hbad) (by simp only [hd2]; exact hexc) (by simp only [hd2]; exact hcl)
      simp only [hd2] at ih'
      obtain ⟨i1, i2, i3⟩ := ih'
      refine ⟨?_, i2, i3⟩
      simp only [List.flatten_cons, i1]

/-- per-call timing: the first `k` calls of a history are the history of the first `k` chunks -/
theorem run_take (cfg : Config) (D : Dec) : ∀ (chunks : List Bytes) (h : Helper) (k : Nat),
    (run cfg D h chunks).2.take k = (run cfg D h (chunks.take k)).2 := by
  intro chunks
  induction chunks with
  | nil => intro h k; simp [run]
  | cons c cs ih =>
    intro h k
    cases k with
    | zero => simp [run]
    | succ k => simp only [run, List.take_succ_cons]; rw [ih]

end Esp.Noise
