import Esp.Lemmas.ReconnectTries
/-!
# Reconnect manager: the log only grows

`LM s s'`: the log of `s'` extends the log of `s`.  One lemma per procedure, as in the other passes.
-/
namespace Esp.Reconnect

def LM (s s' : St) : Prop := ∃ l, s'.log = s.log ++ l

theorem LM.refl (s : St) : LM s s := ⟨[], by simp⟩
theorem LM.trans {a b c : St} (h1 : LM a b) (h2 : LM b c) : LM a c := by
  obtain ⟨l1, h1⟩ := h1
  obtain ⟨l2, h2⟩ := h2
  exact ⟨l1 ++ l2, by rw [h2, h1, List.append_assoc]⟩
theorem LM.ofEq {s s' : St} (h : s'.log = s.log) : LM s s' := ⟨[], by simp [h]⟩

theorem lm_emit (s : St) (a : Act) : LM s (emit s a) := ⟨[a], rfl⟩

theorem lm_stopZc (s : St) : LM s (stopZc s) := by
  unfold stopZc; split
  · exact (LM.ofEq (s' := { s with zcListening := false }) rfl).trans (lm_emit _ _)
  · exact LM.refl s

theorem lm_startZc (s : St) : LM s (startZc s) := by
  unfold startZc; split
  · exact (LM.ofEq (s' := { s with zcListening := true }) rfl).trans (lm_emit _ _)
  · exact LM.refl s

theorem lm_cancelTask (s : St) (tid : Nat) : LM s (cancelTask s tid) := LM.ofEq (cancelTask_ctl s tid).log

theorem lm_cancelConnectTask (s : St) : LM s (cancelConnectTask s) := by
  unfold cancelConnectTask
  split
  · rename_i tid _
    exact (lm_cancelTask s tid).trans (LM.ofEq rfl)
  · exact LM.refl s

theorem lm_cancelConnect (s : St) : LM s (cancelConnect s) :=
  (LM.ofEq (s' := cancelTimer s) rfl).trans (lm_cancelConnectTask _)

theorem lm_release (s : St) : LM s (release s) := LM.ofEq (by simp)
theorem lm_finish (s : St) (tid : Nat) : LM s (finish s tid) := LM.ofEq rfl

theorem lm_afterFail (s : St) (tid : Nat) : LM s (afterFail s tid) := by
  unfold afterFail
  dsimp only
  have h1 : LM s (if backoff s.tries ≠ 0 then startZc s else s) := by
    split
    · exact lm_startZc s
    · exact LM.refl s
  refine (h1.trans ?_).trans ((lm_release _).trans (lm_finish _ tid))
  refine (LM.ofEq (s' := { cancelTimer (if backoff s.tries ≠ 0 then startZc s else s) with
      timer := some ((if backoff s.tries ≠ 0 then startZc s else s).now + backoff s.tries) }) rfl).trans ?_
  exact lm_emit _ _

theorem lm_failEnd (s : St) (k : ErrK) (tid : Nat) : LM s (failEnd s k tid) := by
  unfold failEnd
  refine LM.trans (b := emit { s with tries := if k = .auth then maxTries else s.tries + 1 } (.failCounted k)) ?_ (lm_afterFail _ tid)
  exact ⟨[.failCounted k], rfl⟩

theorem lm_failBegin (s : St) (k : ErrK) (tid : Nat) : LM s (failBegin s k tid) := by
  unfold failBegin
  dsimp only
  have e1 : LM s (emit (setState s .disconnected) (.onConnectError k)) :=
    (LM.ofEq (s' := setState s .disconnected) rfl).trans (lm_emit _ _)
  split
  · exact e1.trans (LM.ofEq rfl)
  · exact e1.trans (lm_failEnd _ k tid)

theorem lm_acquire (s : St) (tid : Nat) : LM s (acquire s tid).1 := by
  unfold acquire; split <;> exact LM.ofEq rfl

theorem lm_connectLocked (s : St) (tid : Nat) : LM s (connectLocked s tid) := by
  unfold connectLocked
  split
  · exact (lm_release s).trans (lm_finish _ tid)
  · dsimp only
    have h1 : LM s (emit (setState s .connecting) .attempt) :=
      (LM.ofEq (s' := setState s .connecting) rfl).trans (lm_emit _ _)
    split
    · exact h1.trans (lm_failBegin _ _ tid)
    · exact h1.trans (LM.ofEq rfl)

theorem lm_spawnConnect (s : St) : LM s (spawnConnect s) := by
  unfold spawnConnect
  dsimp only
  have h1 : LM s { s with tasks := s.tasks ++ [{ kind := Kind.connect, pc := Pc.running }] } := LM.ofEq rfl
  generalize hs1 : ({ s with tasks := s.tasks ++ [{ kind := Kind.connect, pc := Pc.running }] } : St) = s1 at h1
  have h2 := h1.trans (lm_acquire s1 s.tasks.length)
  cases hg : (acquire s1 s.tasks.length).2
  · rw [show acquire s1 s.tasks.length = ((acquire s1 s.tasks.length).1, false) from by rw [← hg]]
    exact h2.trans (LM.ofEq rfl)
  · rw [show acquire s1 s.tasks.length = ((acquire s1 s.tasks.length).1, true) from by rw [← hg]]
    exact (h2.trans (lm_connectLocked _ _)).trans (LM.ofEq rfl)

theorem lm_callConnectOnce (s : St) : LM s (callConnectOnce s) := by
  unfold callConnectOnce
  split
  · split
    · exact lm_spawnConnect s
    · split
      · exact LM.refl s
      · exact ((lm_cancelConnectTask s).trans (LM.ofEq (s' := setState (cancelConnectTask s) .disconnected) rfl)).trans
          (lm_spawnConnect _)
  · exact lm_spawnConnect s

theorem lm_scheduleConnect (s : St) (d : Nat) : LM s (scheduleConnect s d) := by
  unfold scheduleConnect
  split
  · exact lm_callConnectOnce s
  · exact (LM.ofEq (s' := { cancelTimer s with timer := some (s.now + d) }) rfl).trans (lm_emit _ _)

theorem lm_discEnd (s : St) (tid : Nat) (e : Bool) : LM s (discEnd s tid e) := by
  unfold discEnd
  dsimp only
  have h1 : LM s (finish (release s) tid) := (lm_release s).trans (lm_finish _ _)
  split
  · exact h1
  · exact h1.trans (lm_scheduleConnect _ _)

theorem lm_discLocked (s : St) (tid : Nat) (e : Bool) : LM s (discLocked s tid e) := by
  unfold discLocked
  dsimp only
  have h1 : LM s (emit (setState s .disconnected) (.onDisconnect e)) :=
    (LM.ofEq (s' := setState s .disconnected) rfl).trans (lm_emit _ _)
  split
  · exact h1.trans (LM.ofEq rfl)
  · exact h1.trans (lm_discEnd _ _ _)

theorem lm_startLocked (s : St) (tid : Nat) : LM s (startLocked s tid) := by
  unfold startLocked
  dsimp only
  have key : ∀ X : St, LM s X → LM s (emit (finish (release X) tid) .startRet) := by
    intro X hx
    exact ((hx.trans (lm_release X)).trans (lm_finish _ tid)).trans (lm_emit _ _)
  apply key
  split
  · exact LM.ofEq rfl
  · refine LM.trans (b := emit { { s with stopped := false } with tries := 0 } .resetTries) ?_ (lm_scheduleConnect _ 0)
    exact ⟨[.resetTries], rfl⟩

theorem lm_stopLocked (s : St) (tid : Nat) : LM s (stopLocked s tid) := by
  rw [stopLocked_eq]
  have h0 : LM s { s with stopped := true } := LM.ofEq rfl
  exact ((((((h0.trans (LM.ofEq (s' := cancelTimer { s with stopped := true }) rfl)).trans (lm_cancelConnectTask _)).trans
    (lm_stopZc _)).trans (LM.ofEq (s' := setState _ .disconnected) rfl)).trans (lm_release _)).trans (lm_finish _ tid)).trans
    (lm_emit _ _)

theorem lm_lockedBody (s : St) (tid : Nat) (k : Kind) : LM s (lockedBody s tid k) := by
  unfold lockedBody
  split
  · exact lm_connectLocked s tid
  · exact lm_discLocked s tid _
  · exact lm_startLocked s tid
  · exact lm_stopLocked s tid

theorem lm_spawn (s : St) (k : Kind) : LM s (spawn s k) := by
  unfold spawn
  dsimp only
  have h1 : LM s { s with tasks := s.tasks ++ [{ kind := k, pc := Pc.running }] } := LM.ofEq rfl
  generalize hs1 : ({ s with tasks := s.tasks ++ [{ kind := k, pc := Pc.running }] } : St) = s1 at h1
  have h2 := h1.trans (lm_acquire s1 s.tasks.length)
  cases hg : (acquire s1 s.tasks.length).2
  · rw [show acquire s1 s.tasks.length = ((acquire s1 s.tasks.length).1, false) from by rw [← hg]]
    simp only [Bool.false_eq_true, ↓reduceIte]
    exact h2
  · rw [show acquire s1 s.tasks.length = ((acquire s1 s.tasks.length).1, true) from by rw [← hg]]
    simp only [↓reduceIte]
    exact h2.trans (lm_lockedBody _ _ k)

theorem lm_wakeTask (s : St) (tid : Nat) (t : Task) : LM s (wakeTask s tid t) := by
  unfold wakeTask
  split
  · exact LM.refl s
  · exact LM.refl s
  · dsimp only
    split
    · have w1 : LM s (removeWaiter s tid) := LM.ofEq rfl
      have w2 : LM s (if (removeWaiter s tid).locked = true then removeWaiter s tid else wakeUpFirst (removeWaiter s tid)) := by
        split
        · exact w1
        · exact w1.trans (LM.ofEq (by simp))
      exact w2.trans (lm_finish _ tid)
    · split
      · exact (LM.ofEq (s' := setTask { removeWaiter s tid with locked := true } tid fun t => { t with pc := .running }) rfl).trans
          (lm_lockedBody _ _ _)
      · exact LM.refl s
  · split
    · exact (LM.ofEq (s' := { s with cli := .idle }) rfl).trans (lm_failBegin _ _ tid)
    · split
      · exact (LM.ofEq (s' := { s with cli := .finishing }) rfl).trans
          ((lm_stopZc _).trans (LM.ofEq (by simp [setTask])))
      · exact (LM.ofEq (s' := { s with cli := .idle }) rfl).trans (lm_failBegin _ _ tid)
      · exact LM.refl s
  · split
    · exact (LM.ofEq (s' := { s with cli := .idle }) rfl).trans (lm_failBegin _ _ tid)
    · split
      · dsimp only
        have e1 : LM s (emit (setState { s with cli := .live, tries := 0 } .ready) .onConnect) := by
          exact ⟨[.onConnect], rfl⟩
        split
        · exact e1.trans (LM.ofEq rfl)
        · exact e1.trans ((lm_release _).trans (lm_finish _ tid))
      · exact (LM.ofEq (s' := { s with cli := .idle }) rfl).trans (lm_failBegin _ _ tid)
      · exact LM.refl s
  · split
    · exact (lm_release s).trans (lm_finish _ tid)
    · exact LM.refl s
  · split
    · exact (lm_release s).trans (lm_finish _ tid)
    · split
      · exact lm_failEnd s _ tid
      · exact LM.refl s
  · split
    · split
      · exact lm_discEnd s tid _
      · exact LM.refl s
    · exact LM.refl s

theorem lm_step (s : St) (e : Ev) : LM s (step s e) := by
  cases e with
  | callStart => exact lm_spawn s _
  | callStop =>
    simp only [step]
    refine LM.trans ?_ (lm_spawn _ _)
    split
    · exact lm_cancelConnect s
    · exact LM.refl s
  | startDone r | finishDone r =>
    simp only [step]
    unfold complete
    split <;> exact LM.ofEq rfl
  | cbDone =>
    simp only [step]
    unfold completeCb
    split <;> exact LM.ofEq rfl
  | sessionEnd e =>
    simp only [step]
    split
    · exact (LM.ofEq (s' := { s with cli := .idle }) rfl).trans (lm_spawn _ _)
    · exact LM.refl s
  | zc m =>
    simp only [step]
    split
    · exact LM.refl s
    · exact ((lm_stopZc s).trans (lm_scheduleConnect _ 0)).trans (LM.ofEq rfl)
  | timerDue =>
    simp only [step]
    split
    · split <;> exact LM.ofEq rfl
    · exact LM.refl s
  | wait dt =>
    simp only [step]
    split
    · split <;> exact LM.ofEq rfl
    · exact LM.ofEq rfl
  | pop =>
    simp only [step]
    split
    · exact LM.refl s
    · rename_i rest _
      exact (LM.ofEq (s' := { s with ready := rest, timer := none, timerQueued := false }) rfl).trans (lm_callConnectOnce _)
    · rename_i tid rest _
      split
      · rename_i t _
        exact (LM.ofEq (s' := { s with ready := rest }) rfl).trans (lm_wakeTask _ tid t)
      · exact LM.ofEq rfl


theorem lm_run (s : St) (evs : List Ev) : LM s (run s evs) := by
  induction evs generalizing s with
  | nil => exact LM.refl s
  | cons e es ih => exact (lm_step s e).trans (ih _)

end Esp.Reconnect
