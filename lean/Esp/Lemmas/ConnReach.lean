import Esp.Model.Conn
/-!
Every transition of the connection LTS is a chain of *primitive actions* (`Prim`), each applied
in a context where its guard holds.  An invariant therefore only has to be shown preserved by
each primitive (`Props/C07`, `C08`, `C09`), not by every path through every handler.
-/
namespace Esp.Conn

def StartPend (s : State) : Prop := s.start = .awaitResolve ∨ s.start = .awaitSocket
def FinPend (s : State) : Prop := s.finish = .awaitTransport ∨ s.finish = .awaitReady ∨ s.finish = .awaitHello

/-- a cancellation (by the caller or by the interrupt callback) is waiting to be delivered to the task -/
def CancelDue (t : Tk) : Prop := t.userCancel = true ∨ t.interrupted = true
/-- why a start task stops waiting -/
def StartDue (s : State) : Prop :=
  (s.start = .awaitResolve ∧ (CancelDue s.startT ∨ s.startT.timedOut = true ∨ s.resolveRes ≠ .none)) ∨
  (s.start = .awaitSocket ∧ (CancelDue s.startT ∨ s.startT.timedOut = true ∨ s.sockRes ≠ .none))
/-- why a finish task stops waiting (no condition while the frame helper is being set up) -/
def FinDue (s : State) : Prop :=
  (s.finish = .awaitReady → CancelDue s.finishT ∨ s.ready ≠ .pending) ∧
  (s.finish = .awaitHello → CancelDue s.finishT ∨ s.hello.fut ≠ .pending)

theorem cancelExc_some (t : Tk) (ex : Exc) (h : cancelExc t = some ex) : CancelDue t := by
  simp only [cancelExc] at h
  split at h
  · exact Or.inl (by assumption)
  · split at h
    · exact Or.inr (by assumption)
    · simp at h

inductive Prim : State → State → Prop
  | cleanup (s) : Prim s (cleanup s)
  | setFatal (f s) : Prim s (aSetFatal f s)
  | write (s) (h1 : hsComplete s = true) (h2 : s.fhSet = true) : Prim s (aWrite s)
  | mark (s) : Prim s (aMark s)
  | alive (s) (h : s.st ≠ .closed) : Prim s (aAlive s)
  | deliver (s) (h : s.st ≠ .closed) : Prim s (aDeliver s)
  | readyFail (e s) : Prim s (aReadyFail e s)
  | trClose (s) : Prim s (aTrClose s)
  | trAbort (s) : Prim s (aTrAbort s)
  | lostRun (s) (h : s.lostPending = true) : Prim s (aLostRun s)
  | discRespArr (s) (h : s.st ≠ .closed) : Prim s (aDiscRespArr s)
  | collect (s r) (h : s.st ≠ .closed) : Prim s (collect s r)
  -- start task
  | startExit (s) (h : StartPend s) (hd : StartDue s) : Prim s (aStartExit s)
  | startFutQuiet (s) (h : s.st = .closed) : Prim s (aStartFutQuiet s)
  | startFail (e s) (h : s.st = .closed) (hp : StartPend s) (hf : s.startFut ≠ .pending) (hx : s.startT.exited = true)
      (ht : s.resolveTimer = false ∧ s.tcpTimer = false) : Prim s (aStartDone (.err e) s)
  | startToSocket (s) (h : s.start = .awaitResolve) : Prim s (aStartToSocket s)
  | startOk (s) (h : s.start = .awaitSocket) : Prim s (startOkPath s)
  -- finish task
  | finExit (s) (h : FinPend s) (hd : FinDue s) : Prim s (aFinExit s)
  | finFutQuiet (s) (h : s.st = .closed) : Prim s (aFinFutQuiet s)
  | finFail (e s) (h : s.st = .closed) (hp : FinPend s) (hf : s.finishFut ≠ .pending) (hx : s.finishT.exited = true)
      (ht : s.hsTimer = false ∨ s.finish = .awaitHello)
      (hh : s.finish = .awaitHello → s.hello.timer = false ∧ s.hello.registered = false) :
      Prim s (aFinDone (.err e) s)
  | trCancelled (s) (h : s.finish = .awaitTransport) : Prim s (aTrCancelled s)
  | fhAttach (s) (h : s.finish = .awaitTransport) (hw : s.transportWaiter = true) (hf : s.transportFailed = false) :
      Prim s (aFhAttach s)
  | finToReady (s) (h : s.finish = .awaitTransport) (hf : s.fhSet = true) (ht : s.hsTimer = true) : Prim s (aFinToReady s)
  | hsEnter (s) (h : s.finish = .awaitTransport ∨ s.finish = .awaitReady) (hn : s.st ≠ .closed)
      (hf : s.fhSet = true ∨ s.finish = .awaitReady) (hr : s.ready = .ok) :
      Prim s (aHsEnter s)
  | helloStart (s) (h : s.finish = .awaitTransport ∨ s.finish = .awaitReady) (hs : s.st = .hsDone) (hf : s.fhSet = true)
      (ht : s.hsTimer = false) : Prim s (aHelloStart s)
  | helloFinally (s) (h : s.finish = .awaitHello) (hd : CancelDue s.finishT ∨ s.hello.fut ≠ .pending) : Prim s (aHelloFinally s)
  | helloOk (s) (h : s.finish = .awaitHello)
      (hh : s.hello.timer = false ∧ s.hello.registered = false ∧ s.hello.inWaiters = false) : Prim s (helloOkPath s)
  -- disconnect
  | discDone (s) (h : s.st = .closed) (hr : s.disc = .awaitResp → s.discReq.timer = false ∧ s.discReq.registered = false)
      (hw : s.discWaitTimer = false ∨ s.disc = .idle ∨ s.disc = .awaitResp) : Prim s (aDiscDone s)
  | discRaw (s) (h : hsComplete s = true) (hf : s.fhSet = false) : Prim s (aDiscRaw s)
  | forceRaw (s) (h : hsComplete s = true) (hf : s.fhSet = false) : Prim s (aForceRaw s)
  | discReqStart (s) (h : hsComplete s = true) (hd : s.disc = .idle ∨ s.disc = .awaitFinish)
      (hw : s.discWaitTimer = false ∨ s.disc = .idle) :
      Prim s (aDiscReqStart s)
  | discWaitOver (s) (h : s.disc = .awaitFinish) (hw : s.discWaiterDone = true) : Prim s (aDiscWaitOver s)
  | discCancelledW (s) (h : s.disc = .awaitFinish) : Prim s (aDiscCancelledW s)
  | discCancelledR (s) (h : s.disc = .awaitResp) : Prim s (aDiscCancelledR s)
  | discReqFinally (s) (h : s.disc = .awaitResp) (hf : s.discReq.fut ≠ .pending) : Prim s (aDiscReqFinally s)
  -- events
  | refused (s) : Prim s (aRefused s)
  | startBegin (s) (h : s.st = .init) (hi : s.start = .idle) : Prim s (aStartBegin s)
  | resolveSet (ok s) (h : s.start = .awaitResolve) : Prim s (aResolveSet ok s)
  | sockSet (ok s) (h : s.start = .awaitSocket) : Prim s (aSockSet ok s)
  | sockFaulty (s) : Prim s (aSockFaulty s)
  | sockFaultClose (s) (h : s.start = .awaitSocket) (hr : s.sockRes ≠ .none) : Prim s (aSockFaultClose s)
  | userCancelStart (s) (h : StartPend s) : Prim s (aUserCancelStart s)
  | finishBegin (s) (h : s.st = .sockOpen) (hi : s.finish = .idle) : Prim s (aFinishBegin s)
  | connMadeFail (s) (h : s.finish = .awaitTransport) : Prim s (aConnMadeFail s)
  | connMadeOk (s) (h : s.finish = .awaitTransport) (hm : s.helperMade = false) (hc : s.sockClosed = false) : Prim s (aConnMadeOk s)
  | readyOk (s) (h : s.ready = .pending) : Prim s (aReadyOk s)
  | userCancelFinish (s) (h : FinPend s) : Prim s (aUserCancelFinish s)
  | cbStart (s) (h : s.startT.cbPending = true) : Prim s (aCbStart s)
  | cbFinish (s) (h : s.finishT.cbPending = true) : Prim s (aCbFinish s)
  | discBegin (s) (h : s.disc = .idle) (hf : s.finishFut = .pending) : Prim s (aDiscBegin s)
  | cbDiscWait (s) (h : s.discCbPending = true) : Prim s (aCbDiscWait s)
  | discCancelW (s) (h : s.disc = .awaitFinish) : Prim s (aDiscCancelW s)
  | discCancelR (s) (h : s.disc = .awaitResp) : Prim s (aDiscCancelR s)
  | fireResolve (s) (h : s.start = .awaitResolve) : Prim s (aFireResolve s)
  | fireTcp (s) (h : s.start = .awaitSocket) : Prim s (aFireTcp s)
  | fireHs (s) (h : s.hsTimer = true) : Prim s (aFireHs s)
  | fireHello (s) (h : s.hello.timer = true) : Prim s (aFireHello s)
  | pingRearm (s) (h : s.pingArmed = true) (hc : hsComplete s = true) : Prim s (aPingRearm s)
  | pingPend (s) (h : s.pingArmed = true) : Prim s (aPingPend s)
  | pongOff (s) : Prim s (aPongOff s)
  | fireDiscWait (s) (h : s.discWaitTimer = true) : Prim s (aFireDiscWait s)
  | fireDiscResp (s) (h : s.discReq.timer = true) : Prim s (aFireDiscResp s)
  | setWrite (ok s) : Prim s (aSetWrite ok s)

inductive Reach : State → State → Prop
  | refl (s) : Reach s s
  | snoc {a b c} (r : Reach a b) (p : Prim b c) : Reach a c

theorem Reach.trans {a b c : State} (h1 : Reach a b) (h2 : Reach b c) : Reach a c := by
  induction h2 with
  | refl => exact h1
  | snoc _ p ih => exact .snoc ih p

theorem Reach.one {a b : State} (p : Prim a b) : Reach a b := .snoc (.refl a) p

/-- an invariant preserved by every primitive is preserved along every chain -/
theorem Reach.inv {P : State → Prop} (hP : ∀ a b, P a → Prim a b → P b) {a b : State} (h : Reach a b) (ha : P a) : P b := by
  induction h with
  | refl => exact ha
  | snoc _ p ih => exact hP _ _ ih p

end Esp.Conn

namespace Esp.Conn

theorem send_none_eq (s s' : State) (h : send s = (s', none)) :
    s' = aWrite s ∧ hsComplete s = true ∧ s.fhSet = true ∧ s.writeOk = true := by
  unfold send at h
  split at h
  · simp at h
  · split at h
    · simp at h
    · split at h
      · have := (Prod.mk.inj h).1; subst this
        refine ⟨rfl, ?_, ?_, ?_⟩ <;> simp_all
      · simp at h

theorem send_some_eq (s s' : State) (ex : Exc) (h : send s = (s', some ex)) :
    (s' = s ∧ hsComplete s = false ∧ ex = .api .notEstablished) ∨
    (s' = s ∧ hsComplete s = true ∧ s.fhSet = false ∧ ex = .other) ∨
    (s' = reportFatal s (.api .socketClosed) ∧ hsComplete s = true ∧ s.fhSet = true ∧ ex = .api .socketClosed) := by
  unfold send at h
  split at h
  · obtain ⟨h1, h2⟩ := Prod.mk.inj h
    left; refine ⟨h1.symm, ?_, ?_⟩ <;> simp_all
  · split at h
    · obtain ⟨h1, h2⟩ := Prod.mk.inj h
      right; left; refine ⟨h1.symm, ?_, ?_, ?_⟩ <;> simp_all
    · split at h
      · simp at h
      · obtain ⟨h1, h2⟩ := Prod.mk.inj h
        right; right; refine ⟨h1.symm, ?_, ?_, ?_⟩ <;> simp_all

theorem reach_reportFatal (s : State) (f : Fatal) : Reach s (reportFatal s f) :=
  .snoc (.one (.setFatal f s)) (.cleanup _)

theorem reach_send (s : State) : Reach s (send s).1 := by
  unfold send
  split
  · exact .refl s
  · split
    · exact .refl s
    · split
      · exact .one (.write s (by simp_all) (by simp_all))
      · exact reach_reportFatal s _

theorem reach_processPacket (s : State) (p : Pkt) : Reach s (processPacket s p).1 := by
  unfold processPacket
  split
  · exact .refl s
  · rename_i hn
    split
    · exact .refl s
    · exact .refl s
    · exact reach_reportFatal s _
    · exact .snoc (.one (.alive s hn)) (.collect _ _ (by simpa [aAlive] using hn))
    · exact .snoc (.one (.alive s hn)) (.discRespArr _ (by simpa [aAlive] using hn))
    · split
      · have h := reach_send (aMark (aAlive s))
        have h0 : Reach s (aMark (aAlive s)) := .snoc (.one (.alive s hn)) (.mark _)
        split
        · rename_i heq; rw [heq] at h; exact h0.trans h
        · rename_i heq; rw [heq] at h; exact .snoc (h0.trans h) (.cleanup _)
      · exact .one (.alive s hn)
    · split
      · have h := reach_send (aAlive s)
        have h0 : Reach s (aAlive s) := .one (.alive s hn)
        split
        · rename_i heq; rw [heq] at h; exact h0.trans h
        · rename_i heq; rw [heq] at h; exact h0.trans h
      · exact .one (.alive s hn)
    · exact .snoc (.one (.alive s hn)) (.deliver _ (by simpa [aAlive] using hn))

theorem reach_feed_step (s : State) (p : Pkt) (ps : List Pkt) (ih : ∀ s, Reach s (feed s ps)) :
    Reach s (match processPacket s p with
      | (s, true) => aTrAbort s
      | (s, false) => feed s ps) := by
  have h := reach_processPacket s p
  split
  · rename_i heq; rw [heq] at h; exact .snoc h (.trAbort _)
  · rename_i heq; rw [heq] at h; exact h.trans (ih _)

theorem reach_feed : ∀ (pkts : List Pkt) (s : State), Reach s (feed s pkts) := by
  intro pkts
  induction pkts with
  | nil => intro s; exact .refl s
  | cons p ps ih =>
    intro s
    cases p
    case garbage =>
      simp only [feed]
      exact .snoc ((Reach.one (.readyFail _ s)).trans (reach_reportFatal _ _)) (.trClose _)
    case wrongName =>
      simp only [feed]
      exact .snoc ((Reach.one (.readyFail _ s)).trans (reach_reportFatal _ _)) (.trClose _)
    all_goals (simp only [feed]; exact reach_feed_step s _ ps ih)

theorem reach_onLost (s : State) (h : s.lostPending = true) : Reach s (onLost s) := by
  unfold onLost
  exact (Reach.snoc (.one (.lostRun s h)) (.readyFail _ _)).trans (reach_reportFatal _ _)

theorem reach_failStart (s : State) (ex : Exc) (h : StartPend s) (hd : StartDue s) : Reach s (failStart s ex) := by
  unfold failStart
  dsimp only
  refine .snoc (.snoc (.snoc (.one (.startExit s h hd)) (.cleanup _)) (.startFutQuiet _ rfl)) (.startFail _ _ ?_ ?_ ?_ ?_ ?_)
  rotate_left 4
  · simp [aStartFutQuiet, cleanup, aStartExit]
  · simp [aStartFutQuiet, cleanup]
  · simpa [StartPend, aStartFutQuiet, cleanup, aStartExit] using h
  · simp only [aStartFutQuiet, cleanup, aStartExit]
    by_cases h1 : s.startFut = .pending <;> simp [h1]
  · simp [aStartFutQuiet, cleanup, aStartExit]

theorem reach_sockFault (s : State) (hs : s.start = .awaitSocket) (hr : s.sockRes ≠ .none) :
    Reach s (let s' := aSockFaultClose s; aStartDone (.err (wrap s' .os)) (aStartFutQuiet s')) := by
  dsimp only
  refine .snoc (.snoc (.one (.sockFaultClose s hs hr)) (.startFutQuiet _ rfl)) (.startFail _ _ ?_ ?_ ?_ ?_ ?_)
  · simp [aStartFutQuiet, aSockFaultClose, cleanup]
  · simp [StartPend, aStartFutQuiet, aSockFaultClose, cleanup, aStartExit, aSockAttachOnly, hs]
  · simp only [aStartFutQuiet, aSockFaultClose, cleanup, aStartExit, aSockAttachOnly]
    by_cases h1 : s.startFut = .pending <;> simp [h1]
  · simp [aStartFutQuiet, aSockFaultClose, cleanup, aStartExit, aSockAttachOnly]
  · simp [aStartFutQuiet, aSockFaultClose, cleanup, aStartExit, aSockAttachOnly]

theorem reach_failFinish (s : State) (ex : Exc) (h : FinPend s)
    (hh : s.finish = .awaitHello → s.hello.timer = false ∧ s.hello.registered = false) (hd : FinDue s) :
    Reach s (failFinish s ex) := by
  unfold failFinish
  dsimp only
  refine .snoc (.snoc (.snoc (.one (.finExit s h hd)) (.cleanup _)) (.finFutQuiet _ rfl)) (.finFail _ _ ?_ ?_ ?_ ?_ ?_ ?_)
  · simp only [aFinFutQuiet]; split <;> simp [cleanup]
  · simp only [aFinFutQuiet]; split <;> simpa [FinPend, cleanup, aFinExit] using h
  · simp only [aFinFutQuiet]; split <;> simp_all [cleanup, aFinExit]
  · simp only [aFinFutQuiet]; split <;> simp [cleanup, aFinExit]
  · left; simp only [aFinFutQuiet]; split <;> simp [cleanup, aFinExit]
  · intro hf
    have : s.finish = .awaitHello := by
      simp only [aFinFutQuiet] at hf; split at hf <;> simpa [cleanup, aFinExit] using hf
    have := hh this
    simp only [aFinFutQuiet]; split <;> simp_all [cleanup, aFinExit, failWaiter] <;> (split <;> simp_all)

end Esp.Conn

namespace Esp.Conn

theorem reach_stepStart (s : State) : Reach s (stepStart s) := by
  unfold stepStart
  split
  · rename_i hs
    have hp : StartPend s := Or.inl hs
    split
    · rename_i ex heq; exact reach_failStart s _ hp (Or.inl ⟨hs, Or.inl (cancelExc_some _ _ heq)⟩)
    · split
      · rename_i ht; exact reach_failStart s _ hp (Or.inl ⟨hs, Or.inr (Or.inl ht)⟩)
      · split
        · exact .refl s
        · rename_i hr; exact reach_failStart s _ hp (Or.inl ⟨hs, Or.inr (Or.inr (by simp [hr]))⟩)
        · exact .one (.startToSocket s hs)
  · rename_i hs
    have hp : StartPend s := Or.inr hs
    split
    · rename_i ex heq; exact reach_failStart s _ hp (Or.inr ⟨hs, Or.inl (cancelExc_some _ _ heq)⟩)
    · split
      · rename_i ht; exact reach_failStart s _ hp (Or.inr ⟨hs, Or.inr (Or.inl ht)⟩)
      · split
        · exact .refl s
        · rename_i hr; exact reach_failStart s _ hp (Or.inr ⟨hs, Or.inr (Or.inr (by simp [hr]))⟩)
        · split
          · rename_i hr _
            exact reach_sockFault s hs (by simp [hr])
          · exact .one (.startOk s hs)
  · exact .refl s

theorem reach_sendHello (s : State) (hp : s.finish = .awaitTransport ∨ s.finish = .awaitReady) (hst : s.st = .hsDone)
    (ht : s.hsTimer = false) (hr : s.ready = .ok) : Reach s (sendHello s) := by
  unfold sendHello
  have h := reach_send s
  split
  · rename_i s1 ex heq
    rw [heq] at h
    have hfin : s1.finish = s.finish ∧ s1.ready = .ok := by
      rcases send_some_eq _ _ _ heq with ⟨h1, _⟩ | ⟨h1, _⟩ | ⟨h1, _⟩ <;> subst h1 <;>
        simp [reportFatal, cleanup, aSetFatal, hr]
    refine h.trans (reach_failFinish s1 ex ?_ ?_ ?_)
    · rcases hp with hp | hp <;> simp [FinPend, hfin.1, hp]
    · intro hc; rw [hfin.1] at hc; rcases hp with hp | hp <;> simp [hp] at hc
    · refine ⟨fun _ => Or.inr (by simp [hfin.2]), fun hc => ?_⟩
      rw [hfin.1] at hc; rcases hp with hp | hp <;> simp [hp] at hc
  · rename_i s1 heq
    rw [heq] at h
    obtain ⟨h1, _, h3, _⟩ := send_none_eq _ _ heq
    subst h1
    exact .snoc h (.helloStart _ hp hst h3 ht)

theorem reach_afterReady (s : State) (hp : s.finish = .awaitTransport ∨ s.finish = .awaitReady)
    (hf : s.fhSet = true ∨ s.finish = .awaitReady) (hr : s.ready = .ok) :
    Reach s (afterReady s) := by
  unfold afterReady
  split
  · refine reach_failFinish s _ ?_ ?_ ?_
    · rcases hp with hp | hp <;> simp [FinPend, hp]
    · intro hc; rcases hp with hp | hp <;> simp [hp] at hc
    · refine ⟨fun _ => Or.inr (by simp [hr]), fun hc => ?_⟩
      rcases hp with hp | hp <;> simp [hp] at hc
  · rename_i hn
    exact (Reach.one (.hsEnter s hp hn hf hr)).trans
      (reach_sendHello _ (by simpa [aHsEnter] using hp) rfl rfl (by simpa [aHsEnter] using hr))

theorem reach_stepFinish (s : State) : Reach s (stepFinish s) := by
  unfold stepFinish
  split
  · rename_i hs
    have hp : FinPend s := Or.inl hs
    have hh : s.finish = .awaitHello → s.hello.timer = false ∧ s.hello.registered = false := by intro hc; simp [hs] at hc
    have hd : FinDue s := ⟨fun hc => by simp [hs] at hc, fun hc => by simp [hs] at hc⟩
    split
    · have hfin : (aTrCancelled s).finish = .awaitTransport := by simp only [aTrCancelled]; split <;> simpa using hs
      refine (Reach.one (.trCancelled s hs)).trans (reach_failFinish _ _ (Or.inl hfin) ?_ ?_)
      · intro hc; simp [hfin] at hc
      · exact ⟨fun hc => by simp [hfin] at hc, fun hc => by simp [hfin] at hc⟩
    · split
      · exact .refl s
      · rename_i hw
        split
        · exact reach_failFinish s _ hp hh hd
        · rename_i hf
          have h1 : Reach s (aFhAttach s) := .one (.fhAttach s hs (by simpa using hw) (by simpa using hf))
          have hfin : (aFhAttach s).finish = .awaitTransport := by simpa [aFhAttach] using hs
          have hh' : (aFhAttach s).finish = .awaitHello → (aFhAttach s).hello.timer = false ∧ (aFhAttach s).hello.registered = false := by
            intro hc; simp [hfin] at hc
          have hd' : FinDue (aFhAttach s) := ⟨fun hc => by simp [hfin] at hc, fun hc => by simp [hfin] at hc⟩
          split
          · rename_i hrd
            exact h1.trans (reach_afterReady _ (Or.inl hfin) (Or.inl rfl) (by simpa [aFhAttach] using hrd))
          · exact h1.trans (reach_failFinish _ _ (Or.inl hfin) hh' hd')
          · exact .snoc h1 (.finToReady _ hfin rfl rfl)
  · rename_i hs
    have hp : FinPend s := Or.inr (Or.inl hs)
    have hh : s.finish = .awaitHello → s.hello.timer = false ∧ s.hello.registered = false := by intro hc; simp [hs] at hc
    have hd2 : s.finish = .awaitHello → CancelDue s.finishT ∨ s.hello.fut ≠ .pending := by intro hc; simp [hs] at hc
    split
    · rename_i ex heq; exact reach_failFinish s _ hp hh ⟨fun _ => Or.inl (cancelExc_some _ _ heq), hd2⟩
    · split
      · rename_i hrd; exact reach_afterReady s (Or.inr hs) (Or.inr hs) hrd
      · rename_i hrd; exact reach_failFinish s _ hp hh ⟨fun _ => Or.inr (by simp [hrd]), hd2⟩
      · rename_i e hrd; exact reach_failFinish s _ hp hh ⟨fun _ => Or.inr (by simp [hrd]), hd2⟩
      · exact .refl s
  · rename_i hs
    have hfin : (aHelloFinally s).finish = .awaitHello := by simpa [aHelloFinally] using hs
    have hp1 : FinPend (aHelloFinally s) := Or.inr (Or.inr hfin)
    have hh1 : (aHelloFinally s).finish = .awaitHello →
        (aHelloFinally s).hello.timer = false ∧ (aHelloFinally s).hello.registered = false := by
      intro _; simp [aHelloFinally, finishReq]
    have key : (CancelDue s.finishT ∨ s.hello.fut ≠ .pending) →
        ∀ ex, Reach s (failFinish (aHelloFinally s) ex) := by
      intro hd ex
      refine (Reach.one (.helloFinally s hs hd)).trans (reach_failFinish _ _ hp1 hh1 ⟨fun hc => by simp [hfin] at hc, fun _ => ?_⟩)
      simpa [aHelloFinally, finishReq] using hd
    split
    · rename_i ex heq; exact key (Or.inl (cancelExc_some _ _ heq)) _
    · split
      · rename_i hfut
        have hd : CancelDue s.finishT ∨ s.hello.fut ≠ .pending := Or.inr (by simp [hfut])
        split
        · exact key hd _
        · exact .snoc (.one (.helloFinally s hs hd)) (.helloOk _ hfin (by simp [aHelloFinally, finishReq]))
      · rename_i hfut; exact key (Or.inr (by simp [hfut])) _
      · rename_i e hfut; exact key (Or.inr (by simp [hfut])) _
      · exact .refl s
  · exact .refl s

end Esp.Conn

namespace Esp.Conn

theorem reportFatal_disc (s : State) (f : Fatal) : (reportFatal s f).disc = s.disc ∧ (reportFatal s f).st = .closed := by
  simp [reportFatal, cleanup, aSetFatal]

theorem reach_discSend (s : State) (hd : s.disc = .idle ∨ s.disc = .awaitFinish)
    (hw : s.discWaitTimer = false ∨ s.disc = .idle) :
    Reach s (discSend s) := by
  unfold discSend
  have hr : ∀ x : State, x.disc = s.disc → (x.disc = .awaitResp → x.discReq.timer = false ∧ x.discReq.registered = false) := by
    intro x hx hc; rw [hx] at hc; rcases hd with h | h <;> simp [h] at hc
  split
  · have h := reach_send s
    split
    · rename_i s1 e heq
      rw [heq] at h
      have hdisc : s1.disc = s.disc := by
        rcases send_some_eq _ _ _ heq with ⟨h1, _⟩ | ⟨h1, _⟩ | ⟨h1, _⟩ <;> subst h1 <;> simp [reportFatal, cleanup, aSetFatal]
      have hwt : s1.discWaitTimer = s.discWaitTimer := by
        rcases send_some_eq _ _ _ heq with ⟨h1, _⟩ | ⟨h1, _⟩ | ⟨h1, _⟩ <;> subst h1 <;> simp [reportFatal, cleanup, aSetFatal]
      refine .snoc (.snoc h (.cleanup _)) (.discDone _ rfl (hr (cleanup s1) (by simpa [cleanup] using hdisc)) ?_)
      rcases hw with hw | hw
      · left; simpa [cleanup, hwt] using hw
      · right; left; simpa [cleanup, hdisc] using hw
    · rename_i s1 ex hne heq
      rw [heq] at h
      rcases send_some_eq _ _ _ heq with ⟨h1, h2, _⟩ | ⟨h1, h2, h3, _⟩ | ⟨_, _, _, h4⟩
      · simp_all
      · subst h1; exact .snoc h (.discRaw _ h2 h3)
      · exact absurd h4 (by intro hc; exact hne _ hc)
    · rename_i s1 heq
      rw [heq] at h
      obtain ⟨h1, h2, _, _⟩ := send_none_eq _ _ heq
      subst h1
      exact .snoc h (.discReqStart _ h2 (by simpa [aWrite] using hd) (by simpa [aWrite] using hw))
  · refine .snoc (.one (.cleanup s)) (.discDone _ rfl (hr (cleanup s) (by simp [cleanup])) ?_)
    rcases hw with hw | hw
    · left; simpa [cleanup] using hw
    · right; left; simpa [cleanup] using hw

theorem reach_stepDisc (s : State) : Reach s (stepDisc s) := by
  unfold stepDisc
  split
  · rename_i hs
    split
    · exact .one (.discCancelledW s hs)
    · split
      · split
        · rename_i hwd _
          refine (Reach.snoc (.one (.setFatal _ s)) (.discWaitOver _ (by simpa [aSetFatal] using hs) (by simpa [aSetFatal] using hwd))).trans
            (reach_discSend _ (Or.inr (by simpa [aDiscWaitOver, aSetFatal] using hs)) (Or.inl rfl))
        · rename_i hwd _
          exact (Reach.one (.discWaitOver s hs hwd)).trans (reach_discSend _ (Or.inr (by simpa [aDiscWaitOver] using hs)) (Or.inl rfl))
      · exact .refl s
  · rename_i hs
    split
    · exact .one (.discCancelledR s hs)
    · split
      · exact .refl s
      · rename_i hfut
        refine .snoc (.snoc (.one (.discReqFinally s hs (by intro hc; exact hfut hc))) (.cleanup _)) (.discDone _ rfl ?_ ?_)
        · intro _; simp [cleanup, aDiscReqFinally, failWaiter, finishReq]
        · right; right; simpa [cleanup, aDiscReqFinally] using hs
  · exact .refl s

/-- **every transition is a chain of guarded primitive actions** -/
theorem step_reach (s : State) (e : Ev) : Reach s (step s e) := by
  cases e with
  | callStart =>
    simp only [step]; split
    · exact .one (.refused s)
    · split
      · exact .one (.refused s)
      · exact .one (.startBegin s (by simp_all) (by simp_all))
  | resolved ok =>
    simp only [step]; split
    · exact .one (.resolveSet ok s (by simp_all))
    · exact .refl s
  | sockFault => exact .one (.sockFaulty s)
  | sockDone ok =>
    simp only [step]; split
    · exact .one (.sockSet ok s (by simp_all))
    · exact .refl s
  | wakeStart => exact reach_stepStart s
  | cancelStart =>
    simp only [step]; split
    · exact .one (.userCancelStart s (by assumption))
    · exact .refl s
  | callFinish =>
    simp only [step]; split
    · exact .one (.refused s)
    · split
      · exact .one (.refused s)
      · exact .one (.finishBegin s (by simp_all) (by simp_all))
  | connMade =>
    simp only [step]; split
    · split
      · exact .one (.connMadeFail s (by simp_all))
      · exact .one (.connMadeOk s (by simp_all) (by simp_all) (by simp_all))
    · exact .refl s
  | hsOk =>
    simp only [step]; split
    · exact .one (.readyOk s (by simp_all))
    · exact .refl s
  | wakeFinish => exact reach_stepFinish s
  | cancelFinish =>
    simp only [step]; split
    · exact .one (.userCancelFinish s (by assumption))
    · exact .refl s
  | cbStart =>
    simp only [step]; split
    · exact .one (.cbStart s (by assumption))
    · exact .refl s
  | cbFinish =>
    simp only [step]; split
    · exact .one (.cbFinish s (by assumption))
    · exact .refl s
  | callDisc =>
    simp only [step]; split
    · exact .refl s
    · rename_i hd
      have hd' : s.disc = .idle := by simpa using hd
      split
      · exact .snoc (.one (.mark s)) (.discBegin _ (by simpa [aMark] using hd') (by simpa [aMark]))
      · exact (Reach.one (.mark s)).trans (reach_discSend _ (Or.inl (by simpa [aMark] using hd')) (Or.inr (by simpa [aMark] using hd')))
  | wakeDisc => exact reach_stepDisc s
  | cbDiscWait =>
    simp only [step]; split
    · exact .one (.cbDiscWait s (by assumption))
    · exact .refl s
  | cancelDisc =>
    simp only [step]; split
    · exact .one (.discCancelW s (by assumption))
    · split
      · exact .one (.discCancelR s (by assumption))
      · exact .refl s
  | force =>
    simp only [step]; split
    · have h := reach_send (aMark s)
      have h0 : Reach s (aMark s) := .one (.mark s)
      split
      · rename_i heq; rw [heq] at h; exact .snoc (h0.trans h) (.cleanup _)
      · rename_i s1 ex hne heq
        rw [heq] at h
        rcases send_some_eq _ _ _ heq with ⟨h1, h2, _⟩ | ⟨h1, h2, h3, _⟩ | ⟨_, _, _, h4⟩
        · simp_all [aMark, hsComplete]
        · subst h1; exact .snoc (h0.trans h) (.forceRaw _ h2 h3)
        · exact absurd h4 (by intro hc; exact hne _ hc)
      · rename_i heq; rw [heq] at h; exact .snoc (h0.trans h) (.cleanup _)
    · exact .snoc (.one (.mark s)) (.cleanup _)
  | data pkts =>
    simp only [step]; split
    · exact reach_feed pkts s
    · exact .refl s
  | eof =>
    simp only [step]; split
    · exact .snoc ((Reach.one (.readyFail _ s)).trans (reach_reportFatal _ _)) (.trClose _)
    · exact .refl s
  | reset =>
    simp only [step]; split
    · exact .one (.trAbort s)
    · exact .refl s
  | lost =>
    simp only [step]; split
    · exact reach_onLost s (by assumption)
    · exact .refl s
  | fireResolve =>
    simp only [step]; split
    · exact .one (.fireResolve s (by simp_all))
    · exact .refl s
  | fireTcp =>
    simp only [step]; split
    · exact .one (.fireTcp s (by simp_all))
    · exact .refl s
  | fireHs =>
    simp only [step]; split
    · exact .one (.fireHs s (by assumption))
    · exact .refl s
  | fireHello =>
    simp only [step]; split
    · exact .one (.fireHello s (by assumption))
    · exact .refl s
  | firePing =>
    simp only [step]; split
    · rename_i hp
      split
      · have h := reach_send s
        split
        · rename_i heq; rw [heq] at h; exact h
        · rename_i s1 heq
          rw [heq] at h
          obtain ⟨h1, h2, _, _⟩ := send_none_eq _ _ heq
          subst h1
          exact .snoc h (.pingRearm _ (by simpa [aWrite] using hp) h2)
      · exact .one (.pingPend s hp)
    · exact .refl s
  | firePong =>
    simp only [step]; split
    · exact (Reach.one (.pongOff s)).trans (reach_reportFatal _ _)
    · exact .refl s
  | fireDiscWait =>
    simp only [step]; split
    · exact .one (.fireDiscWait s (by assumption))
    · exact .refl s
  | fireDiscResp =>
    simp only [step]; split
    · exact .one (.fireDiscResp s (by assumption))
    · exact .refl s
  | setWrite ok => exact .one (.setWrite ok s)

theorem run_reach (s : State) (evs : List Ev) : Reach s (run s evs) := by
  induction evs generalizing s with
  | nil => exact .refl s
  | cons e es ih => exact (step_reach s e).trans (ih _)

end Esp.Conn
