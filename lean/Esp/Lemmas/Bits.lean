import Esp.Lemmas.Varint
/-! 16-bit big-endian header arithmetic -/
namespace Esp

theorem and_FF (x : Nat) : x &&& 0xFF = x % 256 := by
  have := Nat.and_two_pow_sub_one_eq_mod x 8; simpa using this

theorem hi8_toNat (x : Nat) : (hi8 x).toNat = (x / 256) % 256 := by
  simp only [hi8, and_FF, Nat.shiftRight_eq_div_pow]
  rw [toNat_ofNat_lt _ (Nat.mod_lt _ (by omega))]

theorem lo8_toNat (x : Nat) : (lo8 x).toNat = x % 256 := by
  simp only [lo8, and_FF]
  rw [toNat_ofNat_lt _ (Nat.mod_lt _ (by omega))]

theorem be16_split (x : Nat) (h : x < 65536) : (hi8 x).toNat * 256 + (lo8 x).toNat = x := by
  rw [hi8_toNat, lo8_toNat]; omega

theorem shl8_or (x y : Nat) (hy : y < 256) : (x <<< 8) ||| y = x * 256 + y := by
  have : y < 2 ^ 8 := by simpa using hy
  rw [← Nat.shiftLeft_add_eq_or_of_lt this, Nat.shiftLeft_eq]

theorem be16_eq (h l : UInt8) : be16 h l = h.toNat * 256 + l.toNat := by
  unfold be16
  exact shl8_or _ _ (UInt8.toNat_lt l)

theorem be16_hi_lo (x : Nat) (h : x < 65536) : be16 (hi8 x) (lo8 x) = x := by
  rw [be16_eq, be16_split x h]

end Esp
