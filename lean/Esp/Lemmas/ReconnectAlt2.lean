import Esp.Lemmas.ReconnectAlt
import Esp.Lemmas.ReconnectErr
/-!
# Reconnect manager: on_connect / on_disconnect alternate unless the manager is restarted over a session it has forgotten

`stop()` marks the manager DISCONNECTED even while a session is live (or its end not yet reported).  `Alt2` is `Alt` with that
state allowed: "stopped and DISCONNECTED" may coexist with a live session.  A `start()` body that runs in such a state produces
`BadR` (running, DISCONNECTED, session live or its end unreported) — the state of the known finding; every step either keeps
`Alt2` or ends in `BadR`.
-/
namespace Esp.Reconnect

/-- stopped and (therefore) marked DISCONNECTED -/
def Qs (s : St) : Prop := s.stopped = true ∧ s.state = .disconnected

structure Alt2 (s : St) : Prop where
  a1 : s.cli = .live → s.state = .ready ∨ Qs s
  a2 : ∀ (i : Nat) (t : Task), s.tasks[i]? = some t → tryPc t.pc = true → s.state ≠ .ready
  a3 : ∀ (i : Nat) (t : Task), s.tasks[i]? = some t → pendD t = true → s.cli = .idle ∧ (s.state = .ready ∨ Qs s)
  a3u : ∀ (i j : Nat) (ti tj : Task), s.tasks[i]? = some ti → s.tasks[j]? = some tj → pendD ti = true → pendD tj = true → i = j
  a4 : s.state = .ready → s.cli = .live ∨ PD s
  a5o : s.cli = .live ∨ PD s → altState s.log = some true
  a5c : ¬(s.cli = .live ∨ PD s) → altState s.log = some false

/-- running, DISCONNECTED, although a session is live or its end has not been reported -/
def BadR (s : St) : Prop := s.stopped = false ∧ s.state = .disconnected ∧ (s.cli = .live ∨ PD s)

theorem Alt2.same {s s' : St} (h : Alt2 s) (ht : s'.tasks.map proj = s.tasks.map proj) (hs : s'.state = s.state)
    (hq : s'.stopped = s.stopped) (hc : s'.cli = s.cli) (hl : altState s'.log = altState s.log) : Alt2 s' := by
  have hpd : PD s' ↔ PD s := ⟨PD_of_map ht, PD_of_map ht.symm⟩
  have hqs : Qs s' ↔ Qs s := by unfold Qs; rw [hq, hs]
  constructor
  · rw [hc, hs, hqs]; exact h.a1
  · intro i t' hi hp
    obtain ⟨t, h0, hpr⟩ := proj_of_map ht i t' hi
    rw [hs]; exact h.a2 i t h0 (by have := congrArg Prod.fst hpr; simp [proj] at this; rw [this]; exact hp)
  · intro i t' hi hp
    obtain ⟨t, h0, hpr⟩ := proj_of_map ht i t' hi
    rw [hc, hs, hqs]; exact h.a3 i t h0 (by have := congrArg Prod.snd hpr; simp [proj] at this; rw [this]; exact hp)
  · intro i j ti tj hi hj hpi hpj
    obtain ⟨t0, h0, hpr0⟩ := proj_of_map ht i ti hi
    obtain ⟨t1, h1, hpr1⟩ := proj_of_map ht j tj hj
    exact h.a3u i j t0 t1 h0 h1 (by have := congrArg Prod.snd hpr0; simp [proj] at this; rw [this]; exact hpi)
      (by have := congrArg Prod.snd hpr1; simp [proj] at this; rw [this]; exact hpj)
  · rw [hs, hc, hpd]; exact h.a4
  · rw [hc, hpd, hl]; exact h.a5o
  · rw [hc, hpd, hl]; exact h.a5c

theorem Alt2.mono {s s' : St} (h : Alt2 s)
    (h1 : ∀ (i : Nat) (t' : Task), s'.tasks[i]? = some t' → (∃ t, s.tasks[i]? = some t ∧
      (tryPc t'.pc = true → tryPc t.pc = true) ∧ pendD t' = pendD t) ∨ (tryPc t'.pc = false ∧ pendD t' = false))
    (h2 : PD s → PD s') (hs : s'.state = s.state) (hq : s'.stopped = s.stopped) (hc : s'.cli = s.cli)
    (hl : altState s'.log = altState s.log) : Alt2 s' := by
  have hpd : PD s' ↔ PD s := by
    constructor
    · rintro ⟨i, t', hi, hp⟩
      rcases h1 i t' hi with ⟨t, ht, _, hpe⟩ | ⟨_, hn⟩
      · exact ⟨i, t, ht, by rw [← hpe]; exact hp⟩
      · rw [hn] at hp; cases hp
    · exact h2
  have hqs : Qs s' ↔ Qs s := by unfold Qs; rw [hq, hs]
  constructor
  · rw [hc, hs, hqs]; exact h.a1
  · intro i t' hi hp
    rcases h1 i t' hi with ⟨t, h0, hin, _⟩ | ⟨hn, _⟩
    · rw [hs]; exact h.a2 i t h0 (hin hp)
    · rw [hn] at hp; cases hp
  · intro i t' hi hp
    rcases h1 i t' hi with ⟨t, h0, _, hpe⟩ | ⟨_, hn⟩
    · rw [hc, hs, hqs]; exact h.a3 i t h0 (by rw [← hpe]; exact hp)
    · rw [hn] at hp; cases hp
  · intro i j ti tj hi hj hpi hpj
    rcases h1 i ti hi with ⟨t0, h0, _, hp0⟩ | ⟨_, hn⟩
    · rcases h1 j tj hj with ⟨t1, h1', _, hp1⟩ | ⟨_, hn⟩
      · exact h.a3u i j t0 t1 h0 h1' (by rw [← hp0]; exact hpi) (by rw [← hp1]; exact hpj)
      · rw [hn] at hpj; cases hpj
    · rw [hn] at hpi; cases hpi
  · rw [hs, hc, hpd]; exact h.a4
  · rw [hc, hpd, hl]; exact h.a5o
  · rw [hc, hpd, hl]; exact h.a5c

theorem alt2_setTask_proj (s : St) (tid : Nat) (f : Task → Task) (hf : ∀ t, s.tasks[tid]? = some t → proj (f t) = proj t)
    (h : Alt2 s) : Alt2 (setTask s tid f) :=
  h.same (by simp only [setTask]; exact map_proj_modify _ _ _ hf) rfl rfl rfl rfl

theorem alt2_finish (s : St) (tid : Nat) (hk : ∀ t, s.tasks[tid]? = some t → pendD t = false) (h : Alt2 s) : Alt2 (finish s tid) := by
  refine h.mono ?_ ?_ rfl rfl rfl rfl
  · intro i t' hi
    obtain ⟨t0, h0, rfl⟩ := getElem?_setTask hi
    refine Or.inl ⟨t0, h0, ?_, ?_⟩
    · split
      · intro hp; simp [tryPc] at hp
      · exact id
    · split
      · rename_i heq; subst heq
        rw [hk t0 h0]; simp [pendD]
      · rfl
  · rintro ⟨i, t, hi, hp⟩
    have hne : tid ≠ i := by
      intro heq; subst heq
      rw [hk t hi] at hp; cases hp
    exact ⟨i, t, by simp only [finish, setTask]; rw [List.getElem?_modify_ne _ _ hne]; exact hi, hp⟩

theorem alt2_release (s : St) (h : Alt2 s) : Alt2 (release s) := h.same (by simp) (by simp) (by simp) (by simp) (by simp)

theorem alt2_afterFail (s : St) (tid : Nat) (hk : ∀ t, s.tasks[tid]? = some t → pendD t = false) (h : Alt2 s) :
    Alt2 (afterFail s tid) := by
  unfold afterFail
  dsimp only
  apply alt2_finish
  · intro t ht
    refine hk t ?_
    have : (release (emit { cancelTimer (if backoff s.tries ≠ 0 then startZc s else s) with
        timer := some ((if backoff s.tries ≠ 0 then startZc s else s).now + backoff s.tries) } (.arm (backoff s.tries)))).tasks = s.tasks := by
      simp only [tasks_release, tasks_emit, tasks_cancelTimer]
      split <;> simp
    rw [this] at ht; exact ht
  · apply alt2_release
    have h1 : Alt2 (if backoff s.tries ≠ 0 then startZc s else s) := by
      split
      · exact h.same (by simp) (by simp) (by simp) (by simp) (by unfold startZc; split <;> simp [emit, altState_append])
      · exact h
    exact h1.same rfl rfl rfl rfl (by simp [emit, altState_append])

/-- no session is live and none is waiting to be reported; after an update that reports no callback and leaves neither -/
theorem alt2_quiet {s s' : St} (h : Alt2 s) (hnl : s.cli ≠ .live) (hnpd : ¬PD s) (ht : s'.tasks.map proj = s.tasks.map proj)
    (hs' : s'.state ≠ .ready) (hc : s'.cli ≠ .live) (hl : altState s'.log = altState s.log) : Alt2 s' := by
  have hnpd' : ¬PD s' := fun hp => hnpd (PD_of_map ht hp)
  constructor
  · intro hl; exact absurd hl hc
  · intro _ _ _ _; exact hs'
  · intro i t' hi hp; exact absurd ⟨i, t', hi, hp⟩ hnpd'
  · intro i j ti tj hi _ hpi _; exact absurd ⟨i, ti, hi, hpi⟩ hnpd'
  · intro hr; exact absurd hr hs'
  · rintro (hl' | hp)
    · exact absurd hl' hc
    · exact absurd hp hnpd'
  · intro _; rw [hl]; exact h.a5c (by rintro (hl' | hp); exact hnl hl'; exact hnpd hp)

/-- neither READY nor stopped-and-DISCONNECTED: no session is live and none is waiting to be reported -/
theorem nl_of_state (s : St) (h : Alt2 s) (hs : s.state ≠ .ready) (hq : ¬Qs s) : s.cli ≠ .live ∧ ¬PD s := by
  constructor
  · intro hl; rcases h.a1 hl with h1 | h1
    · exact hs h1
    · exact hq h1
  · rintro ⟨i, t, hi, hp⟩
    rcases (h.a3 i t hi hp).2 with h1 | h1
    · exact hs h1
    · exact hq h1

theorem alt2_failEnd (s : St) (tid : Nat) (t : Task) (k : ErrK) (h : Alt2 s) (ht : s.tasks[tid]? = some t)
    (hp : tryPc t.pc = true) : Alt2 (failEnd s k tid) := by
  unfold failEnd
  apply alt2_afterFail
  · intro t' ht'
    have : s.tasks[tid]? = some t' := ht'
    rw [ht] at this; cases this
    exact pendD_false_of_try t hp
  · exact h.same rfl rfl rfl rfl (by simp [emit, altState_append])

theorem alt2_failBegin (s : St) (tid : Nat) (t : Task) (k : ErrK) (h : Alt2 s) (hnl : s.cli ≠ .live) (hnpd : ¬PD s)
    (ht : s.tasks[tid]? = some t) (hp : tryPc t.pc = true) : Alt2 (failBegin { s with cli := .idle } k tid) := by
  unfold failBegin
  dsimp only
  have h1 : Alt2 (emit (setState { s with cli := .idle } .disconnected) (.onConnectError k)) :=
    alt2_quiet h hnl hnpd rfl (by simp [setState]) (by simp) (by simp [emit, setState, altState_append])
  split
  · refine alt2_setTask_proj _ tid _ ?_ h1
    intro t' ht'
    have : s.tasks[tid]? = some t' := ht'
    rw [ht] at this; cases this
    have hpd := pendD_false_of_try t hp
    have hpd' : pendD { t with pc := .inOnError k, result := none, mustCancel := false } = false := pendD_false_of_pc _ (by simp)
    simp only [proj, hp, hpd, hpd']
    rfl
  · exact alt2_failEnd _ tid t k h1 ht hp

theorem alt2_connectLocked (s : St) (tid : Nat) (hk : NonDisc s tid) (h : Alt2 s) : Alt2 (connectLocked s tid) := by
  unfold connectLocked
  split
  · exact alt2_finish _ tid (fun t ht => NonDisc.pend hk t (by simpa using ht)) (alt2_release s h)
  · rename_i hc
    have hst : s.state = .disconnected := by
      cases hs : s.state <;> simp [hs] at hc <;> rfl
    have hns : s.stopped = false := by
      cases hs : s.stopped <;> simp [hs] at hc ⊢
    have hnr : s.state ≠ .ready := by rw [hst]; decide
    have hnq : ¬Qs s := by rintro ⟨h1, _⟩; rw [hns] at h1; cases h1
    obtain ⟨hnl, hnpd0⟩ := nl_of_state s h hnr hnq
    dsimp only
    have hcl : (emit (setState s .connecting) .attempt).cli ≠ .live := hnl
    rw [if_neg hcl]
    have h1 : Alt2 { emit (setState s .connecting) .attempt with cli := .starting } :=
      alt2_quiet h hnl hnpd0 rfl (by simp [setState]) (by simp) (by simp [emit, setState, altState_append])
    have hnpd : ¬PD ({ emit (setState s .connecting) .attempt with cli := .starting } : St) := hnpd0
    constructor
    · intro hl; simp [setTask] at hl
    · intro _ _ _ _; simp [setTask, setState]
    · intro i t' hi hp
      obtain ⟨t0, h0, rfl⟩ := getElem?_setTask hi
      exfalso
      split at hp
      · rename_i heq; subst heq
        have := hk t0 (by simpa using h0)
        simp [pendD, this] at hp
      · exact hnpd ⟨i, t0, h0, hp⟩
    · intro i j ti tj hi _ hpi _
      obtain ⟨t0, h0, rfl⟩ := getElem?_setTask hi
      exfalso
      split at hpi
      · rename_i heq; subst heq
        have := hk t0 (by simpa using h0)
        simp [pendD, this] at hpi
      · exact hnpd ⟨i, t0, h0, hpi⟩
    · intro hr; simp [setTask, setState] at hr
    · rintro (hl | ⟨i, t', hi, hp⟩)
      · simp [setTask] at hl
      · obtain ⟨t0, h0, rfl⟩ := getElem?_setTask hi
        exfalso
        split at hp
        · rename_i heq; subst heq
          have := hk t0 (by simpa using h0)
          simp [pendD, this] at hp
        · exact hnpd ⟨i, t0, h0, hp⟩
    · intro _
      have := h1.a5c (by rintro (hl | hp); simp at hl; exact hnpd hp)
      simpa [setTask] using this

theorem alt2_append (s : St) (k : Kind) (hk : isDiscK k = false) (h : Alt2 s) :
    Alt2 { s with tasks := s.tasks ++ [{ kind := k, pc := .running }] } := by
  refine h.mono ?_ ?_ rfl rfl rfl rfl
  · intro i t' hi
    simp only at hi
    rcases Nat.lt_or_ge i s.tasks.length with hlt | hge
    · rw [List.getElem?_append_left hlt] at hi; exact Or.inl ⟨t', hi, id, rfl⟩
    · rw [List.getElem?_append_right hge] at hi
      cases hj : i - s.tasks.length with
      | zero =>
        simp [hj] at hi
        exact Or.inr (by rw [← hi]; simp [tryPc, pendD, hk])
      | succ j => simp [hj] at hi
  · rintro ⟨i, t, hi, hp⟩
    exact ⟨i, t, by simp only; rw [List.getElem?_append_left (List.getElem?_eq_some_iff.mp hi).1]; exact hi, hp⟩

theorem alt2_acquire (s : St) (tid : Nat) (h : Alt2 s) (hr : ∀ t, s.tasks[tid]? = some t → t.pc = .running) :
    Alt2 (acquire s tid).1 := by
  unfold acquire
  split
  · exact h.same rfl rfl rfl rfl rfl
  · refine alt2_setTask_proj _ tid _ ?_ (h.same rfl rfl rfl rfl rfl)
    intro t ht
    have := hr t ht
    simp only [proj, pendD, this, tryPc]
    cases isDiscK t.kind <;> rfl

theorem alt2_spawnConnect (s : St) (h : Alt2 s) : Alt2 (spawnConnect s) := by
  unfold spawnConnect
  dsimp only
  have h1 := alt2_append s .connect rfl h
  generalize hs1 : ({ s with tasks := s.tasks ++ [{ kind := Kind.connect, pc := Pc.running }] } : St) = s1 at h1
  have hnew : ∀ t, s1.tasks[s.tasks.length]? = some t → t.pc = .running ∧ isDiscK t.kind = false := by
    intro t ht; rw [← hs1] at ht; simp at ht; rw [← ht]; exact ⟨rfl, rfl⟩
  have h2 := alt2_acquire s1 s.tasks.length h1 (fun t ht => (hnew t ht).1)
  cases hg : (acquire s1 s.tasks.length).2
  · rw [show acquire s1 s.tasks.length = ((acquire s1 s.tasks.length).1, false) from by rw [← hg]]
    exact h2.same rfl rfl rfl rfl rfl
  · rw [show acquire s1 s.tasks.length = ((acquire s1 s.tasks.length).1, true) from by rw [← hg]]
    refine (alt2_connectLocked _ _ ?_ h2).same rfl rfl rfl rfl rfl
    exact (kr_acquire s1 s.tasks.length).nonDisc _ (fun t ht => (hnew t ht).2)

theorem alt2_callConnectOnce (s : St) (h : Alt2 s) : Alt2 (callConnectOnce s) := by
  unfold callConnectOnce
  split
  · split
    · exact alt2_spawnConnect s h
    · split
      · exact h
      · rename_i hc
        have hst : s.state = .connecting := by simpa using hc
        apply alt2_spawnConnect
        have hnr : s.state ≠ .ready := by rw [hst]; decide
        have hnq : ¬Qs s := by rintro ⟨_, h2⟩; rw [hst] at h2; cases h2
        obtain ⟨hnl, hnpd⟩ := nl_of_state s h hnr hnq
        refine alt2_quiet h hnl hnpd (s' := setState (cancelConnectTask s) .disconnected)
          (by simpa using Sim.map_proj (cancelConnectTask_sim s)) (by simp [setState]) ?_ ?_
        · simp only [cli_setState, cli_cancelConnectTask]; exact hnl
        · simp only [log_setState]; rw [(cancelConnectTask_ctl s).log]
  · exact alt2_spawnConnect s h

theorem alt2_scheduleConnect (s : St) (d : Nat) (h : Alt2 s) : Alt2 (scheduleConnect s d) := by
  unfold scheduleConnect
  split
  · exact alt2_callConnectOnce s h
  · exact h.same rfl rfl rfl rfl (by simp [emit, altState_append])

theorem alt2_discEnd (s : St) (tid : Nat) (e : Bool) (hk : ∀ t, s.tasks[tid]? = some t → pendD t = false) (h : Alt2 s) :
    Alt2 (discEnd s tid e) := by
  unfold discEnd
  dsimp only
  have h2 : Alt2 (finish (release s) tid) := alt2_finish _ tid (fun t ht => hk t (by simpa using ht)) (alt2_release s h)
  split
  · exact h2
  · exact alt2_scheduleConnect _ _ h2

theorem alt2_reported (s : St) (tid : Nat) (e : Bool) (t : Task) (ht : s.tasks[tid]? = some t) (hp : pendD t = true)
    (h : Alt2 s) (f : Task → Task) (hf : ∀ t, pendD (f t) = false ∧ tryPc (f t).pc = false) :
    Alt2 (setTask (emit (setState s .disconnected) (.onDisconnect e)) tid f) := by
  have hci := (h.a3 tid t ht hp).1
  have hopen := h.a5o (Or.inr ⟨tid, t, ht, hp⟩)
  have hnpd : ¬PD (setTask (emit (setState s .disconnected) (.onDisconnect e)) tid f) := by
    rintro ⟨i, t', hi, hp'⟩
    obtain ⟨t0, h0, rfl⟩ := getElem?_setTask hi
    have h0' : s.tasks[i]? = some t0 := by simpa using h0
    by_cases hti : tid = i
    · rw [if_pos hti, (hf t0).1] at hp'; cases hp'
    · rw [if_neg hti] at hp'
      exact hti (h.a3u tid i t t0 ht h0' hp hp')
  constructor
  · intro hl; simp [hci] at hl
  · intro _ _ _ _; simp [setTask, setState]
  · intro i t' hi hp'; exact absurd ⟨i, t', hi, hp'⟩ hnpd
  · intro i j ti tj hi _ hpi _; exact absurd ⟨i, ti, hi, hpi⟩ hnpd
  · intro hr; simp [setTask, setState] at hr
  · rintro (hl | hpd)
    · simp [hci] at hl
    · exact absurd hpd hnpd
  · intro _
    simp [setTask, emit, setState, altState_append, hopen, altStep]

theorem alt2_discLocked (s : St) (tid : Nat) (e : Bool) (t : Task) (ht : s.tasks[tid]? = some t) (hp : pendD t = true)
    (h : Alt2 s) : Alt2 (discLocked s tid e) := by
  unfold discLocked
  dsimp only
  split
  · exact alt2_reported s tid e t ht hp h _ (fun t => ⟨pendD_false_of_pc _ (by simp), rfl⟩)
  · unfold discEnd
    dsimp only
    have h2 : Alt2 (finish (release (emit (setState s .disconnected) (.onDisconnect e))) tid) := by
      have := alt2_reported s tid e t ht hp h (fun t => { t with pc := .done, mustCancel := false, result := none })
        (fun t => ⟨pendD_false_of_pc _ (by simp), rfl⟩)
      exact this.same (by simp [finish, setTask]) (by simp [finish, setTask]) (by simp [finish, setTask]) (by simp [finish, setTask])
        (by simp [finish, setTask])
    split
    · exact h2
    · exact alt2_scheduleConnect _ _ h2

/-! ## `stop()` -/

/-- the manager is stopped and marked DISCONNECTED; tasks, client and callback history as before -/
theorem alt2_toQ {s s' : St} (h : Alt2 s) (ht : s'.tasks.map proj = s.tasks.map proj) (hs : s'.state = .disconnected)
    (hq : s'.stopped = true) (hc : s'.cli = s.cli) (hl : altState s'.log = altState s.log) : Alt2 s' := by
  have hpd : PD s' ↔ PD s := ⟨PD_of_map ht, PD_of_map ht.symm⟩
  have hQ : Qs s' := ⟨hq, hs⟩
  constructor
  · intro _; exact Or.inr hQ
  · intro _ _ _ _; rw [hs]; decide
  · intro i t' hi hp
    obtain ⟨t, h0, hpr⟩ := proj_of_map ht i t' hi
    rw [hc]
    exact ⟨(h.a3 i t h0 (by have := congrArg Prod.snd hpr; simp [proj] at this; rw [this]; exact hp)).1, Or.inr hQ⟩
  · intro i j ti tj hi hj hpi hpj
    obtain ⟨t0, h0, hpr0⟩ := proj_of_map ht i ti hi
    obtain ⟨t1, h1, hpr1⟩ := proj_of_map ht j tj hj
    exact h.a3u i j t0 t1 h0 h1 (by have := congrArg Prod.snd hpr0; simp [proj] at this; rw [this]; exact hpi)
      (by have := congrArg Prod.snd hpr1; simp [proj] at this; rw [this]; exact hpj)
  · intro hr; rw [hs] at hr; cases hr
  · rw [hc, hpd, hl]; exact h.a5o
  · rw [hc, hpd, hl]; exact h.a5c

theorem alt2_stopLocked (s : St) (tid : Nat) (hk : NonDisc s tid) (h : Alt2 s) : Alt2 (stopLocked s tid) := by
  rw [stopLocked_eq]
  have hsim : Sim (cancelTimer { s with stopped := true }) (cancelConnectTask (cancelTimer { s with stopped := true })) :=
    cancelConnectTask_sim _
  have hctl := cancelConnectTask_ctl (cancelTimer { s with stopped := true })
  have hX : Alt2 (setState (stopZc (cancelConnectTask (cancelTimer { s with stopped := true }))) .disconnected) := by
    refine alt2_toQ h ?_ (by simp [setState]) ?_ ?_ ?_
    · simp only [tasks_setState, tasks_stopZc]; exact hsim.map_proj
    · simp only [setState]; rw [stopped_stopZc, hctl.stopped]; rfl
    · simp only [cli_setState, cli_stopZc, cli_cancelConnectTask]; rfl
    · simp only [log_setState]
      unfold stopZc
      split
      · simp only [emit, altState_append, altStep_zcRemove]; rw [hctl.log]; rfl
      · rw [hctl.log]; rfl
  have hkX : ∀ t, (release (setState (stopZc (cancelConnectTask (cancelTimer { s with stopped := true }))) .disconnected)).tasks[tid]? = some t →
      pendD t = false := by
    intro t ht
    simp only [tasks_release, tasks_setState, tasks_stopZc] at ht
    obtain ⟨t0, h0, _, hkind⟩ := hsim.t tid t ht
    have := hk t0 (by simpa using h0)
    simp [pendD, ← hkind, this]
  exact (alt2_finish _ tid hkX (alt2_release _ hX)).same rfl rfl rfl rfl (by simp [emit, altState_append])

/-! ## `start()`: either the invariant is kept, or the manager has been restarted over a session it had forgotten -/

structure Fr (s s' : St) : Prop where
  st : s'.state = s.state
  cl : s'.cli = s.cli
  sp : s'.stopped = s.stopped
  tk : ∀ (i : Nat) (t : Task), s.tasks[i]? = some t → s'.tasks[i]? = some t

theorem Fr.refl (s : St) : Fr s s := ⟨rfl, rfl, rfl, fun _ _ h => h⟩

theorem fr_spawnConnect (s : St) (hl : s.locked = true) : Fr s (spawnConnect s) := by
  unfold spawnConnect
  dsimp only
  rw [acquire_locked _ _ (by simpa using hl)]
  simp only [Bool.false_eq_true, ↓reduceIte]
  refine ⟨rfl, rfl, rfl, ?_⟩
  intro i t hi
  have hlt : i < s.tasks.length := (List.getElem?_eq_some_iff.mp hi).1
  simp only [setTask]; rw [List.getElem?_modify]
  have : ¬ s.tasks.length = i := by omega
  simp [this, List.getElem?_append_left hlt, hi]

theorem fr_callConnectOnce (s : St) (hl : s.locked = true) (hst : s.state ≠ .connecting) : Fr s (callConnectOnce s) := by
  unfold callConnectOnce
  split
  · split
    · exact fr_spawnConnect s hl
    · exact Fr.refl s
  · exact fr_spawnConnect s hl

theorem startLocked_bad (s : St) (tid : Nat) (hl : s.locked = true) (hq : Qs s) (hb : s.cli = .live ∨ PD s)
    (hk : NonDisc s tid) : BadR (startLocked s tid) := by
  obtain ⟨_, hst⟩ := hq
  unfold startLocked
  dsimp only
  have hnn : ¬({ s with stopped := false } : St).state ≠ .disconnected := by simp [hst]
  rw [if_neg hnn]
  unfold scheduleConnect
  rw [if_pos rfl]
  have hfr := fr_callConnectOnce (emit { ({ s with stopped := false } : St) with tries := 0 } .resetTries) (by simpa using hl)
    (by simp [emit, hst])
  generalize callConnectOnce (emit { ({ s with stopped := false } : St) with tries := 0 } .resetTries) = Y at hfr
  refine ⟨?_, ?_, ?_⟩
  · simp only [emit, finish, setTask]; rw [stopped_release, hfr.sp]; rfl
  · simp only [emit, finish, setTask]; rw [state_release, hfr.st]; exact hst
  · rcases hb with hlive | ⟨i, t, hi, hp⟩
    · left; simp only [emit, finish, setTask]; rw [cli_release, hfr.cl]; exact hlive
    · right
      have hne : tid ≠ i := by
        intro heq; subst heq
        have := hk t hi; simp [pendD, this] at hp
      refine ⟨i, t, ?_, hp⟩
      simp only [emit, finish, setTask, tasks_release]
      rw [List.getElem?_modify_ne _ _ hne]
      exact hfr.tk i t (by simpa [emit] using hi)

/-- `stopped` is cleared (or not looked at): fine as long as no forgotten session exists -/
theorem alt2_unstop {s s' : St} (h : Alt2 s) (hnb : Qs s → s.cli ≠ .live ∧ ¬PD s) (ht : s'.tasks.map proj = s.tasks.map proj)
    (hs : s'.state = s.state) (hc : s'.cli = s.cli) (hl : altState s'.log = altState s.log) : Alt2 s' := by
  have hpd : PD s' ↔ PD s := ⟨PD_of_map ht, PD_of_map ht.symm⟩
  constructor
  · intro hlive; rw [hc] at hlive
    rcases h.a1 hlive with h1 | h1
    · exact Or.inl (by rw [hs]; exact h1)
    · exact absurd hlive (hnb h1).1
  · intro i t' hi hp
    obtain ⟨t, h0, hpr⟩ := proj_of_map ht i t' hi
    rw [hs]; exact h.a2 i t h0 (by have := congrArg Prod.fst hpr; simp [proj] at this; rw [this]; exact hp)
  · intro i t' hi hp
    obtain ⟨t, h0, hpr⟩ := proj_of_map ht i t' hi
    have hp0 : pendD t = true := by have := congrArg Prod.snd hpr; simp [proj] at this; rw [this]; exact hp
    obtain ⟨h1, h2⟩ := h.a3 i t h0 hp0
    rw [hc]
    refine ⟨h1, ?_⟩
    rcases h2 with h2 | h2
    · exact Or.inl (by rw [hs]; exact h2)
    · exact absurd ⟨i, t, h0, hp0⟩ (hnb h2).2
  · intro i j ti tj hi hj hpi hpj
    obtain ⟨t0, h0, hpr0⟩ := proj_of_map ht i ti hi
    obtain ⟨t1, h1, hpr1⟩ := proj_of_map ht j tj hj
    exact h.a3u i j t0 t1 h0 h1 (by have := congrArg Prod.snd hpr0; simp [proj] at this; rw [this]; exact hpi)
      (by have := congrArg Prod.snd hpr1; simp [proj] at this; rw [this]; exact hpj)
  · rw [hs, hc, hpd]; exact h.a4
  · rw [hc, hpd, hl]; exact h.a5o
  · rw [hc, hpd, hl]; exact h.a5c

theorem alt2_startLocked (s : St) (tid : Nat) (hk : NonDisc s tid) (hl : s.locked = true) (h : Alt2 s) :
    Alt2 (startLocked s tid) ∨ BadR (startLocked s tid) := by
  by_cases hb : Qs s ∧ (s.cli = .live ∨ PD s)
  · exact Or.inr (startLocked_bad s tid hl hb.1 hb.2 hk)
  · left
    have hnb : Qs s → s.cli ≠ .live ∧ ¬PD s := by
      intro hq
      exact ⟨fun hlive => hb ⟨hq, Or.inl hlive⟩, fun hp => hb ⟨hq, Or.inr hp⟩⟩
    unfold startLocked
    dsimp only
    have key : ∀ X : St, KR s X → Alt2 X → Alt2 (emit (finish (release X) tid) .startRet) := by
      intro X kx hx
      refine (alt2_finish _ tid ?_ (alt2_release X hx)).same rfl rfl rfl rfl (by simp [emit, altState_append])
      exact NonDisc.pend ((kx.trans (kr_release X)).nonDisc tid hk)
    apply key
    · split
      · exact KR.ofEq rfl
      · exact (KR.ofEq (s := s) (s' := emit { { s with stopped := false } with tries := 0 } .resetTries) rfl).trans (kr_scheduleConnect _ 0)
    · split
      · exact alt2_unstop h hnb rfl rfl rfl rfl
      · exact alt2_scheduleConnect _ 0 (alt2_unstop h hnb rfl rfl rfl (by simp [emit, altState_append]))

theorem alt2_lockedBody (s : St) (tid : Nat) (t : Task) (ht : s.tasks[tid]? = some t) (hnd : t.pc = .running)
    (hl : s.locked = true) (h : Alt2 s) : Alt2 (lockedBody s tid t.kind) ∨ BadR (lockedBody s tid t.kind) := by
  unfold lockedBody
  split
  · rename_i hk
    exact Or.inl (alt2_connectLocked s tid (fun t' ht' => by rw [ht] at ht'; cases ht'; simp [hk, isDiscK]) h)
  · rename_i e hk
    exact Or.inl (alt2_discLocked s tid e t ht (by simp [pendD, hk, isDiscK, hnd]) h)
  · rename_i hk
    exact alt2_startLocked s tid (fun t' ht' => by rw [ht] at ht'; cases ht'; simp [hk, isDiscK]) hl h
  · rename_i hk
    exact Or.inl (alt2_stopLocked s tid (fun t' ht' => by rw [ht] at ht'; cases ht'; simp [hk, isDiscK]) h)

theorem acquire_got_locked (s : St) (tid : Nat) (hg : (acquire s tid).2 = true) :
    (acquire s tid).1.locked = true ∧ (acquire s tid).1.tasks = s.tasks := by
  unfold acquire at hg ⊢
  split
  · exact ⟨rfl, rfl⟩
  · rename_i hf; simp [hf] at hg

theorem alt2_spawn_nondisc (s : St) (k : Kind) (hk : isDiscK k = false) (h : Alt2 s) :
    Alt2 (spawn s k) ∨ BadR (spawn s k) := by
  unfold spawn
  dsimp only
  have h1 := alt2_append s k hk h
  generalize hs1 : ({ s with tasks := s.tasks ++ [{ kind := k, pc := Pc.running }] } : St) = s1 at h1
  have hnew : s1.tasks[s.tasks.length]? = some { kind := k, pc := .running } := by rw [← hs1]; simp
  have h2 := alt2_acquire s1 s.tasks.length h1 (fun t ht => by rw [hnew] at ht; cases ht; rfl)
  cases hg : (acquire s1 s.tasks.length).2
  · rw [show acquire s1 s.tasks.length = ((acquire s1 s.tasks.length).1, false) from by rw [← hg]]
    simp only [Bool.false_eq_true, ↓reduceIte]
    exact Or.inl h2
  · rw [show acquire s1 s.tasks.length = ((acquire s1 s.tasks.length).1, true) from by rw [← hg]]
    simp only [↓reduceIte]
    obtain ⟨hlk, hacq⟩ := acquire_got_locked s1 s.tasks.length hg
    have ht : (acquire s1 s.tasks.length).1.tasks[s.tasks.length]? = some { kind := k, pc := .running } := by rw [hacq]; exact hnew
    exact alt2_lockedBody _ _ _ ht (by simp) hlk h2

theorem alt2_sessionEnd (s : St) (e : Bool) (hl : s.cli = .live) (h : Alt2 s) : Alt2 (spawn { s with cli := .idle } (.disc e)) := by
  have hready := h.a1 hl
  have hnpd : ¬PD s := by
    rintro ⟨i, t, hi, hp⟩
    have := (h.a3 i t hi hp).1; rw [hl] at this; cases this
  have hopen := h.a5o (Or.inl hl)
  unfold spawn
  dsimp only
  have h1 : Alt2 ({ { s with cli := .idle } with tasks := s.tasks ++ [{ kind := .disc e, pc := .running }] } : St) := by
    have hidx : ∀ (i : Nat) (t' : Task), (s.tasks ++ [({ kind := .disc e, pc := .running } : Task)])[i]? = some t' →
        (s.tasks[i]? = some t') ∨ (i = s.tasks.length ∧ t' = { kind := .disc e, pc := .running }) := by
      intro i t' hi
      rcases Nat.lt_or_ge i s.tasks.length with hlt | hge
      · rw [List.getElem?_append_left hlt] at hi; exact Or.inl hi
      · rw [List.getElem?_append_right hge] at hi
        cases hj : i - s.tasks.length with
        | zero => simp [hj] at hi; exact Or.inr ⟨by omega, hi.symm⟩
        | succ j => simp [hj] at hi
    constructor
    · intro hc; cases hc
    · intro i t' hi hp
      rcases hidx i t' hi with h0 | ⟨_, rfl⟩
      · exact h.a2 i t' h0 hp
      · simp [tryPc] at hp
    · intro i t' hi hp
      exact ⟨rfl, hready⟩
    · intro i j ti tj hi hj hpi hpj
      rcases hidx i ti hi with h0 | ⟨hi', _⟩
      · exact absurd ⟨i, ti, h0, hpi⟩ hnpd
      · rcases hidx j tj hj with h1 | ⟨hj', _⟩
        · exact absurd ⟨j, tj, h1, hpj⟩ hnpd
        · omega
    · intro _; right
      exact ⟨s.tasks.length, { kind := .disc e, pc := .running }, by simp, by simp [pendD, isDiscK]⟩
    · intro _; exact hopen
    · intro hn; exfalso; apply hn; right
      exact ⟨s.tasks.length, { kind := .disc e, pc := .running }, by simp, by simp [pendD, isDiscK]⟩
  generalize hs1 : ({ { s with cli := .idle } with tasks := s.tasks ++ [{ kind := Kind.disc e, pc := Pc.running }] } : St) = s1 at h1
  have hnew : s1.tasks[s.tasks.length]? = some { kind := .disc e, pc := .running } := by rw [← hs1]; simp
  have h2 := alt2_acquire s1 s.tasks.length h1 (fun t ht => by rw [hnew] at ht; cases ht; rfl)
  show Alt2 (if (acquire s1 s.tasks.length).2 = true then lockedBody (acquire s1 s.tasks.length).1 s.tasks.length (.disc e)
    else (acquire s1 s.tasks.length).1)
  cases hg : (acquire s1 s.tasks.length).2
  · simp only [Bool.false_eq_true, ↓reduceIte]; exact h2
  · simp only [↓reduceIte]
    obtain ⟨_, hacq⟩ := acquire_got_locked s1 s.tasks.length hg
    have ht : (acquire s1 s.tasks.length).1.tasks[s.tasks.length]? = some { kind := .disc e, pc := .running } := by rw [hacq]; exact hnew
    exact alt2_discLocked _ _ e _ ht (by simp [pendD, isDiscK]) h2

/-! ## only connect tasks are cancelled — for every history, `stop()` included -/

theorem kr_stopLocked (s : St) (tid : Nat) : KR s (stopLocked s tid) := by
  rw [stopLocked_eq]
  have e1 : KR s (cancelTimer { s with stopped := true }) := KR.ofEq rfl
  have e2 := e1.trans (kr_cancelConnectTask _)
  have e3 : KR s (setState (stopZc (cancelConnectTask (cancelTimer { s with stopped := true }))) .disconnected) :=
    e2.trans (KR.ofEq (by simp))
  exact ((e3.trans (kr_release _)).trans (kr_finish _ tid)).trans (KR.ofEq rfl)

theorem kr_lockedBody' (s : St) (tid : Nat) (k : Kind) : KR s (lockedBody s tid k) := by
  unfold lockedBody
  split
  · exact kr_connectLocked s tid
  · exact kr_discLocked s tid _
  · exact kr_startLocked s tid
  · exact kr_stopLocked s tid

theorem spawn_mc (s : St) (k : Kind) (hm : MC s) : MC (spawn s k) := by
  unfold spawn
  dsimp only
  have hm1 : MC ({ s with tasks := s.tasks ++ [{ kind := k, pc := .running }] } : St) := by
    intro i t hi hmc
    rcases kr_append s k (Or.inr trivial) i t hi with h0 | ⟨_, rfl⟩
    · exact hm i t h0 hmc
    · simp at hmc
  generalize ({ s with tasks := s.tasks ++ [{ kind := k, pc := Pc.running }] } : St) = s1 at hm1
  have k2 := kr_acquire s1 s.tasks.length
  cases hg : (acquire s1 s.tasks.length).2
  · rw [show acquire s1 s.tasks.length = ((acquire s1 s.tasks.length).1, false) from by rw [← hg]]
    simp only [Bool.false_eq_true, ↓reduceIte]
    exact k2.mcInv hm1
  · rw [show acquire s1 s.tasks.length = ((acquire s1 s.tasks.length).1, true) from by rw [← hg]]
    simp only [↓reduceIte]
    exact (k2.trans (kr_lockedBody' _ s.tasks.length k)).mcInv hm1

theorem kr_wakeTask' (s : St) (tid : Nat) (t : Task) : KR s (wakeTask s tid t) := by
  unfold wakeTask
  split
  · exact KR.refl s
  · exact KR.refl s
  · dsimp only
    split
    · have w2 : KR s (if (removeWaiter s tid).locked = true then removeWaiter s tid else wakeUpFirst (removeWaiter s tid)) := by
        split
        · exact KR.ofEq rfl
        · exact KR.ofEq (by simp)
      exact w2.trans (kr_finish _ tid)
    · split
      · have e1 : KR s { removeWaiter s tid with locked := true } := KR.ofEq rfl
        have e2 : KR { removeWaiter s tid with locked := true }
            (setTask { removeWaiter s tid with locked := true } tid fun t => { t with pc := .running }) :=
          kr_setTask _ tid _ (fun _ => rfl) (fun _ h => Or.inl h)
        exact (e1.trans e2).trans (kr_lockedBody' _ tid t.kind)
      · exact KR.refl s
  · split
    · exact (KR.ofEq (s := s) (s' := { s with cli := .idle }) rfl).trans (kr_failBegin _ _ tid)
    · split
      · have e1 : KR s (setState (stopZc { s with cli := .finishing }) .handshaking) := KR.ofEq (by simp)
        have e2 : KR (setState (stopZc { s with cli := .finishing }) .handshaking)
            (setTask (setState (stopZc { s with cli := .finishing }) .handshaking) tid fun t => { t with pc := .inFinish, result := none }) :=
          kr_setTask _ tid _ (fun _ => rfl) (fun _ h => Or.inl h)
        exact e1.trans e2
      · exact (KR.ofEq (s := s) (s' := { s with cli := .idle }) rfl).trans (kr_failBegin _ _ tid)
      · exact KR.refl s
  · split
    · exact (KR.ofEq (s := s) (s' := { s with cli := .idle }) rfl).trans (kr_failBegin _ _ tid)
    · split
      · dsimp only
        have e1 : KR s (emit (setState { s with cli := .live, tries := 0 } .ready) .onConnect) := KR.ofEq rfl
        split
        · exact e1.trans (kr_setTask _ tid _ (fun _ => rfl) (fun _ h => Or.inl h))
        · exact e1.trans ((kr_release _).trans (kr_finish _ tid))
      · exact (KR.ofEq (s := s) (s' := { s with cli := .idle }) rfl).trans (kr_failBegin _ _ tid)
      · exact KR.refl s
  · split
    · exact (kr_release s).trans (kr_finish _ tid)
    · exact KR.refl s
  · split
    · exact (kr_release s).trans (kr_finish _ tid)
    · split
      · exact kr_failEnd s _ tid
      · exact KR.refl s
  · split
    · split
      · exact kr_discEnd s tid _
      · exact KR.refl s
    · exact KR.refl s

theorem step_mc (s : St) (e : Ev) (hm : MC s) : MC (step s e) := by
  cases e with
  | callStart => exact spawn_mc s _ hm
  | callStop =>
    simp only [step]
    apply spawn_mc
    split
    · exact ((KR.ofEq (s := s) (s' := cancelTimer s) rfl).trans (kr_cancelConnectTask _)).mcInv hm
    · exact hm
  | startDone r => exact (complete_facts s .inStart r).1.mcInv hm
  | finishDone r => exact (complete_facts s .inFinish r).1.mcInv hm
  | cbDone =>
    simp only [step]
    unfold completeCb
    split
    · rename_i tid _
      have e1 : KR s (setTask s tid fun t => { t with result := some .ok }) :=
        kr_setTask s tid _ (fun _ => rfl) (fun _ h => Or.inl h)
      exact (e1.trans (KR.ofEq (s' := { setTask s tid (fun t => { t with result := some .ok }) with ready := s.ready ++ [.wake tid] }) rfl)).mcInv hm
    · exact hm
  | sessionEnd e =>
    simp only [step]
    split
    · exact spawn_mc _ _ (fun i t hi => hm i t hi)
    · exact hm
  | zc m =>
    simp only [step]
    split
    · exact hm
    · have k : KR s (scheduleConnect (stopZc s) 0) := (KR.ofEq (s := s) (s' := stopZc s) (by simp)).trans (kr_scheduleConnect _ 0)
      exact (k.trans (KR.ofEq rfl)).mcInv hm
  | timerDue =>
    simp only [step]
    split
    · split
      · exact hm
      · exact fun i t hi => hm i t hi
    · exact hm
  | wait dt =>
    simp only [step]
    split
    · split
      · exact fun i t hi => hm i t hi
      · exact hm
    · exact fun i t hi => hm i t hi
  | pop =>
    simp only [step]
    split
    · exact hm
    · rename_i rest _
      exact ((KR.ofEq (s := s) (s' := { s with ready := rest, timer := none, timerQueued := false }) rfl).trans (kr_callConnectOnce _)).mcInv hm
    · rename_i tid rest _
      split
      · rename_i t ht
        exact ((KR.ofEq (s := s) (s' := { s with ready := rest }) rfl).trans (kr_wakeTask' _ tid t)).mcInv hm
      · exact fun i t hi => hm i t hi

/-! ## wake-ups and events -/

theorem alt2_connected (s : St) (tid : Nat) (t : Task) (hl : LockInv s) (h : Alt2 s) (hnl : s.cli ≠ .live) (hnpd : ¬PD s)
    (ht : s.tasks[tid]? = some t)
    (hp : tryPc t.pc = true) (f : Task → Task) (hf : ∀ t, pendD (f t) = false ∧ tryPc (f t).pc = false) :
    Alt2 (setTask (emit (setState { s with cli := .live, tries := 0 } .ready) .onConnect) tid f) := by
  have hclosed := h.a5c (by rintro (hl' | hp'); exact hnl hl'; exact hnpd hp')
  have hheld := held_of_inflight s tid t hl ht (try_inflight _ hp)
  have hnpd' : ¬PD (setTask (emit (setState { s with cli := .live, tries := 0 } .ready) .onConnect) tid f) := by
    rintro ⟨i, t', hi, hp'⟩
    obtain ⟨t0, h0, rfl⟩ := getElem?_setTask hi
    by_cases hti : tid = i
    · rw [if_pos hti, (hf t0).1] at hp'; cases hp'
    · rw [if_neg hti] at hp'; exact hnpd ⟨i, t0, by simpa using h0, hp'⟩
  constructor
  · intro _; left; simp [setTask, setState]
  · intro i t' hi hp'
    obtain ⟨t0, h0, rfl⟩ := getElem?_setTask hi
    by_cases hti : tid = i
    · rw [if_pos hti, (hf t0).2] at hp'; cases hp'
    · rw [if_neg hti] at hp'
      have := hheld.n i t0 (Ne.symm hti) (by simpa using h0)
      rw [try_inflight _ hp'] at this; cases this
  · intro i t' hi hp'; exact absurd ⟨i, t', hi, hp'⟩ hnpd'
  · intro i j ti tj hi _ hpi _; exact absurd ⟨i, ti, hi, hpi⟩ hnpd'
  · intro _; left; simp [setTask]
  · intro _; simp [setTask, emit, setState, altState_append, hclosed, altStep]
  · intro hc; exfalso; apply hc; left; simp [setTask]

/-- a task inside a client call: the client is in that call, so no session is live and none is waiting to be reported -/
theorem quiet_of_cli (s : St) (h : Alt2 s) (hc : s.cli = .starting ∨ s.cli = .finishing) : s.cli ≠ .live ∧ ¬PD s := by
  constructor
  · rcases hc with hc | hc <;> rw [hc] <;> decide
  · rintro ⟨i, t, hi, hp⟩
    have := (h.a3 i t hi hp).1
    rcases hc with hc | hc <;> rw [hc] at this <;> cases this

theorem alt2_wakeTask (s : St) (tid : Nat) (t : Task) (hl : LockInv s) (hm : MC s) (hcl : CliOk s) (h : Alt2 s)
    (ht : s.tasks[tid]? = some t) :
    Alt2 (wakeTask s tid t) ∨ BadR (wakeTask s tid t) := by
  unfold wakeTask
  split
  · exact Or.inl h
  · exact Or.inl h
  · rename_i hpc
    dsimp only
    split
    · left
      rename_i hmc
      have hk := hm tid t ht hmc
      have hnd : NonDisc s tid := fun t' ht' => by rw [ht] at ht'; cases ht'; simp [hk, isDiscK]
      have h1 : Alt2 (if (removeWaiter s tid).locked = true then removeWaiter s tid else wakeUpFirst (removeWaiter s tid)) := by
        split
        · exact h.same rfl rfl rfl rfl rfl
        · exact h.same (by simp) (by simp) (by simp) (by simp) (by simp)
      refine alt2_finish _ tid ?_ h1
      intro t' ht'
      refine NonDisc.pend hnd t' ?_
      have : (if (removeWaiter s tid).locked = true then removeWaiter s tid else wakeUpFirst (removeWaiter s tid)).tasks = s.tasks := by
        split <;> simp
      rw [this] at ht'; exact ht'
    · split
      · have h1 : Alt2 (setTask { removeWaiter s tid with locked := true } tid fun t => { t with pc := .running }) := by
          refine alt2_setTask_proj _ tid _ ?_ (h.same rfl rfl rfl rfl rfl)
          intro t' ht'
          have : t' = t := by
            have h0 : s.tasks[tid]? = some t' := ht'
            rw [ht] at h0; exact (Option.some.inj h0).symm
          subst this
          simp only [proj, pendD, hpc, tryPc]
          cases isDiscK t'.kind <;> rfl
        have ht1 : (setTask { removeWaiter s tid with locked := true } tid fun t => { t with pc := .running }).tasks[tid]? =
            some { t with pc := .running } := by
          simp only [setTask]
          rw [List.getElem?_modify_eq]
          show Option.map _ (s.tasks[tid]?) = _
          rw [ht]; rfl
        exact alt2_lockedBody _ tid { t with pc := .running } ht1 rfl rfl h1
      · exact Or.inl h
  · -- inStart
    left
    rename_i hpc
    have hp : tryPc t.pc = true := by simp [hpc, tryPc]
    have hcs : s.cli = .starting := hcl tid t .starting ht (by simp [hpc, cliOf])
    obtain ⟨hnl, hnpd⟩ := quiet_of_cli s h (Or.inl hcs)
    split
    · exact alt2_failBegin s tid t .other h hnl hnpd ht hp
    · split
      · have h1 : Alt2 (setState (stopZc { s with cli := .finishing }) .handshaking) :=
          alt2_quiet h hnl hnpd (by simp) (by simp [setState]) (by simp) (by simp; unfold stopZc; split <;> simp [emit, altState_append])
        refine alt2_setTask_proj _ tid _ ?_ h1
        intro t' ht'
        have h0 : s.tasks[tid]? = some t' := by simpa using ht'
        have : t' = t := by rw [ht] at h0; exact (Option.some.inj h0).symm
        subst this
        have hpd := pendD_false_of_try t' hp
        have hpd' : pendD { t' with pc := .inFinish, result := none } = false := pendD_false_of_pc _ (by simp)
        simp only [proj, hp, hpd, hpd']
        rfl
      · rename_i k _
        exact alt2_failBegin s tid t k h hnl hnpd ht hp
      · exact h
  · -- inFinish
    left
    rename_i hpc
    have hp : tryPc t.pc = true := by simp [hpc, tryPc]
    have hcs : s.cli = .finishing := hcl tid t .finishing ht (by simp [hpc, cliOf])
    obtain ⟨hnl, hnpd⟩ := quiet_of_cli s h (Or.inr hcs)
    split
    · exact alt2_failBegin s tid t .other h hnl hnpd ht hp
    · split
      · dsimp only
        split
        · exact alt2_connected s tid t hl h hnl hnpd ht hp _ (fun t => ⟨pendD_false_of_pc _ (by simp), rfl⟩)
        · have := alt2_connected s tid t hl h hnl hnpd ht hp (fun t => { t with pc := .done, mustCancel := false, result := none })
            (fun t => ⟨pendD_false_of_pc _ (by simp), rfl⟩)
          exact this.same (by simp [finish, setTask]) (by simp [finish, setTask]) (by simp [finish, setTask]) (by simp [finish, setTask])
            (by simp [finish, setTask])
      · rename_i k _
        exact alt2_failBegin s tid t k h hnl hnpd ht hp
      · exact h
  · -- inOnConnect
    left
    rename_i hpc
    split
    · refine alt2_finish _ tid ?_ (alt2_release s h)
      intro t' ht'
      have h0 : s.tasks[tid]? = some t' := by simpa using ht'
      rw [ht] at h0; cases h0
      exact pendD_false_of_pc _ (by simp [hpc])
    · exact h
  · -- inOnError
    left
    rename_i k hpc
    have hp : tryPc t.pc = true := by simp [hpc, tryPc]
    split
    · refine alt2_finish _ tid ?_ (alt2_release s h)
      intro t' ht'
      have h0 : s.tasks[tid]? = some t' := by simpa using ht'
      rw [ht] at h0; cases h0
      exact pendD_false_of_try _ hp
    · split
      · exact alt2_failEnd s tid t k h ht hp
      · exact h
  · -- inOnDisc
    left
    rename_i hpc
    split
    · split
      · refine alt2_discEnd s tid _ ?_ h
        intro t' ht'
        rw [ht] at ht'; cases ht'
        exact pendD_false_of_pc _ (by simp [hpc])
      · exact h
    · exact h

theorem step_alt2 (s : St) (e : Ev) (hl : LockInv s) (hm : MC s) (hcl : CliOk s) (h : Alt2 s) :
    Alt2 (step s e) ∨ BadR (step s e) := by
  cases e with
  | callStart => exact alt2_spawn_nondisc s .startCall rfl h
  | callStop =>
    simp only [step]
    apply alt2_spawn_nondisc _ .stopCall rfl
    split
    · exact h.same (Sim.map_proj (cancelConnect_sim s)) (state_cancelConnect s)
        (by unfold cancelConnect; rw [(cancelConnectTask_ctl _).stopped]; rfl) (cli_cancelConnect s)
        (by unfold cancelConnect; rw [(cancelConnectTask_ctl _).log]; rfl)
    · exact h
  | startDone r | finishDone r =>
    left
    simp only [step]
    unfold complete
    split
    · rename_i tid _
      have a1 : Alt2 (setTask s tid fun t => { t with result := some r }) := alt2_setTask_proj s tid _ (fun _ _ => rfl) h
      exact a1.same rfl rfl rfl rfl rfl
    · exact h
  | cbDone =>
    left
    simp only [step]
    unfold completeCb
    split
    · rename_i tid _
      have a1 : Alt2 (setTask s tid fun t => { t with result := some .ok }) := alt2_setTask_proj s tid _ (fun _ _ => rfl) h
      exact a1.same rfl rfl rfl rfl rfl
    · exact h
  | sessionEnd e =>
    left
    simp only [step]
    split
    · rename_i hlive; exact alt2_sessionEnd s e hlive h
    · exact h
  | zc m =>
    left
    simp only [step]
    split
    · exact h
    · have a1 : Alt2 (stopZc s) := h.same (by simp) (by simp) (by simp) (by simp) (by unfold stopZc; split <;> simp [emit, altState_append])
      exact (alt2_scheduleConnect _ 0 a1).same rfl rfl rfl rfl rfl
  | timerDue =>
    left
    simp only [step]
    split
    · split
      · exact h
      · exact h.same rfl rfl rfl rfl rfl
    · exact h
  | wait dt =>
    left
    simp only [step]
    split
    · split
      · exact h.same rfl rfl rfl rfl rfl
      · exact h
    · exact h.same rfl rfl rfl rfl rfl
  | pop =>
    simp only [step]
    split
    · exact Or.inl h
    · exact Or.inl (alt2_callConnectOnce _ (h.same rfl rfl rfl rfl rfl))
    · rename_i tid rest _
      split
      · rename_i t ht
        exact alt2_wakeTask { s with ready := rest } tid t (hl.congr rfl rfl rfl) (fun i t hi => hm i t hi)
          (hcl.congr rfl rfl) (h.same rfl rfl rfl rfl rfl) ht
      · exact Or.inl (h.same rfl rfl rfl rfl rfl)

theorem init_alt2 (b : Bool) (c e d : Bool := false) : Alt2 (init b c e d) := by
  constructor
  · intro h; simp [init] at h
  · intro i t hi; simp [init] at hi
  · intro i t hi; simp [init] at hi
  · intro i j ti tj hi; simp [init] at hi
  · intro h; simp [init] at h
  · rintro (h | ⟨i, t, hi, _⟩)
    · simp [init] at h
    · simp [init] at hi
  · intro _; rfl

theorem init_mc (b : Bool) (c e d : Bool := false) : MC (init b c e d) := by
  intro i t hi; simp [init] at hi

/-- the callbacks alternate (starting with `on_connect`) in EVERY history — `stop()` calls included — in which the manager
is never running and DISCONNECTED while a session is live or its end unreported -/
theorem alternates_unless_restarted (evs : List Ev) :
    ∀ (s : St), LockInv s → MC s → CliOk s → Alt2 s →
      (∀ k, k ≤ evs.length → ¬BadR (run s (evs.take k))) → altState (run s evs).log ≠ none := by
  induction evs with
  | nil =>
    intro s _ _ _ h _
    by_cases hc : s.cli = .live ∨ PD s
    · show altState s.log ≠ none; rw [h.a5o hc]; simp
    · show altState s.log ≠ none; rw [h.a5c hc]; simp
  | cons e es ih =>
    intro s hl hm hcl h hnb
    have h1 : Alt2 (step s e) := by
      rcases step_alt2 s e hl hm hcl h with h1 | h1
      · exact h1
      · exact absurd h1 (by simpa [run] using hnb 1 (by simp))
    refine ih (step s e) (step_inv s e hl) (step_mc s e hm) (step_cli s e hl hcl) h1 ?_
    intro k hk
    have := hnb (k + 1) (by simp; omega)
    simpa [run] using this

/-- `BadR`, executable -/
def badRB (s : St) : Bool := !s.stopped && s.state == .disconnected && (s.cli == .live || s.tasks.any pendD)

theorem badRB_of_BadR (s : St) (h : BadR s) : badRB s = true := by
  obtain ⟨h1, h2, h3⟩ := h
  simp only [badRB, h1, h2, Bool.not_false, beq_self_eq_true, Bool.true_and, Bool.or_eq_true, beq_iff_eq, List.any_eq_true]
  rcases h3 with h3 | ⟨i, t, hi, hp⟩
  · exact Or.inl h3
  · exact Or.inr ⟨t, List.mem_of_getElem? hi, hp⟩

end Esp.Reconnect
