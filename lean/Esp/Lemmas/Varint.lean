import Esp.Model.Bytes
/-! helper lemmas: varint encode/read round-trip, minimality, prefixes -/
namespace Esp

theorem and7F (b : Nat) : b &&& 0x7F = b % 128 := by
  have := Nat.and_two_pow_sub_one_eq_mod b 7
  simpa using this

theorem and80_lt (b : Nat) (h : b < 128) : b &&& 0x80 = 0 := by
  have : ∀ x : Fin 128, x.val &&& 0x80 = 0 := by decide +kernel
  exact this ⟨b, h⟩

theorem and80_ge (b : Nat) (h : 128 ≤ b) (h2 : b < 256) : b &&& 0x80 ≠ 0 := by
  have : ∀ x : Fin 256, 128 ≤ x.val → x.val &&& 0x80 ≠ 0 := by decide +kernel
  exact this ⟨b, h2⟩ h

theorem or80_lt (b : Nat) (h : b < 128) : b ||| 0x80 = b + 128 := by
  have : ∀ x : Fin 128, x.val ||| 0x80 = x.val + 128 := by decide +kernel
  exact this ⟨b, h⟩

theorem or_shift (acc x shift : Nat) (h : acc < 2^shift) : acc ||| (x <<< shift) = acc + x * 2^shift := by
  rw [Nat.or_comm, ← Nat.shiftLeft_add_eq_or_of_lt h, Nat.shiftLeft_eq, Nat.add_comm]

theorem toNat_ofNat_lt (x : Nat) (h : x < 256) : (UInt8.ofNat x).toNat = x := by
  simp [UInt8.toNat_ofNat', Nat.mod_eq_of_lt h]

/-- the arithmetic reading of the bit-twiddling encoder -/
theorem encodeVarint_eq (n : Nat) :
    encodeVarint n = if n < 128 then [UInt8.ofNat n] else UInt8.ofNat (n % 128 + 128) :: encodeVarint (n / 128) := by
  rw [encodeVarint]
  by_cases h : n ≤ 0x7F
  · have : n < 128 := by omega
    simp [h, this]
  · have : ¬ n < 128 := by omega
    simp only [h, this, ↓reduceIte]
    rw [and7F, or80_lt _ (Nat.mod_lt _ (by omega)), Nat.shiftRight_eq_div_pow]

theorem encodeVarint_ne_nil (n : Nat) : encodeVarint n ≠ [] := by
  rw [encodeVarint_eq]; split <;> simp

theorem readAux_encode (n : Nat) : ∀ (rest : Bytes) (acc shift : Nat), acc < 2^shift →
    readVarintAux (encodeVarint n ++ rest) acc shift = some (acc + n * 2^shift, rest) := by
  induction n using Nat.strongRecOn with
  | _ n ih =>
    intro rest acc shift hacc
    rw [encodeVarint_eq]
    split
    · rename_i h
      simp [readVarintAux, toNat_ofNat_lt n (by omega), and7F, and80_lt n h, or_shift _ _ _ hacc,
        Nat.mod_eq_of_lt h]
    · rename_i h
      have hge : 128 ≤ n % 128 + 128 := by omega
      have hlt : n % 128 + 128 < 256 := by omega
      simp only [List.cons_append, readVarintAux, toNat_ofNat_lt _ hlt]
      rw [if_neg (and80_ge _ hge hlt)]
      rw [and7F, or_shift _ _ _ hacc]
      have : (n % 128 + 128) % 128 = n % 128 := by omega
      rw [this]
      have hacc' : acc + n % 128 * 2 ^ shift < 2 ^ (shift + 7) := by
        have : n % 128 < 128 := Nat.mod_lt _ (by omega)
        rw [Nat.pow_add]
        calc acc + n % 128 * 2^shift < 2^shift + n % 128 * 2^shift := by omega
          _ = (n % 128 + 1) * 2^shift := by rw [Nat.add_mul]; omega
          _ ≤ 128 * 2^shift := Nat.mul_le_mul_right _ (by omega)
          _ = 2^shift * 2^7 := by rw [Nat.mul_comm]
      rw [ih (n / 128) (by omega) rest _ _ hacc']
      congr 2
      rw [Nat.pow_add, Nat.add_assoc]
      congr 1
      have : n = n % 128 + 128 * (n / 128) := by omega
      conv => rhs; rw [this]
      rw [Nat.add_mul]; congr 1
      rw [Nat.mul_comm 128, Nat.mul_assoc]; congr 1; rw [Nat.mul_comm]

theorem readVarint_encode (n : Nat) (rest : Bytes) :
    readVarint (encodeVarint n ++ rest) = some (n, rest) := by
  have := readAux_encode n rest 0 0 (by simp)
  simpa [readVarint] using this

/-- a proper prefix of an encoding runs out of bytes (`-1` in Python), whatever the accumulator -/
theorem readAux_proper_prefix (n : Nat) : ∀ (p q : Bytes) (acc shift : Nat),
    p ++ q = encodeVarint n → q ≠ [] → readVarintAux p acc shift = none := by
  induction n using Nat.strongRecOn with
  | _ n ih =>
    intro p q acc shift hpq hq
    rw [encodeVarint_eq] at hpq
    cases p with
    | nil => simp [readVarintAux]
    | cons x p' =>
      split at hpq
      · -- single byte encoding: p' ++ q = [] contradicts q ≠ []
        simp only [List.cons_append, List.cons.injEq, List.append_eq_nil_iff] at hpq
        exact absurd hpq.2.2 hq
      · rename_i h
        simp only [List.cons_append, List.cons.injEq] at hpq
        obtain ⟨rfl, hrest⟩ := hpq
        have hge : 128 ≤ n % 128 + 128 := by omega
        have hlt : n % 128 + 128 < 256 := by omega
        simp only [readVarintAux, toNat_ofNat_lt _ hlt]
        rw [if_neg (and80_ge _ hge hlt)]
        exact ih (n / 128) (by omega) p' q _ _ hrest hq

theorem readVarint_proper_prefix (n : Nat) (p q : Bytes) (h : p ++ q = encodeVarint n) (hq : q ≠ []) :
    readVarint p = none := readAux_proper_prefix n p q 0 0 h hq

/-! ### minimality (C02): the encoding is the shortest one -/

/-- every byte but the last has the continuation bit, the last does not, and the last byte is
non-zero unless the whole value is zero: exactly protobuf's canonical varint -/
def MinimalVarint : Bytes → Prop
  | [] => False
  | [b] => b.toNat < 128
  | b :: b' :: rest => 128 ≤ b.toNat ∧ MinimalVarint (b' :: rest) ∧ (rest = [] → b'.toNat ≠ 0)

theorem encodeVarint_minimal (n : Nat) : MinimalVarint (encodeVarint n) := by
  induction n using Nat.strongRecOn with
  | _ n ih =>
    rw [encodeVarint_eq]
    split
    · rename_i h; simp [MinimalVarint, toNat_ofNat_lt n (by omega), h]
    · rename_i h
      have hlt : n % 128 + 128 < 256 := by omega
      have ih' := ih (n / 128) (by omega)
      have hne := encodeVarint_ne_nil (n / 128)
      generalize hE : encodeVarint (n / 128) = E at ih' hne
      cases E with
      | nil => exact absurd rfl hne
      | cons b' rest =>
        refine ⟨by rw [toNat_ofNat_lt _ hlt]; omega, ih', ?_⟩
        intro hr; subst hr
        rw [encodeVarint_eq] at hE
        split at hE
        · simp only [List.cons.injEq, and_true] at hE; subst hE
          rw [toNat_ofNat_lt _ (by omega)]; omega
        · simp only [List.cons.injEq] at hE
          exact absurd hE.2 (encodeVarint_ne_nil _)

end Esp
