import Esp.Model.Noise
/-!
# The documented wire format, as an independent strict decoder

Written from `api.proto:70-85` (plaintext: zero byte, VarInt size, VarInt type, message) and from
the ESPHome Noise framing (0x01, 16-bit big-endian length, AEAD ciphertext of 16-bit type,
16-bit length, payload).  Deliberately a different algorithm from the client's reader: varints
are decoded recursively with arithmetic and *rejected unless minimal*; lengths must be exact;
trailing bytes are an error.
-/
set_option linter.unusedVariables false
namespace Esp.Spec

/-- canonical protobuf varint: little-endian base-128, shortest form only -/
def varint : Bytes → Option (Nat × Bytes)
  | [] => none
  | b :: rest =>
    if b.toNat < 128 then some (b.toNat, rest)
    else match varint rest with
      | none => none
      | some (v, r) => if v = 0 then none else some ((b.toNat - 128) + 128 * v, r)

theorem varint_shrink : ∀ (b : Bytes) (v : Nat) (r : Bytes), varint b = some (v, r) → r.length < b.length
  | [], _, _, h => by simp [varint] at h
  | x :: rest, v, r, h => by
    simp only [varint] at h
    split at h
    · simp only [Option.some.injEq, Prod.mk.injEq] at h; obtain ⟨_, rfl⟩ := h; simp
    · split at h; · simp at h
      rename_i v' r' h'
      split at h; · simp at h
      simp only [Option.some.injEq, Prod.mk.injEq] at h; obtain ⟨_, rfl⟩ := h
      have := varint_shrink rest v' r' h'; simp; omega

/-- decode a whole write: every byte must belong to a well-formed frame -/
def decodePlain (b : Bytes) : Option (List Packet) :=
  match hb : b with
  | [] => some []
  | z :: r0 =>
    if z ≠ 0 then none else
    match h1 : varint r0 with
    | none => none
    | some (len, r1) =>
      match h2 : varint r1 with
      | none => none
      | some (ty, r2) =>
        if hl : r2.length < len then none else
        match decodePlain (r2.drop len) with
        | none => none
        | some ps => some ((ty, r2.take len) :: ps)
termination_by b.length
decreasing_by
  have a := varint_shrink _ _ _ h1
  have c := varint_shrink _ _ _ h2
  simp only [List.length_drop, List.length_cons]; omega

/-- decode a whole noise write starting at inbound nonce `n`; returns packets and next nonce -/
def decodeNoise (A : Aead) (n : Nat) (b : Bytes) : Option (List Packet × Nat) :=
  match hb : b with
  | [] => some ([], n)
  | [_] => none
  | [_, _] => none
  | m :: h :: l :: rest =>
    if m.toNat ≠ 1 then none else
    let len := h.toNat * 256 + l.toNat
    if rest.length < len then none else
    match A.dec n (rest.take len) with
    | none => none
    | some msg =>
      match msg with
      | th :: tl :: lh :: ll :: payload =>
        if payload.length ≠ lh.toNat * 256 + ll.toNat then none else
        match decodeNoise A (n + 1) (rest.drop len) with
        | none => none
        | some (ps, n') => some ((th.toNat * 256 + tl.toNat, payload) :: ps, n')
      | _ => none
termination_by b.length
decreasing_by
  simp only [List.length_drop, List.length_cons]; omega

end Esp.Spec
