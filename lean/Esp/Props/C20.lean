import Esp.Model.Resolver
/-!
# C20 — address resolution order and fallbacks; zeroconf instances are owned correctly

Property theorems over `Esp.Resolver`.  Quantifiers: every host string, every oracle (what parses
as an IP literal, every mDNS outcome, every OS-resolver outcome), every list of configured hosts,
every sequence of manager operations.
-/
namespace Esp.C20
open Esp Resolver

def isLocal (h : Host) : Bool := hostIsNamePart h || addressIsLocal h

/-- what one configured host contributes when nothing fails fatally -/
def hostAddrs (o : Oracle) (h : Host) : List Addr :=
  let first : List Addr :=
    if isLocal h then (match o.mdns (firstLabel h) with | some (v6s, v4s) => v6s.map Addr.v6 ++ v4s.map Addr.v4 | none => [])
    else if o.isIp h then [Addr.lit h] else []
  if first.isEmpty then (o.os h).getD [] else first

/-- the lookups one configured host causes -/
def hostCalls (o : Oracle) (h : Host) : List Call :=
  let first : List Addr :=
    if isLocal h then (match o.mdns (firstLabel h) with | some (v6s, v4s) => v6s.map Addr.v6 ++ v4s.map Addr.v4 | none => [])
    else if o.isIp h then [Addr.lit h] else []
  (if isLocal h then [Call.mdns (firstLabel h)] else []) ++ (if first.isEmpty then [Call.os h] else [])

theorem stepHost_spec (o : Oracle) (a : Acc) (h : Host) (hf : a.failed = none) :
    (stepHost o a h).calls = a.calls ++ hostCalls o h ∧
    ((stepHost o a h).failed = none → (stepHost o a h).addrs = a.addrs ++ hostAddrs o h) ∧
    ((stepHost o a h).failed = none ∨ (stepHost o a h).failed = some .os) := by
  simp only [stepHost, hf, hostCalls, hostAddrs, isLocal]
  by_cases hl : (hostIsNamePart h || addressIsLocal h) = true
  · simp only [hl]
    cases hm : o.mdns (firstLabel h) with
    | none => cases ho : o.os h <;> simp [ho]
    | some p =>
      obtain ⟨v6s, v4s⟩ := p
      by_cases he : v6s = [] ∧ v4s = []
      · obtain ⟨rfl, rfl⟩ := he
        cases ho : o.os h <;> simp [ho]
      · have h1 : (v6s.map Addr.v6 ++ v4s.map Addr.v4).isEmpty = false := by
          cases v6s <;> cases v4s <;> simp_all
        simp [h1]
  · simp only [hl]
    by_cases hi : o.isIp h = true
    · simp [hi]
    · cases ho : o.os h <;> simp [hi, ho]

/-- **C20 (IP literals are used verbatim, without any lookup).** -/
theorem c20_literal (o : Oracle) (h : Host) (hl : isLocal h = false) (hi : o.isIp h = true) :
    hostCalls o h = [] ∧ hostAddrs o h = [Addr.lit h] := by
  simp [hostCalls, hostAddrs, hl, hi]

/-- **C20 (bare and .local names: mDNS first — the name queried is the first label —, IPv6 results
before IPv4, the OS resolver only if mDNS yielded nothing or failed).** -/
theorem c20_local (o : Oracle) (h : Host) (hl : isLocal h = true) :
    (∀ v6s v4s, o.mdns (firstLabel h) = some (v6s, v4s) → (v6s ≠ [] ∨ v4s ≠ []) →
        hostCalls o h = [Call.mdns (firstLabel h)] ∧ hostAddrs o h = v6s.map Addr.v6 ++ v4s.map Addr.v4) ∧
    ((o.mdns (firstLabel h) = none ∨ o.mdns (firstLabel h) = some ([], [])) →
        hostCalls o h = [Call.mdns (firstLabel h), Call.os h] ∧ hostAddrs o h = (o.os h).getD []) := by
  constructor
  · intro v6s v4s hm hne
    have : (v6s.map Addr.v6 ++ v4s.map Addr.v4).isEmpty = false := by
      rcases hne with h1 | h1 <;> (cases v6s <;> cases v4s <;> simp_all)
    simp [hostCalls, hostAddrs, hl, hm, this]
  · intro hm
    rcases hm with hm | hm <;> simp [hostCalls, hostAddrs, hl, hm]

/-- **C20 (other names go to the OS resolver only).** -/
theorem c20_other (o : Oracle) (h : Host) (hl : isLocal h = false) (hi : o.isIp h = false) :
    hostCalls o h = [Call.os h] ∧ hostAddrs o h = (o.os h).getD [] := by
  simp [hostCalls, hostAddrs, hl, hi]

theorem fold_spec (o : Oracle) : ∀ (hosts : List Host) (a : Acc), a.failed = none →
    ((hosts.foldl (stepHost o) a).failed = none →
      (hosts.foldl (stepHost o) a).addrs = a.addrs ++ hosts.flatMap (hostAddrs o) ∧
      (hosts.foldl (stepHost o) a).calls = a.calls ++ hosts.flatMap (hostCalls o)) := by
  intro hosts
  induction hosts with
  | nil => intro a _ _; simp
  | cons h hs ih =>
    intro a hf hend
    obtain ⟨s1, s2, s3⟩ := stepHost_spec o a h hf
    simp only [List.foldl_cons] at hend ⊢
    have hmid : (stepHost o a h).failed = none := by
      rcases s3 with h1 | h1
      · exact h1
      · -- once failed, the remaining hosts are skipped and the failure stays
        exfalso
        have stay : ∀ (l : List Host) (b : Acc), b.failed = some .os → (l.foldl (stepHost o) b).failed = some .os := by
          intro l; induction l with
          | nil => intro b hb; exact hb
          | cons x xs ihx => intro b hb; simp only [List.foldl_cons]; apply ihx; simp [stepHost, hb]
        rw [stay hs _ h1] at hend; cases hend
    obtain ⟨r1, r2⟩ := ih _ hmid hend
    rw [r1, r2, s2 hmid, s1]
    simp [List.flatMap_cons, List.append_assoc]

/-- **C20 (configured order is kept; per host the order above).**  When the call returns, the
result is the concatenation of the per-host results in the order of the configured addresses, and
the lookups made are exactly the per-host lookups in that order. -/
theorem c20_order (o : Oracle) (hosts : List Host) (l : List Addr) (h : (resolve o hosts).1 = .ok l) :
    l = hosts.flatMap (hostAddrs o) ∧ (resolve o hosts).2 = hosts.flatMap (hostCalls o) := by
  simp only [resolve] at h ⊢
  cases hf : (hosts.foldl (stepHost o) {}).failed with
  | some e => simp [hf] at h
  | none =>
    obtain ⟨r1, r2⟩ := fold_spec o hosts {} rfl hf
    simp only [hf] at h ⊢
    split at h
    · simp at h
    · simp only [Except.ok.injEq] at h
      subst h
      constructor
      · simpa using r1
      · split <;> simpa using r2

/-- **C20 (never an empty result).**  If nothing resolves, an error is raised — the mDNS error if
there was one, the "no results" resolve error otherwise; an OS-resolver failure is an error too. -/
theorem c20_never_empty (o : Oracle) (hosts : List Host) : (resolve o hosts).1 ≠ .ok [] := by
  simp only [resolve]
  split
  · simp
  · split
    · simp
    · rename_i hne
      intro h
      simp only [Except.ok.injEq] at h
      simp [h] at hne

/-! ## zeroconf ownership -/

structure ZInv (z : Zc) : Prop where
  i1 : z.created = true → ∃ i, z.inst = some (.own i)
  i2 : ∀ i, z.inst = some (.own i) → z.created = true
  i3 : ∀ x ∈ z.closed, ∃ i, x = .own i

theorem zStep_inv (z : Zc) (h : ZInv z) (op : ZOp) : ZInv (zStep z op) := by
  obtain ⟨i1, i2, i3⟩ := h
  cases op with
  | setInstance id =>
    simp only [zStep]
    cases hi : z.inst with
    | none =>
      have hc : z.created = false := by
        cases hcr : z.created with
        | false => rfl
        | true => obtain ⟨i, hh⟩ := i1 hcr; rw [hi] at hh; cases hh
      exact ⟨by simp [hc], by simp, i3⟩
    | some x => simp only; split <;> exact ⟨by simpa [hi] using i1, by simpa [hi] using i2, i3⟩
  | get =>
    simp only [zStep, zGet]
    cases hi : z.inst with
    | none => exact ⟨fun _ => ⟨z.next, rfl⟩, fun _ _ => rfl, i3⟩
    | some x => exact ⟨by simpa [hi] using i1, by simpa [hi] using i2, i3⟩
  | getFail => exact ⟨i1, i2, i3⟩
  | close =>
    simp only [zStep, zClose]
    cases hc : z.created <;> cases hi : z.inst <;> simp only
    · exact ⟨by simp [hc], by simp, i3⟩
    · exact ⟨by simp [hc], by simpa [hi, hc] using i2, i3⟩
    · obtain ⟨i, hh⟩ := i1 hc
      rw [hi] at hh; cases hh
    · rename_i x
      obtain ⟨i, hh⟩ := i1 hc
      rw [hi] at hh
      refine ⟨by simp, by simp, ?_⟩
      intro y hy
      simp only [List.mem_append, List.mem_singleton] at hy
      rcases hy with hy | hy
      · exact i3 y hy
      · exact ⟨i, by rw [hy]; exact Option.some.inj hh⟩
  | lookup e =>
    simp only [zStep, zGet, zClose]
    cases hi : z.inst with
    | none =>
      simp only [Option.isSome_none, Bool.false_eq_true, ↓reduceIte]
      refine ⟨by simp, by simp, ?_⟩
      intro y hy
      simp only [List.mem_append, List.mem_singleton] at hy
      rcases hy with hy | hy
      · exact i3 y hy
      · exact ⟨z.next, hy⟩
    | some x => simp only [Option.isSome_some, ↓reduceIte]; exact ⟨by simpa [hi] using i1, by simpa [hi] using i2, i3⟩

theorem zRun_inv (z : Zc) (h : ZInv z) (ops : List ZOp) : ZInv (zRun z ops) := by
  induction ops generalizing z with
  | nil => simpa [zRun]
  | cons o os ih => exact ih _ (zStep_inv z h o)

/-- **C20 (a supplied instance is never closed).**  For every sequence of manager operations —
starting with or without an application-supplied instance — every instance the library closes is
one the manager created itself. -/
theorem c20_never_closes_supplied (supplied : Option Nat) (ops : List ZOp) :
    ∀ x ∈ (zRun { inst := supplied.map Inst.supplied } ops).closed, ∃ i, x = .own i := by
  apply (zRun_inv _ ?_ ops).i3
  cases supplied <;> exact ⟨by simp, by simp, by simp⟩

/-- **C20 (what the library created it closes again).**  `async_close` closes an instance the
manager created; a lookup that found no instance closes the one it caused to be created — whether
the request succeeded, failed or was abandoned in flight (cancellation / enclosing timeout) — and a
lookup that found an instance closes nothing. -/
theorem c20_ownership (z : Zc) (e : LEnd) :
    (∀ i, z.inst = some (.own i) → z.created = true → (zStep z .close).closed = z.closed ++ [.own i] ∧ (zStep z .close).inst = none) ∧
    (z.inst = none → (zStep z (.lookup e)).closed = z.closed ++ [.own z.next] ∧ (zStep z (.lookup e)).inst = none ∧
        (zStep z (.lookup e)).created = false) ∧
    (∀ x, z.inst = some x → (zStep z (.lookup e)).closed = z.closed ∧ (zStep z (.lookup e)).inst = some x) := by
  refine ⟨?_, ?_, ?_⟩
  · intro i hi hc; simp [zStep, zClose, hi, hc]
  · intro hi; simp [zStep, zGet, zClose, hi]
  · intro x hi; simp [zStep, zGet, hi]

/-- every instance the manager has ever created (ids from 1000 up to `next`) has been closed again or is the one it holds now -/
def NoLeak (z : Zc) : Prop :=
  ∀ i, 1000 ≤ i → i < z.next → (Inst.own i ∈ z.closed ∨ z.inst = some (.own i))

theorem zStep_noleak (z : Zc) (h : ZInv z) (n : NoLeak z) (op : ZOp) : NoLeak (zStep z op) := by
  obtain ⟨i1, i2, i3⟩ := h
  intro i hi1 hi2
  cases op with
  | setInstance id =>
    simp only [zStep] at hi2 ⊢
    cases hz : z.inst with
    | none => simp only [hz] at hi2 ⊢; have := n i hi1 hi2; simp_all
    | some x => simp only [hz] at hi2 ⊢; split at hi2 <;> (split <;> (have := n i hi1 hi2; simp_all))
  | get =>
    simp only [zStep, zGet] at hi2 ⊢
    cases hz : z.inst with
    | none =>
      simp only [hz] at hi2 ⊢
      by_cases he : i = z.next
      · right; simp [he]
      · have := n i hi1 (by omega); simp_all
    | some x => simp only [hz] at hi2 ⊢; have := n i hi1 hi2; simp_all
  | getFail => simp only [zStep] at hi2 ⊢; exact n i hi1 hi2
  | close =>
    simp only [zStep, zClose] at hi2 ⊢
    cases hc : z.created <;> cases hz : z.inst <;> simp only [hc, hz] at hi2 ⊢
    · have := n i hi1 hi2; simp_all
    · rename_i x
      have := n i hi1 hi2
      rcases this with h | h
      · exact .inl h
      · rw [hz] at h; have := i2 i (by rw [hz, Option.some.inj h]); simp_all
    · have := n i hi1 hi2; simp_all
    · rename_i x
      have := n i hi1 hi2
      rcases this with h | h
      · left; simp [h]
      · left; rw [hz] at h; simp [Option.some.inj h]
  | lookup e =>
    simp only [zStep, zGet, zClose] at hi2 ⊢
    cases hz : z.inst with
    | none =>
      simp only [hz, Option.isSome_none, Bool.false_eq_true, ↓reduceIte] at hi2 ⊢
      by_cases he : i = z.next
      · left; simp [he]
      · have := n i hi1 (by omega); left; simp_all
    | some x =>
      simp only [hz, Option.isSome_some, ↓reduceIte] at hi2 ⊢
      have := n i hi1 hi2; simp_all

theorem zRun_noleak (z : Zc) (h : ZInv z) (n : NoLeak z) (ops : List ZOp) : NoLeak (zRun z ops) := by
  induction ops generalizing z with
  | nil => simpa [zRun]
  | cons o os ih => exact ih _ (zStep_inv z h o) (zStep_noleak z h n o)

/-- **C20 (nothing the library created stays open behind it).**  After EVERY sequence of manager
operations — set, get, failing creation, close, lookups that are answered, fail or are abandoned in
flight — starting with or without a supplied instance, every instance the library has created so
far has been closed again, except at most the one the manager still holds (and will close on
`async_close`, `c20_ownership`). -/
theorem c20_no_leak (supplied : Option Nat) (ops : List ZOp) (i : Nat)
    (h1 : 1000 ≤ i) (h2 : i < (zRun { inst := supplied.map Inst.supplied } ops).next) :
    Inst.own i ∈ (zRun { inst := supplied.map Inst.supplied } ops).closed ∨
    (zRun { inst := supplied.map Inst.supplied } ops).inst = some (.own i) := by
  refine zRun_noleak _ ?_ ?_ ops i h1 h2
  · cases supplied <;> exact ⟨by simp, by simp, by simp⟩
  · intro j hj1 hj2; simp at hj2; omega

/-- three lookups without an instance, one of them abandoned: three instances created, all three closed -/
example : (zRun {} [.lookup .ok, .lookup .cancelled, .lookup .fail]).closed = [.own 1000, .own 1001, .own 1002] ∧
    (zRun {} [.lookup .ok, .lookup .cancelled, .lookup .fail]).next = 1003 := by decide +kernel

/-! ## non-vacuity -/
def demoOracle : Oracle :=
  { isIp := fun h => h == "10.0.0.5".toList || h == "fe80::1%3".toList
    mdns := fun n => if n == "kitchen".toList then some ([7], [4, 5]) else if n == "attic".toList then none else some ([], [])
    os := fun h => if h == "host.example.com".toList then some [.v4 99] else if h == "attic".toList then some [.v4 42] else some [] }

def okOf : Except Err (List Addr) → Option (List Addr) | .ok l => some l | .error _ => none
def errOf : Except Err (List Addr) → Option Err | .ok _ => none | .error e => some e

example : okOf (resolve demoOracle ["10.0.0.5".toList, "kitchen.local".toList, "attic".toList, "host.example.com".toList]).1 =
      some [.lit "10.0.0.5".toList, .v6 7, .v4 4, .v4 5, .v4 42, .v4 99] ∧
    (resolve demoOracle ["10.0.0.5".toList, "kitchen.local".toList, "attic".toList, "host.example.com".toList]).2 =
      [.mdns "kitchen".toList, .mdns "attic".toList, .os "attic".toList, .os "host.example.com".toList] := by decide +kernel
example : errOf (resolve demoOracle ["garage".toList]).1 = some .none := by decide +kernel
example : addressIsLocal "living-room.local.".toList = true ∧ addressIsLocal "local".toList = false ∧
    hostIsNamePart "fe80::1".toList = false := by decide +kernel
/-- lookup without an instance, then the application supplies one, then close: the supplied one is untouched -/
example : (zRun {} [.lookup .ok, .setInstance 7, .close, .lookup .fail]).closed = [.own 1000] := by decide +kernel
/-- the library fails to create its own instance, the application then supplies one: closing leaves it alone -/
example : (zRun {} [.getFail, .setInstance 7, .close]).closed = [] ∧ (zRun {} [.getFail, .setInstance 7, .close]).inst = some (.supplied 7) := by
  decide +kernel

/-- a lookup abandoned in flight still gives back what it created; one that found an instance leaves it alone -/
example : (zRun {} [.lookup .cancelled, .get, .lookup .cancelled]).closed = [.own 1000] ∧
    (zRun {} [.lookup .cancelled, .get, .lookup .cancelled]).inst = some (.own 1001) := by decide +kernel

end Esp.C20
