import Esp.Model.Keepalive
import Esp.Gen.Consts
/-!
# C10 — keepalive: ping only when idle; a silent peer is dropped in (5.5K, 6.5K]; a live one never

Property theorems.  Model: `Esp.Keepalive` (`Esp/Model/Keepalive.lean`).  `K = 2k` ticks,
`4.5·K = 9k`.  Quantifiers: every `k`, every event list (= every arrival schedule of device
messages on an unbounded grid, every order of events that fall on the same instant, closes at
any point).  All statements are about the *history* `log` (newest first), not about state fields.
-/
namespace Esp.C10
open Esp Keepalive

/-! ## the property, as predicates over the history -/

/-- every tick wrote a ping exactly when no message was processed since the previous tick -/
def PingRule : List Entry → Prop
  | [] => True
  | .tick _ p :: r => (p = !msgSinceTick r) ∧ PingRule r
  | _ :: r => PingRule r

/-- every death happened exactly `9k = 4.5K` after the first ping of the current silence -/
def DeadRule (k : Nat) : List Entry → Prop
  | [] => True
  | .dead D :: r => (∃ p, firstPingSinceMsg r = some p ∧ D = p + 9 * k) ∧ DeadRule k r
  | _ :: r => DeadRule k r

/-- detection window: with the last message processed at `t`, death is in `[t+5.5K, t+6.5K]`
(`= [t+11k, t+13k]`); with no message at all since establishment (time 0) it is at `5.5K` -/
def WindowRule (k : Nat) : List Entry → Prop
  | [] => True
  | .dead D :: r =>
      ((∀ t, lastMsg r = some t → t + 11 * k ≤ D ∧ D ≤ t + 13 * k) ∧ (lastMsg r = none → D = 11 * k))
      ∧ WindowRule k r
  | _ :: r => WindowRule k r

/-- times never decrease along the history -/
def Sorted : List Entry → Prop
  | [] => True
  | e :: r => (∀ e' ∈ r, e'.time ≤ e.time) ∧ Sorted r

/-! ## invariant -/

structure Inv (s : State) : Prop where
  times : ∀ e ∈ s.log, e.time ≤ s.now
  sorted : Sorted s.log
  ping_ge : s.alive = true → s.now ≤ s.pingAt ∧ s.pingAt ≤ s.now + 2 * s.k
  pong_eq : s.alive = true → s.pongAt = (firstPingSinceMsg s.log).map (· + 9 * s.k)
  pong_ge : s.alive = true → ∀ d, s.pongAt = some d → s.now ≤ d
  pending : s.alive = true → s.pendingPing = !msgSinceTick s.log
  noTickYet : s.alive = true → ∀ t, lastMsg s.log = some t → msgSinceTick s.log = true → s.pingAt ≤ t + 2 * s.k
  oneTick : s.alive = true → ∀ t, lastMsg s.log = some t → msgSinceTick s.log = false →
              firstPingSinceMsg s.log = none → t + 2 * s.k ≤ s.pingAt ∧ s.pingAt ≤ t + 4 * s.k
  pingWin : ∀ p t, firstPingSinceMsg s.log = some p → lastMsg s.log = some t → t + 2 * s.k ≤ p ∧ p ≤ t + 4 * s.k
  fresh0 : s.alive = true → lastMsg s.log = none → firstPingSinceMsg s.log = none → s.pingAt = 2 * s.k
  fresh1 : ∀ p, lastMsg s.log = none → firstPingSinceMsg s.log = some p → p = 2 * s.k
  pingRule : PingRule s.log
  deadRule : DeadRule s.k s.log
  windowRule : WindowRule s.k s.log


theorem msgSince_noPing : ∀ l, msgSinceTick l = true → firstPingSinceMsg l = none := by
  intro l; induction l with
  | nil => simp [msgSinceTick]
  | cons e r ih => cases e <;> simp_all [msgSinceTick, firstPingSinceMsg]

theorem msgSince_lastMsg : ∀ l, msgSinceTick l = true → lastMsg l ≠ none := by
  intro l; induction l with
  | nil => simp [msgSinceTick]
  | cons e r ih => cases e <;> simp_all [msgSinceTick, lastMsg]

theorem lastMsg_le (l : List Entry) (n : Nat) (h : ∀ e ∈ l, e.time ≤ n) : ∀ t, lastMsg l = some t → t ≤ n := by
  induction l with
  | nil => simp [lastMsg]
  | cons e r ih =>
    intro t ht
    cases e with
    | msg t' => simp [lastMsg] at ht; have := h (.msg t') (by simp); simp [Entry.time] at this; omega
    | tick a b => simp [lastMsg] at ht; exact ih (fun e he => h e (by simp [he])) t ht
    | dead a => simp [lastMsg] at ht; exact ih (fun e he => h e (by simp [he])) t ht

theorem init_inv (k : Nat) : Inv (init k) := by
  constructor <;> simp [init, Sorted, firstPingSinceMsg, msgSinceTick, lastMsg, PingRule, DeadRule, WindowRule]


theorem msg_inv (s : State) (h : Inv s) (ha : s.alive = true) : Inv (onMsg s) := by
  have h1 := h.ping_ge ha
  constructor <;> simp only [onMsg, msgSinceTick, firstPingSinceMsg, lastMsg, PingRule, DeadRule, WindowRule, Sorted]
  · intro e he; simp at he; rcases he with rfl | he
    · simp [Entry.time]
    · exact h.times e he
  · exact ⟨fun e he => by simpa [Entry.time] using h.times e he, h.sorted⟩
  · intro _; exact h1
  · simp
  · simp
  · simp
  · intro _ t ht _; simp at ht; omega
  · simp
  · simp
  · simp
  · simp
  · exact h.pingRule
  · exact h.deadRule
  · exact h.windowRule


theorem tick_inv (s : State) (h : Inv s) (ha : s.alive = true) (hn : s.now = s.pingAt) : Inv (onTick s) := by
  have h1 := h.ping_ge ha
  have h2 := h.pong_eq ha
  have h3 := h.pong_ge ha
  have h4 := h.pending ha
  have h5 := h.noTickYet ha
  have h6 := h.oneTick ha
  have h7 := h.pingWin
  have h8 := h.fresh0 ha
  have h9 := h.fresh1
  have hL := msgSince_noPing s.log
  have hM := msgSince_lastMsg s.log
  have hle := lastMsg_le s.log s.now h.times
  have hpr := h.pingRule
  have hdr := h.deadRule
  have hwr := h.windowRule
  have hso := h.sorted
  have hti := h.times
  cases hp : s.pendingPing <;> cases hf : firstPingSinceMsg s.log <;>
    (constructor <;> simp only [onTick, hp, hf, msgSinceTick, firstPingSinceMsg, lastMsg, PingRule, DeadRule, WindowRule, Sorted]) <;>
    first
      | assumption
      | exact ⟨fun e he => by simpa [Entry.time] using hti e he, hso⟩
      | (intro e he; simp only [List.mem_cons] at he; rcases he with rfl | he; (· simp [Entry.time]); (· exact hti e he))
      | grind


theorem pong_inv (s : State) (h : Inv s) (ha : s.alive = true) (hn : s.pongAt = some s.now) : Inv (onPong s) := by
  have h2 := h.pong_eq ha
  have h7 := h.pingWin
  have h9 := h.fresh1
  have hpr := h.pingRule
  have hdr := h.deadRule
  have hwr := h.windowRule
  have hso := h.sorted
  have hti := h.times
  cases hf : firstPingSinceMsg s.log <;>
  (constructor <;> simp only [onPong, msgSinceTick, firstPingSinceMsg, lastMsg, PingRule, DeadRule, WindowRule, Sorted]) <;>
    first
      | assumption
      | exact ⟨fun e he => by simpa [Entry.time] using hti e he, hso⟩
      | (intro e he; simp only [List.mem_cons] at he; rcases he with rfl | he; (· simp [Entry.time]); (· exact hti e he))
      | grind

theorem step_inv (s : State) (h : Inv s) (e : Ev) : Inv (step s e) := by
  cases e with
  | msg =>
    simp only [step]; split
    · exact msg_inv s h ‹_›
    · exact h
  | tick =>
    simp only [step]; split
    · rename_i hc; simp at hc; exact tick_inv s h hc.1 hc.2
    · exact h
  | pong =>
    simp only [step]; split
    · rename_i hc; simp at hc; exact pong_inv s h hc.1 hc.2
    · exact h
  | advance d =>
    simp only [step]; split
    · rename_i hc
      have h1 := h.ping_ge; have h2 := h.pong_eq; have h3 := h.pong_ge; have h4 := h.pending
      have h5 := h.noTickYet; have h6 := h.oneTick; have h8 := h.fresh0
      constructor <;> simp only [] <;> first
        | exact h.sorted | exact h.pingWin | exact h.fresh1 | exact h.pingRule | exact h.deadRule | exact h.windowRule
        | (intro e he; have := h.times e he; omega)
        | (simp only [canAdvance] at hc; grind)
    · exact h
  | close =>
    simp only [step]
    constructor <;> simp only [] <;> first
      | exact h.times | exact h.sorted | exact h.pingWin | exact h.fresh1 | exact h.pingRule | exact h.deadRule | exact h.windowRule
      | simp

theorem run_inv (s : State) (h : Inv s) (evs : List Ev) : Inv (run s evs) := by
  induction evs generalizing s with
  | nil => simpa [run]
  | cons e es ih => exact ih (step s e) (step_inv s h e)

theorem run_k (s : State) (evs : List Ev) : (run s evs).k = s.k := by
  induction evs generalizing s with
  | nil => rfl
  | cons e es ih =>
    have : (step s e).k = s.k := by
      cases e <;> simp only [step, onMsg, onTick, onPong] <;> (repeat' split) <;> rfl
    simp only [run, List.foldl_cons] at *; rw [ih, this]

/-! ## the property theorems (every `k`, every event list) -/

/-- **C10 (ping only when idle).**  In every history, a keepalive tick wrote a PingRequest exactly
when no message of any type had been processed since the previous tick (or since establishment). -/
theorem c10_ping_iff_idle (k : Nat) (evs : List Ev) : PingRule (run (init k) evs).log :=
  (run_inv _ (init_inv k) evs).pingRule

/-- **C10 (dead exactly 4.5K after the first unanswered ping).**  Every death recorded in a
history happened exactly `9k` ticks after the earliest ping of the silence it ended: that ping
exists, no message was processed after it, and the pong timer was not re-armed by later pings. -/
theorem c10_dead_exact (k : Nat) (evs : List Ev) : DeadRule k (run (init k) evs).log := by
  have := (run_inv _ (init_inv k) evs).deadRule
  rwa [run_k] at this

/-- **C10 (never later).**  While the session is alive the clock cannot pass the deadline
`first unanswered ping + 9k` (the pong timer is armed for exactly that instant), nor the next tick. -/
theorem c10_deadline_armed (k : Nat) (evs : List Ev) :
    let s := run (init k) evs
    s.alive = true → s.now ≤ s.pingAt ∧ ∀ p, firstPingSinceMsg s.log = some p → s.pongAt = some (p + 9 * k) ∧ s.now ≤ p + 9 * k := by
  intro s ha
  have hi := run_inv _ (init_inv k) evs
  have hk : s.k = k := run_k _ evs
  refine ⟨(hi.ping_ge ha).1, fun p hp => ?_⟩
  have h2 := hi.pong_eq ha
  have h3 := hi.pong_ge ha
  simp only [s] at *
  rw [hp, hk] at h2
  simp at h2
  exact ⟨h2, h3 _ h2⟩

/-- **C10 (detection window).**  If the last message was processed at `t`, death comes at
`D ∈ [t + 5.5K, t + 6.5K]`; if no message was ever processed, at exactly `5.5K` after establishment. -/
theorem c10_window (k : Nat) (evs : List Ev) : WindowRule k (run (init k) evs).log := by
  have := (run_inv _ (init_inv k) evs).windowRule
  rwa [run_k] at this

/-- no message was processed during the `9k` ticks before a death -/
def SilenceRule (k : Nat) : List Entry → Prop
  | [] => True
  | .dead D :: r => (∀ t, Entry.msg t ∈ r → t + 9 * k ≤ D) ∧ SilenceRule k r
  | _ :: r => SilenceRule k r

theorem firstPing_msgs_le : ∀ (l : List Entry), Sorted l → ∀ p, firstPingSinceMsg l = some p →
    ∀ t, Entry.msg t ∈ l → t ≤ p := by
  intro l; induction l with
  | nil => simp
  | cons e r ih =>
    intro hs p hp t ht
    cases e with
    | msg a => simp [firstPingSinceMsg] at hp
    | dead a =>
      simp only [firstPingSinceMsg] at hp
      simp only [List.mem_cons, reduceCtorEq, false_or] at ht
      exact ih hs.2 p hp t ht
    | tick a b =>
      simp only [List.mem_cons, reduceCtorEq, false_or] at ht
      cases b with
      | false => simp only [firstPingSinceMsg] at hp; exact ih hs.2 p hp t ht
      | true =>
        simp only [firstPingSinceMsg] at hp
        cases hq : firstPingSinceMsg r with
        | some q => rw [hq] at hp; simp at hp; subst hp; exact ih hs.2 q hq t ht
        | none =>
          rw [hq] at hp; simp at hp; subst hp
          have := hs.1 (.msg t) ht
          simpa [Entry.time] using this

theorem silence_of_dead (k : Nat) : ∀ l, Sorted l → DeadRule k l → SilenceRule k l := by
  intro l; induction l with
  | nil => simp [SilenceRule]
  | cons e r ih =>
    intro hs hd
    cases e with
    | msg a => exact ih hs.2 hd
    | tick a b => exact ih hs.2 hd
    | dead D =>
      obtain ⟨⟨p, hp, hD⟩, hd'⟩ := hd
      refine ⟨fun t ht => ?_, ih hs.2 hd'⟩
      have := firstPing_msgs_le r hs.2 p hp t ht
      omega

/-- **C10 (never while messages keep arriving).**  A death is preceded by `4.5K` of total silence:
no message of any type was processed in the `9k` ticks before it.  Hence a peer from which some
message arrives in every window of `4.5K` is never declared dead. -/
theorem c10_silence (k : Nat) (evs : List Ev) : SilenceRule k (run (init k) evs).log :=
  silence_of_dead k _ (run_inv _ (init_inv k) evs).sorted (c10_dead_exact k evs)

/-- the executable judge used on observed histories accepts everything the theorems allow -/
theorem checkLog_complete (k : Nat) : ∀ l, PingRule l → DeadRule k l → WindowRule k l → checkLog k l = none := by
  intro l; induction l with
  | nil => simp [checkLog]
  | cons e r ih =>
    intro hp hd hw
    cases e with
    | msg a => exact ih hp hd hw
    | tick a b =>
      simp only [checkLog]
      have := hp.1
      simp only [this, bne_self_eq_false, Bool.false_eq_true, ↓reduceIte]
      exact ih hp.2 hd hw
    | dead D =>
      obtain ⟨⟨p, hp1, hD⟩, hd'⟩ := hd
      obtain ⟨⟨hw1, hw2⟩, hw'⟩ := hw
      simp only [checkLog, hp1, hD, bne_self_eq_false, Bool.false_eq_true, ↓reduceIte]
      cases hl : lastMsg r with
      | none => have := hw2 hl; simp only; rw [if_pos (by omega)]; exact ih hp hd' hw'
      | some t => have := hw1 t hl; simp only; rw [if_pos (by omega)]; exact ih hp hd' hw'

theorem c10_check (k : Nat) (evs : List Ev) : checkLog k (run (init k) evs).log = none :=
  checkLog_complete k _ (c10_ping_iff_idle k evs) (c10_dead_exact k evs) (c10_window k evs)

/-! ## non-vacuity: concrete histories that exercise the rules -/

/-- total silence from establishment (`k = 1`): ping at `2`, `4`, …, death at `11 = 5.5K` -/
example : (run (init 1) [.advance 2, .tick, .advance 2, .tick, .advance 2, .tick, .advance 2, .tick,
    .advance 2, .tick, .advance 1, .pong]).log =
    [.dead 11, .tick 10 true, .tick 8 true, .tick 6 true, .tick 4 true, .tick 2 true] := by decide

/-- a message at `t = 3` (strictly inside a period): next tick (4) is quiet, ping at 6, death at 15 ∈ [14, 16] -/
example : ((run (init 1) [.advance 2, .tick, .advance 1, .msg, .advance 1, .tick, .advance 2, .tick,
    .advance 2, .tick, .advance 2, .tick, .advance 2, .tick, .advance 2, .tick, .advance 1, .pong]).log.head?) =
    some (.dead 15) := by decide

/-- message processed at a tick instant *before* the tick: death at exactly `t + 11k`;
*after* the tick: exactly `t + 13k` -/
example : ((run (init 1) [.advance 2, .msg, .tick, .advance 2, .tick, .advance 2, .tick, .advance 2, .tick,
    .advance 2, .tick, .advance 2, .tick, .advance 1, .pong]).log.head?) = some (.dead 13) := by decide
example : ((run (init 1) [.advance 2, .tick, .msg, .advance 2, .tick, .advance 2, .tick, .advance 2, .tick,
    .advance 2, .tick, .advance 2, .tick, .advance 2, .tick, .advance 1, .pong]).log.head?) = some (.dead 15) := by decide

/-- the clock cannot jump over an armed deadline (urgency): the advance is refused -/
example : (run (init 1) [.advance 3]).now = 0 := by decide

/-- the constant the model is instantiated with is the library's -/
theorem c10_ratio : Gen.keepAliveTimeoutRatio = (9, 2) ∧ Gen.keepAliveFrequency = (20, 1) := by decide

end Esp.C10
