import Esp.Props.C07
/-!
# C08 — closing a connection releases everything and silences it

Property theorems over the connection LTS `Esp.Conn`.  Quantifier: every event list — a close at
every atomic step of connect / handshake / login / steady state / disconnect, for every cause and
combination of causes, including frames that follow the closing frame in the same chunk.
-/
namespace Esp.C08
open Esp Conn

/-! ## silence -/

/-- on a closed connection no primitive writes to the device or delivers to a subscriber -/
theorem prim_quiet (a b : State) (hc : a.st = .closed) (p : Prim a b) :
    b.writes = a.writes ∧ b.deliveries = a.deliveries := by
  cases p
  case write h1 _ => simp [hsComplete, hc] at h1
  case deliver h => exact absurd hc h
  case collect r _ => constructor <;> (simp only [collect]; (repeat' split) <;> rfl)
  case finFutQuiet => constructor <;> (simp only [aFinFutQuiet]; split <;> rfl)
  case trCancelled => constructor <;> (simp only [aTrCancelled]; split <;> rfl)
  case startOk =>
    constructor <;> (simp only [startOkPath, aStartFutCb]; (repeat' split) <;> rfl)
  case helloOk =>
    constructor <;> (simp only [helloOkPath, aFinFutCb]; (repeat' split) <;> rfl)
  all_goals exact ⟨rfl, rfl⟩

theorem reach_quiet (a b : State) (hi : C05.Inv a) (hc : a.st = .closed) (r : Reach a b) :
    b.writes = a.writes ∧ b.deliveries = a.deliveries ∧ b.st = .closed := by
  induction r with
  | refl => exact ⟨rfl, rfl, hc⟩
  | snoc r p ih =>
    obtain ⟨i1, i2, i3⟩ := ih
    have hb := (C05.reach_mono _ _ hi r).2
    have hq := prim_quiet _ _ i3 p
    exact ⟨hq.1.trans i1, hq.2.trans i2, (C05.life_mono _ _ hb (prim_life _ _ p)).2 i3⟩

/-- **C08 (silence).**  Once the connection is closed, NO event — a task resuming with a request
to send, a timer, a device frame (also one that follows the closing frame in the same chunk), a
user call — writes anything more to the device or delivers anything more to a subscriber. -/
theorem c08_silent (noise login : Bool) (evs : List Ev) (e : Ev) :
    let s := run { noise := noise, login := login } evs
    s.st = .closed → (step s e).writes = s.writes ∧ (step s e).deliveries = s.deliveries := by
  intro s hc
  have h := reach_quiet s _ (C05.run_inv _ (C05.init_inv noise login) evs) hc (step_reach s e)
  exact ⟨h.1, h.2.1⟩

/-- … and over any continuation -/
theorem c08_silent_forever (noise login : Bool) (evs₁ evs₂ : List Ev) :
    let s := run { noise := noise, login := login } evs₁
    s.st = .closed → (run s evs₂).writes = s.writes ∧ (run s evs₂).deliveries = s.deliveries := by
  intro s hc
  have h := reach_quiet s _ (C05.run_inv _ (C05.init_inv noise login) evs₁) hc (run_reach s evs₂)
  exact ⟨h.1, h.2.1⟩


/-! ## release -/

/-- the resource invariant: every timer belongs to a task that is still suspended at the await the
timer guards; the keepalive exists only while connected; a closed connection holds no socket, no
waiter and no unreleased interrupt future -/
structure Res (s : State) : Prop where
  t1 : s.hsTimer = true → s.finish = .awaitTransport ∨ s.finish = .awaitReady
  t2 : s.hello.timer = true → s.finish = .awaitHello
  t2r : s.hello.registered = true → s.finish = .awaitHello
  t2w : s.hello.inWaiters = true → s.finish = .awaitHello
  t3 : s.discReq.timer = true → s.disc = .awaitResp
  t3r : s.discReq.registered = true → s.disc = .awaitResp
  t3w : s.discReq.inWaiters = true → s.disc = .awaitResp
  t4 : s.discWaitTimer = true → s.disc = .awaitFinish
  t5 : s.resolveTimer = true → s.start = .awaitResolve
  t5t : s.tcpTimer = true → s.start = .awaitSocket
  t6 : s.pingArmed = true → s.st = .connected
  t6p : s.pongArmed = true → s.st = .connected
  r1 : s.st = .closed → s.sockAttached = false
  r5 : s.st = .closed → s.hello.inWaiters = false ∧ s.discReq.inWaiters = false
  r6 : s.st = .closed → s.startFut ≠ .pending ∧ s.finishFut ≠ .pending
  f1 : hsComplete s = true → s.fhSet = true
  f2 : s.finish = .awaitReady → s.st ≠ .closed → s.fhSet = true
  nr : s.discRaw = false
  dc : s.disc = .done → s.discCancelled = true ∨ s.st = .closed

theorem init_res (noise login : Bool) : Res { noise := noise, login := login } := by
  constructor <;> simp [hsComplete]

set_option maxHeartbeats 4000000 in
theorem prim_res (a b : State) (hl : C05.Inv a) (h : Res a) (p : Prim a b) : Res b := by
  obtain ⟨t1, t2, t2r, t2w, t3, t3r, t3w, t4, t5, t5t, t6, t6p, r1, r5, r6, f1, f2, nr, dc⟩ := h
  obtain ⟨l1, l2, l3, l4, l5, l6, l7, l8, l9, l10, l11, l12⟩ := hl
  cases p <;>
    (constructor <;>
      simp only [cleanup, collect, aSetFatal, aWrite, aMark, aAlive, aDeliver, aReadyFail, aTrClose, aTrAbort, aLostRun,
        aDiscRespArr, aStartExit, aStartFutQuiet, aStartDone, aStartToSocket, startOkPath, aStartAttach, aStartFutCb, aSockOpened,
        aFinExit, aFinFutQuiet, aFinDone, aTrCancelled, aFhAttach, aFinToReady, aHsEnter, aHelloStart, aHelloFinally,
        helloOkPath, aKeepalive, aFinFutCb, aConnected, aDiscDone, aDiscRaw, aForceRaw, aDiscReqStart, aDiscWaitOver, aDiscCancelledW,
        aDiscCancelledR, aDiscReqFinally, aRefused, aStartBegin, aResolveSet, aSockSet, aSockFaulty, aSockFaultClose, aSockAttachOnly, aUserCancelStart, aFinishBegin,
        aConnMadeFail, aConnMadeOk, aReadyOk, aUserCancelFinish, aCbStart, aCbFinish, aDiscBegin, aCbDiscWait,
        aDiscCancelW, aDiscCancelR, aFireResolve, aFireTcp, aFireHs, aFireHello, aPingRearm, aPingPend, aPongOff,
        aFireDiscWait, aFireDiscResp, aSetWrite, startReq, finishReq, resolveReq, failWaiter, hsComplete] <;>
      (repeat' split) <;> grind [StartPend, FinPend, hsComplete])


theorem reach_res (a b : State) (h1 : C05.Inv a) (h2 : Res a) (r : Reach a b) : C05.Inv b ∧ Res b := by
  induction r with
  | refl => exact ⟨h1, h2⟩
  | snoc _ p ih => exact ⟨C05.prim_inv _ _ ih.1 p, prim_res _ _ ih.1 ih.2 p⟩

theorem run_res (noise login : Bool) (evs : List Ev) : Res (run { noise := noise, login := login } evs) :=
  (reach_res _ _ (C05.init_inv noise login) (init_res noise login) (run_reach _ evs)).2

/-- **C08 (released at the closing step).**  In EVERY reachable state in which the connection is
closed: the socket object has been closed and dropped, no keepalive and no pong timer is armed, no
future is left in the waiter set, both interrupt futures have been released (so a connect phase
still suspended is being cancelled), the handshake timer can only still be armed while the finish
task has not yet resumed from the handshake await, and a request timer / handler only while the
task that owns the request has not yet resumed (its `finally` removes them). -/
theorem c08_released (noise login : Bool) (evs : List Ev) :
    let s := run { noise := noise, login := login } evs
    s.st = .closed →
      s.sockAttached = false ∧ s.pingArmed = false ∧ s.pongArmed = false ∧
      s.hello.inWaiters = false ∧ s.discReq.inWaiters = false ∧
      s.startFut ≠ .pending ∧ s.finishFut ≠ .pending ∧
      (s.hsTimer = true → s.finish = .awaitTransport ∨ s.finish = .awaitReady) ∧
      ((s.hello.timer = true ∨ s.hello.registered = true) → s.finish = .awaitHello) ∧
      ((s.discReq.timer = true ∨ s.discReq.registered = true) → s.disc = .awaitResp) ∧
      (s.discWaitTimer = true → s.disc = .awaitFinish) ∧
      (s.resolveTimer = true → s.start = .awaitResolve) ∧ (s.tcpTimer = true → s.start = .awaitSocket) := by
  intro s hc
  have h := run_res noise login evs
  have hp : s.pingArmed = false := by
    cases hx : s.pingArmed with
    | false => rfl
    | true => have := h.t6 hx; rw [hc] at this; cases this
  have hq : s.pongArmed = false := by
    cases hx : s.pongArmed with
    | false => rfl
    | true => have := h.t6p hx; rw [hc] at this; cases this
  exact ⟨h.r1 hc, hp, hq, (h.r5 hc).1, (h.r5 hc).2, (h.r6 hc).1, (h.r6 hc).2, h.t1,
    fun hx => hx.elim h.t2 h.t2r, fun hx => hx.elim h.t3 h.t3r, h.t4, h.t5, h.t5t⟩

/-- **C08 (quiescent).**  Once every task that was suspended on the connection has resumed (no
connect phase and no disconnect call is pending any more), a closed connection has NO timer armed
at all — keepalive, pong, handshake, hello/login, disconnect-wait, disconnect-response, resolve,
TCP — and no request handler registered. -/
theorem c08_quiescent (noise login : Bool) (evs : List Ev) :
    let s := run { noise := noise, login := login } evs
    s.st = .closed → ¬ StartPend s → ¬ FinPend s → s.disc ≠ .awaitFinish → s.disc ≠ .awaitResp →
      s.pingArmed = false ∧ s.pongArmed = false ∧ s.hsTimer = false ∧ s.hello.timer = false ∧
      s.discReq.timer = false ∧ s.discWaitTimer = false ∧ s.resolveTimer = false ∧ s.tcpTimer = false ∧
      s.hello.registered = false ∧ s.discReq.registered = false := by
  intro s hc hs hf hd1 hd2
  have h := run_res noise login evs
  have rel := c08_released noise login evs hc
  simp only [StartPend, FinPend, not_or] at hs hf
  have nb : ∀ (x : Bool), (x = true → False) → x = false := by intro x hx; cases x <;> simp_all
  refine ⟨rel.2.1, rel.2.2.1, nb _ ?_, nb _ ?_, nb _ ?_, nb _ ?_, nb _ ?_, nb _ ?_, nb _ ?_, nb _ ?_⟩
  · intro hx; rcases h.t1 hx with h1 | h1
    · exact hf.1 h1
    · exact hf.2.1 h1
  · intro hx; exact hf.2.2 (h.t2 hx)
  · intro hx; exact hd2 (h.t3 hx)
  · intro hx; exact hd1 (h.t4 hx)
  · intro hx; exact hs.1 (h.t5 hx)
  · intro hx; exact hs.2 (h.t5t hx)
  · intro hx; exact hf.2.2 (h.t2r hx)
  · intro hx; exact hd2 (h.t3r hx)

/-- the keepalive exists only while connected; a helper is attached whenever the handshake is complete -/
theorem c08_keepalive_only_connected (noise login : Bool) (evs : List Ev) :
    let s := run { noise := noise, login := login } evs
    (s.pingArmed = true → s.st = .connected) ∧ (s.pongArmed = true → s.st = .connected) ∧
    (hsComplete s = true → s.fhSet = true) :=
  let h := run_res noise login evs
  ⟨h.t6, h.t6p, h.f1⟩

/-- **C08 (disconnect is a close cause at every stage).**  In every reachable state in which a
`disconnect()` call has returned — whenever it was made: before the connect, while the address is
being resolved, during the handshake, in steady state, after another close cause — the connection
is closed, unless the caller cancelled the call. -/
theorem c08_disconnect_closes (noise login : Bool) (evs : List Ev) :
    let s := run { noise := noise, login := login } evs
    s.disc = .done → s.discCancelled = false → s.st = .closed := by
  intro s hd hc
  rcases (run_res noise login evs).dc hd with h | h
  · rw [hc] at h; cases h
  · exact h

/-- **C08 (every cause closes).**  In ANY state — whatever fatal cause is already on record, whatever phase or disconnect
call is pending — the end of the device's stream (while the transport is open) and the loss of the transport close the
connection in that very step. -/
theorem c08_loss_closes (s : State) :
    (s.transportOpen = true → (step s .eof).st = .closed) ∧ (s.lostPending = true → (step s .lost).st = .closed) := by
  constructor
  · intro h; simp [step, h, reportFatal, cleanup, aTrClose]
  · intro h; simp [step, h, onLost, reportFatal, cleanup]

/-! ## non-vacuity -/

/-- a `disconnect()` that gave up waiting for the connect (its timeout is on record as the fatal cause, the connection is
still open), then the device hangs up: closed at once -/
example :
    let s := run {} [.callStart, .resolved true, .wakeStart, .sockDone true, .wakeStart, .cbStart, .callFinish, .connMade, .wakeFinish,
      .callDisc, .fireDiscWait, .wakeDisc]
    s.fatal.isSome = true ∧ s.st ≠ .closed ∧ s.transportOpen = true ∧ (step s .eof).st = .closed := by decide +kernel


example : let s := run {} [.callStart, .callDisc]
    s.disc = .done ∧ s.discCancelled = false ∧ s.st = .closed ∧ s.start ≠ .idle := by decide


/-- DisconnectRequest followed by two more frames in the SAME chunk: nothing after the closing frame
is delivered or answered -/
example : let s := run {} (C07.happy ++ [.data [.other, .discReq, .other, .pingReq, .other]])
    s.st = .closed ∧ s.deliveries = 1 ∧ s.writes = 2 ∧ s.pingArmed = false := by decide +kernel
/-- a request in flight when the connection resets: the waiter is failed at the closing step, its
timer and handler go when the task resumes -/
example : let s := run {} (C07.happy ++ [.callDisc, .reset, .lost])
    s.st = .closed ∧ s.discReq.inWaiters = false ∧ s.discReq.timer = true ∧ s.disc = .awaitResp := by decide +kernel
example : let s := run {} (C07.happy ++ [.callDisc, .reset, .lost, .wakeDisc])
    s.st = .closed ∧ s.discReq.timer = false ∧ s.discReq.registered = false ∧ s.disc = .done := by decide +kernel

end Esp.C08
