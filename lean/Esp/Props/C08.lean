import Esp.Model.Conn
namespace Esp.C08
theorem placeholder : True := trivial
end Esp.C08
