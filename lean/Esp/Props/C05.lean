import Esp.Model.Conn
namespace Esp.C05
theorem placeholder : True := trivial
end Esp.C05
