import Esp.Lemmas.ConnLife
/-!
# C05 — connection state only moves forward; closed is final; one connect per object

Property theorems.  Model: the connection LTS `Esp.Conn` (`Esp/Model/Conn.lean`).  Quantifier: every
event list — all interleavings of user calls (start, finish, disconnect, force disconnect, cancel),
device events (responses, requests, garbage, EOF, reset, write failure) and timer expiries,
including any number of them between two resumptions of a task (the same event-loop turn).
-/
namespace Esp.C05
open Esp Conn

/-- the lifecycle invariant: every program counter of the two connect phases is tied to the
lifecycle state.  (It is stated so that it also holds *between* the primitive actions of one
transition: while the finish task walks from "helper ready" to "hello sent" the state is already
handshake-complete.) -/
structure Inv (s : State) : Prop where
  startIdle : s.start = .idle → s.st = .init ∨ s.st = .closed
  startPend : (s.start = .awaitResolve ∨ s.start = .awaitSocket) → s.st = .init ∨ s.st = .closed
  startErr : ∀ e, s.start = .done (.err e) → s.st = .closed
  stInit : s.st = .init → s.finish = .idle
  finIdle : s.finish = .idle → s.st = .init ∨ s.st = .sockOpen ∨ s.st = .closed
  finTr : (s.finish = .awaitTransport ∨ s.finish = .awaitReady) → s.st = .sockOpen ∨ s.st = .hsDone ∨ s.st = .closed
  finHello : s.finish = .awaitHello → s.st = .hsDone ∨ s.st = .closed
  finOk : s.finish = .done .ok → s.st = .connected ∨ s.st = .closed
  finErr : ∀ e, s.finish = .done (.err e) → s.st = .closed
  stConn : s.st = .connected → s.finish = .done .ok
  stHs : s.st = .hsDone → s.finish = .awaitTransport ∨ s.finish = .awaitReady ∨ s.finish = .awaitHello
  stSock : s.st = .sockOpen → s.start = .done .ok

theorem init_inv (noise login : Bool) : Inv { noise := noise, login := login } := by
  constructor <;> simp

theorem life_inv (a b : State) (h : Inv a) (l : Life a b) : Inv b := by
  obtain ⟨a1, a2, a3, a4, a5, a6, a7, a8, a9, a10, a11, a12⟩ := h
  cases l <;> (constructor <;> grind [StartPend, FinPend])

theorem prim_inv (a b : State) (h : Inv a) (p : Prim a b) : Inv b := life_inv a b h (prim_life a b p)

theorem step_inv (s : State) (h : Inv s) (e : Ev) : Inv (step s e) := (step_reach s e).inv prim_inv h

theorem run_inv (s : State) (h : Inv s) (evs : List Ev) : Inv (run s evs) := (run_reach s evs).inv prim_inv h

theorem rank_le (x : CSt) : rank x ≤ 4 := by cases x <;> simp [rank]

/-- forward-only, as a relation between two states -/
def Mono (a b : State) : Prop := rank a.st ≤ rank b.st ∧ (a.st = .closed → b.st = .closed)

theorem life_mono (a b : State) (h : Inv a) (l : Life a b) : Mono a b := by
  have hr := rank_le a.st
  obtain ⟨a1, a2, a3, a4, a5, a6, a7, a8, a9, a10, a11, a12⟩ := h
  unfold Mono
  cases l with
  | closed h1 _ _ => rw [h1]; exact ⟨hr, fun _ => rfl⟩
  | sockOpened g1 g2 h1 _ _ =>
    rw [h1]; refine ⟨?_, fun hc => absurd hc g2⟩
    rcases a2 (Or.inr g1) with h | h <;> simp_all [rank]
  | hsEnter g1 g2 h1 _ _ =>
    rw [h1]; refine ⟨?_, fun hc => absurd hc g2⟩
    rcases a6 g1 with h | h | h <;> simp_all [rank]
  | connected g1 g2 h1 _ _ =>
    rw [h1]; refine ⟨?_, fun hc => absurd hc g2⟩
    rcases a7 g1 with h | h <;> simp_all [rank]
  | _ => rename_i h1 _ _; rw [h1]; exact ⟨Nat.le_refl _, id⟩

theorem reach_mono (a b : State) (h : Inv a) (r : Reach a b) : Mono a b ∧ Inv b := by
  induction r with
  | refl => exact ⟨⟨Nat.le_refl _, id⟩, h⟩
  | snoc _ p ih =>
    obtain ⟨⟨m1, m2⟩, hi⟩ := ih
    obtain ⟨n1, n2⟩ := life_mono _ _ hi (prim_life _ _ p)
    exact ⟨⟨Nat.le_trans m1 n1, fun hc => n2 (m2 hc)⟩, prim_inv _ _ hi p⟩

/-- one step never moves the lifecycle backwards and never leaves closed -/
theorem step_mono (s : State) (h : Inv s) (e : Ev) :
    rank s.st ≤ rank (step s e).st ∧ (s.st = .closed → (step s e).st = .closed) :=
  (reach_mono s _ h (step_reach s e)).1

/-- on a closed connection no chain of primitives completes a connect phase -/
theorem reach_closed (a b : State) (h : Inv a) (hc : a.st = .closed) (r : Reach a b) :
    b.st = .closed ∧ (b.start = .done .ok → a.start = .done .ok) ∧ (b.finish = .done .ok → a.finish = .done .ok) := by
  induction r with
  | refl => exact ⟨hc, id, id⟩
  | snoc r p ih =>
    obtain ⟨i1, i2, i3⟩ := ih
    have hi := (reach_mono _ _ h r).2
    cases prim_life _ _ p with
    | sockOpened g1 g2 _ _ _ => exact absurd i1 g2
    | hsEnter g1 g2 _ _ _ => exact absurd i1 g2
    | connected g1 g2 _ _ _ => exact absurd i1 g2
    | closed h1 h2 h3 => exact ⟨h1, by rw [h2]; exact i2, by rw [h3]; exact i3⟩
    | same h1 h2 h3 => exact ⟨by rw [h1]; exact i1, by rw [h2]; exact i2, by rw [h3]; exact i3⟩
    | startBegin g1 g2 h1 h2 h3 => exact ⟨by rw [h1]; exact i1, by rw [h2]; simp, by rw [h3]; exact i3⟩
    | toSocket g h1 h2 h3 => exact ⟨by rw [h1]; exact i1, by rw [h2]; simp, by rw [h3]; exact i3⟩
    | startFail g1 g2 e h1 h2 h3 => exact ⟨by rw [h1]; exact i1, by rw [h2]; simp, by rw [h3]; exact i3⟩
    | finishBegin g1 g2 h1 h2 h3 => exact ⟨by rw [h1]; exact i1, by rw [h2]; exact i2, by rw [h3]; simp⟩
    | toReady g h1 h2 h3 => exact ⟨by rw [h1]; exact i1, by rw [h2]; exact i2, by rw [h3]; simp⟩
    | finFail g1 g2 e h1 h2 h3 => exact ⟨by rw [h1]; exact i1, by rw [h2]; exact i2, by rw [h3]; simp⟩
    | helloStart g1 g2 h1 h2 h3 => exact ⟨by rw [h1]; exact i1, by rw [h2]; exact i2, by rw [h3]; simp⟩

/-- **C05 (forward only, closed is final).**  From a fresh connection object, after ANY event list,
one more event of any kind never lowers the lifecycle rank
(initialized < socket opened < handshake complete < connected < closed) and never leaves closed. -/
theorem c05_monotone (noise login : Bool) (evs : List Ev) (e : Ev) :
    let s := run { noise := noise, login := login } evs
    rank s.st ≤ rank (step s e).st ∧ (s.st = .closed → (step s e).st = .closed) :=
  step_mono _ (run_inv _ (init_inv noise login) evs) e

/-- **C05 (closed is final), over whole continuations.** -/
theorem c05_closed_final (noise login : Bool) (evs₁ evs₂ : List Ev) :
    (run { noise := noise, login := login } evs₁).st = .closed →
    (run { noise := noise, login := login } (evs₁ ++ evs₂)).st = .closed := by
  intro hc
  have hi := run_inv _ (init_inv noise login) evs₁
  simp only [run, List.foldl_append] at *
  generalize List.foldl step _ evs₁ = s at *
  induction evs₂ generalizing s with
  | nil => simpa
  | cons e es ih => exact ih _ ((step_mono s hi e).2 hc) (step_inv s hi e)

/-- **C05 (a close that has taken effect is never undone by a connect phase).**  If the connection
is closed when a connect-phase task resumes — even with a successful inner result, in the same
turn — the phase does not complete successfully and the state stays closed. -/
theorem c05_close_wins (noise login : Bool) (evs : List Ev) :
    let s := run { noise := noise, login := login } evs
    s.st = .closed →
      ((step s .wakeStart).st = .closed ∧ ((step s .wakeStart).start = .done .ok → s.start = .done .ok)) ∧
      ((step s .wakeFinish).st = .closed ∧ ((step s .wakeFinish).finish = .done .ok → s.finish = .done .ok)) := by
  intro s hc
  have hi := run_inv _ (init_inv noise login) evs
  have h1 := reach_closed s _ hi hc (step_reach s .wakeStart)
  have h2 := reach_closed s _ hi hc (step_reach s .wakeFinish)
  exact ⟨⟨h1.1, h1.2.1⟩, ⟨h2.1, h2.2.2⟩⟩

/-- **C05 (one connect attempt per object).**  `start_connection` on an object whose start phase has
been used — the lifecycle has left the initial state, OR an earlier call is still in progress (the
state only advances when the phase completes) — is refused at once (RuntimeError) and changes
nothing else; likewise `finish_connection` outside socket-opened or while a finish is in progress.
So a call is accepted only in the initial state with no start phase begun. -/
theorem c05_once (s : State) :
    (s.st ≠ .init ∨ s.start ≠ .idle → step s .callStart = { s with refused := s.refused + 1 }) ∧
    (s.st ≠ .sockOpen ∨ s.finish ≠ .idle → step s .callFinish = { s with refused := s.refused + 1 }) := by
  refine ⟨?_, ?_⟩ <;> intro h <;> by_cases h1 : s.st = .init <;> by_cases h2 : s.st = .sockOpen <;>
    simp_all [step, aRefused]

/-- … and an accepted call begins the phase: afterwards the phase is no longer idle, so by `c05_once`
every later call of the same phase on this object is refused whatever happens in between
(`c05_phase_never_idle_again`). -/
theorem c05_accept_begins (s : State) :
    (s.st = .init → s.start = .idle → (step s .callStart).start ≠ .idle) ∧
    (s.st = .sockOpen → s.finish = .idle → (step s .callFinish).finish ≠ .idle) := by
  refine ⟨?_, ?_⟩ <;> intro h1 h2 <;> simp [step, h1, h2, aStartBegin, aFinishBegin]

/-- a phase that has begun never becomes idle again, along any chain of primitive actions -/
theorem life_used (a b : State) (l : Life a b) :
    (a.start ≠ .idle → b.start ≠ .idle) ∧ (a.finish ≠ .idle → b.finish ≠ .idle) := by
  cases l <;> (rename_i h2 h3; constructor <;> intro h <;> simp_all)

theorem reach_used (a b : State) (r : Reach a b) :
    (a.start ≠ .idle → b.start ≠ .idle) ∧ (a.finish ≠ .idle → b.finish ≠ .idle) := by
  induction r with
  | refl => exact ⟨id, id⟩
  | snoc _ p ih =>
    obtain ⟨l1, l2⟩ := life_used _ _ (prim_life _ _ p)
    exact ⟨fun h => l1 (ih.1 h), fun h => l2 (ih.2 h)⟩

/-- **C05 (one connect attempt per object, for every history).**  Once a `start_connection` call has
been accepted, every later `start_connection` on the same object — after ANY events in between,
whether the first call is still in progress, has failed, was cancelled or has succeeded — is refused
and changes nothing but the refusal count; the same for `finish_connection`. -/
theorem c05_phase_never_idle_again (s : State) (evs : List Ev) :
    (s.start ≠ .idle → step (run s evs) .callStart = { run s evs with refused := (run s evs).refused + 1 }) ∧
    (s.finish ≠ .idle → step (run s evs) .callFinish = { run s evs with refused := (run s evs).refused + 1 }) := by
  obtain ⟨u1, u2⟩ := reach_used s _ (run_reach s evs)
  exact ⟨fun h => (c05_once _).1 (Or.inr (u1 h)), fun h => (c05_once _).2 (Or.inr (u2 h))⟩

/-- … and the lifecycle never returns to a state in which a phase would be accepted again: once the
state has left `initialized` it never comes back, and once the finish phase has been used
(`socket opened` left, or the phase failed) `socket opened` never comes back -/
theorem c05_no_reuse (noise login : Bool) (evs : List Ev) (e : Ev) :
    let s := run { noise := noise, login := login } evs
    (s.st ≠ .init → (step s e).st ≠ .init) ∧
    (s.st ≠ .init → s.st ≠ .sockOpen → (step s e).st ≠ .sockOpen) := by
  intro s
  have hm := step_mono s (run_inv _ (init_inv noise login) evs) e
  have hr := rank_le s.st
  constructor
  · intro h0 h1; rw [h1] at hm; cases hs : s.st <;> simp_all [rank]
  · intro h0 h1 h2; rw [h2] at hm; cases hs : s.st <;> simp_all [rank]

theorem c05_flags (s : State) : hsComplete s = true ↔ (s.st = .hsDone ∨ s.st = .connected) := by
  simp [hsComplete]

/-! ## non-vacuity and the repaired race -/

/-- the happy path reaches connected -/
example : (run {} [.callStart, .resolved true, .wakeStart, .sockDone true, .wakeStart, .callFinish, .connMade,
    .wakeFinish, .data [.hresp (.hello true true)], .wakeFinish]).st = .connected := by decide +kernel

/-- HelloResponse + garbage in ONE chunk, then the finish task resumes with its successful inner
result before the interrupt callback runs: the state stays closed and the phase fails -/
example : let s := run {} [.callStart, .resolved true, .wakeStart, .sockDone true, .wakeStart, .callFinish, .connMade,
    .wakeFinish, .data [.hresp (.hello true true), .garbage], .wakeFinish, .cbFinish]
    s.st = .closed ∧ s.finish = .done (.err .protocol) ∧ s.pingArmed = false := by decide +kernel

/-- force_disconnect in the turn the socket connects -/
example : let s := run {} [.callStart, .resolved true, .wakeStart, .sockDone true, .force, .wakeStart, .cbStart]
    s.st = .closed ∧ s.start = .done (.err .unhandled) ∧ s.sockClosed = true := by decide +kernel

/-- a second start / finish on a used object is refused and changes nothing else -/
example : let s := run {} [.callStart, .resolved true, .wakeStart, .sockDone true, .wakeStart, .callStart, .callFinish,
    .connMade, .wakeFinish, .callFinish, .callStart]
    s.refused = 3 ∧ s.st = .hsDone := by decide +kernel

/-- a second `start_connection` while the first is still resolving is refused (the repaired duplicate call) -/
example : let s : State := run {} [.callStart, .callStart]
    s.refused = 1 ∧ s.start = .awaitResolve ∧ s.st = .init := by decide +kernel
/-- … and so is a second `finish_connection` while the first waits for the transport -/
example : let s : State := run {} [.callStart, .resolved true, .wakeStart, .sockDone true, .wakeStart, .callFinish, .callFinish]
    s.refused = 1 ∧ s.finish = .awaitTransport ∧ s.st = .sockOpen := by decide +kernel

/-- is this event a `start_connection` call that the object accepts in state `s` -/
def acceptsStart (s : State) : Ev → Bool
  | .callStart => s.st = .init ∧ s.start = .idle
  | _ => false

/-- how many `start_connection` calls are accepted along a history -/
def acceptCount : State → List Ev → Nat
  | _, [] => 0
  | s, e :: es => (if acceptsStart s e then 1 else 0) + acceptCount (step s e) es

theorem step_used (s : State) (e : Ev) (h : s.start ≠ .idle) : (step s e).start ≠ .idle :=
  (reach_used s _ (step_reach s e)).1 h

theorem acceptCount_le (s : State) (evs : List Ev) : acceptCount s evs ≤ (if s.start = .idle then 1 else 0) := by
  induction evs generalizing s with
  | nil => simp [acceptCount]
  | cons e es ih =>
    simp only [acceptCount]
    by_cases hs : s.start = .idle
    · simp only [hs, ↓reduceIte]
      by_cases ha : acceptsStart s e = true
      · have he : e = .callStart := by cases e <;> simp_all [acceptsStart]
        subst he
        have hst : s.st = .init := by simpa [acceptsStart, hs] using ha
        have hb := (c05_accept_begins s).1 hst hs
        have := ih (step s .callStart)
        simp only [hb, ↓reduceIte] at this
        simp [ha]; omega
      · have := ih (step s e)
        simp only [ha]
        split at this <;> simp <;> omega
    · have hn := step_used s e hs
      have := ih (step s e)
      simp only [hn, ↓reduceIte] at this
      have ha : acceptsStart s e = false := by cases e <;> simp_all [acceptsStart]
      simp [ha, hs]; omega

/-- **C05 (one connect attempt per object, counted).**  Along EVERY history of a connection object at most one
`start_connection` call is ever accepted. -/
theorem c05_one_attempt (noise login : Bool) (evs : List Ev) :
    acceptCount { noise := noise, login := login } evs ≤ 1 := by
  have := acceptCount_le { noise := noise, login := login } evs
  split at this <;> omega

example : acceptCount {} [.callStart, .callStart, .resolved false, .wakeStart, .callStart] = 1 := by decide +kernel

end Esp.C05
