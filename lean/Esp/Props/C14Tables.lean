import Esp.Gen.Proto
import Esp.Gen.Enums
import Esp.Gen.Fields
/-!
# C14 (table part) — model enums and classes mirror the wire schema

Stated over the generated tables (`Esp/Gen`, rewritten from /repo on every run): every
`APIIntEnum` subclass with `__members__` *including aliases*, every `APIModelBase` dataclass with
its field names, the api.proto enums and messages parsed from the text.
-/
namespace Esp.C14
open Esp Gen

def enumOf (tbl : List (Name × List (Name × Int))) (n : Name) : List (Name × Int) := (tbl.lookup n).getD []

/-- same set of numbers on both sides -/
def numbersOk (p : Name × Name) : Bool :=
  let m := (enumOf modelEnums p.1).map Prod.snd
  let w := (enumOf textEnums p.2).map Prod.snd
  m.all (w.contains ·) && w.all (m.contains ·)

/-- no two members of the model enum share a number (`__members__` lists aliases too) -/
def noAlias (p : Name × Name) : Bool :=
  let m := (enumOf modelEnums p.1).map Prod.snd
  m.length == m.eraseDups.length

/-- the naming rule: the wire member with the same number is called like the model member, or
`<PREFIX>_<model member>` -/
def nameOk (w : List (Name × Int)) (mem : Name × Int) : Bool :=
  w.any (fun x => x.2 == mem.2 && Name.endsWithSep x.1 mem.1)

/-- recorded, not repaired (public API name; see known_findings.json): `UpdateCommand.INSTALL`
names the wire value `UPDATE_COMMAND_UPDATE` -/
def knownNameExceptions : List (Name × Name) :=
  [("UpdateCommand".toList.map Char.toNat, "INSTALL".toList.map Char.toNat)]

def namesOk (p : Name × Name) : Bool :=
  (enumOf modelEnums p.1).all (fun mem =>
    nameOk (enumOf textEnums p.2) mem || knownNameExceptions.contains (p.1, mem.1))

/-- every model enum takes part -/
theorem c14_all_enums_paired : modelEnums.all (fun e => enumPairs.any (·.1 == e.1)) = true := by decide +kernel

/-- both sides of every pair exist -/
theorem c14_pairs_exist :
    enumPairs.all (fun p => (modelEnums.lookup p.1).isSome && (textEnums.lookup p.2).isSome) = true := by
  decide +kernel

/-- **C14 (enum values).**  For every (model enum, wire enum) pair: exactly the wire enum's numbers,
and no aliases. -/
theorem c14_enum_numbers : ∀ p ∈ enumPairs, numbersOk p = true ∧ noAlias p = true := by
  have h : enumPairs.all (fun p => numbersOk p && noAlias p) = true := by decide +kernel
  intro p hp
  have := List.all_eq_true.mp h p hp
  simpa [Bool.and_eq_true] using this

/-- **C14 (enum names) — partial**: every member is named like the wire member with its number,
*except* the recorded `knownNameExceptions` (full statement: the same with that list empty; it is
false today at `UpdateCommand.INSTALL`, see DESIGN §7 D7). -/
theorem c14_enum_names_partial : ∀ p ∈ enumPairs, namesOk p = true := by
  have h : enumPairs.all namesOk = true := by decide +kernel
  exact fun p hp => List.all_eq_true.mp h p hp

/-! ## classes -/

def classFields (c : Name) : List Name := ((modelClasses.lookup c).getD []).map Prod.fst
def messageFields (m : Name) : List Name := ((textFields.lookup m).getD []).map (·.1)

def fieldsOk (p : Name × Name) : Bool :=
  let a := classFields p.1
  let b := messageFields p.2
  a.all (b.contains ·) && b.all (a.contains ·) && a.length == a.eraseDups.length

/-- **C14 (field names).**  Every model class built from a wire message has exactly that
message's field names. -/
theorem c14_fields : ∀ p ∈ classPairs, fieldsOk p = true := by
  have h : classPairs.all fieldsOk = true := by decide +kernel
  exact fun p hp => List.all_eq_true.mp h p hp

theorem c14_class_pairs_exist :
    classPairs.all (fun p => (modelClasses.lookup p.1).isSome && (textFields.lookup p.2).isSome) = true := by
  decide +kernel

/-- the set of float fields presented with 7 significant digits is the pinned one: a dropped (or
added) converter is a change of presentation -/
theorem c14_designated_floats : floatFields = pinnedFloatFields := by decide +kernel

/-- converters are only of the kinds the conversion model (`Esp/Model/Convert.lean`) interprets -/
def knownKind (k : Name) : Bool :=
  let s := fun (x : String) => x.toList.map Char.toNat
  k == s "id" || k == s "float7" || k == s "list" || k == s "map" || k == s "uuid" ||
  (s "enum:").isPrefixOf k || (s "enumlist:").isPrefixOf k || (s "nested:").isPrefixOf k || (s "nestedlist:").isPrefixOf k

theorem c14_converter_kinds : modelClasses.all (fun c => c.2.all (fun f => knownKind f.2)) = true := by
  decide +kernel

/-! ### non-vacuity -/
example : 25 ≤ enumPairs.length ∧ 60 ≤ classPairs.length := by decide +kernel

end Esp.C14
