import Esp.Props.C08
import Esp.Model.Timing
import Esp.Gen.Consts
/-!
# C09 — operations end in bounded time with a classified error; first cause wins

Property theorems over the connection LTS `Esp.Conn`.  Quantifier: every event list — every fault
(resolve error / hang, connect error / hang, reset, EOF, garbage, silence, write failure, task
cancellation, wrong-order responses) at every atomic step of every operation, in any number.

Time: the LTS is untimed (a timer may fire whenever it is armed), so "bounded" is proved as the
safety statement *every suspended operation is guarded*: while an operation waits, either what it
waits for has already happened (its wake-up is due) or a timer that will end the wait is armed.
The exact deadlines are those of the armed timers (`Gen.Consts`; C10 and C11 prove exactness for
the keepalive and for requests).
-/
namespace Esp.C09
open Esp Conn

/-- while an operation is suspended it is *guarded*: a timer that ends the wait is armed, or the
wait is already over (result arrived / timer fired / a cancellation is due or about to be) -/
structure Guard (s : State) : Prop where
  g1 : s.start = .awaitResolve → s.resolveTimer = true ∨ s.startT.timedOut = true ∨ CancelDue s.startT ∨ s.resolveRes ≠ .none
  g2 : s.start = .awaitSocket → s.tcpTimer = true ∨ s.startT.timedOut = true ∨ CancelDue s.startT ∨ s.sockRes ≠ .none
  g3 : s.finish = .awaitReady → s.hsTimer = true ∨ s.ready ≠ .pending ∨ CancelDue s.finishT
  g4 : s.finish = .awaitHello → s.hello.timer = true ∨ s.hello.fut ≠ .pending ∨ CancelDue s.finishT
  g5 : s.disc = .awaitFinish → s.discWaitTimer = true ∨ s.discWaiterDone = true ∨ s.discCancel = true
  g6 : s.disc = .awaitResp → s.discReq.timer = true ∨ s.discReq.fut ≠ .pending

theorem init_guard (noise login : Bool) : Guard { noise := noise, login := login } := by
  constructor <;> simp

set_option maxHeartbeats 4000000 in
theorem prim_guard (a b : State) (h : Guard a) (p : Prim a b) : Guard b := by
  obtain ⟨g1, g2, g3, g4, g5, g6⟩ := h
  cases p <;>
    (constructor <;>
      simp only [cleanup, collect, aSetFatal, aWrite, aMark, aAlive, aDeliver, aReadyFail, aTrClose, aTrAbort, aLostRun,
        aDiscRespArr, aStartExit, aStartFutQuiet, aStartDone, aStartToSocket, startOkPath, aStartAttach, aStartFutCb, aSockOpened,
        aFinExit, aFinFutQuiet, aFinDone, aTrCancelled, aFhAttach, aFinToReady, aHsEnter, aHelloStart, aHelloFinally,
        helloOkPath, aKeepalive, aFinFutCb, aConnected, aDiscDone, aDiscRaw, aForceRaw, aDiscReqStart, aDiscWaitOver, aDiscCancelledW,
        aDiscCancelledR, aDiscReqFinally, aRefused, aStartBegin, aResolveSet, aSockSet, aSockFaulty, aSockFaultClose, aSockAttachOnly, aUserCancelStart, aFinishBegin,
        aConnMadeFail, aConnMadeOk, aReadyOk, aUserCancelFinish, aCbStart, aCbFinish, aDiscBegin, aCbDiscWait,
        aDiscCancelW, aDiscCancelR, aFireResolve, aFireTcp, aFireHs, aFireHello, aPingRearm, aPingPend, aPongOff,
        aFireDiscWait, aFireDiscResp, aSetWrite, startReq, finishReq, resolveReq, failWaiter, onInterrupt] <;>
      (repeat' split) <;> grind [StartPend, FinPend, CancelDue, StartDue, FinDue])

/-- the first fatal cause is never replaced -/
theorem prim_fatal (a b : State) (p : Prim a b) (f : Fatal) (h : a.fatal = some f) : b.fatal = some f := by
  cases p
  case setFatal => simp [aSetFatal, h]
  case collect r _ => simp only [collect]; (repeat' split) <;> exact h
  case finFutQuiet => simp only [aFinFutQuiet]; split <;> exact h
  case trCancelled => simp only [aTrCancelled]; split <;> exact h
  case startOk => simp only [startOkPath, aStartFutCb]; (repeat' split) <;> exact h
  case helloOk => simp only [helloOkPath, aFinFutCb]; (repeat' split) <;> exact h
  all_goals exact h

theorem reach_fatal (a b : State) (r : Reach a b) (f : Fatal) (h : a.fatal = some f) : b.fatal = some f := by
  induction r with
  | refl => exact h
  | snoc _ p ih => exact prim_fatal _ _ p f ih

theorem run_guard (noise login : Bool) (evs : List Ev) : Guard (run { noise := noise, login := login } evs) :=
  (run_reach _ evs).inv prim_guard (init_guard noise login)

/-- **C09 (never hangs).**  In every reachable state, every operation that is suspended is guarded:
resolving → the 30 s resolve timer is armed (or it already fired / a cancellation is due);
TCP connect → the 60 s timer; handshake → the 30 s handshake timer unless the helper's readiness is
already decided; hello/login → the request's 30 s timer unless its future is already resolved;
disconnect waiting for a connect phase → the 5 s timer unless the wait is over; disconnect request →
its 10 s timer unless resolved.  (The frame-helper set-up await has no timer: it completes in the
next loop turn.)  So no operation can wait past its timer. -/
theorem c09_guarded (noise login : Bool) (evs : List Ev) : Guard (run { noise := noise, login := login } evs) :=
  run_guard noise login evs

/-- **C09 (first cause wins).**  Once a fatal cause is recorded, no later event replaces it: every
waiter failed by `_cleanup`, and every connect phase interrupted by it, sees that cause
(`waiterErr` / `wrap` read `fatal`). -/
theorem c09_first_cause (noise login : Bool) (evs₁ evs₂ : List Ev) (f : Fatal) :
    let s := run { noise := noise, login := login } evs₁
    s.fatal = some f → (run s evs₂).fatal = some f :=
  fun h => reach_fatal _ _ (run_reach _ evs₂) f h

/-- e.g. requires-encryption is not masked by the socket-closed that follows it -/
theorem c09_wrap_uses_first_cause (s : State) (e : Err) (ex : Exc) (h : s.fatal = some (.api e)) (hx : ∀ e', ex ≠ .api e') :
    wrap s ex = e := by
  cases ex with
  | api e' => exact absurd rfl (hx e')
  | _ => simp [wrap, h]

/-- **C09 / C04 (a ServerHello naming another device).**  On a Noise session still waiting for the
handshake a ServerHello that names another device ends the session at once — closed, transport
released, the readiness wait failed — with `bad name` as THE cause (nothing recorded before), so by
`c09_wrap_uses_first_cause` the finish phase ends as `bad name` however it is woken: by the failed
readiness wait, by the interrupt callback running first (the frame arrived before the task had
begun to wait: the defect repaired by 6dd9259, where the library raised a raw TypeError), or by a
cancellation of the caller in the same turn.  The same frame on a plaintext session is
`requires encryption`. -/
theorem c09_wrong_name (s : State) (ps : List Pkt) (h : s.fatal = none) :
    (s.noise = true → s.ready = .pending →
      (feed s (.wrongName :: ps)).fatal = some (.api .badName) ∧ (feed s (.wrongName :: ps)).st = .closed ∧
      (feed s (.wrongName :: ps)).ready = .failed .badName ∧ (feed s (.wrongName :: ps)).transportOpen = false) ∧
    (s.noise = false →
      (feed s (.wrongName :: ps)).fatal = some (.api .requiresEncryption) ∧ (feed s (.wrongName :: ps)).st = .closed) := by
  refine ⟨fun hn hr => ?_, fun hn => ?_⟩
  · simp [feed, reportFatal, cleanup, aSetFatal, aReadyFail, aTrClose, h, hn, hr]
  · simp [feed, reportFatal, cleanup, aSetFatal, aReadyFail, aTrClose, h, hn]

/-- the frame arrives before the finish task has begun to wait for the handshake; the interrupt callback runs first -/
example : (run { noise := true } [.callStart, .resolved true, .wakeStart, .sockDone true, .wakeStart, .callFinish, .connMade,
    .data [.wrongName], .cbFinish, .lost, .wakeFinish]).finish = .done (.err .badName) := by decide +kernel
/-- the caller cancels in the turn the frame arrives -/
example : (run { noise := true } [.callStart, .resolved true, .wakeStart, .sockDone true, .wakeStart, .callFinish, .connMade,
    .wakeFinish, .data [.wrongName], .cancelFinish, .wakeFinish, .cbFinish, .lost]).finish = .done (.err .badName) := by decide +kernel
/-- a Noise device, a client configured for plaintext -/
example : (run {} [.callStart, .resolved true, .wakeStart, .sockDone true, .wakeStart, .callFinish, .connMade,
    .wakeFinish, .data [.wrongName], .wakeFinish]).finish = .done (.err .requiresEncryption) := by decide +kernel

/-- **C09 (classified).**  The outcome of a connect phase is `ok` or a library error by construction
of `wrap` (a non-library exception becomes UnhandledAPIConnectionError, a caller's cancellation
APIConnectionCancelledError, an OSError SocketAPIError — or the class of the first fatal cause);
what remains is `disconnect()` / `force_disconnect()`, which let a non-library exception escape
only from `send_messages` on a handshake-complete connection without a frame helper — a state
that is unreachable. -/
theorem c09_no_raw_escape (noise login : Bool) (evs : List Ev) :
    let s := run { noise := noise, login := login } evs
    s.discRaw = false ∧ (hsComplete s = true → s.fhSet = true) :=
  let h := C08.run_res noise login evs
  ⟨h.nr, h.f1⟩

/-- what each failed waiter is told: the first cause if it is a library error, ReadFailedAPIError
wrapping it otherwise, "Connection closed" if there is none -/
theorem c09_waiter_error : waiterErr none = .base ∧ (∀ e, waiterErr (some (.api e)) = e) ∧ waiterErr (some .raw) = .readFailed :=
  ⟨rfl, fun _ => rfl, rfl⟩

/-! ## non-vacuity -/

/-- garbage (protocol error) then the transport's connection_lost: the cause stays `protocol` -/
example : (run {} (C07.happy ++ [.data [.garbage], .lost, .eof, .firePong])).fatal = some (.api .protocol) := by
  decide +kernel
/-- a hello that never comes: the request timer is armed while the finish task waits -/
example : let s := run {} [.callStart, .resolved true, .wakeStart, .sockDone true, .wakeStart, .callFinish, .connMade, .wakeFinish]
    s.finish = .awaitHello ∧ s.hello.timer = true := by decide +kernel
example : (run {} [.callStart, .resolved true, .wakeStart, .sockDone true, .wakeStart, .callFinish, .connMade, .wakeFinish,
    .fireHello, .wakeFinish]).finish = .done (.err .timeout) := by decide +kernel
/-- wrong-order responses (ConnectResponse before HelloResponse) end in a library error, not a raw AttributeError -/
example : (run { login := true } [.callStart, .resolved true, .wakeStart, .sockDone true, .wakeStart, .callFinish, .connMade,
    .wakeFinish, .data [.hresp (.connect false), .hresp (.hello true true)], .wakeFinish]).finish =
    .done (.err .unhandled) := by decide +kernel

/-! ## the time bounds

The connection LTS above is untimed.  The time structure of each awaited operation is a sequence of guarded waits
(`Model/Timing.lean`); its constants are the library's (translator-generated), and the harness measures, in virtual
time, the completion instant of the real operations under scripted environments and compares it with `Timing.phase`. -/

open Timing in
/-- **C09 (bounded).**  Whatever the environment does — for every script of outcomes and delays, silence included —
a phase that begins at `t` is over by `t +` the sum of its guards. -/
theorem c09_bounded (t : Nat) (ws : List Nat) (evs : List Timing.Ev) : (phase t ws evs).1 ≤ t + ws.sum := by
  induction ws generalizing t evs with
  | nil => simp [phase]
  | cons b ws ih =>
    cases evs with
    | nil => simp [phase]
    | cons e es =>
      simp only [phase, List.sum_cons]
      split
      · omega
      · split
        · have := ih (t + e.d) es; omega
        · omega
      · split <;> omega

open Timing in
/-- … and it ends with success only if every wait was answered in time -/
theorem c09_success_iff (t : Nat) (ws : List Nat) (evs : List Timing.Ev) (h : (phase t ws evs).2 = .success) :
    ws.length ≤ evs.length ∧ ∀ i (hi : i < ws.length) (hj : i < evs.length), evs[i].o = .ok ∧ evs[i].d < ws[i] := by
  induction ws generalizing t evs with
  | nil => exact ⟨by simp, fun i hi => by simp at hi⟩
  | cons b ws ih =>
    cases evs with
    | nil => simp [phase] at h
    | cons e es =>
      simp only [phase] at h
      split at h
      · simp at h
      · rename_i ho
        split at h
        · rename_i hd
          obtain ⟨hl, hall⟩ := ih (t + e.d) es h
          refine ⟨by simp; omega, ?_⟩
          intro i hi hj
          cases i with
          | zero => exact ⟨ho, hd⟩
          | succ i => simpa using hall i (by simpa using hi) (by simpa using hj)
        · simp at h
      · split at h <;> simp at h

open Timing in
/-- a wait that is never answered ends the phase exactly at its own deadline with the timeout error -/
theorem c09_silent_exact (t : Nat) (b : Nat) (ws : List Nat) (es : List Timing.Ev) (d : Nat) :
    phase t (b :: ws) (⟨.silent, d⟩ :: es) = (t + b, .timedOut) := by simp [phase]

open Timing in
/-- the guards are the library's constants (regenerated from /repo on every run), so the documented bounds are
90 s for `start_connection`, 60 s for `finish_connection`, 10 s (15 s while a finish is in progress) for `disconnect` -/
theorem c09_consts :
    startWaits = [Gen.resolveTimeout.1.toNat, Gen.tcpConnectTimeout.1.toNat] ∧
    finishWaits = [Gen.handshakeTimeout.1.toNat, Gen.connectRequestTimeout.1.toNat] ∧
    discDuringFinishWaits = [Gen.disconnectConnectTimeout.1.toNat, Gen.disconnectResponseTimeout.1.toNat] ∧
    discWaits = [Gen.disconnectResponseTimeout.1.toNat] ∧
    Gen.resolveTimeout.2 = 1 ∧ Gen.tcpConnectTimeout.2 = 1 ∧ Gen.handshakeTimeout.2 = 1 ∧ Gen.connectRequestTimeout.2 = 1 ∧
    Gen.disconnectConnectTimeout.2 = 1 ∧ Gen.disconnectResponseTimeout.2 = 1 ∧
    startWaits.sum = 90 ∧ finishWaits.sum = 60 ∧ discDuringFinishWaits.sum = 15 := by decide

example : Timing.phase 100 Timing.startWaits [⟨.ok, 29⟩, ⟨.silent, 0⟩] = (189, .timedOut) := by decide
example : Timing.phase 0 Timing.finishWaits [⟨.ok, 3⟩, ⟨.err, 7⟩] = (10, .failed) := by decide
example : Timing.phase 0 Timing.finishWaits [⟨.ok, 3⟩, ⟨.ok, 30⟩] = (33, .timedOut) := by decide

end Esp.C09
