import Esp.Props.C05
/-!
# C07 — stop callback exactly once per established session, with the right reason

Property theorems over the connection LTS `Esp.Conn`.  Quantifier: every event list — all
sequences of close causes (peer disconnect request, local disconnect / force, EOF, reset, write
error, ping timeout, protocol error) in every order and multiplicity, at every lifecycle stage.
`graceful` is the history variable "a local disconnect / force-disconnect call has been made, or a
DisconnectRequest from the device has been dispatched"; `gracefulAtClose` is its value at the step
that closed the connection.
-/
namespace Esp.C07
open Esp Conn

/-- what one primitive does to the stop-callback view of the state -/
inductive Stop (a b : State) : Prop
  | same (h1 : b.st = a.st) (h2 : b.stops = a.stops) (h3 : b.onStopHeld = a.onStopHeld)
      (h4 : b.everConnected = a.everConnected) (h5 : b.expected = a.expected) (h6 : b.graceful = a.graceful)
      (h7 : b.gracefulAtClose = a.gracefulAtClose)
  | mark (h1 : b.st = a.st) (h2 : b.stops = a.stops) (h3 : b.onStopHeld = a.onStopHeld)
      (h4 : b.everConnected = a.everConnected) (h5 : b.expected = true) (h6 : b.graceful = true)
      (h7 : b.gracefulAtClose = a.gracefulAtClose)
  | clean (h1 : b.st = .closed)
      (h2 : b.stops = if a.onStopHeld ∧ a.st = .connected then a.stops ++ [a.expected] else a.stops)
      (h3 : b.onStopHeld = (a.onStopHeld && !decide (a.st = .connected)))
      (h4 : b.everConnected = a.everConnected) (h5 : b.expected = a.expected) (h6 : b.graceful = a.graceful)
      (h7 : b.gracefulAtClose = if a.st = .closed then a.gracefulAtClose else some a.graceful)
  | advance (g : a.st = .init ∨ a.st = .sockOpen ∨ a.st = .hsDone) (gn : b.st = .sockOpen ∨ b.st = .hsDone) (h2 : b.stops = a.stops)
      (h3 : b.onStopHeld = a.onStopHeld) (h4 : b.everConnected = a.everConnected) (h5 : b.expected = a.expected)
      (h6 : b.graceful = a.graceful) (h7 : b.gracefulAtClose = a.gracefulAtClose)
  | connected (g : a.st = .hsDone) (h1 : b.st = .connected) (h2 : b.stops = a.stops) (h3 : b.onStopHeld = a.onStopHeld)
      (h4 : b.everConnected = true) (h5 : b.expected = a.expected) (h6 : b.graceful = a.graceful)
      (h7 : b.gracefulAtClose = a.gracefulAtClose)

set_option maxHeartbeats 1000000 in
theorem prim_stop (a b : State) (hl : C05.Inv a) (p : Prim a b) : Stop a b := by
  cases p
  case cleanup => exact .clean rfl rfl (by simp [cleanup]) rfl rfl rfl rfl
  case sockFaultClose => exact .clean rfl rfl (by simp [aSockFaultClose, cleanup, aStartExit, aSockAttachOnly]; rfl) rfl rfl rfl rfl
  case mark => exact .mark rfl rfl rfl rfl rfl rfl rfl
  case startOk g =>
    have e1 : ∀ x : State, (aStartFutCb x).st = x.st ∧ (aStartFutCb x).stops = x.stops ∧ (aStartFutCb x).onStopHeld = x.onStopHeld ∧
        (aStartFutCb x).everConnected = x.everConnected ∧ (aStartFutCb x).expected = x.expected ∧
        (aStartFutCb x).graceful = x.graceful ∧ (aStartFutCb x).gracefulAtClose = x.gracefulAtClose := by
      intro x; simp only [aStartFutCb]; split <;> simp
    have hx : startOkPath a = (if (aStartFutCb (aStartAttach a)).st = .closed
        then aStartDone (.err (wrap (cleanup (aStartFutCb (aStartAttach a))) .interrupted)) (cleanup (aStartFutCb (aStartAttach a)))
        else aSockOpened (aStartFutCb (aStartAttach a))) := rfl
    obtain ⟨f1, f2, f3, f4, f5, f6, f7⟩ := e1 (aStartAttach a)
    have f1' : (aStartFutCb (aStartAttach a)).st = a.st := f1
    have f2' : (aStartFutCb (aStartAttach a)).stops = a.stops := f2
    have f3' : (aStartFutCb (aStartAttach a)).onStopHeld = a.onStopHeld := f3
    have f4' : (aStartFutCb (aStartAttach a)).everConnected = a.everConnected := f4
    have f5' : (aStartFutCb (aStartAttach a)).expected = a.expected := f5
    have f6' : (aStartFutCb (aStartAttach a)).graceful = a.graceful := f6
    have f7' : (aStartFutCb (aStartAttach a)).gracefulAtClose = a.gracefulAtClose := f7
    rw [hx]
    generalize aStartFutCb (aStartAttach a) = y at *
    by_cases hc : a.st = .closed
    · rw [if_pos (f1'.trans hc)]
      refine .clean rfl ?_ ?_ ?_ ?_ ?_ ?_ <;> simp [aStartDone, cleanup, f1', f2', f3', f4', f5', f6', f7']
    · rw [if_neg (by rw [f1']; exact hc)]
      have hin : a.st = .init := by
        rcases hl.startPend (Or.inr g) with h | h
        · exact h
        · exact absurd h hc
      exact .advance (Or.inl hin) (Or.inl rfl) f2' f3' f4' f5' f6' f7'
  case hsEnter g1 g2 _ _ =>
    refine .advance ?_ (Or.inr rfl) rfl rfl rfl rfl rfl rfl
    rcases hl.finTr g1 with h | h | h
    · exact Or.inr (Or.inl h)
    · exact Or.inr (Or.inr h)
    · exact absurd h g2
  case helloOk g _ =>
    have e1 : ∀ x : State, (aFinFutCb x).st = x.st ∧ (aFinFutCb x).stops = x.stops ∧ (aFinFutCb x).onStopHeld = x.onStopHeld ∧
        (aFinFutCb x).everConnected = x.everConnected ∧ (aFinFutCb x).expected = x.expected ∧
        (aFinFutCb x).graceful = x.graceful ∧ (aFinFutCb x).gracefulAtClose = x.gracefulAtClose := by
      intro x; simp only [aFinFutCb]; split <;> simp
    have hx : helloOkPath a = (if (aFinFutCb (aKeepalive a)).st = .closed
        then aFinDone (.err (wrap (cleanup (aFinFutCb (aKeepalive a))) .interrupted)) (cleanup (aFinFutCb (aKeepalive a)))
        else aConnected (aFinFutCb (aKeepalive a))) := rfl
    obtain ⟨f1, f2, f3, f4, f5, f6, f7⟩ := e1 (aKeepalive a)
    have f1' : (aFinFutCb (aKeepalive a)).st = a.st := f1
    have f2' : (aFinFutCb (aKeepalive a)).stops = a.stops := f2
    have f3' : (aFinFutCb (aKeepalive a)).onStopHeld = a.onStopHeld := f3
    have f4' : (aFinFutCb (aKeepalive a)).everConnected = a.everConnected := f4
    have f5' : (aFinFutCb (aKeepalive a)).expected = a.expected := f5
    have f6' : (aFinFutCb (aKeepalive a)).graceful = a.graceful := f6
    have f7' : (aFinFutCb (aKeepalive a)).gracefulAtClose = a.gracefulAtClose := f7
    rw [hx]
    generalize aFinFutCb (aKeepalive a) = y at *
    by_cases hc : a.st = .closed
    · rw [if_pos (f1'.trans hc)]
      refine .clean rfl ?_ ?_ ?_ ?_ ?_ ?_ <;> simp [aFinDone, cleanup, f1', f2', f3', f4', f5', f6', f7']
    · rw [if_neg (by rw [f1']; exact hc)]
      have hin : a.st = .hsDone := by
        rcases hl.finHello g with h | h
        · exact h
        · exact absurd h hc
      exact .connected hin rfl f2' f3' rfl f5' f6' f7'
  case collect r _ => refine .same ?_ ?_ ?_ ?_ ?_ ?_ ?_ <;> (simp only [collect]; (repeat' split) <;> rfl)
  case finFutQuiet => refine .same ?_ ?_ ?_ ?_ ?_ ?_ ?_ <;> (simp only [aFinFutQuiet]; split <;> rfl)
  case trCancelled => refine .same ?_ ?_ ?_ ?_ ?_ ?_ ?_ <;> (simp only [aTrCancelled]; split <;> rfl)
  all_goals exact .same rfl rfl rfl rfl rfl rfl rfl

structure Inv (s : State) : Prop where
  c1 : s.stops.length ≤ 1
  c2 : s.onStopHeld = true ↔ s.stops = []
  c3 : s.everConnected = false → s.stops = []
  c4 : s.st = .connected → s.everConnected = true
  c5 : s.everConnected = true → s.st = .connected ∨ s.st = .closed
  c6 : s.everConnected = true → s.st = .closed → s.stops.length = 1
  c7 : s.expected = s.graceful
  c8 : s.st ≠ .closed → s.gracefulAtClose = none
  c9 : s.st = .closed → s.gracefulAtClose ≠ none
  c10 : ∀ b, s.stops = [b] → s.gracefulAtClose = some b
  c11 : s.stops ≠ [] → s.st = .closed

theorem init_inv (noise login : Bool) : Inv { noise := noise, login := login } := by
  constructor <;> simp

theorem stop_inv (a b : State) (h : Inv a) (l : Stop a b) : Inv b := by
  obtain ⟨c1, c2, c3, c4, c5, c6, c7, c8, c9, c10, c11⟩ := h
  cases l with
  | same h1 h2 h3 h4 h5 h6 h7 => constructor <;> grind
  | mark h1 h2 h3 h4 h5 h6 h7 => constructor <;> grind
  | advance g gn h2 h3 h4 h5 h6 h7 => constructor <;> grind
  | connected g h1 h2 h3 h4 h5 h6 h7 => constructor <;> grind
  | clean h1 h2 h3 h4 h5 h6 h7 =>
    by_cases hh : a.onStopHeld = true ∧ a.st = .connected
    · obtain ⟨hh1, hh2⟩ := hh
      have hs : a.stops = [] := c2.mp hh1
      simp only [hh1, hh2, and_self, ↓reduceIte, hs, List.nil_append] at h2
      constructor <;> grind
    · rw [if_neg hh] at h2
      constructor <;> grind


/-- both invariants together along every chain of primitives -/
theorem reach_inv (a b : State) (h1 : C05.Inv a) (h2 : Inv a) (r : Reach a b) : C05.Inv b ∧ Inv b := by
  induction r with
  | refl => exact ⟨h1, h2⟩
  | snoc _ p ih => exact ⟨C05.prim_inv _ _ ih.1 p, stop_inv _ _ ih.2 (prim_stop _ _ ih.1 p)⟩

theorem run_inv (noise login : Bool) (evs : List Ev) : Inv (run { noise := noise, login := login } evs) :=
  (reach_inv _ _ (C05.init_inv noise login) (init_inv noise login) (run_reach _ evs)).2

/-! ## the property theorems (every event list) -/

/-- **C07 (at most once).** -/
theorem c07_at_most_once (noise login : Bool) (evs : List Ev) :
    (run { noise := noise, login := login } evs).stops.length ≤ 1 := (run_inv noise login evs).c1

/-- **C07 (exactly once iff a session was established and has ended).**  The stop callback has been
invoked (exactly once) iff the connection reached the connected state at some point and is now
closed; a connection that never reached connected never invokes it, however it fails. -/
theorem c07_exactly (noise login : Bool) (evs : List Ev) :
    let s := run { noise := noise, login := login } evs
    (s.stops.length = 1 ↔ (s.everConnected = true ∧ s.st = .closed)) ∧ (s.everConnected = false → s.stops = []) := by
  intro s
  have h := run_inv noise login evs
  refine ⟨⟨fun hl => ?_, fun ⟨h1, h2⟩ => h.c6 h1 h2⟩, h.c3⟩
  have hne : s.stops ≠ [] := by intro hc; rw [hc] at hl; simp at hl
  refine ⟨?_, h.c11 hne⟩
  cases he : s.everConnected with
  | true => rfl
  | false => exact absurd (h.c3 he) hne

/-- **C07 (the right reason).**  The argument the callback received is the value the history
variable `graceful` had at the step that closed the connection: true iff a local disconnect or
force-disconnect call had been made, or a DisconnectRequest from the device had been dispatched,
before the connection closed.  (`expected = graceful` at every point: the marker is exactly
that history.) -/
theorem c07_reason (noise login : Bool) (evs : List Ev) (b : Bool) :
    let s := run { noise := noise, login := login } evs
    (s.stops = [b] → s.gracefulAtClose = some b) ∧ s.expected = s.graceful ∧
    (s.st ≠ .closed → s.gracefulAtClose = none) := by
  intro s
  have h := run_inv noise login evs
  exact ⟨h.c10 b, h.c7, h.c8⟩

/-! ## non-vacuity -/

def happy : List Ev := [.callStart, .resolved true, .wakeStart, .sockDone true, .wakeStart, .callFinish, .connMade,
    .wakeFinish, .data [.hresp (.hello true true)], .wakeFinish]

/-- three close causes in a row after an established session: one call, unexpected -/
example : (run {} (happy ++ [.reset, .lost, .eof, .firePong, .force])).stops = [false] := by decide +kernel
/-- peer DisconnectRequest, then reset, then a local disconnect: one call, expected -/
example : (run {} (happy ++ [.data [.discReq], .reset, .lost, .callDisc])).stops = [true] := by decide +kernel
/-- disconnect() called while the connect is finishing, connect finishes, reset before the
disconnect task resumes: expected (the marker is set on entry) -/
example : (run {} [.callStart, .resolved true, .wakeStart, .sockDone true, .wakeStart, .callFinish, .connMade,
    .wakeFinish, .callDisc, .data [.hresp (.hello true true)], .wakeFinish, .reset, .lost]).stops = [true] := by
  decide +kernel
/-- a connection that fails during the hello never invokes the callback -/
example : (run {} [.callStart, .resolved true, .wakeStart, .sockDone true, .wakeStart, .callFinish, .connMade,
    .wakeFinish, .data [.hresp (.hello false true)], .wakeFinish, .force, .eof]).stops = [] := by decide +kernel

end Esp.C07
