import Esp.Model.Conn
namespace Esp.C07
theorem placeholder : True := trivial
end Esp.C07
