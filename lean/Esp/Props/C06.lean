import Esp.Props.C08
import Esp.Model.Session
/-!
# C06 — sessions only with a compatible, correctly named, authenticated device

Property theorems.  The decision is the pure function `Conn.judge` (mirror of
`_connect_hello_login` after its await + `_process_hello_resp` + `_process_login_response`) fed by
the collector `Conn.collect`; `versionOk` / `nameOk` are the two tests the HelloResponse goes through.
-/
namespace Esp.C06
open Esp Conn

/-- **C06 (accept iff).**  The responses are accepted iff the first collected response is a
HelloResponse with a supported major version and an acceptable name and — when login is requested —
it is followed by a ConnectResponse that does not flag the password invalid. -/
theorem c06_judge_none_iff (login : Bool) (rs : List HResp) :
    judge login rs = none ↔
      ∃ rest, rs = .hello true true :: rest ∧ (login = true → ∃ rest', rest = .connect false :: rest') := by
  constructor
  · intro h
    cases rs with
    | nil => simp [judge] at h
    | cons r rest =>
      cases r with
      | connect i => simp [judge] at h
      | hello m n =>
        cases m <;> cases n <;> simp [judge] at h
        refine ⟨rest, rfl, fun hl => ?_⟩
        simp only [hl, ↓reduceIte] at h
        cases rest with
        | nil => simp at h
        | cons r2 rest2 =>
          cases r2 with
          | hello _ _ => simp at h
          | connect i => cases i <;> simp at h; exact ⟨rest2, rfl⟩
  · rintro ⟨rest, rfl, hl⟩
    cases login with
    | false => simp [judge]
    | true => obtain ⟨rest', rfl⟩ := hl rfl; simp [judge]

/-- **C06 (specific error).**  Unsupported major version → the base connection error
("Incompatible API version"); otherwise a differing name → BadNameAPIError; otherwise, with login,
a flagged password → InvalidAuthAPIError. -/
theorem c06_reject_class (login : Bool) (m n : Bool) (rest : List HResp) :
    (m = false → judge login (.hello m n :: rest) = some (.api .base)) ∧
    (m = true → n = false → judge login (.hello m n :: rest) = some (.api .badName)) ∧
    (m = true → n = true → login = true → ∀ rest', rest = .connect true :: rest' →
      judge login (.hello m n :: rest) = some (.api .invalidAuth)) := by
  refine ⟨?_, ?_, ?_⟩
  · intro h; subst h; simp [judge]
  · intro h1 h2; subst h1; subst h2; simp [judge]
  · intro h1 h2 h3 rest' h4; subst h1; subst h2; subst h3; subst h4; simp [judge]

/-- the version test is on the major number alone; the name test accepts an unannounced (empty)
name and any name when none is expected -/
theorem c06_tests (major : Nat) (expected : Option (List Nat)) (received : List Nat) :
    (versionOk major = true ↔ major ≤ 2) ∧
    (nameOk expected received = true ↔ (received = [] ∨ expected = none ∨ expected = some received)) := by
  constructor
  · simp [versionOk]
  · cases expected <;> cases received <;> simp [nameOk]

/-- the lifecycle: a finish phase only ever completes successfully through `helloOkPath`, i.e.
after `judge` accepted what the collector gathered; a rejecting verdict closes the connection
with exactly that error and never invokes the stop callback (`C07.c07_exactly`: the connection
never reached connected) -/
theorem c06_reject_closes (s : State) (e : Err) (h1 : s.finish = .awaitHello) (h2 : cancelExc s.finishT = none)
    (h3 : s.hello.fut = .ok) (h4 : judge s.login s.collected = some (.api e)) :
    (step s .wakeFinish).finish = .done (.err e) ∧ (step s .wakeFinish).st = .closed ∧
    (step s .wakeFinish).stops = (if s.onStopHeld ∧ s.st = .connected then s.stops ++ [s.expected] else s.stops) := by
  simp only [step, stepFinish, h1, h2, h3, h4, failFinish, aFinDone, aFinFutQuiet, wrap]
  refine ⟨?_, ?_, ?_⟩ <;> (try split) <;> (try simp [cleanup, aFinExit, aHelloFinally]) <;> (try rfl)

theorem c06_accept_connects (s : State) (h1 : s.finish = .awaitHello) (h2 : cancelExc s.finishT = none)
    (h3 : s.hello.fut = .ok) (h4 : judge s.login s.collected = none) (h5 : s.st ≠ .closed) :
    (step s .wakeFinish).finish = .done .ok ∧ (step s .wakeFinish).st = .connected := by
  have hst : (aFinFutCb (aKeepalive (aHelloFinally s))).st = s.st := by
    simp only [aFinFutCb]; split <;> simp [aKeepalive, aHelloFinally]
  simp only [step, stepFinish, h1, h2, h3, h4, helloOkPath]
  rw [if_neg (by rw [hst]; exact h5)]
  simp [aConnected]

/-! ## non-vacuity -/
example : judge true [.hello true true, .connect false] = none := by decide
example : judge false [.hello true true] = none := by decide
example : judge true [.hello true true, .connect true] = some (.api .invalidAuth) := by decide
example : judge false [.hello false false] = some (.api .base) := by decide   -- the version error comes first
example : nameOk (some [100, 101, 118]) [] = true ∧ nameOk (some [100]) [101] = false ∧ nameOk none [101] = true := by decide

/-- `c06_reject_closes` does not ask for an open connection: a device that hangs up in the very turn of its rejecting answer
(EOF or reset before the connect task resumes; the fatal cause on record is then "socket closed") still gets the specific
error out of `finish_connection`, and no stop callback -/
example :
    let pre : List Ev := [.callStart, .resolved true, .wakeStart, .sockDone true, .wakeStart, .cbStart, .callFinish, .connMade, .wakeFinish]
    let answer : Ev := .data [.hresp (.hello true true), .hresp (.connect true)]
    let s1 := run { login := true } (pre ++ [answer, .eof, .wakeFinish])
    let s2 := run { login := true } (pre ++ [answer, .reset, .lost, .wakeFinish])
    (run { login := true } (pre ++ [answer, .eof])).fatal = some (.api .socketClosed) ∧
    s1.finish = .done (.err .invalidAuth) ∧ s1.st = .closed ∧ s1.stops = [] ∧
    s2.finish = .done (.err .invalidAuth) ∧ s2.st = .closed ∧ s2.stops = [] := by decide +kernel

/-- **C06 (sessions, plaintext and noise).**  Connecting is accepted iff the major version is supported, every name the device
gave matches an expected name (the noise ServerHello name when announced — even an empty one; the HelloResponse name when
non-empty), and — with login — the password was not flagged. -/
theorem c06_session_iff (noise : Bool) (announced expected : Option (List Nat)) (login : Bool) (major : Nat) (name : List Nat)
    (invalid : Bool) :
    judgeSession noise announced expected login major name invalid = .accept ↔
      (noise = true → serverNameOk expected announced = true) ∧ major ≤ 2 ∧ nameOk expected name = true ∧
      (login = true → invalid = false) := by
  unfold judgeSession judge versionOk
  by_cases hn : noise = true ∧ (!serverNameOk expected announced) = true
  · rw [if_pos hn]
    constructor
    · intro h; cases h
    · intro h; have := h.1 hn.1; simp [this] at hn
  · rw [if_neg hn]
    have hsn : noise = true → serverNameOk expected announced = true := by
      intro h1; cases h2 : serverNameOk expected announced <;> simp_all
    by_cases hm : major ≤ 2 <;> cases hk : nameOk expected name <;> cases login <;> cases invalid <;> simp_all

/-- the specific errors, in the order they are checked: the noise ServerHello name first (nothing has been sent yet), then
version, HelloResponse name, password -/
theorem c06_session_errors (noise : Bool) (announced expected : Option (List Nat)) (login : Bool) (major : Nat) (name : List Nat)
    (invalid : Bool) :
    (noise = true → serverNameOk expected announced = false →
      judgeSession noise announced expected login major name invalid = .badServerName) ∧
    ((noise = true → serverNameOk expected announced = true) →
      (2 < major → judgeSession noise announced expected login major name invalid = .reject (.api .base)) ∧
      (major ≤ 2 → nameOk expected name = false →
        judgeSession noise announced expected login major name invalid = .reject (.api .badName)) ∧
      (major ≤ 2 → nameOk expected name = true → login = true → invalid = true →
        judgeSession noise announced expected login major name invalid = .reject (.api .invalidAuth))) := by
  unfold judgeSession judge versionOk
  constructor
  · intro h1 h2; simp [h1, h2]
  · intro hs
    have hn : ¬(noise = true ∧ (!serverNameOk expected announced) = true) := by
      intro ⟨h1, h2⟩; simp [hs h1] at h2
    rw [if_neg hn]
    refine ⟨fun hm => ?_, fun hm hk => ?_, fun hm hk hl hi => ?_⟩
    · have : ¬ major ≤ 2 := by omega
      simp [this]
    · simp [hm, hk]
    · simp [hm, hk, hl, hi]

example : serverNameOk (some [1, 2]) none = true ∧ serverNameOk (some [1, 2]) (some []) = false ∧
    serverNameOk none (some [9]) = true ∧ nameOk (some [1, 2]) [] = true := by decide

end Esp.C06
