import Esp.Props.C08
/-!
# C06 — sessions only with a compatible, correctly named, authenticated device

Property theorems.  The decision is the pure function `Conn.judge` (mirror of
`_connect_hello_login` after its await + `_process_hello_resp` + `_process_login_response`) fed by
the collector `Conn.collect`; `versionOk` / `nameOk` are the two tests the HelloResponse goes through.
-/
namespace Esp.C06
open Esp Conn

/-- **C06 (accept iff).**  The responses are accepted iff the first collected response is a
HelloResponse with a supported major version and an acceptable name and — when login is requested —
it is followed by a ConnectResponse that does not flag the password invalid. -/
theorem c06_judge_none_iff (login : Bool) (rs : List HResp) :
    judge login rs = none ↔
      ∃ rest, rs = .hello true true :: rest ∧ (login = true → ∃ rest', rest = .connect false :: rest') := by
  constructor
  · intro h
    cases rs with
    | nil => simp [judge] at h
    | cons r rest =>
      cases r with
      | connect i => simp [judge] at h
      | hello m n =>
        cases m <;> cases n <;> simp [judge] at h
        refine ⟨rest, rfl, fun hl => ?_⟩
        simp only [hl, ↓reduceIte] at h
        cases rest with
        | nil => simp at h
        | cons r2 rest2 =>
          cases r2 with
          | hello _ _ => simp at h
          | connect i => cases i <;> simp at h; exact ⟨rest2, rfl⟩
  · rintro ⟨rest, rfl, hl⟩
    cases login with
    | false => simp [judge]
    | true => obtain ⟨rest', rfl⟩ := hl rfl; simp [judge]

/-- **C06 (specific error).**  Unsupported major version → the base connection error
("Incompatible API version"); otherwise a differing name → BadNameAPIError; otherwise, with login,
a flagged password → InvalidAuthAPIError. -/
theorem c06_reject_class (login : Bool) (m n : Bool) (rest : List HResp) :
    (m = false → judge login (.hello m n :: rest) = some (.api .base)) ∧
    (m = true → n = false → judge login (.hello m n :: rest) = some (.api .badName)) ∧
    (m = true → n = true → login = true → ∀ rest', rest = .connect true :: rest' →
      judge login (.hello m n :: rest) = some (.api .invalidAuth)) := by
  refine ⟨?_, ?_, ?_⟩
  · intro h; subst h; simp [judge]
  · intro h1 h2; subst h1; subst h2; simp [judge]
  · intro h1 h2 h3 rest' h4; subst h1; subst h2; subst h3; subst h4; simp [judge]

/-- the version test is on the major number alone; the name test accepts an unannounced (empty)
name and any name when none is expected -/
theorem c06_tests (major : Nat) (expected : Option (List Nat)) (received : List Nat) :
    (versionOk major = true ↔ major ≤ 2) ∧
    (nameOk expected received = true ↔ (received = [] ∨ expected = none ∨ expected = some received)) := by
  constructor
  · simp [versionOk]
  · cases expected <;> cases received <;> simp [nameOk]

/-- the lifecycle: a finish phase only ever completes successfully through `helloOkPath`, i.e.
after `judge` accepted what the collector gathered; a rejecting verdict closes the connection
with exactly that error and never invokes the stop callback (`C07.c07_exactly`: the connection
never reached connected) -/
theorem c06_reject_closes (s : State) (e : Err) (h1 : s.finish = .awaitHello) (h2 : cancelExc s.finishT = none)
    (h3 : s.hello.fut = .ok) (h4 : judge s.login s.collected = some (.api e)) :
    (step s .wakeFinish).finish = .done (.err e) ∧ (step s .wakeFinish).st = .closed ∧
    (step s .wakeFinish).stops = (if s.onStopHeld ∧ s.st = .connected then s.stops ++ [s.expected] else s.stops) := by
  simp only [step, stepFinish, h1, h2, h3, h4, failFinish, aFinDone, aFinFutQuiet, wrap]
  refine ⟨?_, ?_, ?_⟩ <;> (try split) <;> (try simp [cleanup, aFinExit, aHelloFinally]) <;> (try rfl)

theorem c06_accept_connects (s : State) (h1 : s.finish = .awaitHello) (h2 : cancelExc s.finishT = none)
    (h3 : s.hello.fut = .ok) (h4 : judge s.login s.collected = none) (h5 : s.st ≠ .closed) :
    (step s .wakeFinish).finish = .done .ok ∧ (step s .wakeFinish).st = .connected := by
  have hst : (aFinFutCb (aKeepalive (aHelloFinally s))).st = s.st := by
    simp only [aFinFutCb]; split <;> simp [aKeepalive, aHelloFinally]
  simp only [step, stepFinish, h1, h2, h3, h4, helloOkPath]
  rw [if_neg (by rw [hst]; exact h5)]
  simp [aConnected]

/-! ## non-vacuity -/
example : judge true [.hello true true, .connect false] = none := by decide
example : judge false [.hello true true] = none := by decide
example : judge true [.hello true true, .connect true] = some (.api .invalidAuth) := by decide
example : judge false [.hello false false] = some (.api .base) := by decide   -- the version error comes first
example : nameOk (some [100, 101, 118]) [] = true ∧ nameOk (some [100]) [101] = false ∧ nameOk none [101] = true := by decide

end Esp.C06
