import Esp.Model.Convert
import Esp.Props.C14Tables
/-!
# C14 (conversion part) — conversion is total and value-preserving

Model: `Esp.Convert` (`Esp/Model/Convert.lean`), a generic interpreter of the generated class /
enum tables.  All arithmetic is exact (integers); no `Float`.
-/
set_option exponentiation.threshold 500
namespace Esp.C14
open Esp Esp.Convert

/-! ## rounding -/

/-- round-half-even is within half a unit: `|r·b − a| ≤ b/2` -/
theorem roundHalfEven_close (a : Int) (b : Nat) (hb : 0 < b) :
    2 * (roundHalfEven a b * b - a) ≤ b ∧ -(b : Int) ≤ 2 * (roundHalfEven a b * b - a) := by
  have hb' : (0 : Int) < b := by exact_mod_cast hb
  have hdiv := Int.mul_ediv_add_emod a b
  have hne : (b : Int) ≠ 0 := by omega
  have h0 := Int.emod_nonneg a hne
  have h1 := Int.emod_lt_of_pos a hb'
  have hc : a / (b : Int) * b = b * (a / b) := Int.mul_comm _ _
  unfold roundHalfEven
  simp only
  split
  · rw [hc]; omega
  · split
    · rw [Int.add_mul, hc]; omega
    · split
      · rw [hc]; omega
      · rw [Int.add_mul, hc]; omega

/-- an exact tie goes to the even neighbour -/
theorem roundHalfEven_tie (a : Int) (b : Nat) (h : 2 * (a % (b : Int)) = b) : roundHalfEven a b % 2 = 0 := by
  unfold roundHalfEven
  simp only
  have h1 : ¬ (2 * (a % (b : Int)) < b) := by omega
  have h2 : ¬ (2 * (a % (b : Int)) > b) := by omega
  simp only [h1, h2, ↓reduceIte]
  split
  · assumption
  · omega

/-- an integer is its own rounding: rounding is idempotent on representable values -/
theorem roundHalfEven_exact (k : Int) (b : Nat) (hb : 0 < b) : roundHalfEven (k * b) b = k := by
  have hb' : (0 : Int) < b := by exact_mod_cast hb
  unfold roundHalfEven
  have hne : (b : Int) ≠ 0 := by omega
  simp only [Int.mul_emod_left, Int.mul_ediv_cancel _ hne]
  have : (2 : Int) * 0 < b := by omega
  simp only [this, ↓reduceIte]

/-- **C14 (float presentation, closeness).**  For every finite non-zero value `±n/d` (hence every
float32) the presented value `r/p` differs from it by at most half a unit of the last presented
digit: `|r/p − x| ≤ 1/(2p)` with `p = 10^(7 − ⌈log₁₀|x|⌉)` — stated without division. -/
theorem c14_fix7_close (neg : Bool) (n d : Nat) (hd : 0 < d) (hprec : 0 ≤ 7 - ceilLog10 n d) :
    let x : Int := if neg then -(n : Int) else n
    let r := (fix7 neg n d).1
    let p := (fix7 neg n d).2
    2 * (r * d - x * p) ≤ d ∧ -(d : Int) ≤ 2 * (r * d - x * p) := by
  simp only [fix7, ge_iff_le, hprec, ↓reduceIte]
  exact roundHalfEven_close _ d hd

/-- zero, the infinities and NaN are returned unchanged -/
theorem c14_float_special (bits : Nat) :
    (decodeF32 bits = .zero true → float7 bits = .fzero true) ∧
    (decodeF32 bits = .zero false → float7 bits = .fzero false) ∧
    (∀ s, decodeF32 bits = .inf s → float7 bits = .finf s) ∧
    (decodeF32 bits = .nan → float7 bits = .fnan) := by
  refine ⟨?_, ?_, ?_, ?_⟩ <;> (intros; simp_all [float7])

/-! ## the comparison with powers of ten really is `⌈log₁₀⌉` -/

theorem ceilLog10Up_spec (n d : Nat) : ∀ (fuel l : Nat), n ≤ d * 10 ^ (l + fuel) →
    ∃ m : Nat, ceilLog10Up n d fuel l = m ∧ l ≤ m ∧ n ≤ d * 10 ^ m ∧ (l < m → d * 10 ^ (m - 1) < n) := by
  intro fuel
  induction fuel with
  | zero => intro l h; exact ⟨l, rfl, Nat.le_refl _, by simpa using h, fun h => absurd h (Nat.lt_irrefl _)⟩
  | succ f ih =>
    intro l h
    unfold ceilLog10Up
    split
    · rename_i hle; exact ⟨l, rfl, Nat.le_refl _, hle, fun h => absurd h (Nat.lt_irrefl _)⟩
    · rename_i hnle
      obtain ⟨m, hm, hlm, hle, hlt⟩ := ih (l + 1) (by rw [Nat.add_assoc, Nat.add_comm 1]; exact h)
      refine ⟨m, hm, by omega, hle, ?_⟩
      intro _
      by_cases hm1 : l + 1 < m
      · exact hlt hm1
      · have : m = l + 1 := by omega
        subst this
        simp only [Nat.add_sub_cancel]; omega

/-- **C14 (at most 7 significant digits).**  For `|x| = n/d > 1` within the fuel's range, the
rounded integer `r = round(x·10^(7−l))` satisfies `|r| ≤ 10^7`: the presentation has at most 7
significant decimal digits (8 only in the degenerate carry `10^7` itself, e.g. 9.9999999 → 10). -/
theorem c14_fix7_digits (n d : Nat) (hd : 0 < d) (hgt : d < n) (hfuel : n ≤ d * 10 ^ 401)
    (hl : ceilLog10 n d ≤ 7) :
    (fix7 false n d).1 ≤ 10 ^ 7 := by
  have hnle : ¬ n ≤ d := by omega
  obtain ⟨m, hm, h1, hle, _⟩ := ceilLog10Up_spec n d 400 1 (by simpa using hfuel)
  have hcl : ceilLog10 n d = m := by simp [ceilLog10, hnle, hm]
  rw [hcl] at hl
  have hm7 : m ≤ 7 := by omega
  have hprec : (0 : Int) ≤ 7 - (m : Int) := by omega
  simp only [fix7, hcl, ge_iff_le, hprec, ↓reduceIte, Bool.false_eq_true]
  have hp : (7 - (m : Int)).toNat = 7 - m := by omega
  rw [hp]
  -- a := n * 10^(7-m) ≤ d * 10^7, so round(a/d) ≤ 10^7
  have ha : n * 10 ^ (7 - m) ≤ d * 10 ^ 7 := by
    calc n * 10 ^ (7 - m) ≤ d * 10 ^ m * 10 ^ (7 - m) := Nat.mul_le_mul_right _ hle
      _ = d * (10 ^ m * 10 ^ (7 - m)) := by rw [Nat.mul_assoc]
      _ = d * 10 ^ 7 := by rw [← Nat.pow_add]; congr 2; omega
  have hclose := (roundHalfEven_close ((n : Int) * ((10 ^ (7 - m) : Nat) : Int)) d hd).2
  have hdpos : (0 : Int) < d := by exact_mod_cast hd
  -- r*d ≥ a - d/2 and a ≤ d*10^7  ⇒  suppose r ≥ 10^7 + 1 then r*d ≥ d*10^7 + d > a + d/2: contradiction
  by_cases hgoal : roundHalfEven ((n : Int) * ((10 ^ (7 - m) : Nat) : Int)) d ≤ 10 ^ 7
  · exact hgoal
  exfalso
  have hr : (10 : Int) ^ 7 + 1 ≤ roundHalfEven ((n : Int) * ((10 ^ (7 - m) : Nat) : Int)) d := by omega
  have hmul : ((10 : Int) ^ 7 + 1) * d ≤ roundHalfEven ((n : Int) * ((10 ^ (7 - m) : Nat) : Int)) d * d :=
    Int.mul_le_mul_of_nonneg_right hr (by omega)
  have ha' : (n : Int) * ((10 ^ (7 - m) : Nat) : Int) ≤ (d : Int) * 10 ^ 7 := by exact_mod_cast ha
  have hupper := (roundHalfEven_close ((n : Int) * ((10 ^ (7 - m) : Nat) : Int)) d hd).1
  rw [Int.add_mul] at hmul
  have : (10 : Int) ^ 7 * d = d * 10 ^ 7 := Int.mul_comm _ _
  omega

/-! ## enum conversion -/

/-- **C14 (enums).**  A wire enum number becomes the member with that number, or `None` when no
member has it. -/
theorem c14_enum_convert (T : Tables) (e : Name) (members : List (Name × Int)) (v : Int)
    (h : T.enums.lookup e = some members) :
    ((∃ m ∈ members, m.2 = v) → enumConvert T e v = .enum e v) ∧
    ((¬ ∃ m ∈ members, m.2 = v) → enumConvert T e v = .none) := by
  unfold enumConvert
  simp only [h]
  constructor
  · intro ⟨m, hm, hv⟩
    have : members.any (fun x => x.2 == v) = true := List.any_eq_true.mpr ⟨m, hm, by simp [hv]⟩
    simp [this]
  · intro hn
    have : members.any (fun x => x.2 == v) = false := by
      rw [Bool.eq_false_iff]; intro hh
      obtain ⟨m, hm, hv⟩ := List.any_eq_true.mp hh
      exact hn ⟨m, hm, by simpa using hv⟩
    simp [this]

/-- **C14 (enum lists).**  Unknown numbers are dropped, known ones kept, order preserved. -/
theorem c14_enum_list (T : Tables) (e : Name) (members : List (Name × Int)) (vs : List Int)
    (h : T.enums.lookup e = some members) :
    enumList T e (vs.map .int) =
      (vs.filter (fun v => members.any (·.2 == v))).map (fun v => .enum e v) := by
  induction vs with
  | nil => simp [enumList]
  | cons v vs ih =>
    simp only [List.map_cons, enumList, enumConvert, h]
    by_cases hv : members.any (fun x => x.2 == v) = true
    · simp [hv, ih]
    · simp only [Bool.not_eq_true] at hv
      simp [hv, ih]

/-- **C14 (identity fields).**  Integers, booleans, strings and byte strings are stored as they
came; float fields without the designated converter hold the float32's exact value. -/
theorem c14_plain_preserves :
    (∀ i, plain (.int i) = .int i) ∧ (∀ b, plain (.bool b) = .bool b) ∧
    (∀ x, plain (.str x) = .str x) ∧ (∀ x, plain (.bytes x) = .bytes x) ∧
    (∀ bits, plain (.f32 bits) = widen bits) := by
  refine ⟨?_, ?_, ?_, ?_, ?_⟩ <;> intro _ <;> simp [plain]

/-! ### non-vacuity / spot values (tests, labelled as such) -/
example : (match float7 0x3DCCCCCD with | .rat 1000000 10000000 => true | _ => false) = true := by
  decide +kernel   -- float32(0.1) → 0.1
example : (match float7 0x41AC0000 with | .rat 2150000 100000 => true | _ => false) = true := by
  decide +kernel   -- 21.5
example : (match float7 0x7F800000 with | .finf false => true | _ => false) = true := by decide +kernel
example : ceilLog10 999 1 = 3 ∧ ceilLog10 1000 1 = 3 ∧ ceilLog10 1001 1 = 4 ∧ ceilLog10 1 10 = -1 := by decide +kernel

/-! ## the right enum for every enum-converted field -/

def pfxEnum : Name := "enum:".toList.map Char.toNat
def pfxEnumList : Name := "enumlist:".toList.map Char.toNat

/-- the model enum a converter kind names (`enum:E` / `enumlist:E`) -/
def kindEnum (k : Name) : Option Name :=
  if pfxEnumList.isPrefixOf k then some (k.drop pfxEnumList.length)
  else if pfxEnum.isPrefixOf k then some (k.drop pfxEnum.length)
  else none

/-- for one paired class: every enum-converted field carries, on the wire, the enum type the converter's enum is paired with -/
def classEnumFieldsOk (cls wmsg : Name) : Bool :=
  let fields := (Gen.modelClasses.lookup cls).getD []
  let wfields := (Gen.textFields.lookup wmsg).getD []
  fields.all fun (f, kind) =>
    match kindEnum kind with
    | none => true
    | some e =>
      match wfields.find? (fun w => w.1 == f) with
      | some w => Gen.enumPairs.contains (e, w.2.2.1)
      | none => false

/-- **C14 (the right enum for every field).**  For every model class paired with a wire message and every field converted
through an enum (single or list), the enum named by the converter is the model enum paired with the enum TYPE the wire
field has in api.proto (generated tables). -/
theorem c14_enum_field_types : ∀ p ∈ Gen.classPairs, classEnumFieldsOk p.1 p.2 = true := by decide +kernel

example : kindEnum ("enumlist:ClimateSwingMode".toList.map Char.toNat) = some ("ClimateSwingMode".toList.map Char.toNat) := by decide
example : Gen.enumPairs.contains ("ClimateFanMode".toList.map Char.toNat, "ClimateSwingMode".toList.map Char.toNat) = false ∧
    Gen.enumPairs.contains ("ClimateSwingMode".toList.map Char.toNat, "ClimateSwingMode".toList.map Char.toNat) = true := by decide +kernel

end Esp.C14
