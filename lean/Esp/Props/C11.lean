import Esp.Model.Request
/-!
# C11 — request–response calls get exactly their responses and leave nothing behind

Property theorems.  Model: `Esp.Request` (`Esp/Model/Request.lean`).  Quantifiers: every
configuration of calls (types, accept / stop predicates, timeouts), every event list — any number
of concurrent calls, message arrivals (including in the very step after the request), timer
expiries, caller cancellations, connection closes, write failures, in any interleaving.
-/
namespace Esp.C11
open Esp Request

/-! ## lemmas about the specification function -/

theorem scan_append_done (p : Params) : ∀ (l : List Msg) (m : Msg), (scan p l).2 = true → scan p (l ++ [m]) = scan p l := by
  intro l
  induction l with
  | nil => intro m h; simp [scan] at h
  | cons x xs ih =>
    intro m h
    simp only [scan, List.cons_append] at *
    split
    · split
      · rfl
      · rename_i h1 h2
        simp only [h1, h2, ↓reduceIte] at h
        rw [ih m h]
    · rename_i h1
      simp only [h1, ↓reduceIte] at h
      exact ih m h

theorem scan_append_open (p : Params) : ∀ (l : List Msg) (m : Msg), (scan p l).2 = false →
    scan p (l ++ [m]) =
      if m.1 ∈ p.types then ((scan p l).1 ++ (if p.accept m then [m] else []), p.stop m) else scan p l := by
  intro l
  induction l with
  | nil =>
    intro m _
    simp only [scan, List.nil_append]
    split
    · split <;> split <;> simp_all
    · rfl
  | cons x xs ih =>
    intro m h
    simp only [scan, List.cons_append] at *
    by_cases h1 : x.1 ∈ p.types
    · simp only [h1, ↓reduceIte] at h ⊢
      by_cases h2 : p.stop x = true
      · simp [h2] at h
      · simp only [h2] at h ⊢
        simp only [Bool.false_eq_true, ↓reduceIte] at h ⊢
        rw [ih m h]
        split <;> split <;> simp
    · simp only [h1, ↓reduceIte] at h ⊢
      exact ih m h


/-! ## per-call invariant -/

/-- what is true of one call in every reachable state (`closed`, `now` from the global part) -/
structure CInv (p : Params) (closed : Bool) (now : Nat) (c : Call) : Prop where
  idle : c.phase = .idle → c.registered = false ∧ c.inWaiters = false ∧ c.timerAt = none ∧ c.fut = .pending ∧
          c.responses = [] ∧ c.since = [] ∧ c.cancelReq = false
  fin : ∀ o, c.phase = .finished o → c.registered = false ∧ c.inWaiters = false ∧ c.timerAt = none
  pend : c.phase = .waiting → c.fut = .pending →
          c.registered = true ∧ c.inWaiters = true ∧ c.timerAt = some (c.t0 + p.timeout) ∧ closed = false ∧
          c.responses = (scan p c.since).1 ∧ (scan p c.since).2 = false
  wreg : c.phase = .waiting → c.registered = true
  okf : c.fut = .ok → c.responses = (scan p c.since).1 ∧ (scan p c.since).2 = true
  okr : ∀ rs, c.phase = .finished (.ok rs) → rs = (scan p c.since).1 ∧ (scan p c.since).2 = true
  tmr : ∀ t, c.timerAt = some t → t = c.t0 + p.timeout ∧ now ≤ t ∧ c.phase = .waiting
  tof : c.fut = .rawTimeout → c.resolvedAt = some (c.t0 + p.timeout) ∧ c.byTimer = true
  tor : c.phase = .finished (.err .timeout) → c.resolvedAt = some (c.t0 + p.timeout) ∧ c.byTimer = true
  clf : ∀ e, c.fut = .failed e → c.byClose = true ∧ closed = true ∧ ∃ k, e = .conn k
  clr : ∀ k, c.phase = .finished (.err (.conn k)) → c.byClose = true ∧ closed = true
  canf : c.fut = .cancelled → c.cancelReq = true
  canr : c.phase = .finished .cancelled → c.cancelReq = true
  canw : c.cancelReq = true → c.phase ≠ .idle ∧ c.fut ≠ .pending
  cani : ∀ o, c.phase = .finished o → c.cancelReq = true → o = .cancelled
  t0le : c.t0 ≤ now

theorem init_cinv (p : Params) : CInv p false 0 {} := by
  constructor <;> simp


/-- events other than `msg`, `close`, `advance`: the global part is unchanged -/
theorem stepCall_inv_local (cfg : Cfg) (g : Glob) (j : Nat) (c : Call) (h : CInv (cfg j) g.closed g.now c) (e : Ev)
    (he : match e with | .msg _ => False | .close _ => False | .advance _ => False | _ => True) :
    CInv (cfg j) g.closed g.now (stepCall cfg g j c e) := by
  obtain ⟨h1, h2, h3, h4, h5, h6, h7, h8, h9, h10, h11, h12, h13, h14, h15, h16⟩ := h
  cases e with
  | msg _ => exact he.elim
  | close _ => exact he.elim
  | advance _ => exact he.elim
  | setWrite _ => exact ⟨h1, h2, h3, h4, h5, h6, h7, h8, h9, h10, h11, h12, h13, h14, h15, h16⟩
  | call i =>
    simp only [stepCall]
    split
    · split
      · constructor <;> grind
      · split
        · constructor <;> grind
        · constructor <;> grind [scan]
    · exact ⟨h1, h2, h3, h4, h5, h6, h7, h8, h9, h10, h11, h12, h13, h14, h15, h16⟩
  | fire i =>
    simp only [stepCall]
    split
    · split
      · constructor <;> grind
      · constructor <;> grind
    · exact ⟨h1, h2, h3, h4, h5, h6, h7, h8, h9, h10, h11, h12, h13, h14, h15, h16⟩
  | cancel i =>
    simp only [stepCall]
    split
    · constructor <;> grind
    · exact ⟨h1, h2, h3, h4, h5, h6, h7, h8, h9, h10, h11, h12, h13, h14, h15, h16⟩
  | wake i =>
    simp only [stepCall]
    split
    · split
      · constructor <;> grind
      · split <;> (constructor <;> grind)
    · exact ⟨h1, h2, h3, h4, h5, h6, h7, h8, h9, h10, h11, h12, h13, h14, h15, h16⟩


theorem stepCall_inv_msg (cfg : Cfg) (g : Glob) (j : Nat) (c : Call) (h : CInv (cfg j) g.closed g.now c) (m : Msg) :
    CInv (cfg j) g.closed g.now (stepCall cfg g j c (.msg m)) := by
  have hd := scan_append_done (cfg j) c.since m
  have ho := scan_append_open (cfg j) c.since m
  obtain ⟨h1, h2, h3, h4, h5, h6, h7, h8, h9, h10, h11, h12, h13, h14, h15, h16⟩ := h
  simp only [stepCall]
  split
  · exact ⟨h1, h2, h3, h4, h5, h6, h7, h8, h9, h10, h11, h12, h13, h14, h15, h16⟩
  · split
    · simp only [onMessage]
      (repeat' split) <;> (constructor <;> grind)
    · exact ⟨h1, h2, h3, h4, h5, h6, h7, h8, h9, h10, h11, h12, h13, h14, h15, h16⟩

theorem stepCall_inv_close (cfg : Cfg) (g : Glob) (j : Nat) (c : Call) (h : CInv (cfg j) g.closed g.now c)
    (cause : Option Nat) : CInv (cfg j) true g.now (stepCall cfg g j c (.close cause)) := by
  obtain ⟨h1, h2, h3, h4, h5, h6, h7, h8, h9, h10, h11, h12, h13, h14, h15, h16⟩ := h
  simp only [stepCall, closeErr]
  (repeat' split) <;> (constructor <;> grind)

theorem cinv_advance (p : Params) (closed : Bool) (now d : Nat) (c : Call) (h : CInv p closed now c)
    (ht : timerOk now d c = true) : CInv p closed (now + d) c := by
  obtain ⟨h1, h2, h3, h4, h5, h6, h7, h8, h9, h10, h11, h12, h13, h14, h15, h16⟩ := h
  simp only [timerOk] at ht
  constructor <;> grind


/-! ## global invariant -/

structure GInv (cfg : Cfg) (s : State) : Prop where
  calls : ∀ j, CInv (cfg j) s.g.closed s.g.now (s.calls j)
  ids : ∀ j, (s.calls j).phase ≠ .idle → j ∈ s.ids

theorem stepCall_phase_idle (cfg : Cfg) (g : Glob) (j : Nat) (c : Call) (e : Ev)
    (h : (stepCall cfg g j c e).phase ≠ .idle) : c.phase ≠ .idle ∨ e = .call j := by
  cases e <;> simp only [stepCall] at h ⊢ <;> (try (repeat' split at h)) <;> grind [onMessage]

theorem step_inv (cfg : Cfg) (s : State) (h : GInv cfg s) (e : Ev) : GInv cfg (step cfg s e) := by
  have hc := h.calls
  constructor
  · intro j
    cases e with
    | msg m => exact stepCall_inv_msg cfg s.g j _ (hc j) m
    | close cause =>
      have := stepCall_inv_close cfg s.g j _ (hc j) cause
      simp only [step, stepGlob]
      split
      · rename_i hcl
        simp only [stepCall, hcl, ↓reduceIte]
        have := hc j
        rw [hcl] at this
        exact this
      · exact this
    | advance d =>
      simp only [step, stepGlob, stepCall]
      split
      · rename_i hca
        apply cinv_advance _ _ _ _ _ (hc j)
        by_cases hj : j ∈ s.ids
        · simp only [canAdvance, List.all_eq_true] at hca; exact hca j hj
        · have hidle : (s.calls j).phase = .idle := by
            by_cases hp : (s.calls j).phase = .idle
            · exact hp
            · exact absurd (h.ids j hp) hj
          have := ((hc j).idle hidle).2.2.1
          simp [timerOk, this]
      · exact hc j
    | setWrite ok => exact stepCall_inv_local cfg s.g j _ (hc j) (.setWrite ok) trivial
    | fire i => exact stepCall_inv_local cfg s.g j _ (hc j) (.fire i) trivial
    | cancel i => exact stepCall_inv_local cfg s.g j _ (hc j) (.cancel i) trivial
    | wake i => exact stepCall_inv_local cfg s.g j _ (hc j) (.wake i) trivial
    | call i =>
      have h1 := stepCall_inv_local cfg s.g j _ (hc j) (.call i) trivial
      simp only [step, stepGlob]
      split
      · -- failing write: the connection closes inside the call step
        rename_i hw
        have h2 := stepCall_inv_close cfg s.g j _ h1 (some 1)
        simpa using h2
      · exact h1
  · intro j hj
    simp only [step] at hj ⊢
    cases e with
    | call i =>
      simp only at hj ⊢
      have : (stepCall cfg s.g j (s.calls j) (.call i)).phase ≠ .idle := by
        split at hj
        · intro h0
          apply hj
          simp only [stepCall] at h0 ⊢
          (repeat' split) <;> simp_all
        · exact hj
      rcases stepCall_phase_idle cfg s.g j _ _ this with h1 | h1
      · have := h.ids j h1; split <;> simp_all
      · simp only [Ev.call.injEq] at h1; subst h1; split <;> simp_all
    | msg m => exact h.ids j (by rcases stepCall_phase_idle cfg s.g j _ _ hj with h1 | h1 <;> simp_all)
    | close c => exact h.ids j (by rcases stepCall_phase_idle cfg s.g j _ _ hj with h1 | h1 <;> simp_all)
    | advance d => exact h.ids j (by rcases stepCall_phase_idle cfg s.g j _ _ hj with h1 | h1 <;> simp_all)
    | setWrite ok => exact h.ids j (by rcases stepCall_phase_idle cfg s.g j _ _ hj with h1 | h1 <;> simp_all)
    | fire i => exact h.ids j (by rcases stepCall_phase_idle cfg s.g j _ _ hj with h1 | h1 <;> simp_all)
    | cancel i => exact h.ids j (by rcases stepCall_phase_idle cfg s.g j _ _ hj with h1 | h1 <;> simp_all)
    | wake i => exact h.ids j (by rcases stepCall_phase_idle cfg s.g j _ _ hj with h1 | h1 <;> simp_all)

theorem init_inv (cfg : Cfg) : GInv cfg {} := ⟨fun j => init_cinv (cfg j), by simp⟩

theorem run_inv (cfg : Cfg) (s : State) (h : GInv cfg s) (evs : List Ev) : GInv cfg (run cfg s evs) := by
  induction evs generalizing s with
  | nil => simpa [run]
  | cons e es ih => exact ih _ (step_inv cfg s h e)


/-! ## the property theorems (every configuration, every event list) -/

/-- **C11 (exactly its responses).**  A call that completes with a result returns exactly the
messages of its types that were dispatched after its request was written (`since` starts empty in
the very step that writes the request and registers the handler, so a message in the next step is
included) and satisfy its accept predicate, in arrival order, up to and including the first that
satisfies its stop predicate — which exists. -/
theorem c11_result (cfg : Cfg) (evs : List Ev) (j : Nat) (rs : List Msg) :
    let c := (run cfg {} evs).calls j
    c.phase = .finished (.ok rs) → rs = (scan (cfg j) c.since).1 ∧ (scan (cfg j) c.since).2 = true :=
  fun h => ((run_inv cfg _ (init_inv cfg) evs).calls j).okr rs h

/-- **C11 (timeout exactly at the timeout).**  A call that fails with the timeout error was
resolved by its own timer, at exactly `start + timeout`. -/
theorem c11_timeout_exact (cfg : Cfg) (evs : List Ev) (j : Nat) :
    let c := (run cfg {} evs).calls j
    c.phase = .finished (.err .timeout) → c.resolvedAt = some (c.t0 + (cfg j).timeout) ∧ c.byTimer = true :=
  fun h => ((run_inv cfg _ (init_inv cfg) evs).calls j).tor h

/-- **C11 (connection error at the closing step).**  A call that fails with the connection's error
was resolved by `_cleanup`, and the connection is closed. -/
theorem c11_conn_error (cfg : Cfg) (evs : List Ev) (j k : Nat) :
    let s := run cfg {} evs
    (s.calls j).phase = .finished (.err (.conn k)) → (s.calls j).byClose = true ∧ s.g.closed = true :=
  fun h => ((run_inv cfg _ (init_inv cfg) evs).calls j).clr k h

/-- **C11 (cancelled iff the caller cancelled).** -/
theorem c11_cancelled_iff (cfg : Cfg) (evs : List Ev) (j : Nat) (o : Outcome) :
    let c := (run cfg {} evs).calls j
    c.phase = .finished o → (o = .cancelled ↔ c.cancelReq = true) := by
  intro c h
  have hi := (run_inv cfg _ (init_inv cfg) evs).calls j
  constructor
  · intro ho; subst ho; exact hi.canr h
  · exact hi.cani o h

/-- **C11 (nothing left behind).**  However a call ended — result, timeout, cancellation,
connection loss, refused because not connected, failing write — afterwards its handler is not in
the handler table, its future is not in the waiter set and its timer is not armed. -/
theorem c11_no_leak (cfg : Cfg) (evs : List Ev) (j : Nat) (o : Outcome) :
    let c := (run cfg {} evs).calls j
    c.phase = .finished o → c.registered = false ∧ c.inWaiters = false ∧ c.timerAt = none :=
  fun h => ((run_inv cfg _ (init_inv cfg) evs).calls j).fin o h

/-- **C11 (never hangs).**  A call whose future is still pending has its timer armed for exactly
`start + timeout`, the clock has not passed that instant (and cannot: `advance` is urgent), the
handler is registered, the future is in the waiter set and the connection is open — so it will be
resolved by a stop message, by its timer at its deadline, or by the close. -/
theorem c11_pending_guarded (cfg : Cfg) (evs : List Ev) (j : Nat) :
    let s := run cfg {} evs
    (s.calls j).phase = .waiting → (s.calls j).fut = .pending →
      (s.calls j).timerAt = some ((s.calls j).t0 + (cfg j).timeout) ∧ s.g.now ≤ (s.calls j).t0 + (cfg j).timeout ∧
      (s.calls j).registered = true ∧ (s.calls j).inWaiters = true ∧ s.g.closed = false := by
  intro s hw hp
  have hi := (run_inv cfg _ (init_inv cfg) evs).calls j
  have h := hi.pend hw hp
  exact ⟨h.2.2.1, (hi.tmr _ h.2.2.1).2.1, h.1, h.2.1, h.2.2.2.1⟩

/-! ## independence of concurrent calls -/

def relevant (j : Nat) : Ev → Bool
  | .call i => i == j
  | .fire i => i == j
  | .cancel i => i == j
  | .wake i => i == j
  | _ => true

def noWriteFail : Ev → Bool
  | .setWrite false => false
  | _ => true

/-- every `advance` of the trace is enabled when it is taken (the clock never jumps over an armed deadline) -/
def advOk (s : State) : Ev → Prop
  | .advance d => canAdvance s d = true
  | _ => True

def Valid (cfg : Cfg) : State → List Ev → Prop
  | _, [] => True
  | s, e :: es => advOk s e ∧ Valid cfg (step cfg s e) es

structure Sim (cfg : Cfg) (j : Nat) (s s' : State) : Prop where
  g : s.g = s'.g
  c : s.calls j = s'.calls j
  w : s.g.writeOk = true
  others : ∀ k, k ≠ j → (s'.calls k).phase = .idle ∧ (s'.calls k).inWaiters = false ∧ (s'.calls k).timerAt = none
  inv : GInv cfg s

theorem sim_irrelevant (cfg : Cfg) (j : Nat) (s s' : State) (h : Sim cfg j s s') (e : Ev)
    (hr : relevant j e = false) : Sim cfg j (step cfg s e) s' := by
  have hinv := step_inv cfg s h.inv e
  obtain ⟨hg, hc, hw, ho, _⟩ := h
  cases e with
  | call i =>
    simp only [relevant, beq_eq_false_iff_ne, ne_eq] at hr
    refine ⟨?_, ?_, ?_, ho, hinv⟩
    · simp only [step, stepGlob, hw]; simp [hg]
    · simp only [step, stepGlob, hw, stepCall]; simp [hr, hc]
    · simp only [step, stepGlob, hw]; simp [hw]
  | fire i =>
    simp only [relevant, beq_eq_false_iff_ne, ne_eq] at hr
    exact ⟨by simp [step, stepGlob, hg], by simp [step, stepCall, hr, hc], by simp [step, stepGlob, hw], ho, hinv⟩
  | cancel i =>
    simp only [relevant, beq_eq_false_iff_ne, ne_eq] at hr
    exact ⟨by simp [step, stepGlob, hg], by simp [step, stepCall, hr, hc], by simp [step, stepGlob, hw], ho, hinv⟩
  | wake i =>
    simp only [relevant, beq_eq_false_iff_ne, ne_eq] at hr
    exact ⟨by simp [step, stepGlob, hg], by simp [step, stepCall, hr, hc], by simp [step, stepGlob, hw], ho, hinv⟩
  | msg m => simp [relevant] at hr
  | close c => simp [relevant] at hr
  | setWrite ok => simp [relevant] at hr
  | advance d => simp [relevant] at hr


theorem stepCall_idle_other (cfg : Cfg) (g : Glob) (j k : Nat) (c : Call) (e : Ev) (hk : k ≠ j)
    (hr : relevant j e = true) (hc : c.phase = .idle ∧ c.inWaiters = false ∧ c.timerAt = none) :
    stepCall cfg g k c e = c := by
  cases e with
  | call i => simp only [relevant, beq_iff_eq] at hr; subst hr; simp [stepCall, Ne.symm hk]
  | fire i => simp only [relevant, beq_iff_eq] at hr; subst hr; simp [stepCall, Ne.symm hk]
  | cancel i => simp only [relevant, beq_iff_eq] at hr; subst hr; simp [stepCall, Ne.symm hk]
  | wake i => simp only [relevant, beq_iff_eq] at hr; subst hr; simp [stepCall, Ne.symm hk]
  | msg m => simp only [stepCall, hc.1]; split <;> rfl
  | close cause => simp only [stepCall, hc.2.1]; split <;> simp
  | setWrite ok => rfl
  | advance d => rfl

theorem sim_relevant (cfg : Cfg) (j : Nat) (s s' : State) (h : Sim cfg j s s') (e : Ev)
    (hr : relevant j e = true) (hnw : noWriteFail e = true)
    (hv : advOk s e) :
    Sim cfg j (step cfg s e) (step cfg s' e) := by
  have hinv := step_inv cfg s h.inv e
  obtain ⟨hg, hc, hw, ho, hI⟩ := h
  have hw' : s'.g.writeOk = true := hg ▸ hw
  -- no write fails, so the call step never closes the connection
  have hcalls : ∀ (st : State), st.g.writeOk = true → ∀ k, (step cfg st e).calls k = stepCall cfg st.g k (st.calls k) e := by
    intro st hst k
    cases e <;> simp [step, hst]
  -- the clock moves identically
  have hadv : ∀ d, e = .advance d → canAdvance s' d = true := by
    intro d hd
    subst hd
    simp only [advOk, canAdvance, List.all_eq_true] at hv ⊢
    intro k _
    by_cases hk : k = j
    · subst hk
      rw [← hc, ← hg]
      by_cases hj : k ∈ s.ids
      · exact hv k hj
      · have hidle : (s.calls k).phase = .idle := by
          by_cases hp : (s.calls k).phase = .idle
          · exact hp
          · exact absurd (hI.ids k hp) hj
        simp [timerOk, ((hI.calls k).idle hidle).2.2.1]
    · simp [timerOk, (ho k hk).2.2]
  have hglob : stepGlob s e = stepGlob s' e := by
    cases e with
    | advance d =>
      have h1 : canAdvance s d = true := hv
      have h2 := hadv d rfl
      simp [stepGlob, h1, h2, hg]
    | call i => simp only [relevant, beq_iff_eq] at hr; subst hr; simp [stepGlob, hg, hc]
    | close c => simp [stepGlob, hg]
    | setWrite ok => simp [stepGlob, hg]
    | msg m => simp [stepGlob, hg]
    | fire i => simp [stepGlob, hg]
    | cancel i => simp [stepGlob, hg]
    | wake i => simp [stepGlob, hg]
  refine ⟨?_, ?_, ?_, ?_, hinv⟩
  · simp only [step]; exact hglob
  · rw [hcalls s hw, hcalls s' hw', hg, hc]
  · simp only [step]
    cases e with
    | setWrite ok =>
      cases ok with
      | false => simp [noWriteFail] at hnw
      | true => simp [stepGlob]
    | advance d => simp only [stepGlob]; split <;> simp [hw]
    | call i => simp only [stepGlob]; split <;> simp [hw]
    | close c => simp only [stepGlob]; split <;> simp [hw]
    | msg m => simp [stepGlob, hw]
    | fire i => simp [stepGlob, hw]
    | cancel i => simp [stepGlob, hw]
    | wake i => simp [stepGlob, hw]
  · intro k hk
    rw [hcalls s' hw' k, stepCall_idle_other cfg s'.g j k _ e hk hr (ho k hk)]
    exact ho k hk

/-- **C11 (concurrent calls do not disturb each other).**  Take any history in which no write
fails and the clock never jumps over an armed deadline.  Delete from it every operation of the
*other* calls (their start, timer, cancellation, completion).  Call `j` — its phase, its future,
the responses it collected, its registration, waiter and timer, its outcome — is exactly the
same, as is the global part of the connection.  (A failing write closes the connection, which is
a global event every call sees; that is the first half of the property, not cross-talk.) -/
theorem c11_independent (cfg : Cfg) (j : Nat) : ∀ (evs : List Ev) (s s' : State), Sim cfg j s s' →
    evs.all noWriteFail = true → Valid cfg s evs →
    (run cfg s evs).calls j = (run cfg s' (evs.filter (relevant j))).calls j ∧
    (run cfg s evs).g = (run cfg s' (evs.filter (relevant j))).g := by
  intro evs
  induction evs with
  | nil => intro s s' h _ _; exact ⟨h.c, h.g⟩
  | cons e es ih =>
    intro s s' h hw hv
    simp only [List.all_cons, Bool.and_eq_true] at hw
    simp only [run, List.foldl_cons, List.filter_cons]
    by_cases hr : relevant j e = true
    · simp only [hr, ↓reduceIte, List.foldl_cons]
      exact ih _ _ (sim_relevant cfg j s s' h e hr hw.1 hv.1) hw.2 hv.2
    · simp only [hr]
      exact ih _ _ (sim_irrelevant cfg j s s' h e (by simpa using hr)) hw.2 hv.2

theorem sim_init (cfg : Cfg) (j : Nat) : Sim cfg j {} {} :=
  ⟨rfl, rfl, rfl, fun _ _ => ⟨rfl, rfl, rfl⟩, init_inv cfg⟩


theorem c11_independent_init (cfg : Cfg) (j : Nat) (evs : List Ev)
    (hw : evs.all noWriteFail = true) (hv : Valid cfg {} evs) :
    (run cfg {} evs).calls j = (run cfg {} (evs.filter (relevant j))).calls j :=
  (c11_independent cfg j evs {} {} (sim_init cfg j) hw hv).1

/-! ## non-vacuity -/

/-- two concurrent list-until-done calls on the same types; call 1 accepts only even tags -/
def demoCfg : Cfg := fun j =>
  { types := [10, 19], accept := fun m => m.1 == 10 && (j == 0 || m.2 % 2 == 0), stop := fun m => m.1 == 19, timeout := 10 }

example : ((run demoCfg {} [.call 0, .msg (10, 1), .call 1, .msg (10, 2), .msg (10, 3), .msg (19, 0), .msg (10, 4),
    .wake 0, .wake 1]).calls 0).phase = .finished (.ok [(10, 1), (10, 2), (10, 3)]) := by decide +kernel
example : ((run demoCfg {} [.call 0, .msg (10, 1), .call 1, .msg (10, 2), .msg (10, 3), .msg (19, 0), .msg (10, 4),
    .wake 0, .wake 1]).calls 1).phase = .finished (.ok [(10, 2)]) := by decide +kernel
/-- timeout exactly at the deadline; the clock refuses to jump over it -/
example : ((run demoCfg {} [.call 0, .advance 11, .advance 10, .fire 0, .wake 0]).calls 0).phase =
    .finished (.err .timeout) := by decide +kernel
/-- response and cancellation in the same turn: the call ends cancelled and leaves nothing behind -/
example : ((run demoCfg {} [.call 0, .msg (19, 0), .cancel 0, .wake 0]).calls 0).phase = .finished .cancelled := by
  decide +kernel
/-- close while waiting: the first fatal cause reaches the waiter -/
example : ((run demoCfg {} [.call 0, .close (some 7), .close (some 9), .wake 0]).calls 0).phase =
    .finished (.err (.conn 7)) := by decide +kernel

/-- a resolved future keeps its value under every event (a later timer, close, message or cancellation finds it done) -/
theorem fut_final (cfg : Cfg) (g : Glob) (j : Nat) (c : Call) (e : Ev) (h : c.fut ≠ .pending) :
    (stepCall cfg g j c e).fut = c.fut := by
  cases e <;> simp only [stepCall] <;> (repeat' split) <;> simp_all [onMessage]

theorem step_fut_final (cfg : Cfg) (s : State) (e : Ev) (j : Nat) (h : (s.calls j).fut ≠ .pending) :
    ((step cfg s e).calls j).fut = (s.calls j).fut := by
  simp only [step]
  split
  · rw [fut_final _ _ _ _ _ (by rw [fut_final _ _ _ _ _ h]; exact h), fut_final _ _ _ _ _ h]
  · exact fut_final _ _ _ _ _ h

/-- **C11 (the first resolution stands).**  Once a call's future has been resolved — by the message
that completes it, by its timer, by the close, by a cancellation — no later event changes it,
whatever follows and however soon: a timer firing in the same instant as the completing message,
a close in the same turn, further messages.  In particular a call completed by its stop message
returns its result (next theorem). -/
theorem c11_first_resolution_stands (cfg : Cfg) (s : State) (evs : List Ev) (j : Nat) (h : (s.calls j).fut ≠ .pending) :
    ((run cfg s evs).calls j).fut = (s.calls j).fut := by
  induction evs generalizing s with
  | nil => rfl
  | cons e es ih =>
    have h1 := step_fut_final cfg s e j h
    simp only [run, List.foldl_cons] at ih ⊢
    rw [ih (step cfg s e) (by rw [h1]; exact h), h1]

/-- … and what the caller gets when it resumes is that resolution: a call completed by its stop
message, not cancelled by its caller, returns its responses — whatever happened in between. -/
theorem c11_completed_returns (cfg : Cfg) (g : Glob) (j : Nat) (c : Call)
    (hp : c.phase = .waiting) (hf : c.fut = .ok) (hc : c.cancelReq = false) :
    (stepCall cfg g j c (.wake j)).phase = .finished (.ok c.responses) := by
  simp [stepCall, hp, hf, hc]

/-- the completing message and the timer in the same instant, the timer callback second: the result stands -/
example : let cfg : Cfg := fun _ => { types := [5], accept := fun _ => true, stop := fun _ => true, timeout := 3 }
    ((run cfg {} [.call 0, .advance 3, .msg (5, 1), .fire 0, .wake 0]).calls 0).phase = .finished (.ok [(5, 1)]) := by decide +kernel

end Esp.C11
