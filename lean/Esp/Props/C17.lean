import Esp.Model.Subs
/-!
# C17 — one converted callback per subscribed message; camera images reassemble per key

Property theorems over `Esp.Subs`.  Quantifiers: every mixed stream of state messages, every
interleaving of multi-chunk camera streams over any keys, every voice-assistant event sequence.
(That the *conversion* preserves values is C14; that an unsubscribed handler is not invoked by
dispatch is C12.)
-/
namespace Esp.C17
open Esp Subs

def isCam (k : Nat) : Msg → Bool | .cam k' _ _ => k' == k | _ => false
def isImage (k : Nat) : Out → Bool | .image k' _ => k' == k | _ => false

/-- **C17 (one callback per state message, in order).** -/
theorem c17_one_each (s : Stream) (l : List (Nat × Nat)) :
    run s (l.map (fun p => Msg.state p.1 p.2)) = l.map (fun p => Out.model p.1 p.2) := by
  induction l generalizing s with
  | nil => rfl
  | cons p ps ih => simp [run, onStateMsg, ih]

theorem lookup_filter_ne (s : Stream) (k k' : Nat) (h : k ≠ k') :
    (s.filter (fun e => e.1 != k')).lookup k = s.lookup k := by
  induction s with
  | nil => rfl
  | cons e es ih =>
    obtain ⟨a, b⟩ := e
    by_cases h1 : a = k'
    · subst h1
      have : (k == a) = false := by simp [h]
      simp [List.filter, List.lookup, this, ih]
    · have h2 : (a != k') = true := by simp [h1]
      simp only [List.filter, h2, List.lookup]
      split <;> simp_all

theorem getParts_other (s : Stream) (m : Msg) (k : Nat) (h : isCam k m = false) :
    getParts (onStateMsg s m).1 k = getParts s k := by
  cases m with
  | state _ _ => rfl
  | cam k' d done =>
    have hne : k ≠ k' := by intro hc; subst hc; simp [isCam] at h
    simp only [onStateMsg]
    split
    · simp [getParts, delParts, lookup_filter_ne s k k' hne]
    · have : (k == k') = false := by simp [hne]
      simp [getParts, setParts, delParts, List.lookup, this, lookup_filter_ne s k k' hne]

theorem getParts_same (s s' : Stream) (k : Nat) (d : List Nat) (done : Bool) (h : getParts s k = getParts s' k) :
    getParts (onStateMsg s (.cam k d done)).1 k = getParts (onStateMsg s' (.cam k d done)).1 k ∧
    (onStateMsg s (.cam k d done)).2 = (onStateMsg s' (.cam k d done)).2 := by
  simp only [onStateMsg, h]
  split
  · constructor
    · have : ∀ t : Stream, getParts (delParts t k) k = [] := by
        intro t; simp only [getParts, delParts]
        induction t with
        | nil => rfl
        | cons e es ih =>
          obtain ⟨a, b⟩ := e
          by_cases h1 : a = k
          · subst h1; simp [List.filter, ih]
          · have h2 : (a != k) = true := by simp [h1]
            have h3 : (k == a) = false := by simp; exact fun hc => h1 hc.symm
            simp [List.filter, h2, List.lookup, h3, ih]
      rw [this s, this s']
    · rfl
  · simp [getParts, setParts, List.lookup]

theorem other_out (s : Stream) (m : Msg) (k : Nat) (h : isCam k m = false) :
    ((onStateMsg s m).2.filter (isImage k)) = [] := by
  cases m with
  | state _ _ => simp [onStateMsg, isImage]
  | cam k' d done =>
    have hne : (k' == k) = false := by simpa [isCam] using h
    simp only [onStateMsg]; split <;> simp [isImage, hne]

theorem same_out (s : Stream) (k : Nat) (d : List Nat) (done : Bool) :
    ((onStateMsg s (.cam k d done)).2.filter (isImage k)) = (onStateMsg s (.cam k d done)).2 := by
  simp only [onStateMsg]; split <;> simp [isImage]

/-- **C17 (camera streams do not disturb each other).**  For ANY interleaving of any cameras'
chunk streams (and any other state messages in between), the images completed for key `k` are
exactly the images produced when only `k`'s chunks are fed. -/
theorem c17_camera_independent (k : Nat) : ∀ (msgs : List Msg) (s s' : Stream), getParts s k = getParts s' k →
    (run s msgs).filter (isImage k) = run s' (msgs.filter (isCam k)) := by
  intro msgs
  induction msgs with
  | nil => intro s s' _; rfl
  | cons m ms ih =>
    intro s s' h
    by_cases hm : isCam k m = true
    · cases m with
      | state _ _ => simp [isCam] at hm
      | cam k' d done =>
        have hk : k' = k := by simpa [isCam] using hm
        subst hk
        obtain ⟨g1, g2⟩ := getParts_same s s' k' d done h
        simp only [run, List.filter_append, List.filter_cons, hm, ↓reduceIte]
        rw [same_out, g2, ih _ _ g1]
    · have hm' : isCam k m = false := by simpa using hm
      simp only [run, List.filter_append, List.filter_cons, hm', Bool.false_eq_true, ↓reduceIte]
      rw [other_out s m k hm', List.nil_append]
      exact ih _ _ ((getParts_other s m k hm').trans h)

theorem getParts_del (t : Stream) (k : Nat) : getParts (delParts t k) k = [] := by
  simp only [getParts, delParts]
  induction t with
  | nil => rfl
  | cons e es ih =>
    obtain ⟨a, b⟩ := e
    by_cases h1 : a = k
    · subst h1; simp [List.filter, ih]
    · have h2 : (a != k) = true := by simp [h1]
      have h3 : (k == a) = false := by simp; exact fun hc => h1 hc.symm
      simp [List.filter, h2, List.lookup, h3, ih]

theorem getParts_set (t : Stream) (k : Nat) (v : List (List Nat)) : getParts (setParts t k v) k = v := by
  simp [getParts, setParts, List.lookup]

/-- **C17 (what a completed image is).**  On one key, every completed image is the concatenation of
that key's chunks since its previous completion. -/
theorem c17_camera_single (k : Nat) : ∀ (chunks : List (List Nat × Bool)) (s : Stream),
    run s (chunks.map (fun c => Msg.cam k c.1 c.2)) = (images (getParts s k) chunks).map (Out.image k) := by
  intro chunks
  induction chunks with
  | nil => intro s; rfl
  | cons c cs ih =>
    intro s
    obtain ⟨d, done⟩ := c
    cases done with
    | true =>
      simp only [List.map_cons, run, onStateMsg, images, ↓reduceIte]
      rw [ih, getParts_del]
      simp
    | false =>
      simp only [List.map_cons, run, onStateMsg, images, Bool.false_eq_true, ↓reduceIte]
      rw [ih, getParts_set]
      simp

/-! ## voice assistant -/

/-- **C17 (a start request is answered once, with what its handler returned).**  When the handler
of a running start task returns: exactly one response is written — the port, or an error if it
returned none — provided the connection still exists; a task that is not running (unknown, already
answered, cancelled by unsubscribe) produces nothing. -/
theorem c17_voice_start (v : Va) (id : Nat) (res : Option Nat) :
    (v.tasks.lookup id = some .running → v.connAlive = true →
      (vaStep v (.startDone id res)).out = v.out ++ [match res with | some p => VaOut.respPort p | none => VaOut.respError]) ∧
    (v.tasks.lookup id ≠ some .running → vaStep v (.startDone id res) = v) := by
  constructor
  · intro h1 h2; simp [vaStep, h1, h2]; cases res <;> rfl
  · intro h1; simp [vaStep, h1]

/-- after its handler returned, a task is never running again: at most one response per start request -/
theorem setTask_lookup (l : List (Nat × TaskSt)) (id : Nat) (st : TaskSt) (h : (l.lookup id).isSome = true) :
    (setTask l id st).lookup id = some st := by
  induction l with
  | nil => simp at h
  | cons e es ih =>
    obtain ⟨a, b⟩ := e
    by_cases ha : a = id
    · subst ha; simp [setTask, List.lookup]
    · have h1 : (id == a) = false := by simp; exact fun hc => ha hc.symm
      simp only [List.lookup, h1] at h
      simp only [setTask, List.map_cons, ha, ↓reduceIte, List.lookup, h1]
      exact ih h

theorem c17_voice_once (v : Va) (id : Nat) (res res' : Option Nat) (h : v.tasks.lookup id = some .running) :
    vaStep (vaStep v (.startDone id res)) (.startDone id res') = vaStep v (.startDone id res) := by
  have h2 : (vaStep v (.startDone id res)).tasks.lookup id = some .done := by
    simp only [vaStep, h, ↓reduceIte]
    split <;> exact setTask_lookup _ _ _ (by simp [h])
  exact (c17_voice_start _ id res').2 (by rw [h2]; simp)

/-- **C17 (stop / audio / announcement: the matching handler once per message; nothing after
unsubscribe).** -/
theorem c17_voice_handlers (v : Va) :
    (v.subscribed = true → v.connAlive = true →
      (vaStep v .reqStop).out = v.out ++ [.hStop true] ∧
      (v.audioSub = true → (vaStep v (.audio false)).out = v.out ++ [.hAudio] ∧ (vaStep v (.audio true)).out = v.out ++ [.hStop false]) ∧
      (v.announceSub = true → (vaStep v .announce).out = v.out ++ [.hAnnounce])) ∧
    (v.subscribed = false → ∀ e, (e = .start ∨ e = .reqStop ∨ e = .audio true ∨ e = .audio false ∨ e = .announce) →
      (vaStep v e).out = v.out) := by
  constructor
  · intro h1 h2
    refine ⟨by simp [vaStep, h1, h2], fun h3 => by simp [vaStep, h1, h2, h3], fun h3 => by simp [vaStep, h1, h2, h3]⟩
  · intro h1 e he
    rcases he with rfl | rfl | rfl | rfl | rfl <;> simp [vaStep, h1]

/-- unsubscribe (while connected) stops deliveries at once and cancels the start task in flight,
which then answers nothing -/
theorem c17_unsub (v : Va) (h : v.connAlive = true) : (vaStep v .unsub).subscribed = false := by
  simp only [vaStep, h, ↓reduceIte]
  split <;> rfl

/-! ## non-vacuity -/
example : run [] [.cam 1 [1] false, .state 7 0, .cam 2 [9] false, .cam 1 [2] true, .cam 2 [8] true, .cam 1 [5] true] =
    [.model 7 0, .image 1 [1, 2], .image 2 [9, 8], .image 1 [5]] := by decide
example : (vaRun {} [.start, .startDone 0 (some 6055), .start, .unsub, .startDone 1 none, .audio false]).out =
    [.hStart 0, .respPort 6055, .hStart 1] := by decide
example : (vaRun {} [.start, .startDone 0 none, .reqStop, .audio true, .announce]).out =
    [.hStart 0, .respError, .hStop true, .hStop false, .hAnnounce] := by decide

/-! ## the other subscriptions -/

/-- **C17 (once per message).**  A message of a subscribed kind invokes exactly one handler, a message of a kind that is not
(or no longer) subscribed none; the home-assistant one-shot handler is used only when it was given AND the message says
`once`, otherwise the subscription handler is. -/
theorem c17_other_once (s : OSub) (k : OKind) (id : Nat) (once : Bool) :
    (s.active.contains k = true → (oDeliver s k id once).length = 1) ∧
    (s.active.contains k = false → oDeliver s k id once = []) ∧
    (s.active.contains k = true → (oDeliver s k id once = [.request id] ↔ (k = .ha ∧ s.hasRequest = true ∧ once = true))) ∧
    (s.active.contains k = true → ¬(k = .ha ∧ s.hasRequest = true ∧ once = true) → oDeliver s k id once = [.handler k id]) := by
  unfold oDeliver
  refine ⟨fun h => ?_, fun h => ?_, fun h => ?_, fun h hn => ?_⟩
  · simp only [h, Bool.not_true, Bool.false_eq_true, ↓reduceIte]; split <;> rfl
  · simp only [h, Bool.not_false, ↓reduceIte]
  · simp only [h, Bool.not_true, Bool.false_eq_true, ↓reduceIte]
    constructor
    · intro h1; split at h1
      · assumption
      · cases h1
    · intro h1; rw [if_pos h1]
  · simp only [h, Bool.not_true, Bool.false_eq_true, ↓reduceIte, hn]

/-- **C17 (unsubscribe stops deliveries at once, and only its own).**  After the unsubscribe function of kind `k` is called,
no later message of kind `k` invokes anything, while every other kind is served exactly as before — for every stream. -/
theorem c17_other_unsub (s : OSub) (k : OKind) (evs : List OEv) :
    ∀ o ∈ oRun { s with active := s.active.filter (· ≠ k) } evs, ∀ id, o ≠ .handler k id := by
  induction evs generalizing s with
  | nil => intro o ho; simp [oRun] at ho
  | cons e es ih =>
    intro o ho id
    simp only [oRun, List.mem_append] at ho
    rcases ho with h1 | h1
    · cases e with
      | msg k' id' once =>
        simp only [oStep, oDeliver] at h1
        split at h1
        · simp at h1
        · rename_i hc
          split at h1
          · simp at h1; rw [h1]; intro h; cases h
          · simp at h1; rw [h1]; intro h
            cases h
            simp [List.contains_iff_mem, List.mem_filter] at hc
      | unsub k' => simp [oStep] at h1
    · cases e with
      | msg k' id' once => exact ih s o (by simpa [oStep] using h1) id
      | unsub k' =>
        simp only [oStep] at h1
        have hcomm : (s.active.filter (· ≠ k)).filter (· ≠ k') = (s.active.filter (· ≠ k')).filter (· ≠ k) := by
          simp only [List.filter_filter]; congr 1; funext x; simp [Bool.and_comm]
        refine ih { s with active := s.active.filter (· ≠ k') } o ?_ id
        show o ∈ oRun { active := (s.active.filter (· ≠ k')).filter (· ≠ k), hasRequest := s.hasRequest } es
        rw [← hcomm]; exact h1

example : oRun ⟨[.log, .ha, .adv], true⟩ [.msg .ha 1 true, .msg .ha 2 false, .msg .adv 3 false, .unsub .adv, .msg .adv 4 false,
    .msg .svc 5 false, .msg .log 6 false] = [.request 1, .handler .ha 2, .handler .adv 3, .handler .log 6] := by decide
example : oRun ⟨[.ha], false⟩ [.msg .ha 1 true, .msg .ha 2 false] = [.handler .ha 1, .handler .ha 2] := by decide

end Esp.C17
