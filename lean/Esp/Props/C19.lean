import Esp.Model.Client
/-!
# C19 — the client never wedges and refuses work unless a session is alive

Property theorems over `Esp.Client` (the client object across any number of sessions).
-/
namespace Esp.C19
open Esp Client

/-- **C19 (accepts whenever nothing is in progress and nothing is alive).**  In EVERY state of the
client: if no connect attempt is in progress and no session is alive, `start_connection` is
accepted; it is refused with "already connected" only when an attempt is in progress or a
connection is alive. -/
theorem c19_accepts (s : State) :
    ((∀ ph, s.conn = some ph → inProgress ph = false ∧ alive ph = false) → (step s .callStart).last = .ok ∧
        (step s .callStart).conn = some .starting) ∧
    ((step s .callStart).last = .alreadyConnected → ∃ ph, s.conn = some ph ∧ (inProgress ph = true ∨ alive ph = true)) := by
  constructor
  · intro h
    cases hc : s.conn with
    | none => simp [step, hc]
    | some ph => cases ph <;> simp_all [step, inProgress, alive]
  · intro h
    cases hc : s.conn with
    | none => simp [step, hc] at h
    | some ph => exact ⟨ph, rfl, by cases ph <;> simp_all [step, inProgress, alive]⟩

/-- **C19 (… and refuses otherwise).**  `start_connection` is refused with "already connected"
EXACTLY when the attached connection has not been closed — an attempt in progress on an open
connection, or a live session; so an accepted attempt never replaces a connection that is still
open (nothing is left behind unclosed). -/
theorem c19_refuses_iff (s : State) :
    ((step s .callStart).last = .alreadyConnected ↔ ∃ ph, s.conn = some ph ∧ alive ph = true) ∧
    ((step s .callStart).last = .ok → ∀ ph, s.conn = some ph → alive ph = false) := by
  cases hc : s.conn with
  | none => simp [step, hc]
  | some ph => cases ph <;> simp [step, hc, alive]

/-- **C19 (a refused `finish_connection` detaches nothing that is in use).**  Called while the
attached connection is open and busy — the start or a finish in progress, a session up — the call is
refused (the state guard's RuntimeError) and the connection stays attached: the attempt or session
it found goes on under the client's eyes (the defect repaired by 3b69983 detached it).  Only a
closed connection is detached. -/
theorem c19_refused_finish_keeps (s : State) (ph : Ph) (h : s.conn = some ph) :
    (alive ph = true → ph ≠ .opened →
      (step s .callFinish).conn = some ph ∧ (step s .callFinish).last = .rawError) ∧
    (alive ph = false → (step s .callFinish).conn = none ∧ (step s .callFinish).last = .rawError) := by
  cases ph <;> simp [step, h, alive]

/-- … in particular after every history: after any failed attempt, after the device or the user
ended the session, after a close at any stage — once the attempt that was in progress (if any) has
unwound, the client accepts a new attempt -/
theorem c19_never_wedged (evs : List Ev) :
    let s := run {} evs
    ∀ ph, s.conn = some ph → inProgress ph = false → alive ph = false → ph = .closedIdle := by
  intro s ph _ h1 h2
  cases ph <;> simp_all [inProgress, alive]

/-- an attempt in progress on a closed connection always unwinds to "detached" -/
theorem c19_unwinds (s : State) :
    (s.conn = some .closedStart → (step s .startFail).conn = none) ∧
    (s.conn = some .closedFinish → (step s .finishFail).conn = none) := by
  constructor <;> intro h <;> simp [step, h]

/-- **C19 (gate).**  A command / subscription / request issued while no authenticated session is
alive raises a connection error and writes nothing; an unsubscribe / stop closure from an earlier
session writes nothing either. -/
theorem c19_gate (s : State) (h : s.conn ≠ some .connected) :
    (step s .api).last = .connError ∧ (step s .api).writes = s.writes ∧ (step s .closure).writes = s.writes := by
  simp [step, h]

theorem c19_gate_history (evs : List Ev) (e : Ev) (he : e = .api ∨ e = .closure) :
    let s := run {} evs
    s.conn ≠ some .connected → (step s e).writes = s.writes := by
  intro s h
  rcases he with rfl | rfl <;> simp [step, h]

/-! ## non-vacuity -/
/-- disconnect() between the two phases, then a new attempt -/
example : (run {} [.callStart, .startOk, .close, .callStart]).last = .ok := by decide
/-- the device closes while the hello is in flight; the attempt unwinds; next attempt accepted -/
example : (run {} [.callStart, .startOk, .callFinish, .hsDone, .callStart]).last = .alreadyConnected := by decide
example : (run {} [.callStart, .startOk, .callFinish, .hsDone, .close, .finishFail, .callStart]).last = .ok := by decide
/-- a stale closure called while the next session is still in its hello phase writes nothing -/
example : (run {} [.callStart, .startOk, .callFinish, .hsDone, .finishOk, .close, .callStart, .startOk, .callFinish, .hsDone,
    .closure]).writes = 0 := by decide

/-- **C19 (disconnect at any stage).**  In EVERY state, once `disconnect(force=True)` has returned no live connection is
attached any more — so (`c19_accepts`) the next `start_connection` is accepted as soon as the attempt that was in progress,
if any, has unwound. -/
theorem c19_disconnect_closes (s : State) : ∀ p, (step s .disconnect).conn = some p → alive p = false := by
  intro p h
  cases hc : s.conn with
  | none => simp [step, hc] at h
  | some q => cases q <;> simp [step, hc] at h <;> (subst h; rfl)

/-- … in fact at once: a closed connection that is still attached does not block a new attempt -/
theorem c19_disconnect_then_start (s : State) : (step (step s .disconnect) .callStart).last = .ok := by
  cases hc : s.conn with
  | none => simp [step, hc]
  | some q => cases q <;> simp [step, hc]

example : (run {} [.callStart, .startOk, .disconnect, .callStart]).last = .ok := by decide
example : (run {} [.callStart, .disconnect, .startFail, .callStart]).last = .ok := by decide

end Esp.C19
