import Esp.Spec.Wire
import Esp.Lemmas.Varint
import Esp.Lemmas.Bits
/-!
# C02 — everything the client writes conforms to the documented wire format

Model: `Plain.write`, `Noise.write`, `Noise.writeSession` (mirrors of the two `write_packets`).
Spec: the independent strict decoders of `Esp/Spec/Wire.lean`.
-/
namespace Esp.C02
open Esp

/-- the strict (minimal-only) spec decoder accepts the client's varint encoder, for every value -/
theorem spec_varint_encode (n : Nat) : ∀ rest : Bytes, Spec.varint (encodeVarint n ++ rest) = some (n, rest) := by
  induction n using Nat.strongRecOn with
  | _ n ih =>
    intro rest
    rw [encodeVarint_eq]
    split
    · rename_i h
      simp [Spec.varint, toNat_ofNat_lt n (by omega), h]
    · rename_i h
      have hlt : n % 128 + 128 < 256 := by omega
      have hnlt : ¬ (n % 128 + 128 < 128) := by omega
      simp only [List.cons_append, Spec.varint, toNat_ofNat_lt _ hlt, hnlt, ↓reduceIte,
        ih (n / 128) (by omega) rest]
      have : n / 128 ≠ 0 := by omega
      simp only [this, ↓reduceIte, Option.some.injEq, Prod.mk.injEq, and_true]
      omega

theorem decodePlain_frame (p : Packet) (rest : Bytes) :
    Spec.decodePlain (Plain.encodeFrame p ++ rest) = (Spec.decodePlain rest).map (p :: ·) := by
  obtain ⟨ty, pl⟩ := p
  rw [Spec.decodePlain.eq_def]
  simp only [Plain.encodeFrame, List.cons_append, ne_eq, not_true_eq_false, ↓reduceIte]
  split
  · rename_i h1; rw [List.append_assoc, spec_varint_encode] at h1; simp at h1
  · rename_i len r1 h1
    rw [List.append_assoc, spec_varint_encode] at h1
    simp only [Option.some.injEq, Prod.mk.injEq] at h1
    obtain ⟨rfl, rfl⟩ := h1
    split
    · rename_i h2; rw [List.append_assoc, spec_varint_encode] at h2; simp at h2
    · rename_i ty' r2 h2
      rw [List.append_assoc, spec_varint_encode] at h2
      simp only [Option.some.injEq, Prod.mk.injEq] at h2
      obtain ⟨rfl, rfl⟩ := h2
      have hlen : ¬ (pl ++ rest).length < pl.length := by simp
      simp only [hlen, ↓reduceDIte, List.drop_left', List.take_left']
      cases Spec.decodePlain rest <;> simp

/-- **C02 (plaintext).**  For every list of packets, the bytes of the single write decode under
the documented format — zero byte, *minimal* varint length, *minimal* varint type, payload, nothing
left over — to exactly those packets, in order. -/
theorem c02_plain (ps : List Packet) : Spec.decodePlain (Plain.write ps) = some ps := by
  induction ps with
  | nil => simp [Plain.write, Spec.decodePlain]
  | cons p ps ih =>
    have : Plain.write (p :: ps) = Plain.encodeFrame p ++ Plain.write ps := by simp [Plain.write]
    rw [this, decodePlain_frame, ih]; rfl

/-- both varints of every frame are the canonical shortest encodings -/
theorem c02_varints_minimal (p : Packet) :
    MinimalVarint (encodeVarint p.2.length) ∧ MinimalVarint (encodeVarint p.1) :=
  ⟨encodeVarint_minimal _, encodeVarint_minimal _⟩

/-! ## noise -/

/-- the format can carry the packet: 16-bit type, and the sealed frame fits a 16-bit length -/
def InRange (p : Packet) : Prop := p.1 < 65536 ∧ p.2.length + 20 < 65536

theorem decodeNoise_frame (A : Aead) (n : Nat) (p : Packet) (hp : InRange p) (rest : Bytes) :
    Spec.decodeNoise A n (Noise.encodeFrame A n p ++ rest) =
      (Spec.decodeNoise A (n + 1) rest).map (fun r => (p :: r.1, r.2)) := by
  obtain ⟨ty, pl⟩ := p
  obtain ⟨hty, hpl⟩ := hp
  simp only at hty hpl
  rw [Spec.decodeNoise.eq_def]
  simp only [Noise.encodeFrame, List.cons_append, List.nil_append]
  have hflen : (A.enc n (Noise.innerHeader (ty, pl) ++ pl)).length = pl.length + 20 := by
    rw [A.len_enc]; simp [Noise.innerHeader]
  have h1 : ¬ ((1 : UInt8).toNat ≠ 1) := by decide
  have hlen : ¬ (A.enc n (Noise.innerHeader (ty, pl) ++ pl) ++ rest).length < pl.length + 20 := by
    simp [hflen]
  simp only [h1, ↓reduceIte, hflen, be16_split _ (show pl.length + 20 < 65536 by omega), hlen]
  rw [List.take_left' hflen, List.drop_left' hflen, A.dec_enc]
  simp only [Noise.innerHeader, List.cons_append, List.nil_append]
  rw [be16_split _ (by omega), be16_split _ hty]
  simp only [ne_eq, not_true_eq_false, ↓reduceIte]
  cases Spec.decodeNoise A (n + 1) rest <;> simp

/-- **C02 (noise, one write).**  For every AEAD, every starting nonce and every list of packets
the format can carry, the bytes of the single write decode — marker 0x01, exact 16-bit big-endian
length, ciphertext opening under the *consecutive* nonces `n, n+1, …` to 16-bit type, exact 16-bit
length, payload, nothing left over — to exactly those packets, and the cipher's nonce advances by
the number of packets. -/
theorem c02_noise (A : Aead) : ∀ (n : Nat) (ps : List Packet), (∀ p ∈ ps, InRange p) →
    Spec.decodeNoise A n (Noise.write A n ps).1 = some (ps, n + ps.length) ∧
    (Noise.write A n ps).2 = n + ps.length := by
  intro n ps
  induction ps generalizing n with
  | nil => intro _; simp [Noise.write, Spec.decodeNoise]
  | cons p ps ih =>
    intro h
    have hp := h p (by simp)
    have ih' := ih (n + 1) (fun q hq => h q (by simp [hq]))
    simp only [Noise.write, List.length_cons]
    rw [decodeNoise_frame A n p hp, ih'.1, ih'.2]
    constructor
    · simp; omega
    · omega

theorem fits_iff (p : Packet) : Noise.fits p = true ↔ InRange p := by
  simp only [Noise.fits, Bool.and_eq_true, decide_eq_true_eq, InRange]; omega

/-- **C02 (noise, total).**  For *every* batch, in or out of range: `write_packets` either refuses
the whole batch (something in it cannot be carried; nothing is written, the nonce does not move)
or its single write decodes to exactly the batch under consecutive nonces. -/
theorem c02_noise_total (A : Aead) (n : Nat) (ps : List Packet) :
    match Noise.writeChecked A n ps with
    | none => ∃ p ∈ ps, ¬ InRange p
    | some r => Spec.decodeNoise A n r.1 = some (ps, n + ps.length) ∧ r.2 = n + ps.length := by
  unfold Noise.writeChecked
  by_cases hall : ps.all Noise.fits = true
  · simp only [hall, ↓reduceIte]
    exact c02_noise A n ps (fun p hp => (fits_iff p).mp (List.all_eq_true.mp hall p hp))
  · simp only [hall]
    have : ∃ p ∈ ps, Noise.fits p = false := by
      simpa [List.all_eq_true] using hall
    obtain ⟨p, hp, hf⟩ := this
    exact ⟨p, hp, fun hr => by rw [(fits_iff p).mpr hr] at hf; cases hf⟩

/-- **C02 (nonce continuity over a session).**  For every sequence of `write_packets` calls on one
session, the concatenation of all writes decodes from nonce 0 to the concatenation of all batches:
the i-th frame overall is sealed under nonce i, with no gap and no reuse across calls. -/
theorem c02_nonce_chain (A : Aead) : ∀ (n : Nat) (batches : List (List Packet)),
    (∀ b ∈ batches, ∀ p ∈ b, InRange p) →
    Spec.decodeNoise A n (Noise.writeSession A n batches).1.flatten =
      some (batches.flatten, n + batches.flatten.length) ∧
    (Noise.writeSession A n batches).2 = n + batches.flatten.length := by
  intro n batches
  induction batches generalizing n with
  | nil => intro _; simp [Noise.writeSession, Spec.decodeNoise]
  | cons b bs ih =>
    intro h
    have hb := c02_noise A n b (h b (by simp))
    -- decoding distributes over concatenation of writes
    have happ : ∀ (ps : List Packet) (k : Nat) (rest : Bytes), (∀ p ∈ ps, InRange p) →
        Spec.decodeNoise A k ((Noise.write A k ps).1 ++ rest) =
          (Spec.decodeNoise A (k + ps.length) rest).map (fun r => (ps ++ r.1, r.2)) := by
      intro ps
      induction ps with
      | nil => intro k rest _; simp [Noise.write]
      | cons p ps ihp =>
        intro k rest hps
        simp only [Noise.write, List.append_assoc, List.length_cons]
        rw [decodeNoise_frame A k p (hps p (by simp)), ihp (k + 1) rest (fun q hq => hps q (by simp [hq]))]
        have : k + 1 + ps.length = k + (ps.length + 1) := by omega
        rw [this]
        cases Spec.decodeNoise A (k + (ps.length + 1)) rest <;> simp
    have ih' := ih (Noise.write A n b).2 (fun b' hb' => h b' (by simp [hb']))
    simp only [Noise.writeSession, List.flatten_cons, List.length_append]
    rw [happ b n _ (h b (by simp)), ← hb.2, ih'.1, ih'.2]
    constructor
    · simp; omega
    · omega

/-- the explicit form of one write: frame `i` of the batch is sealed under nonce `n + i` -/
theorem c02_write_explicit (A : Aead) : ∀ (n : Nat) (ps : List Packet),
    (Noise.write A n ps).1 = ((ps.zipIdx n).map (fun x => Noise.encodeFrame A x.2 x.1)).flatten := by
  intro n ps
  induction ps generalizing n with
  | nil => simp [Noise.write]
  | cons p ps ih => simp [Noise.write, List.zipIdx_cons, ih (n + 1)]

/-- outside the guard the code does not fail: the 16-bit length fields silently wrap (D6) -/
theorem c02_noise_out_of_range (A : Aead) (n : Nat) (p : Packet) :
    ∃ rest, Noise.encodeFrame A n p = 1 :: hi8 (p.2.length + 20) :: lo8 (p.2.length + 20) :: rest ∧
      (hi8 (p.2.length + 20)).toNat * 256 + (lo8 (p.2.length + 20)).toNat = (p.2.length + 20) % 65536 := by
  refine ⟨A.enc n (Noise.innerHeader p ++ p.2), ?_, ?_⟩
  · have hflen : (A.enc n (Noise.innerHeader p ++ p.2)).length = p.2.length + 20 := by
      rw [A.len_enc]; simp [Noise.innerHeader]
    simp [Noise.encodeFrame, hflen]
  · rw [hi8_toNat, lo8_toNat]; omega

/-! ### non-vacuity -/

/-- an `Aead` instance exists (the symbolic one the driver executes): laws are satisfiable -/
def demoAead : Aead where
  enc n m := (List.replicate 15 0 ++ [UInt8.ofNat n]) ++ m
  dec n c := if c.take 16 = List.replicate 15 0 ++ [UInt8.ofNat n] then some (c.drop 16) else none
  dec_enc := by intro n m; simp
  len_enc := by intro n m; simp

example : InRange (123, List.replicate 65515 0) := by simp only [InRange, List.length_replicate]; omega
example : ¬ InRange (1, List.replicate 65516 0) := by simp only [InRange, List.length_replicate]; omega
example : Spec.decodePlain (Plain.write [(300, [1, 2, 3]), (7, [])]) = some [(300, [1, 2, 3]), (7, [])] :=
  c02_plain _
/-- the strict decoder rejects a non-minimal length varint (0x80 0x00 for 0) that the client's
own reader would accept: the spec is genuinely stricter than the code's reader -/
example : Spec.decodePlain [0, 0x80, 0x00, 7] = none := by decide +kernel

end Esp.C02
