import Esp.Gen.Proto
import Esp.Gen.Registry
import Esp.Gen.Usage
/-!
# C13 — the message-id registry equals api.proto's ids; positional lookup is right for every id

There is no hand-written model: the model *is* the generated tables (`Esp/Gen`, rewritten from
/repo on every run).  Finite-table facts are checked by the kernel (`decide +kernel` / `rfl`) and
then lifted to statements over all `id : Nat` by ordinary lemmas.
-/
namespace Esp.C13
open Esp Gen

/-- (id, name) of every message that declares an `option (id)` in the api.proto *text*, file order -/
def textIds : List (Nat × Name) := (textMessages.filter (fun m => m.2.1 ≠ 0)).map (fun m => (m.2.1, m.1))

def insertById (x : Nat × Name) : List (Nat × Name) → List (Nat × Name)
  | [] => [x]
  | y :: ys => if x.1 ≤ y.1 then x :: y :: ys else y :: insertById x ys

def sortById (l : List (Nat × Name)) : List (Nat × Name) := l.foldr insertById []

/-- **C13 (registry = declared ids).**  `core.MESSAGE_TYPE_TO_PROTO`, in its dict order, is exactly
the list of (id, message) pairs declared in api.proto's text, sorted by id: every declared id is
present under that id with that class, and nothing else is. -/
theorem c13_registry_eq : registry = sortById textIds := by decide +kernel

/-- ids are `1 … n`, without gap or repetition, in table order -/
theorem c13_ids_contiguous : registry.map Prod.fst = List.range' 1 registry.length := by decide +kernel

/-- no class is registered under two ids -/
theorem c13_names_unique : (registry.map Prod.snd).Nodup := by decide +kernel

/-- `connection.MESSAGE_NUMBER_TO_PROTO` is the registry's classes in order -/
theorem c13_number_to_proto : numberToProto = registry.map Prod.snd := by decide +kernel

/-- `connection.PROTO_TO_MESSAGE_TYPE` is the registry inverted -/
theorem c13_proto_to_type : protoToType = registry.map (fun r => (r.2, r.1)) := by decide +kernel

/-- positional lookup in a table whose keys are `k, k+1, …` selects the entry stored under the key -/
theorem lookup_of_range {α : Type} [DecidableEq α] : ∀ (l : List (Nat × α)) (k : Nat),
    l.map Prod.fst = List.range' k l.length →
    ∀ id, k ≤ id → id < k + l.length → (l.map Prod.snd)[id - k]? = l.lookup id := by
  intro l
  induction l with
  | nil => intro k _ id h1 h2; simp at h2; omega
  | cons x xs ih =>
    intro k h id h1 h2
    simp only [List.map_cons, List.length_cons, List.range'_succ, List.cons.injEq] at h
    obtain ⟨hx, hxs⟩ := h
    by_cases hid : id = k
    · subst hid
      obtain ⟨a, b⟩ := x
      simp only at hx; subst hx
      simp [List.lookup]
    · have hgt : k + 1 ≤ id := by omega
      obtain ⟨a, b⟩ := x
      simp only at hx; subst hx
      have hne : (id == a) = false := by simp; omega
      have := ih (a + 1) hxs id hgt (by simp at h2; omega)
      simp only [List.map_cons, List.lookup, hne]
      rw [← this]
      have : id - a = (id - (a + 1)) + 1 := by omega
      rw [this]; simp

/-- **C13 (positional lookup).**  For *every* `id : ℕ` in `1 … n`, `MESSAGE_NUMBER_TO_PROTO[id-1]`
(what `process_packet` does) is the class registered — and declared in api.proto — under `id`. -/
theorem c13_positional (id : Nat) (h1 : 1 ≤ id) (h2 : id ≤ registry.length) :
    numberToProto[id - 1]? = registry.lookup id ∧ registry.lookup id = (sortById textIds).lookup id := by
  constructor
  · rw [c13_number_to_proto]
    exact lookup_of_range registry 1 c13_ids_contiguous id h1 (by omega)
  · rw [← c13_registry_eq]

/-- ids above `n` fall off the table: positional lookup raises `IndexError` (ignored frame) -/
theorem c13_out_of_range (id : Nat) (h : registry.length < id) : numberToProto[id - 1]? = none := by
  rw [c13_number_to_proto]
  simp; omega

abbrev FieldRow := Name × Nat × Name × Bool
instance : DecidableEq FieldRow := fun a b =>
  if h : a.1 = b.1 ∧ a.2.1 = b.2.1 ∧ a.2.2.1 = b.2.2.1 ∧ a.2.2.2 = b.2.2.2 then
    isTrue (by obtain ⟨a1, a2, a3, a4⟩ := a; obtain ⟨b1, b2, b3, b4⟩ := b; simp_all)
  else isFalse (by intro e; subst e; simp at h)

/-- **C13 (compiled descriptors agree with the .proto text).**  Message names, ids and sources;
every field's name, number, type and repeatedness; every enum's members and numbers. -/
theorem c13_desc_eq_text :
    descMessages = textMessages ∧ descFields = textFields ∧ descEnums = textEnums := by
  refine ⟨by decide +kernel, ?_, by decide +kernel⟩
  show (descFields : List (Name × List FieldRow)) = textFields
  decide +kernel

/-- sources are one of the three declared values -/
theorem c13_sources_wellformed :
    textMessages.all (fun m => m.2.2 == "SOURCE_BOTH".toList.map Char.toNat ||
      m.2.2 == "SOURCE_SERVER".toList.map Char.toNat || m.2.2 == "SOURCE_CLIENT".toList.map Char.toNat) = true := by
  decide +kernel

/-- the declared source of a message, from the api.proto text -/
def sourceOf (n : Name) : Option Name := (textMessages.find? (fun m => m.1 == n)).map (·.2.2)

def srcBoth : Name := "SOURCE_BOTH".toList.map Char.toNat
def srcServer : Name := "SOURCE_SERVER".toList.map Char.toNat
def srcClient : Name := "SOURCE_CLIENT".toList.map Char.toNat

def maySend (n : Name) : Bool := sourceOf n == some srcClient || sourceOf n == some srcBoth
def maySubscribe (n : Name) : Bool := sourceOf n == some srcServer || sourceOf n == some srcBoth

/-- **C13 (direction).**  For every public API entry point (plus the internal handlers, their
replies, the connect handshake and the keepalive): every message type it writes is marked
client- or both-originated in api.proto, every type it subscribes to is marked server- or
both-originated. -/
theorem c13_direction :
    ∀ e ∈ usage, (∀ m ∈ e.2.1, maySend m = true) ∧ (∀ m ∈ e.2.2, maySubscribe m = true) := by
  have h : usage.all (fun e => e.2.1.all maySend && e.2.2.all maySubscribe) = true := by decide +kernel
  intro e he
  have := List.all_eq_true.mp h e he
  simp only [Bool.and_eq_true, List.all_eq_true] at this
  exact this

/-! ### non-vacuity -/
example : 20 ≤ usage.length := by decide +kernel
example : registry.length = 123 ∨ 0 < registry.length := Or.inr (by decide +kernel)
example : registry.lookup 1 = some ("HelloRequest".toList.map Char.toNat) := by decide +kernel

end Esp.C13
