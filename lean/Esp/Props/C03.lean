import Esp.Lemmas.Noise
/-!
# C03 — noise sessions interoperate with any conformant responder, for any chunking

Model: `Esp.Noise` (`Esp/Model/Noise.lean`).  Every theorem is for all `Aead` instances and all
handshake oracles; the conformant responder is described by `responderFrames`.
-/
namespace Esp.C03
open Esp Noise

/-- server hello body: protocol selector 0x01, then (since 2022.2) the NUL-terminated name -/
def helloBody (name? : Option Bytes) : Bytes :=
  1 :: (match name? with | none => [] | some n => n ++ [0])

/-- the frames a conformant responder sends: hello, handshake (0x00 ‖ noise message), then the
i-th application message sealed under nonce i as (type, length, payload) -/
def responderFrames (A : Aead) (name? : Option Bytes) (hsPayload : Bytes) (msgs : List Packet) : List Bytes :=
  helloBody name? :: (0 :: hsPayload) :: (msgs.zipIdx.map fun x => A.enc x.2 (innerHeader x.1 ++ x.1.2))

def responderStream (A : Aead) (name? : Option Bytes) (hsPayload : Bytes) (msgs : List Packet) : Bytes :=
  ((responderFrames A name? hsPayload msgs).map frameBytes).flatten

structure Conformant (cfg : Config) (name? : Option Bytes) (hsPayload : Bytes) (msgs : List Packet) : Prop where
  hs_ok : cfg.hs hsPayload = .ok
  name_ok : ∀ n, name? = some n → cfg.utf8 n = true ∧ (0 : UInt8) ∉ n ∧ n.length + 2 < 65536
  hs_len : hsPayload.length + 1 < 65536
  msgs_ok : ∀ m ∈ msgs, m.1 < 65536 ∧ m.2.length + 20 < 65536

/-- the acceptance rule of the property: no expected name, or the names are equal (a hello that
announces no name at all has nothing to compare and is accepted) -/
def NameAccepted (expected name? : Option Bytes) : Prop :=
  expected = none ∨ name? = none ∨ name? = expected

/-! ## splitting a conformant stream -/

theorem drain_frames : ∀ (fs : List Bytes), (∀ f ∈ fs, f.length < 65536) →
    drain splitter (fs.map frameBytes).flatten = (fs, [], none) := by
  intro fs
  induction fs with
  | nil => intro _; simpa using drain_nil splitter
  | cons f fs ih =>
    intro h
    have hp : splitter.parseOne (frameBytes f ++ (fs.map frameBytes).flatten) = .frame f _ :=
      parseOne_frame f _ (h f (by simp))
    simp only [List.map_cons, List.flatten_cons]
    rw [drain_frame splitter _ f _ hp, ih (fun g hg => h g (by simp [hg]))]

/-! ## handling a conformant frame sequence -/

theorem findName_none : findName (helloBody none) = none := by
  simp [findName, helloBody]

theorem takeWhile_ne_zero (n : Bytes) (h : (0 : UInt8) ∉ n) : (n ++ [0]).takeWhile (· ≠ 0) = n := by
  induction n with
  | nil => simp
  | cons x xs ih =>
    have hx : x ≠ 0 := by intro hx; apply h; simp [hx]
    have hxs : (0 : UInt8) ∉ xs := by intro hh; apply h; simp [hh]
    have := ih hxs
    simp only [List.cons_append, List.takeWhile_cons, ne_eq, hx, not_false_eq_true, decide_true, ↓reduceIte,
      List.cons.injEq, true_and]
    simpa using this

theorem findName_some (n : Bytes) (h : (0 : UInt8) ∉ n) : findName (helloBody (some n)) = some n := by
  simp only [findName, helloBody, List.drop_succ_cons, List.drop_zero]
  have : (n ++ [0]).contains (0 : UInt8) = true := by simp
  simp only [this, ↓reduceIte, takeWhile_ne_zero n h]

theorem hello_accepted (cfg : Config) (name? : Option Bytes) (s : State)
    (hname : ∀ n, name? = some n → cfg.utf8 n = true ∧ (0 : UInt8) ∉ n)
    (hacc : NameAccepted cfg.expectedName name?) :
    ∃ sn, handleHello cfg s (helloBody name?) = .ok ({ s with phase := .handshake, serverName := sn }, []) := by
  cases name? with
  | none =>
    refine ⟨s.serverName, ?_⟩
    have h1 : ¬ ((1 : UInt8).toNat ≠ 1) := by decide
    simp only [handleHello, helloBody, h1, ↓reduceIte]
    have := findName_none; simp only [helloBody] at this
    simp [this]
  | some n =>
    obtain ⟨hu, h0⟩ := hname n rfl
    refine ⟨some n, ?_⟩
    have h1 : ¬ ((1 : UInt8).toNat ≠ 1) := by decide
    have hf := findName_some n h0
    simp only [helloBody] at hf
    simp only [handleHello, helloBody, h1, ↓reduceIte, hf, hu, Bool.not_true, Bool.false_eq_true]
    rcases hacc with he | he | he
    · simp [he]
    · cases he
    · rw [← he]; simp

theorem ready_frames (A : Aead) : ∀ (msgs : List Packet) (k : Nat) (rd : Ready) (sn : Option Bytes) (tc : Bool),
    (∀ m ∈ msgs, m.1 < 65536) →
    handleAll cfg A.dec { phase := .ready, decNonce := k, ready := rd, serverName := sn, transportClosed := tc }
        ((msgs.zipIdx k).map fun x => A.enc x.2 (innerHeader x.1 ++ x.1.2)) =
      ({ phase := .ready, decNonce := k + msgs.length, ready := rd, serverName := sn, transportClosed := tc },
        msgs.map .deliver, msgs.length, none) := by
  intro msgs
  induction msgs with
  | nil => intro k rd sn tc _; simp [handleAll]
  | cons m ms ih =>
    intro k rd sn tc hm
    have hty := hm m (by simp)
    have hin : innerPacket (innerHeader m ++ m.2) = some m := by
      simp [innerPacket, innerHeader, be16_hi_lo _ hty]
    simp only [List.zipIdx_cons, List.map_cons, handleAll, dispatch, handleFrame, A.dec_enc, hin]
    rw [ih (k + 1) rd sn tc (fun x hx => hm x (by simp [hx]))]
    simp [Nat.add_assoc, Nat.add_comm 1]

/-- **C03 (interoperability, any chunking).**  Against a conformant responder — any key (any
`Aead`), announced name present or absent but acceptable, any handshake payload the noise library
accepts, any message list the format can carry — and for *every* way of cutting the responder's
byte stream into `data_received` calls (hello, handshake and data frames may share or straddle
chunks): the events are exactly one readiness signal followed by exactly the responder's messages
in order; the helper ends ready, with its inbound nonce equal to the number of messages, nothing
buffered, and the transport open. -/
theorem c03_interop (cfg : Config) (A : Aead) (name? : Option Bytes) (hsPayload : Bytes)
    (msgs : List Packet) (chunks : List Bytes)
    (hconf : Conformant cfg name? hsPayload msgs)
    (hacc : NameAccepted cfg.expectedName name?)
    (hcat : chunks.flatten = responderStream A name? hsPayload msgs) :
    (run cfg A.dec {} chunks).2.flatten = .ready :: msgs.map .deliver ∧
    (run cfg A.dec {} chunks).1.st.phase = .ready ∧
    (run cfg A.dec {} chunks).1.st.ready = .ok ∧
    (run cfg A.dec {} chunks).1.st.decNonce = msgs.length ∧
    (run cfg A.dec {} chunks).1.buf = [] ∧
    (run cfg A.dec {} chunks).1.st.transportClosed = false := by
  -- 1. the splitter recovers exactly the responder's frames
  have hlen : ∀ f ∈ responderFrames A name? hsPayload msgs, f.length < 65536 := by
    intro f hf
    simp only [responderFrames, List.mem_cons, List.mem_map] at hf
    rcases hf with rfl | rfl | ⟨x, hx, rfl⟩
    · cases name? with
      | none => simp [helloBody]
      | some n => have := (hconf.name_ok n rfl).2.2; simp [helloBody]; omega
    · have := hconf.hs_len; simp; omega
    · have hm := (hconf.msgs_ok x.1 (List.fst_mem_of_mem_zipIdx hx)).2
      rw [A.len_enc]; simp [innerHeader]; omega
  have hdrain := drain_frames _ hlen
  -- 2. handling them: hello, handshake, then the data frames from nonce 0
  obtain ⟨sn, hhello⟩ := hello_accepted cfg name? ({} : State)
    (fun n hn => ⟨(hconf.name_ok n hn).1, (hconf.name_ok n hn).2.1⟩) hacc
  have h0 : ¬ ((0 : UInt8).toNat ≠ 0) := by decide
  have hall : handleAll cfg A.dec ({} : State) (responderFrames A name? hsPayload msgs) =
      ({ phase := .ready, ready := .ok, decNonce := msgs.length, serverName := sn, transportClosed := false },
        .ready :: msgs.map .deliver, msgs.length + 1 + 1, none) := by
    simp only [responderFrames, handleAll, dispatch, hhello, handleHandshake, h0, ↓reduceIte, hconf.hs_ok]
    rw [ready_frames (cfg := cfg) A msgs 0 _ _ _ (fun m hm => (hconf.msgs_ok m hm).1)]
    simp
  -- 3. any chunking gives the one-pass result
  have hone := run_eq_onepass cfg A.dec chunks {} (drain_nil _) rfl
    (by simp only [List.nil_append, hcat, responderStream, hdrain])
    (by simp only [List.nil_append, hcat, responderStream, hdrain, hall])
    (by simp only [List.nil_append, hcat, responderStream, hdrain, hall])
  simp only [List.nil_append, hcat, responderStream, hdrain, hall] at hone
  obtain ⟨e1, e2, e3⟩ := hone
  show (run cfg A.dec { st := {}, buf := [] } chunks).2.flatten = _ ∧ _
  simp only [hcat, responderStream] at *
  refine ⟨e1, ?_, ?_, ?_, e3, ?_⟩ <;> rw [e2]

/-! ## no application message before readiness — for any input whatsoever -/

/-- in an event list, every delivery is preceded by the readiness signal -/
def NoEarly (evs : List Ev) : Prop :=
  ∀ pre p post, evs = pre ++ Ev.deliver p :: post → Ev.ready ∈ pre

theorem noEarly_append_nodeliver (evs ev : List Ev) (h : NoEarly evs) (hn : ∀ p, Ev.deliver p ∉ ev) :
    NoEarly (evs ++ ev) := by
  intro pre p post heq
  rcases List.append_eq_append_iff.mp heq with ⟨a, ha, hb⟩ | ⟨c, hc, hd⟩
  · -- pre = evs ++ a, ev = a ++ deliver :: post: impossible
    exfalso; apply hn p; rw [hb]; simp
  · cases c with
    | nil => exfalso; simp at hd; apply hn p; rw [← hd]; simp
    | cons x xs =>
      simp only [List.cons_append, List.cons.injEq] at hd
      obtain ⟨rfl, _⟩ := hd
      exact h pre p xs hc

theorem noEarly_append_ready (evs ev : List Ev) (h : NoEarly evs) (hr : Ev.ready ∈ evs) :
    NoEarly (evs ++ ev) := by
  intro pre p post heq
  rcases List.append_eq_append_iff.mp heq with ⟨a, ha, _⟩ | ⟨c, hc, hd⟩
  · rw [ha]; simp [hr]
  · cases c with
    | nil => simp only [List.append_nil] at hc; rw [← hc]; exact hr
    | cons x xs =>
      simp only [List.cons_append, List.cons.injEq] at hd
      obtain ⟨rfl, _⟩ := hd
      exact h pre p xs hc

/-- invariant: nothing delivered early, and being in the ready phase means readiness was signalled -/
def Inv (s : State) (evs : List Ev) : Prop := NoEarly evs ∧ (s.phase = .ready → Ev.ready ∈ evs)

theorem handleError_inv (s : State) (e : NoiseErr) (evs : List Ev) (h : Inv s evs) :
    Inv (handleError s e).1 (evs ++ (handleError s e).2) := by
  refine ⟨noEarly_append_nodeliver _ _ h.1 (by simp [handleError]), ?_⟩
  simp [handleError, close]

theorem dispatch_inv_ok (cfg : Config) (D : Dec) (s : State) (f : Bytes) (evs : List Ev) (h : Inv s evs)
    (r : State × List Ev) (hr : dispatch cfg D s f = .ok r) : Inv r.1 (evs ++ r.2) := by
  unfold dispatch at hr
  cases hp : s.phase <;> simp only [hp] at hr
  · unfold handleHello at hr
    (repeat' split at hr) <;> (try cases hr) <;>
      first
      | exact handleError_inv s _ evs h
      | exact handleError_inv _ _ evs ⟨h.1, by simp [hp]⟩
      | exact ⟨by simpa using h.1, by simp⟩
  · unfold handleHandshake at hr
    (repeat' split at hr) <;> (try cases hr) <;>
      first
      | exact handleError_inv s _ evs h
      | exact ⟨noEarly_append_nodeliver _ _ h.1 (by simp), by simp⟩
  · unfold handleFrame at hr
    have hready := h.2 hp
    (repeat' split at hr) <;> (try cases hr) <;>
      exact ⟨noEarly_append_ready _ _ h.1 hready, fun _ => List.mem_append_left _ hready⟩
  · unfold handleClosed at hr
    cases hr
    exact handleError_inv s _ evs h

theorem dispatch_inv_err (cfg : Config) (D : Dec) (s : State) (f : Bytes) (evs : List Ev) (h : Inv s evs)
    (r : State × List Ev × Exc) (hr : dispatch cfg D s f = .error r) : Inv r.1 (evs ++ r.2.1) := by
  unfold dispatch at hr
  cases hp : s.phase <;> simp only [hp] at hr
  · unfold handleHello at hr
    (repeat' split at hr) <;> (try cases hr) <;> exact ⟨by simpa using h.1, by simp [hp]⟩
  · unfold handleHandshake at hr
    (repeat' split at hr) <;> (try cases hr) <;> exact ⟨by simpa using h.1, by simp [hp]⟩
  · unfold handleFrame at hr
    have hready := h.2 hp
    (repeat' split at hr) <;> (try cases hr) <;> exact ⟨by simpa using h.1, fun _ => by simpa using hready⟩
  · unfold handleClosed at hr
    cases hr

theorem handleAll_inv (cfg : Config) (D : Dec) : ∀ (fs : List Bytes) (s : State) (evs : List Ev),
    Inv s evs → Inv (handleAll cfg D s fs).1 (evs ++ (handleAll cfg D s fs).2.1) := by
  intro fs
  induction fs with
  | nil => intro s evs h; simpa [handleAll] using h
  | cons f fs ih =>
    intro s evs h
    simp only [handleAll]
    cases hdd : dispatch cfg D s f with
    | error x => simp only; exact dispatch_inv_err cfg D s f evs h x hdd
    | ok r =>
      obtain ⟨s1, ev⟩ := r
      have hd := dispatch_inv_ok cfg D s f evs h _ hdd
      simp only at hd ⊢
      have := ih s1 (evs ++ ev) hd
      simpa [List.append_assoc] using this

theorem feed_inv (cfg : Config) (D : Dec) (h : Helper) (c : Bytes) (evs : List Ev) (hi : Inv h.st evs) :
    Inv (feed cfg D h c).1.st (evs ++ (feed cfg D h c).2) := by
  unfold feed
  split
  · simpa using hi
  · have ha := handleAll_inv cfg D (drain splitter (h.buf ++ c)).1 h.st evs hi
    simp only
    split
    · rename_i x hx
      simp only [connectionLost]
      have := handleError_inv _ (classify (handleAll cfg D h.st (drain splitter (h.buf ++ c)).1).1 x) _ ha
      refine ⟨by simpa [List.append_assoc] using this.1, by simp [handleError, close]⟩
    · split
      · have := handleError_inv _ NoiseErr.protocol _ ha
        simpa [handleErrorAndClose, List.append_assoc] using this
      · exact ha

/-- **C03 (no application message before the handshake has completed).**  For *any* byte
stream and chunking — conformant or not — every packet handed to `process_packet` is preceded, in
the helper's event order, by the readiness signal. -/
theorem c03_no_early (cfg : Config) (D : Dec) (chunks : List Bytes) :
    NoEarly (run cfg D {} chunks).2.flatten := by
  have : ∀ (chunks : List Bytes) (h : Helper) (evs : List Ev), Inv h.st evs →
      Inv (run cfg D h chunks).1.st (evs ++ (run cfg D h chunks).2.flatten) := by
    intro chunks
    induction chunks with
    | nil => intro h evs hi; simpa [run] using hi
    | cons c cs ih =>
      intro h evs hi
      have h1 := feed_inv cfg D h c evs hi
      have := ih (feed cfg D h c).1 _ h1
      simpa [run, List.append_assoc] using this
  have h0 : Inv ({} : Helper).st [] := ⟨by intro pre p post h; simp at h, by simp⟩
  simpa using (this chunks {} [] h0).1

/-- nothing can be *sent* before readiness either: the encrypting cipher exists only from the
handshake on.  In the model: `ready` is the only event that leaves the hello/handshake phases. -/
theorem c03_ready_iff_phase (cfg : Config) (D : Dec) (chunks : List Bytes) :
    (run cfg D {} chunks).1.st.phase = .ready → Ev.ready ∈ (run cfg D {} chunks).2.flatten := by
  have : ∀ (chunks : List Bytes) (h : Helper) (evs : List Ev), Inv h.st evs →
      Inv (run cfg D h chunks).1.st (evs ++ (run cfg D h chunks).2.flatten) := by
    intro chunks
    induction chunks with
    | nil => intro h evs hi; simpa [run] using hi
    | cons c cs ih =>
      intro h evs hi
      have h1 := feed_inv cfg D h c evs hi
      have := ih (feed cfg D h c).1 _ h1
      simpa [run, List.append_assoc] using this
  have h0 : Inv ({} : Helper).st [] := ⟨by intro pre p post h; simp at h, by simp⟩
  simpa using (this chunks {} [] h0).2

/-- **C03 (name rule).**  A hello announcing `name` (valid UTF-8, no NUL) is accepted iff no
expected name is configured or the names are equal; otherwise the helper closes with bad-name
carrying the received name. -/
theorem c03_name (cfg : Config) (s : State) (n : Bytes) (hu : cfg.utf8 n = true) (h0 : (0 : UInt8) ∉ n) :
    (cfg.expectedName = none ∨ cfg.expectedName = some n →
      handleHello cfg s (helloBody (some n)) = .ok ({ s with phase := .handshake, serverName := some n }, [])) ∧
    (∀ e, cfg.expectedName = some e → e ≠ n →
      handleHello cfg s (helloBody (some n)) = .ok (handleErrorAndClose { s with serverName := some n } (.badName n))) := by
  have h1 : ¬ ((1 : UInt8).toNat ≠ 1) := by decide
  have hf := findName_some n h0
  simp only [helloBody] at hf
  constructor
  · intro h
    simp only [handleHello, helloBody, h1, ↓reduceIte, hf, hu, Bool.not_true, Bool.false_eq_true]
    rcases h with h | h <;> simp [h]
  · intro e he hne
    simp only [handleHello, helloBody, h1, ↓reduceIte, hf, hu, Bool.not_true, Bool.false_eq_true, he]
    simp [hne]

/-! ### non-vacuity -/
example : Conformant { expectedName := some [100], hs := fun _ => .ok, utf8 := fun _ => true }
    (some [100]) [9, 9] [(7, [1, 2]), (300, [])] :=
  ⟨rfl, by intro n h; cases h; simp, by simp, by intro m hm; simp at hm; rcases hm with rfl | rfl <;> simp⟩
example : NameAccepted (some [100]) (some [100]) := Or.inr (Or.inr rfl)

end Esp.C03
