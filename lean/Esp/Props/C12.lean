import Esp.Model.Dispatch
import Esp.Props.C13
/-!
# C12 — dispatch exactly once in order; unknown types ignored; peer requests answered

Property theorems.  Model: `Esp.Dispatch` (`Esp/Model/Dispatch.lean`).  Quantifiers: every type
number in ℕ, both decode outcomes, every handler table, every script of subscribe/unsubscribe
operations a callback may run (itself included), every iteration order of the handler set, every
history of subscribe / unsubscribe / packet operations.
-/
namespace Esp.C12
open Esp Dispatch

/-! ## the instance tied to the generated registry -/

def nm (s : String) : Name := s.toList.map Char.toNat
def idOf (s : String) : Nat := ((Gen.protoToType.lookup (nm s))).getD 0

/-- the configuration `process_packet` runs with: table size and the six ids from the generated registry -/
def cfg (scripts : Nat → List Act) : Cfg :=
  { n := Gen.numberToProto.length
    discReq := idOf "DisconnectRequest", discResp := idOf "DisconnectResponse"
    pingReq := idOf "PingRequest", pingResp := idOf "PingResponse"
    timeReq := idOf "GetTimeRequest", timeResp := idOf "GetTimeResponse"
    scripts := scripts }

/-- the six special ids exist and are the declared ones -/
theorem cfg_ids : (cfg sc).discReq = 5 ∧ (cfg sc).discResp = 6 ∧ (cfg sc).pingReq = 7 ∧ (cfg sc).pingResp = 8 ∧
    (cfg sc).timeReq = 36 ∧ (cfg sc).timeResp = 37 := by
  refine ⟨?_, ?_, ?_, ?_, ?_, ?_⟩ <;> simp only [cfg, idOf] <;> decide +kernel

theorem cfg_n : (cfg sc).n = Gen.registry.length := by
  simp only [cfg, C13.c13_number_to_proto, List.length_map]

/-! ## unknown types -/

theorem klass_none_iff (c : Cfg) (id : Nat) : klass c id = none ↔ id = 0 ∨ c.n < id := by
  simp only [klass]; split <;> simp <;> omega

/-- **C12 (unknown types are inert), model level.**  A frame whose type number selects no class is
ignored: the state is returned unchanged (no delivery, no write, no keepalive effect, no close),
whatever its payload. -/
theorem c12_unknown_inert (c : Cfg) (s : St) (id : Nat) (ok : Bool) (order : List Nat)
    (h : klass c id = none) : processPacket c s id ok order = (s, .ignored) := by
  simp only [processPacket, h]; split <;> rfl

/-- the ids the protocol defines (api.proto text, via C13) are exactly `1 … n` -/
theorem declared_iff (id : Nat) : id ∈ (C13.sortById C13.textIds).map Prod.fst ↔ 1 ≤ id ∧ id ≤ Gen.registry.length := by
  rw [← C13.c13_registry_eq, C13.c13_ids_contiguous, List.mem_range'_1]; omega

/-- **C12 (unknown types are inert), tied to api.proto.**  For EVERY type number not declared in
api.proto — 0, every number above the last declared id, however large — and every payload,
`process_packet` has no effect at all. -/
theorem c12_undeclared_inert (sc : Nat → List Act) (s : St) (id : Nat) (ok : Bool) (order : List Nat)
    (h : id ∉ (C13.sortById C13.textIds).map Prod.fst) :
    processPacket (cfg sc) s id ok order = (s, .ignored) := by
  apply c12_unknown_inert
  rw [klass_none_iff, cfg_n]
  rw [declared_iff] at h
  omega

/-- a declared id selects the class declared under that id (C13) -/
theorem c12_declared_known (sc : Nat → List Act) (id : Nat)
    (h : id ∈ (C13.sortById C13.textIds).map Prod.fst) : klass (cfg sc) id = some id := by
  rw [declared_iff] at h
  simp only [klass, cfg_n]; rw [if_pos h]

/-! ## undecodable payload -/

/-- **C12 (undecodable payload of a known type).**  The connection closes with a protocol error
(kept as the fatal cause unless an earlier one exists), nothing is delivered, the error is re-raised. -/
theorem c12_bad_payload (c : Cfg) (s : St) (id t : Nat) (order : List Nat)
    (hk : klass c id = some t) (hopen : s.closed = false) :
    let r := processPacket c s id false order
    r.2 = .badPayload ∧ r.1.closed = true ∧ r.1.log = s.log ∧ r.1.writes = s.writes ∧
    (s.fatal = none → r.1.fatal = some .protocol) ∧ (s.fatal ≠ none → r.1.fatal = s.fatal) := by
  simp only [processPacket, hopen, hk, reportFatal, cleanup]
  cases hf : s.fatal <;> simp [hopen]

/-! ## exactly once, whatever the callbacks do -/

theorem send_log (s : St) (t : Nat) : (send s t).1.log = s.log := by
  simp only [send, reportFatal, cleanup]; (repeat' split) <;> rfl

theorem cleanup_log (s : St) : (cleanup s).log = s.log := by
  simp only [cleanup]; split <;> rfl

theorem callHandler_log (c : Cfg) (s : St) (seq t h : Nat) :
    (callHandler c s seq t h).1.log = s.log ++ [(seq, t, h)] := by
  simp only [callHandler]
  split
  · split
    · rename_i heq; have := congrArg (·.1.log) heq; simp only [send_log] at this; exact this.symm
    · rename_i heq; have := congrArg (·.1.log) heq; simp only [send_log] at this; rw [cleanup_log]; exact this.symm
  · split
    · rw [send_log]
    · split
      · rw [send_log]
      · rfl

/-- the deliveries made by the loop are a prefix of the iteration order, all of it if nothing raised -/
theorem callAll_log (c : Cfg) (seq t : Nat) : ∀ (order : List Nat) (s : St),
    ∃ k, k ≤ order.length ∧ (callAll c seq t s order).1.log = s.log ++ (order.take k).map (fun h => (seq, t, h)) ∧
      ((callAll c seq t s order).2 = none → k = order.length) := by
  intro order
  induction order with
  | nil => intro s; exact ⟨0, by simp [callAll]⟩
  | cons h hs ih =>
    intro s
    simp only [callAll]
    have hl := callHandler_log c s seq t h
    generalize hr : callHandler c s seq t h = r at hl
    obtain ⟨s1, e⟩ := r
    cases e with
    | some e => exact ⟨1, by simp, by simpa using hl, by simp⟩
    | none =>
      obtain ⟨k, hk, hlog, hall⟩ := ih s1
      refine ⟨k + 1, by simp; omega, ?_, fun hn => by simp [hall hn]⟩
      simp only at hl
      rw [hlog, hl]; simp

/-- **C12 (exactly once, at that moment, re-entrancy safe).**  For a decodable message of a known
type on an open connection: the callbacks invoked are exactly the handlers subscribed to that type
*when dispatch starts* (the snapshot), each exactly once, in the set's iteration order — whatever
the callbacks' scripts subscribe or unsubscribe meanwhile (themselves and each other included).
(If a callback raises — only the internal ones can, on a failing write — the deliveries are the
prefix up to it.) -/
theorem c12_exactly_once (c : Cfg) (s : St) (id t : Nat) (order : List Nat)
    (hk : klass c id = some t) (hopen : s.closed = false) (hperm : isPerm order (s.table t) = true) :
    let r := processPacket c s id true order
    ∃ k, k ≤ order.length ∧ r.1.log = s.log ++ (order.take k).map (fun h => (s.seq + 1, t, h)) ∧
      (r.2 = .dispatched none → k = order.length) := by
  have hc : ¬ s.closed = true := by simp [hopen]
  simp only [processPacket, hk, hperm]
  rw [if_neg hc]
  obtain ⟨k, hk, hlog, hall⟩ := callAll_log c (s.seq + 1) t order
    { s with pongArmed := false, pendingPing := false, seq := s.seq + 1 }
  refine ⟨k, hk, by simpa using hlog, ?_⟩
  intro h; apply hall; simpa using h

/-- user callbacks never raise and never write: with only user handlers subscribed, delivery is
complete -/
theorem callAll_users (c : Cfg) (seq t : Nat) : ∀ (order : List Nat) (s : St), (∀ h ∈ order, 3 ≤ h) →
    (callAll c seq t s order).2 = none ∧ (callAll c seq t s order).1.writes = s.writes ∧
    (callAll c seq t s order).1.closed = s.closed ∧ (callAll c seq t s order).1.pongArmed = s.pongArmed ∧
    (callAll c seq t s order).1.pendingPing = s.pendingPing := by
  intro order
  induction order with
  | nil => intro s _; simp [callAll]
  | cons h hs ih =>
    intro s hu
    have h3 : 3 ≤ h := hu h (by simp)
    have hne : h ≠ hDisc ∧ h ≠ hPing ∧ h ≠ hTime := by simp [hDisc, hPing, hTime]; omega
    simp only [callAll, callHandler, hne.1, hne.2.1, hne.2.2, ↓reduceIte]
    exact ih _ (fun x hx => hu x (by simp [hx]))

/-- a valid message is a sign of life: pong deadline cancelled, pending ping cleared -/
theorem c12_sign_of_life (c : Cfg) (s : St) (id t : Nat) (order : List Nat)
    (hk : klass c id = some t) (hopen : s.closed = false) (hperm : isPerm order (s.table t) = true)
    (hu : ∀ h ∈ order, 3 ≤ h) :
    let r := processPacket c s id true order
    r.1.pongArmed = false ∧ r.1.pendingPing = false ∧ r.1.closed = false ∧ r.1.writes = s.writes := by
  have hc : ¬ s.closed = true := by simp [hopen]
  simp only [processPacket, hk, hperm]
  rw [if_neg hc]
  have := callAll_users c (s.seq + 1) t order { s with pongArmed := false, pendingPing := false, seq := s.seq + 1 } hu
  exact ⟨by simpa using this.2.2.2.1, by simpa using this.2.2.2.2, by simpa [hopen] using this.2.2.1, by simpa using this.2.1⟩


/-! ## order over whole histories -/

/-- across a history: sequence numbers never decrease along the delivery log, and within one
message no handler appears twice -/
def LogOk (log : List (Nat × Nat × Nat)) : Prop :=
  log.Pairwise (fun a b => a.1 < b.1 ∨ (a.1 = b.1 ∧ a.2.2 ≠ b.2.2))

theorem send_seq (s : St) (t : Nat) : (send s t).1.seq = s.seq := by
  simp only [send, reportFatal, cleanup]; (repeat' split) <;> rfl

theorem cleanup_seq (s : St) : (cleanup s).seq = s.seq := by
  simp only [cleanup]; split <;> rfl

theorem callHandler_seq (c : Cfg) (s : St) (seq t h : Nat) : (callHandler c s seq t h).1.seq = s.seq := by
  simp only [callHandler]
  split
  · split
    · rename_i heq; have := congrArg (·.1.seq) heq; simp only [send_seq] at this; exact this.symm
    · rename_i heq; have := congrArg (·.1.seq) heq; simp only [send_seq] at this; rw [cleanup_seq]; exact this.symm
  · split
    · rw [send_seq]
    · split
      · rw [send_seq]
      · rfl

theorem callAll_seq (c : Cfg) (seq t : Nat) : ∀ (order : List Nat) (s : St),
    (callAll c seq t s order).1.seq = s.seq := by
  intro order
  induction order with
  | nil => intro s; rfl
  | cons h hs ih =>
    intro s
    simp only [callAll]
    have := callHandler_seq c s seq t h
    generalize callHandler c s seq t h = r at this
    obtain ⟨s1, e⟩ := r
    cases e with
    | some e => exact this
    | none => rw [ih s1]; exact this

theorem isPerm_nodup (a b : List Nat) (h : isPerm a b = true) : a.Nodup := by
  simp only [isPerm, Bool.and_eq_true, decide_eq_true_eq] at h; exact h.2

/-- what one `process_packet` adds to the delivery log -/
theorem processPacket_log (c : Cfg) (s : St) (id : Nat) (ok : Bool) (order : List Nat) :
    let r := processPacket c s id ok order
    ∃ (l : List Nat) (t : Nat), l.Nodup ∧ r.1.log = s.log ++ l.map (fun h => (s.seq + 1, t, h)) ∧
      ((r.1.seq = s.seq + 1) ∨ (l = [] ∧ r.1.seq = s.seq)) := by
  simp only [processPacket]
  split
  · exact ⟨[], 0, by simp, by simp, Or.inr ⟨rfl, rfl⟩⟩
  · split
    · exact ⟨[], 0, by simp, by simp, Or.inr ⟨rfl, rfl⟩⟩
    · rename_i t _
      split
      · refine ⟨[], 0, by simp, ?_, Or.inr ⟨rfl, ?_⟩⟩
        · simp only [reportFatal, cleanup]; split <;> simp
        · simp only [reportFatal, cleanup]; split <;> rfl
      · split
        · exact ⟨[], 0, by simp, by simp, Or.inr ⟨rfl, rfl⟩⟩
        · rename_i hp
          have hnd := isPerm_nodup order (s.table t) (by simpa using hp)
          obtain ⟨k, _, hlog, _⟩ := callAll_log c (s.seq + 1) t order
            { s with pongArmed := false, pendingPing := false, seq := s.seq + 1 }
          refine ⟨order.take k, t, hnd.sublist (List.take_sublist _ _), ?_, Or.inl ?_⟩
          · simpa using hlog
          · rw [callAll_seq]

structure Hist (s : St) : Prop where
  ok : LogOk s.log
  le : ∀ e ∈ s.log, e.1 ≤ s.seq

theorem stepOp_hist (c : Cfg) (s : St) (h : Hist s) (op : Op) : Hist (stepOp c s op) := by
  cases op with
  | sub _ _ => exact ⟨h.ok, h.le⟩
  | unsub _ _ => exact ⟨h.ok, h.le⟩
  | setWrite _ => exact ⟨h.ok, h.le⟩
  | tick =>
    simp only [stepOp]
    split
    · exact ⟨h.ok, h.le⟩
    · split
      · split
        · rename_i heq
          have h1 := congrArg (·.1.log) heq; have h2 := congrArg (·.1.seq) heq
          simp only [send_log, send_seq] at h1 h2
          exact ⟨h1 ▸ h.ok, fun e he => by rw [← h1] at he; rw [← h2]; exact h.le e he⟩
        · rename_i heq
          have h1 := congrArg (·.1.log) heq; have h2 := congrArg (·.1.seq) heq
          simp only [send_log, send_seq] at h1 h2
          exact ⟨h1 ▸ h.ok, fun e he => by rw [← h1] at he; rw [← h2]; exact h.le e he⟩
      · exact ⟨h.ok, h.le⟩
  | lost =>
    simp only [stepOp, reportFatal, cleanup]
    split <;> exact ⟨h.ok, h.le⟩
  | packet id ok order =>
    simp only [stepOp]
    obtain ⟨l, t, hnd, hlog, hseq⟩ := processPacket_log c s id ok order
    constructor
    · simp only [LogOk] at *
      rw [hlog, List.pairwise_append]
      refine ⟨h.ok, ?_, ?_⟩
      · rw [List.pairwise_map]
        exact hnd.imp (fun hne => Or.inr ⟨rfl, hne⟩)
      · intro a ha b hb
        simp only [List.mem_map] at hb
        obtain ⟨x, _, rfl⟩ := hb
        exact Or.inl (by have := h.le a ha; simp; omega)
    · intro e he
      rw [hlog, List.mem_append] at he
      rcases he with he | he
      · have := h.le e he; rcases hseq with h1 | ⟨_, h1⟩ <;> omega
      · rcases hseq with h1 | ⟨h0, _⟩
        · simp only [List.mem_map] at he; obtain ⟨x, _, rfl⟩ := he; simp; omega
        · subst h0; simp at he

theorem run_hist (c : Cfg) (s : St) (h : Hist s) (ops : List Op) : Hist (run c s ops) := by
  induction ops generalizing s with
  | nil => simpa [run]
  | cons o os ih => exact ih _ (stepOp_hist c s h o)

/-- **C12 (order, at most once — whole histories).**  For every history of subscribe /
unsubscribe / packet operations (any scripts, any set orders): the delivery log is ordered by
arrival (sequence numbers never decrease) and no handler receives the same message twice.  Hence
each subscriber sees a subsequence of the arrival order. -/
theorem c12_order (c : Cfg) (ops : List Op) : LogOk (run c (init c) ops).log :=
  (run_hist c _ ⟨by simp [init, LogOk], by simp [init]⟩ ops).ok

/-! ## peer requests -/

/-- the internal handlers are the ones registered for the three request types at session start -/
theorem init_table (c : Cfg) (hd : c.discReq ≠ c.pingReq) (ht : c.discReq ≠ c.timeReq) (hp : c.pingReq ≠ c.timeReq) :
    (init c).table c.discReq = [hDisc] ∧ (init c).table c.pingReq = [hPing] ∧ (init c).table c.timeReq = [hTime] := by
  simp [init, registerInternal, addH, hd, ht, hp, Ne.symm hd, Ne.symm ht, Ne.symm hp]

/-- **C12 (ping / time requests).**  Invoking the internal handler on an open connection with a
working transport writes exactly the matching response and changes nothing else observable. -/
theorem c12_reply_ping_time (c : Cfg) (s : St) (seq t : Nat) (hopen : s.closed = false) (hw : s.writeOk = true) :
    (callHandler c s seq t hPing).1.writes = s.writes ++ [c.pingResp] ∧ (callHandler c s seq t hPing).2 = none ∧
    (callHandler c s seq t hPing).1.closed = false ∧
    (callHandler c s seq t hTime).1.writes = s.writes ++ [c.timeResp] ∧ (callHandler c s seq t hTime).2 = none ∧
    (callHandler c s seq t hTime).1.closed = false := by
  simp [callHandler, send, hopen, hw, hPing, hDisc, hTime]

/-- **C12 (disconnect request).**  The DisconnectResponse is written *first*, then the connection
closes with the expected marker set, and the stop callback receives `true`. -/
theorem c12_reply_disconnect (c : Cfg) (s : St) (seq t : Nat) (hopen : s.closed = false) (hw : s.writeOk = true) :
    let r := callHandler c s seq t hDisc
    r.1.writes = s.writes ++ [c.discResp] ∧ r.1.closed = true ∧ r.1.expected = true ∧
    r.1.stops = s.stops ++ [true] ∧ r.2 = none := by
  simp [callHandler, send, cleanup, hopen, hw, hDisc]

/-- … and also when the write of the response fails: still an *expected* close (the marker is set
before the write), the failure is the fatal cause unless an earlier one exists -/
theorem c12_reply_disconnect_write_fails (c : Cfg) (s : St) (seq t : Nat) (hopen : s.closed = false)
    (hw : s.writeOk = false) :
    let r := callHandler c s seq t hDisc
    r.1.writes = s.writes ∧ r.1.closed = true ∧ r.1.expected = true ∧ r.1.stops = s.stops ++ [true] ∧
    r.2 = some .socketClosed := by
  simp [callHandler, send, cleanup, reportFatal, hopen, hw, hDisc]

/-! ## non-vacuity -/

def demoScripts : Nat → List Act
  | 3 => [.unsub 3 21, .sub 5 21]       -- unsubscribes itself, subscribes a newcomer
  | 4 => [.unsub 5 21, .unsub 3 21]
  | _ => []

/-- two subscribers that rewrite the table during dispatch: both get message 1, the newcomer (5)
does not; message 2 goes to whoever is subscribed then -/
example : (run (cfg demoScripts) (init (cfg demoScripts))
    [.sub 3 21, .sub 4 21, .packet 21 true [3, 4], .packet 21 true [4]]).log =
    [(1, 21, 3), (1, 21, 4), (2, 21, 4)] := by decide +kernel

example : (processPacket (cfg demoScripts) (init (cfg demoScripts)) 0 true []).2 = .ignored := by decide +kernel
example : (processPacket (cfg demoScripts) (init (cfg demoScripts)) 124 false []).2 = .ignored := by decide +kernel
example : (processPacket (cfg demoScripts) (init (cfg demoScripts)) 123 false []).2 = .badPayload := by decide +kernel
example : (processPacket (cfg demoScripts) (init (cfg demoScripts)) 5 true [0]).1.writes = [6] := by decide +kernel

end Esp.C12
