import Esp.Model.Commands
import Esp.Props.C14
import Esp.Gen.Proto
import Esp.Gen.Consts
/-!
# C15 — commands carry exactly the arguments the caller supplied

Property theorems over `Esp.Commands`.  Quantifiers: every schema with pairwise distinct field
names, every valuation of the arguments (every subset supplied, every value — falsy ones
included), every negotiated API version `(major, minor) ∈ ℕ²`.
-/
namespace Esp.C15
open Esp Commands

/-- the fields written for one supplied optional argument -/
theorem encodeOpt_fields (o : Opt) (v : Val) : ∀ p ∈ encodeOpt o v, p.1 ∈ o.flag.toList ++ o.fields := by
  intro p hp
  simp only [encodeOpt, List.mem_append] at hp
  rcases hp with hp | hp
  · cases hf : o.flag <;> simp_all
  · split at hp <;> simp_all <;> rcases hp with rfl | rfl | rfl <;> simp

/-- **C15 (nothing but what was supplied).**  Every field the encoder writes belongs to an argument
the caller supplied: omitted optional arguments leave their value field AND their presence flag at
the default. -/
theorem c15_only_supplied (s : Schema) (a : Args) : ∀ p ∈ encode s a,
    (∃ q ∈ s.req, q.2 = p.1 ∧ (a q.1).isSome) ∨ (∃ o ∈ s.opts, (a o.arg).isSome ∧ p.1 ∈ o.flag.toList ++ o.fields) := by
  intro p hp
  simp only [encode, List.mem_append, List.mem_filterMap, List.mem_flatMap] at hp
  rcases hp with ⟨q, hq, hv⟩ | ⟨o, ho, hv⟩
  · left
    cases ha : a q.1 with
    | none => simp [ha] at hv
    | some v => simp [ha] at hv; exact ⟨q, hq, by rw [← hv], by simp [ha]⟩
  · right
    cases ha : a o.arg with
    | none => simp [ha] at hv
    | some v => simp only [ha] at hv; exact ⟨o, ho, by simp [ha], encodeOpt_fields o v p hv⟩

/-- **C15 (a supplied argument is carried with its presence flag — falsy values included).**  For a
supplied optional argument (ANY value: `0`, `0.0`, `False`, `''` are values like any other) the
request contains its presence flag set to true (when the message defines one) and its value:
verbatim, as whole milliseconds, or split into colour components. -/
theorem c15_supplied (s : Schema) (a : Args) (o : Opt) (ho : o ∈ s.opts) (v : Val) (hv : a o.arg = some v) :
    (∀ f, o.flag = some f → (f, Val.b true) ∈ encode s a) ∧
    (∀ f, o.tr = .id → o.fields = [f] → (f, v) ∈ encode s a) ∧
    (∀ f, o.tr = .ms → o.fields = [f] → (f, toMs v) ∈ encode s a) ∧
    (∀ r g b x y z, o.tr = .rgb → o.fields = [r, g, b] → v = .t3 x y z →
      (r, x) ∈ encode s a ∧ (g, y) ∈ encode s a ∧ (b, z) ∈ encode s a) := by
  have key : ∀ p, p ∈ encodeOpt o v → p ∈ encode s a := by
    intro p hp
    simp only [encode, List.mem_append, List.mem_flatMap]
    right; exact ⟨o, ho, by simp [hv, hp]⟩
  refine ⟨?_, ?_, ?_, ?_⟩
  · intro f hf; apply key; simp [encodeOpt, hf]
  · intro f ht hfs; apply key; simp [encodeOpt, ht, hfs]
  · intro f ht hfs; apply key; simp [encodeOpt, ht, hfs]
  · intro r g b x y z ht hfs hv3
    subst hv3
    refine ⟨?_, ?_, ?_⟩ <;> (apply key; simp [encodeOpt, ht, hfs])

theorem c15_required (s : Schema) (a : Args) (q : String × String) (hq : q ∈ s.req) (v : Val) (hv : a q.1 = some v) :
    (q.2, v) ∈ encode s a := by
  simp only [encode, List.mem_append, List.mem_filterMap]
  left; exact ⟨q, hq, by simp [hv]⟩

/-- the schemas are well formed: within each, no field is written by two different arguments -/
theorem c15_schemas_wf : ∀ s ∈ schemas, s.fieldNames.Nodup := by decide

/-- durations: seconds → whole milliseconds, round-half-even on the exact value -/
theorem c15_ms (n : Int) (d : Nat) (hd : 0 < d) :
    toMs (.q n d) = .i (Convert.roundHalfEven (n * 1000) d) ∧
    (2 * (Convert.roundHalfEven (n * 1000) d * d - n * 1000) ≤ d ∧
     -(d : Int) ≤ 2 * (Convert.roundHalfEven (n * 1000) d * d - n * 1000)) :=
  ⟨rfl, C14.roundHalfEven_close (n * 1000) d hd⟩

/-! ## legacy encodings, for every version -/

theorem ge_iff (a b : Ver) : a.ge b = true ↔ (b.major < a.major ∨ (a.major = b.major ∧ b.minor ≤ a.minor)) := by
  simp [Ver.ge]

/-- **C15 (cover).**  Below API 1.1 the legacy open / close / stop command, at and above 1.1 position /
tilt / stop with their flags — for every version. -/
theorem c15_cover (v : Ver) (p t : Option Val) (stop : Bool) :
    (v.ge ⟨1, 1⟩ = true → ∀ f, f ∈ (coverEncode v p t stop).map Prod.fst → f ≠ "legacy_command" ∧ f ≠ "has_legacy_command") ∧
    (v.ge ⟨1, 1⟩ = false → ∀ f, f ∈ (coverEncode v p t stop).map Prod.fst → f = "legacy_command" ∨ f = "has_legacy_command") ∧
    (v.ge ⟨1, 1⟩ = false → stop = true → coverEncode v p t stop = [("legacy_command", .i 2), ("has_legacy_command", .b true)]) := by
  refine ⟨?_, ?_, ?_⟩
  · intro h f hf
    simp only [coverEncode, h, ↓reduceIte, List.map_append, List.mem_append, List.mem_map] at hf
    rcases hf with (⟨x, hx, rfl⟩ | ⟨x, hx, rfl⟩) | ⟨x, hx, rfl⟩
    · cases p <;> simp at hx; rcases hx with rfl | rfl <;> simp
    · cases t <;> simp at hx; rcases hx with rfl | rfl <;> simp
    · split at hx <;> simp at hx; subst hx; simp
  · intro h f hf
    simp only [coverEncode, h, Bool.false_eq_true, ↓reduceIte] at hf
    (repeat' split at hf) <;> simp at hf <;> (try rcases hf with rfl | rfl) <;> simp
  · intro h hs; simp [coverEncode, h, hs]

/-- **C15 (away preset).**  Below 1.5 the legacy away flag, at and above the preset — for every version. -/
theorem c15_climate_preset (v : Ver) (preset : Int) (away : Bool) :
    (v.ge ⟨1, 5⟩ = true → climatePreset v preset away = [("has_preset", .b true), ("preset", .i preset)]) ∧
    (v.ge ⟨1, 5⟩ = false → climatePreset v preset away = [("has_legacy_away", .b true), ("legacy_away", .b away)]) := by
  constructor <;> intro h <;> simp [climatePreset, h]

/-- **C15 (integer service arguments).**  `legacy_int` below 1.3, `int_` at and above — for every
version, in particular for every major ≥ 2 whatever the minor. -/
theorem c15_service_int (v : Ver) :
    (serviceIntField v = "int_" ↔ (1 < v.major ∨ (v.major = 1 ∧ 3 ≤ v.minor))) ∧
    (serviceIntField v = "legacy_int" ↔ ¬(1 < v.major ∨ (v.major = 1 ∧ 3 ≤ v.minor))) := by
  have h := ge_iff v ⟨1, 3⟩
  simp only at h
  constructor
  · simp only [serviceIntField]
    split
    · rename_i hg; simp [h.mp hg]
    · rename_i hg
      have : ¬(1 < v.major ∨ v.major = 1 ∧ 3 ≤ v.minor) := fun hc => hg (h.mpr hc)
      simp [this]
  · simp only [serviceIntField]
    split
    · rename_i hg; simp [h.mp hg]
    · rename_i hg
      have : ¬(1 < v.major ∨ v.major = 1 ∧ 3 ≤ v.minor) := fun hc => hg (h.mpr hc)
      simp [this]

/-! ## execute_service -/

/-- **C15 (service arguments).**  A call that goes through sends exactly one argument per declared argument,
in declaration order, each carrying the supplied value for that name in the field of its declared type — for every
service signature, every data mapping and every API version. -/
theorem c15_service_args {α : Type} (v : Ver) (data : String → Option α) (args : List SvcArg) (out : List (String × α))
    (h : executeService v data args = some out) :
    out.length = args.length ∧
    ∀ i (hi : i < args.length), ∃ f x, serviceField v args[i].ty = some f ∧ data args[i].name = some x ∧ out[i]? = some (f, x) := by
  induction args generalizing out with
  | nil => simp [executeService] at h; subst h; simp
  | cons a rest ih =>
    simp only [executeService] at h
    split at h
    · rename_i x f r hx hf hr
      simp only [Option.some.injEq] at h; subst h
      obtain ⟨hl, hall⟩ := ih r hr
      refine ⟨by simp [hl], ?_⟩
      intro i hi
      cases i with
      | zero => exact ⟨f, x, hf, hx, by simp⟩
      | succ j =>
        have hj : j < rest.length := by simpa using hi
        obtain ⟨f', x', h1, h2, h3⟩ := hall j hj
        exact ⟨f', x', by simpa using h1, by simpa using h2, by simpa using h3⟩
    · cases h

/-- … and the call is refused exactly when a declared argument has no supplied value or a type the library does not know -/
theorem c15_service_refused_iff {α : Type} (v : Ver) (data : String → Option α) (args : List SvcArg) :
    executeService v data args = none ↔ ∃ a ∈ args, data a.name = none ∨ a.ty = .other := by
  induction args with
  | nil => simp [executeService]
  | cons a rest ih =>
    simp only [executeService, List.mem_cons, exists_eq_or_imp]
    rw [← ih]
    cases hd : data a.name <;> cases ht : a.ty <;> cases hr : executeService v data rest <;> simp [serviceField]

/-- no two types share a field at one version (so the type is recoverable from the field) -/
theorem c15_service_field_inj (v : Ver) (a b : ArgTy) (f : String) (ha : serviceField v a = some f) (hb : serviceField v b = some f) : a = b := by
  cases a <;> cases b <;> simp [serviceField, serviceIntField] at ha hb <;> (try split at ha) <;> (try split at hb) <;>
    first | rfl | (subst ha; exact absurd hb (by decide)) | simp_all

def ArgTy.num : ArgTy → Option Nat
  | .bool => some 0 | .int => some 1 | .float => some 2 | .string => some 3
  | .boolArr => some 4 | .intArr => some 5 | .floatArr => some 6 | .stringArr => some 7 | .other => none

/-- **C15 (the type → field map is the code's).**  Against the tables the translator extracts from `client.py` on every
run: every non-integer type is written to the field `USER_SERVICE_MAP_SINGLE` / `USER_SERVICE_MAP_ARRAY` give for its
number, and the integer type is in neither map (its rule — `int_` from 1.3 on, `legacy_int` below — is code, not a table:
it is tied by the correspondence over versions around the threshold). -/
theorem c15_service_map_tied (v : Ver) :
    (∀ ty n, ty ≠ .int → ArgTy.num ty = some n →
      serviceField v ty = (Gen.userServiceMapSingle ++ Gen.userServiceMapArray).lookup n) ∧
    (Gen.userServiceMapSingle ++ Gen.userServiceMapArray).lookup 1 = none ∧
    (Gen.userServiceMapSingle ++ Gen.userServiceMapArray).length = 7 := by
  refine ⟨?_, by decide, by decide⟩
  intro ty n hne hn
  cases ty <;> simp [ArgTy.num] at hn hne <;> subst hn <;> simp [serviceField, Gen.userServiceMapSingle, Gen.userServiceMapArray, List.lookup]

example : executeService ⟨1, 2⟩ (fun n => if n = "a" then some 5 else if n = "b" then some 7 else none)
    [⟨"b", .int⟩, ⟨"a", .stringArr⟩, ⟨"b", .bool⟩] = some [("legacy_int", 7), ("string_array", 5), ("bool_", 7)] := by decide
example : executeService ⟨1, 3⟩ (fun n => if n = "a" then some 5 else none) [⟨"a", .int⟩, ⟨"zz", .bool⟩] = none := by decide

/-! ## the presence-flag convention against api.proto (generated tables) -/

def nm (s : String) : Name := s.toList.map Char.toNat

/-- does api.proto (text, via the translator) declare `has_<arg>` in message `msg` -/
def hasFlagInProto (msg arg : String) : Bool :=
  ((Gen.textFields.lookup (nm msg)).getD []).any (fun f => f.1 == nm ("has_" ++ arg))

/-- **C15 (presence flags follow api.proto) — partial: one recorded exception.**  For every command and
every optional argument the encoder sets a presence flag exactly when api.proto defines `has_<arg>` in
the request message — except `lock_command(code=…)` (known finding, see `c15_lock_code_witness`). -/
theorem c15_flags_partial : ∀ s ∈ schemas, ∀ o ∈ s.opts,
    (o.flag.isSome = hasFlagInProto s.msg o.arg) ∨ (s.msg = "LockCommandRequest" ∧ o.arg = "code") := by
  decide +kernel

/-- the full statement fails at exactly that point: api.proto declares `LockCommandRequest.has_code`,
the encoder (as the code) has no flag for `code` -/
theorem c15_lock_code_witness :
    hasFlagInProto "LockCommandRequest" "code" = true ∧
    ∃ s ∈ schemas, s.msg = "LockCommandRequest" ∧ ∃ o ∈ s.opts, o.arg = "code" ∧ o.flag = none := by
  refine ⟨by decide +kernel, ?_⟩
  exact ⟨_, by simp [schemas]; right; right; right; right; right; right; right; right; right; right; right; right; left; rfl,
    rfl, bareOpt "code", by simp, rfl, rfl⟩

/-! ## non-vacuity -/
def lightSchema : Schema := (schemas[2]?).getD { msg := "", req := [], opts := [] }
example : encode lightSchema (fun a => if a == "key" then some (.i 7) else if a == "brightness" then some (.q 0 1)
      else if a == "state" then some (.b false) else if a == "transition_length" then some (.q 5 2)
      else if a == "rgb" then some (.t3 (.q 1 4) (.q 1 2) (.q 3 4)) else none) =
    [("key", .i 7), ("has_state", .b true), ("state", .b false), ("has_brightness", .b true), ("brightness", .q 0 1),
     ("has_rgb", .b true), ("red", .q 1 4), ("green", .q 1 2), ("blue", .q 3 4),
     ("has_transition_length", .b true), ("transition_length", .i 2500)] := by decide +kernel
example : serviceIntField ⟨2, 0⟩ = "int_" ∧ serviceIntField ⟨1, 2⟩ = "legacy_int" ∧ serviceIntField ⟨1, 10⟩ = "int_" := by decide
example : toMs (.q 1 2000) = .i 0 ∧ toMs (.q 3 2000) = .i 2 ∧ toMs (.q 5 2000) = .i 2 := by decide  -- ties go to even

end Esp.C15
