import Esp.Lemmas.Plain
/-!
# C01 — plaintext stream reassembly is lossless and independent of TCP segmentation

Property theorems only.  Model: `Esp.Plain` (`Esp/Model/Plain.lean`, mirror of
`plain_text.py::data_received` + `base.py` buffer handling).  Quantifiers: every frame list
(types and lengths in ℕ), every incomplete tail, every list of chunks.
-/
namespace Esp.C01
open Esp Plain

/-- the helper's own loop equals the generic history function -/
theorem run_eq_feedAll : ∀ (chunks : List Bytes) (b : Bytes),
    Plain.run { buf := b } chunks =
      ({ buf := (feedAll splitter b chunks).2.1, closed := (feedAll splitter b chunks).2.2 },
        (feedAll splitter b chunks).1) := by
  intro chunks
  induction chunks with
  | nil => intro b; simp [Plain.run, feedAll]
  | cons c cs ih =>
    intro b
    simp only [Plain.run, Plain.feed, feedAll]
    generalize hd : drain splitter (b ++ c) = d
    obtain ⟨es, b1, f1⟩ := d
    cases f1 with
    | none => simp only [ih b1]
    | some e =>
      -- closed: every later call is a no-op
      have hclosed : ∀ (cs : List Bytes), Plain.run { buf := b1, closed := some e } cs =
          ({ buf := b1, closed := some e }, cs.map (fun _ => [])) := by
        intro cs; induction cs with
        | nil => simp [Plain.run]
        | cons c cs ih2 => simp [Plain.run, Plain.feed, ih2]
      simp only [hclosed]

theorem within_ge : ∀ (fs : List Packet) (n : Nat), (write fs).length ≤ n → within fs n = fs.length := by
  intro fs; induction fs with
  | nil => intro n _; simp [within]
  | cons f fs ih =>
    intro n h
    rw [write_cons, List.length_append] at h
    have : (encodeFrame f).length ≤ n := by omega
    simp only [within, this, ↓reduceIte, List.length_cons]
    rw [ih _ (by omega)]; omega

/-- no prefix of a conformant stream makes the loop fail -/
theorem prefix_no_error (frames : List Packet) (tail : Bytes) (chunks : List Bytes)
    (hcat : chunks.flatten = write frames ++ tail) (htail : Incomplete tail) (j : Nat) :
    (drain splitter ([] ++ (chunks.take j).flatten)).2.2 = none := by
  have hsplit : (chunks.take j).flatten ++ (chunks.drop j).flatten = write frames ++ tail := by
    rw [← List.flatten_append, List.take_append_drop, hcat]
  rw [List.nil_append, drain_prefix frames tail _ _ htail hsplit]

/-- **C01 (lossless, ordered, once, tail retained).**  Whatever frames the device sent, whatever
incomplete frame follows them, and however the byte stream is cut into `data_received` calls:
the packets handed to `process_packet`, concatenated over all calls, are exactly the frames sent,
in order, each once; the retained buffer is exactly the incomplete tail; no error is raised. -/
theorem c01_reassembly (frames : List Packet) (tail : Bytes) (chunks : List Bytes)
    (hcat : chunks.flatten = write frames ++ tail) (htail : Incomplete tail) :
    (Plain.run {} chunks).2.flatten = frames ∧
    (Plain.run {} chunks).1.buf = tail ∧
    (Plain.run {} chunks).1.closed = none := by
  have hrun := run_eq_feedAll chunks []
  have hfa := feedAll_eq_drain splitter chunks [] (drain_nil _)
    (fun j _ => prefix_no_error frames tail chunks hcat htail j)
  have hd := drain_prefix frames tail chunks.flatten [] htail (by simpa using hcat)
  have hw : within frames chunks.flatten.length = frames.length :=
    within_ge _ _ (by rw [hcat]; simp)
  rw [hw, List.take_length] at hd
  simp only [List.nil_append] at hfa
  rw [hd] at hfa
  obtain ⟨h1, h2, h3⟩ := hfa
  rw [show ({} : Plain.State) = { buf := [] } from rfl, hrun]
  refine ⟨h1, ?_, h3⟩
  simp only [h2, hcat, List.drop_left']

/-- **C01 (prompt: nothing early, nothing waits).**  After the first `k` calls, the packets handed
over so far are exactly the frames whose last byte lies within the bytes received so far. -/
theorem c01_prompt (frames : List Packet) (tail : Bytes) (chunks : List Bytes) (k : Nat)
    (hcat : chunks.flatten = write frames ++ tail) (htail : Incomplete tail) :
    ((Plain.run {} chunks).2.take k).flatten =
      frames.take (within frames (chunks.take k).flatten.length) := by
  have hrun := run_eq_feedAll chunks []
  have hfa := feedAll_eq_drain splitter chunks [] (drain_nil _)
    (fun j _ => prefix_no_error frames tail chunks hcat htail j)
  have htake := feedAll_take splitter chunks [] k hfa.2.2
  have hsplit : (chunks.take k).flatten ++ (chunks.drop k).flatten = write frames ++ tail := by
    rw [← List.flatten_append, List.take_append_drop, hcat]
  have hk := feedAll_eq_drain splitter (chunks.take k) [] (drain_nil _) (by
    intro j _
    have := prefix_no_error frames tail chunks hcat htail (min j k)
    rwa [List.take_take])
  rw [show ({} : Plain.State) = { buf := [] } from rfl, hrun]
  simp only [htake, hk.1, List.nil_append]
  rw [drain_prefix frames tail _ _ htail hsplit]

/-- segmentation independence, stated directly: two ways of cutting the same conformant stream
hand over the same packets and retain the same bytes -/
theorem c01_segmentation_independent (frames : List Packet) (tail : Bytes) (c₁ c₂ : List Bytes)
    (h₁ : c₁.flatten = write frames ++ tail) (h₂ : c₂.flatten = write frames ++ tail)
    (htail : Incomplete tail) :
    (Plain.run {} c₁).2.flatten = (Plain.run {} c₂).2.flatten ∧
    (Plain.run {} c₁).1.buf = (Plain.run {} c₂).1.buf := by
  have a := c01_reassembly frames tail c₁ h₁ htail
  have b := c01_reassembly frames tail c₂ h₂ htail
  exact ⟨a.1.trans b.1.symm, a.2.1.trans b.2.1.symm⟩

/-- reader inverts writer for every type and payload (multi-byte varints included) -/
theorem c01_frame_roundtrip (f : Packet) (rest : Bytes) :
    Plain.parseOne (encodeFrame f ++ rest) = .frame f rest := parseOne_encode f rest

/-! ### non-vacuity: the hypotheses are met by non-trivial data, and the model computes -/

/-- a tail cut inside the multi-byte type varint of a frame is `Incomplete` -/
example : Incomplete [0, 3, 0xAC] := ⟨(300, [1, 2, 3]), [0x02, 1, 2, 3], by decide, by decide +kernel⟩

/-- a two-frame stream with a multi-byte type, cut inside the varint and inside the payload,
followed by an incomplete third frame -/
example :
    let frames : List Packet := [(300, [1, 2, 3]), (7, [])]
    let chunks : List Bytes := [[0, 3, 0xAC], [0x02, 1, 2], [3, 0, 0, 7, 0], [5]]
    chunks.flatten = write frames ++ [0, 5] ∧
    (Plain.run {} chunks).2 = [[], [], [(300, [1, 2, 3]), (7, [])], []] ∧
    (Plain.run {} chunks).1.buf = [0, 5] := by
  decide +kernel

end Esp.C01
