import Esp.Lemmas.Noise
/-!
# C04 — encrypted transport fails closed with the specific error; no forged delivery

Authenticity is relative to an explicit hypothesis about the AEAD (never an axiom):
`Genuine A S` — under nonce `n` only the device's n-th plaintext opens.  Everything else is for
every byte stream and every chunking.
-/
namespace Esp.C04
open Esp Noise

/-- `S` is the list of plaintexts the device really sealed, in order; a ciphertext that opens
under nonce `n` is the device's `n`-th one -/
def Genuine (D : Dec) (S : List Bytes) : Prop := ∀ n c m, D n c = some m → S[n]? = some m

def delivered (evs : List Ev) : List Packet :=
  evs.filterMap fun e => match e with | .deliver p => some p | _ => none

theorem delivered_append (a b : List Ev) : delivered (a ++ b) = delivered a ++ delivered b := by
  simp [delivered]

/-- what the device's plaintexts mean as (type, payload) messages -/
def sent (S : List Bytes) : List Packet := S.filterMap innerPacket

def Inv (S : List Bytes) (s : State) (evs : List Ev) : Prop :=
  match s.phase with
  | .hello | .handshake => delivered evs = []
  | .ready => delivered evs = sent (S.take s.decNonce)
  | .closed => ∃ k, delivered evs = sent (S.take k)

theorem inv_closed_of (S : List Bytes) (s : State) (evs : List Ev) (h : Inv S s evs) :
    ∃ k, delivered evs = sent (S.take k) := by
  unfold Inv at h
  cases hp : s.phase <;> simp only [hp] at h
  · exact ⟨0, by simp [h, sent]⟩
  · exact ⟨0, by simp [h, sent]⟩
  · exact ⟨_, h⟩
  · exact h

theorem handleError_inv (S : List Bytes) (s : State) (e : NoiseErr) (evs : List Ev) (h : Inv S s evs) :
    Inv S (handleError s e).1 (evs ++ (handleError s e).2) := by
  obtain ⟨k, hk⟩ := inv_closed_of S s evs h
  have : delivered (evs ++ (handleError s e).2) = delivered evs := by simp [delivered, handleError]
  simp only [Inv, handleError, close]
  exact ⟨k, by rw [← hk]; simp [delivered]⟩

theorem sent_take_succ (S : List Bytes) (k : Nat) (msg : Bytes) (h : S[k]? = some msg) :
    sent (S.take (k + 1)) = sent (S.take k) ++ (innerPacket msg).toList := by
  simp only [sent, List.take_succ, h, List.filterMap_append]
  cases hin : innerPacket msg <;> simp [List.filterMap, hin]

theorem dispatch_inv_ok (cfg : Config) (D : Dec) (S : List Bytes) (hg : Genuine D S) (s : State) (f : Bytes)
    (evs : List Ev) (h : Inv S s evs) (r : State × List Ev) (hr : dispatch cfg D s f = .ok r) :
    Inv S r.1 (evs ++ r.2) := by
  unfold dispatch at hr
  cases hp : s.phase <;> simp only [hp] at hr
  · unfold handleHello at hr
    (repeat' split at hr) <;> (try cases hr) <;>
      first
      | exact handleError_inv S s _ evs h
      | exact handleError_inv S _ _ evs (by simpa [Inv, hp] using h)
      | simpa [Inv, hp] using h
  · unfold handleHandshake at hr
    (repeat' split at hr) <;> (try cases hr) <;>
      first
      | exact handleError_inv S s _ evs h
      | (simp only [Inv, hp] at h; simp only [Inv, delivered_append, h]; simp [delivered, sent])
  · unfold handleFrame at hr
    split at hr
    · cases hr
    · rename_i msg hdec
      have hS := hg _ _ _ hdec
      split at hr
      · cases hr
      · rename_i p hin
        cases hr
        simp only [Inv, hp] at h
        simp only [Inv, hp, delivered_append, h, sent_take_succ S _ msg hS, hin]
        simp [delivered]
  · unfold handleClosed at hr
    cases hr
    exact handleError_inv S s _ evs h

theorem dispatch_inv_err (cfg : Config) (D : Dec) (S : List Bytes) (hg : Genuine D S) (s : State) (f : Bytes)
    (evs : List Ev) (h : Inv S s evs) (r : State × List Ev × Exc) (hr : dispatch cfg D s f = .error r) :
    Inv S r.1 (evs ++ r.2.1) := by
  unfold dispatch at hr
  cases hp : s.phase <;> simp only [hp] at hr
  · unfold handleHello at hr
    (repeat' split at hr) <;> (try cases hr) <;> simpa [Inv, hp] using h
  · unfold handleHandshake at hr
    (repeat' split at hr) <;> (try cases hr) <;> simpa [Inv, hp] using h
  · unfold handleFrame at hr
    split at hr
    · cases hr; simpa [Inv, hp] using h
    · rename_i msg hdec
      have hS := hg _ _ _ hdec
      split at hr
      · rename_i hin
        cases hr
        simp only [Inv, hp] at h
        simp [Inv, hp, h, sent_take_succ S _ msg hS, hin]
      · cases hr
  · unfold handleClosed at hr
    cases hr

theorem handleAll_inv (cfg : Config) (D : Dec) (S : List Bytes) (hg : Genuine D S) :
    ∀ (fs : List Bytes) (s : State) (evs : List Ev),
    Inv S s evs → Inv S (handleAll cfg D s fs).1 (evs ++ (handleAll cfg D s fs).2.1) := by
  intro fs
  induction fs with
  | nil => intro s evs h; simpa [handleAll] using h
  | cons f fs ih =>
    intro s evs h
    simp only [handleAll]
    cases hdd : dispatch cfg D s f with
    | error x => simp only; exact dispatch_inv_err cfg D S hg s f evs h x hdd
    | ok r =>
      obtain ⟨s1, ev⟩ := r
      have hd := dispatch_inv_ok cfg D S hg s f evs h _ hdd
      simp only at hd ⊢
      have := ih s1 (evs ++ ev) hd
      simpa [List.append_assoc] using this

theorem feed_inv (cfg : Config) (D : Dec) (S : List Bytes) (hg : Genuine D S) (h : Helper) (c : Bytes)
    (evs : List Ev) (hi : Inv S h.st evs) : Inv S (feed cfg D h c).1.st (evs ++ (feed cfg D h c).2) := by
  unfold feed
  split
  · simpa using hi
  · have ha := handleAll_inv cfg D S hg (drain splitter (h.buf ++ c)).1 h.st evs hi
    simp only
    split
    · rename_i x hx
      have := handleError_inv S _ (classify (handleAll cfg D h.st (drain splitter (h.buf ++ c)).1).1 x) _ ha
      simp only [connectionLost]
      have h2 : ∀ (t : State) (ev : List Ev), Inv S t ev → Inv S { t with transportClosed := true } ev := by
        intro t ev hh; simpa [Inv] using hh
      simpa [List.append_assoc] using h2 _ _ this
    · split
      · have := handleError_inv S _ NoiseErr.protocol _ ha
        simpa [handleErrorAndClose, List.append_assoc] using this
      · exact ha

theorem run_inv (cfg : Config) (D : Dec) (S : List Bytes) (hg : Genuine D S) :
    ∀ (chunks : List Bytes) (h : Helper) (evs : List Ev), Inv S h.st evs →
      Inv S (run cfg D h chunks).1.st (evs ++ (run cfg D h chunks).2.flatten) := by
  intro chunks
  induction chunks with
  | nil => intro h evs hi; simpa [run] using hi
  | cons c cs ih =>
    intro h evs hi
    have h1 := feed_inv cfg D S hg h c evs hi
    have := ih (feed cfg D h c).1 _ h1
    simpa [run, List.append_assoc] using this

/-- **C04 (no forged delivery).**  For every AEAD that is genuine for the device's plaintext list
`S`, every configuration and handshake oracle, and **every** byte stream in **every** chunking
(flipped, truncated, duplicated, reordered, dropped, spliced frames, a different key, garbage …):
the packets delivered are exactly the messages of the first `k` device plaintexts for some `k` —
a byte-exact prefix of what the device sent; nothing altered, forged, replayed or out of order. -/
theorem c04_prefix (cfg : Config) (D : Dec) (S : List Bytes) (hg : Genuine D S) (chunks : List Bytes) :
    ∃ k, delivered (run cfg D {} chunks).2.flatten = sent (S.take k) := by
  have h0 : Inv S ({} : Helper).st [] := by simp [Inv, delivered]
  have := run_inv cfg D S hg chunks {} [] h0
  exact inv_closed_of S _ _ (by simpa using this)

theorem c04_prefix' (cfg : Config) (D : Dec) (S : List Bytes) (hg : Genuine D S) (chunks : List Bytes) :
    delivered (run cfg D {} chunks).2.flatten <+: sent S := by
  obtain ⟨k, hk⟩ := c04_prefix cfg D S hg chunks
  rw [hk]
  exact List.IsPrefix.filterMap _ (List.take_prefix k S)

/-! ## terminal: nothing after the first failure -/

/-- once the transport is closed the helper is never called again: no event at all -/
theorem c04_terminal (cfg : Config) (D : Dec) : ∀ (chunks : List Bytes) (h : Helper),
    h.st.transportClosed = true → (run cfg D h chunks).2.flatten = [] := by
  intro chunks
  induction chunks with
  | nil => intro h _; simp [run]
  | cons c cs ih =>
    intro h hc
    have : feed cfg D h c = (h, []) := by simp [feed, hc]
    simp [run, this, ih h hc]

/-- frames that follow the failing frame *inside the same chunk* only produce repeated
`protocol` reports (which the connection ignores: first error wins); none is delivered -/
theorem c04_closed_frames (cfg : Config) (D : Dec) : ∀ (fs : List Bytes) (s : State), s.phase = .closed →
    (handleAll cfg D s fs).1.phase = .closed ∧ delivered (handleAll cfg D s fs).2.1 = [] ∧
    (handleAll cfg D s fs).2.2.2 = none := by
  intro fs
  induction fs with
  | nil => intro s h; simp [handleAll, h, delivered]
  | cons f fs ih =>
    intro s h
    simp only [handleAll, dispatch, h, handleClosed]
    have := ih (handleError s .protocol).1 (by simp [handleError, close])
    simp only [delivered_append, this]
    simp [delivered, handleError]

/-! ## the decision table: first offending frame ↦ error class, closed, readiness gets the same -/

/-- every classified error goes through `handleError`: the helper ends closed with its transport
closed, the connection is told `e`, and a *pending* readiness wait fails with the same `e` -/
theorem c04_ready_same_error (s : State) (e : NoiseErr) :
    (handleError s e).2 = [.fatal e] ∧ (handleError s e).1.phase = .closed ∧
    (handleError s e).1.transportClosed = true ∧
    (s.ready = .pending → (handleError s e).1.ready = .err e) ∧
    (s.ready ≠ .pending → (handleError s e).1.ready = s.ready) := by
  refine ⟨rfl, rfl, rfl, ?_, ?_⟩
  · intro h; simp [handleError, close, h]
  · intro h; cases hr : s.ready <;> simp_all [handleError, close]

/-- AEAD authentication failure of a complete data frame → invalid-encryption-key -/
theorem c04_class_aead (cfg : Config) (D : Dec) (s : State) (f : Bytes) (hp : s.phase = .ready)
    (hdec : D s.decNonce f = none) : step1 cfg D s f = ((handleError s .invalidKey).1, [.fatal .invalidKey]) := by
  simp [step1, dispatch, hp, handleFrame, hdec, connectionLost, classify, handleError, close]

/-- the noise library rejecting the handshake payload with `InvalidTag` → invalid-encryption-key -/
theorem c04_class_handshake_tag (cfg : Config) (D : Dec) (s : State) (rest : Bytes) (hp : s.phase = .handshake)
    (hhs : cfg.hs rest = .invalidTag) :
    step1 cfg D s (0 :: rest) = ((handleError s .invalidKey).1, [.fatal .invalidKey]) := by
  have h0 : ¬ ((0 : UInt8).toNat ≠ 0) := by decide
  simp [step1, dispatch, hp, handleHandshake, h0, hhs, connectionLost, classify, handleError, close]

/-- handshake error frame: "Handshake MAC failure" → invalid key, any other text → handshake -/
theorem c04_class_handshake_error_frame (cfg : Config) (D : Dec) (s : State) (b : UInt8) (text : Bytes)
    (hp : s.phase = .handshake) (hb : b.toNat ≠ 0) (hu : cfg.utf8 text = true) :
    step1 cfg D s (b :: text) =
      if text = macFailure then handleError s .invalidKey else handleError s .handshake := by
  by_cases ht : text = macFailure
  · subst ht; simp [step1, dispatch, hp, handleHandshake, hb, hu, handleErrorAndClose]
  · simp [step1, dispatch, hp, handleHandshake, hb, hu, handleErrorAndClose, ht]

/-- empty hello, or a protocol selector other than 0x01 → handshake error -/
theorem c04_class_hello (cfg : Config) (D : Dec) (s : State) (f : Bytes) (hp : s.phase = .hello)
    (h : f = [] ∨ ∃ sel rest, f = sel :: rest ∧ sel.toNat ≠ 1) :
    step1 cfg D s f = handleError s .handshake := by
  rcases h with rfl | ⟨sel, rest, rfl, hsel⟩
  · simp [step1, dispatch, hp, handleHello, handleErrorAndClose]
  · simp [step1, dispatch, hp, handleHello, handleErrorAndClose, hsel]

/-- announced name ≠ expected name → bad-name carrying the *received* name -/
theorem c04_class_name (cfg : Config) (D : Dec) (s : State) (f : Bytes) (name e : Bytes) (hp : s.phase = .hello)
    (hsel : ∃ rest, f = 1 :: rest) (hn : findName f = some name) (hu : cfg.utf8 name = true)
    (he : cfg.expectedName = some e) (hne : e ≠ name) :
    step1 cfg D s f = handleError { s with serverName := some name } (.badName name) := by
  obtain ⟨rest, rfl⟩ := hsel
  have h1 : ¬ ((1 : UInt8).toNat ≠ 1) := by decide
  simp [step1, dispatch, hp, handleHello, h1, hn, hu, he, hne, handleErrorAndClose]

/-- a frame whose marker byte is not 0x01 (e.g. a device speaking plaintext: 0x00 …) → protocol -/
theorem c04_class_marker (cfg : Config) (D : Dec) (h : Helper) (m hi lo : UInt8) (rest : Bytes)
    (hopen : h.st.transportClosed = false) (hbuf : h.buf = []) (hm : m.toNat ≠ 1) :
    feed cfg D h (m :: hi :: lo :: rest) =
      ({ st := (handleError h.st .protocol).1, buf := m :: hi :: lo :: rest }, [.fatal .protocol]) := by
  have hp : splitter.parseOne (m :: hi :: lo :: rest) = .bad () := by
    simp only [splitter, parseOne]; rw [if_pos hm]
  have hd := drain_bad splitter _ () (by simp) hp
  simp [feed, hopen, hbuf, hd, handleAll, handleErrorAndClose, handleError]

/-- a connection reset while still waiting for the server hello → handshake error (the device
most likely does not speak noise) -/
theorem c04_class_reset_in_hello (s : State) (hp : s.phase = .hello) :
    connectionLost s (some .reset) = ({ (handleError s .handshake).1 with transportClosed := true }, [.fatal .handshake]) := by
  simp [connectionLost, classify, hp, handleError]

/-- a frame processed after the helper closed → protocol -/
theorem c04_class_after_close (cfg : Config) (D : Dec) (s : State) (f : Bytes) (hp : s.phase = .closed) :
    step1 cfg D s f = handleError s .protocol := by
  simp [step1, dispatch, hp, handleClosed]

/-- **C04 (key check).**  Construction succeeds iff the base64 decoder returned exactly 32
bytes; every other key string is an invalid-encryption-key error, raised in the constructor —
before any helper exists that could send. -/
theorem c04_psk (decoded : Option Bytes) :
    (∀ b, checkPsk decoded = .ok b ↔ decoded = some b ∧ b.length = 32) ∧
    ((¬ ∃ b, decoded = some b ∧ b.length = 32) → checkPsk decoded = .error .invalidKey) := by
  constructor
  · intro b
    unfold checkPsk
    cases decoded with
    | none => simp
    | some d =>
      by_cases hl : d.length = 32
      · simp only [hl, ne_eq, not_true_eq_false, ↓reduceIte, Except.ok.injEq, Option.some.injEq]
        constructor
        · intro h; subst h; exact ⟨rfl, hl⟩
        · intro h; exact h.1
      · simp only [ne_eq, hl, not_false_eq_true, ↓reduceIte, Option.some.injEq]
        constructor
        · intro h; cases h
        · intro h; obtain ⟨rfl, h2⟩ := h; exact absurd h2 hl
  · intro h
    unfold checkPsk
    cases decoded with
    | none => rfl
    | some d =>
      have : d.length ≠ 32 := fun hl => h ⟨d, rfl, hl⟩
      simp [this]

/-! ## the other framing on the plaintext side -/

/-- a plaintext client reading a noise device's first byte (0x01) → requires-encryption, nothing
delivered, helper closed; any other non-zero single-byte preamble → protocol -/
theorem c04_plain_wrong_preamble (b : UInt8) (rest : Bytes) (hb : b.toNat ≠ 0) (h7 : b.toNat < 128) :
    Plain.feed {} (b :: rest) =
      ({ buf := b :: rest, closed := some (if b.toNat = 1 then .requiresEncryption else .protocol) }, []) := by
  have h80 : b.toNat &&& 0x80 = 0 := and80_lt _ h7
  have h7f : b.toNat &&& 0x7F = b.toNat := by rw [and7F]; omega
  have hp : Plain.splitter.parseOne (b :: rest) =
      .bad (if b.toNat = 1 then .requiresEncryption else .protocol) := by
    show Plain.parseOne _ = _
    simp [Plain.parseOne, readVarint, readVarintAux, h80, h7f, hb]
  simp [Plain.feed, drain_bad Plain.splitter _ _ (by simp) hp]

/-! ### non-vacuity -/

/-- `Genuine` is satisfiable by a non-trivial inbound cipher: ciphertext = 16-byte tag naming the
nonce, then the plaintext; it opens only if that plaintext is the device's n-th one -/
def lookupDec (S : List Bytes) : Dec := fun n c =>
  if c.take 16 = List.replicate 16 (UInt8.ofNat n) ∧ S[n]? = some (c.drop 16) then some (c.drop 16) else none

theorem lookupDec_genuine (S : List Bytes) : Genuine (lookupDec S) S := by
  intro n c m h
  unfold lookupDec at h
  split at h
  · rename_i hc; cases h; exact hc.2
  · cases h

/-- and it really opens the device's frames (so `c04_prefix` is not about an empty session) -/
example : lookupDec [[0, 7, 0, 1, 42]] 0 (List.replicate 16 0 ++ [0, 7, 0, 1, 42]) = some [0, 7, 0, 1, 42] := by
  decide +kernel

example : checkPsk (some (List.replicate 32 7)) = .ok (List.replicate 32 7) := by simp [checkPsk]
example : checkPsk (some (List.replicate 31 7)) = .error .invalidKey := by simp [checkPsk]

end Esp.C04
