import Esp.Model.Reconnect
import Esp.Lemmas.ReconnectLock
import Esp.Lemmas.ReconnectStop
import Esp.Lemmas.ReconnectTries
import Esp.Lemmas.ReconnectCli
import Esp.Lemmas.ReconnectAlt
import Esp.Lemmas.ReconnectErr
import Esp.Lemmas.ReconnectAlt2
import Esp.Gen.Consts
/-!
# C18 — reconnect manager: one attempt at a time, specified backoff, clean stop
-/
namespace Esp.C18
open Esp Reconnect

/-- nearest integer to `(9/5)^n` (never a tie for `n ≥ 1`) -/
def roundPow (n : Nat) : Nat := (2 * 9 ^ n + 5 ^ n) / (2 * 5 ^ n)

theorem pow_ge (n : Nat) (h : 7 ≤ n) : 61 * 5 ^ n ≤ 9 ^ n := by
  induction n with
  | zero => omega
  | succ k ih =>
    by_cases hk : k = 6
    · subst hk; decide
    · have := ih (by omega)
      rw [Nat.pow_succ, Nat.pow_succ]; omega

/-- **C18 (backoff).**  For EVERY failure count `n`, the delay computed by the code
(`int(round(min(1.8**min(n, 10), 60.0)))`) is `min(round(1.8^n), 60)`: the cap of the exponent at 10 and
the order of `min` and `round` are immaterial. -/
theorem c18_backoff (n : Nat) : backoff n = min (roundPow n) 60 := by
  by_cases h : n < 11
  · have : n = 0 ∨ n = 1 ∨ n = 2 ∨ n = 3 ∨ n = 4 ∨ n = 5 ∨ n = 6 ∨ n = 7 ∨ n = 8 ∨ n = 9 ∨ n = 10 := by omega
    rcases this with rfl | rfl | rfl | rfl | rfl | rfl | rfl | rfl | rfl | rfl | rfl <;> decide
  · have h10 : min n 10 = 10 := by omega
    have hb : backoff n = 60 := by
      unfold backoff; simp only [h10]; decide
    have hp := pow_ge n (by omega)
    have : 60 ≤ roundPow n := by
      unfold roundPow
      rw [Nat.le_div_iff_mul_le (Nat.mul_pos (by omega) (Nat.pow_pos (by omega)))]
      omega
    omega

/-- the table, for reading -/
example : (List.range 12).map backoff = [1, 2, 3, 6, 10, 19, 34, 60, 60, 60, 60, 60] := by decide

theorem backoff_pos (n : Nat) : 1 ≤ backoff n := by
  rw [c18_backoff]
  have : 1 ≤ roundPow n := by
    unfold roundPow
    rw [Nat.le_div_iff_mul_le (Nat.mul_pos (by omega) (Nat.pow_pos (by omega)))]
    have : 5 ^ n ≤ 9 ^ n := Nat.pow_le_pow_left (by omega) n
    omega
  omega

theorem backoff_le (n : Nat) : backoff n ≤ 60 := by rw [c18_backoff]; omega

/-- authentication / encryption errors: the count jumps to 100, i.e. the maximum delay -/
theorem c18_backoff_auth : backoff maxTries = 60 := by decide

/-- the model's constants are the library's (translator-generated on every run from `reconnect_logic.py`: the two
module constants, and the retry-delay expression handed to `_schedule_connect`, obtained by symbolic evaluation of the
function's AST — local assignments, named constants and helper functions inlined, floats as exact rationals): the
expression `backoff` (`c18_backoff`, `c18_float_base`, `c18_float_margin`) is about.  When the source computes the delay in
a way the symbolic evaluation cannot follow (a lookup table built at import time, say) the translator says so
(`unsupported:…`); this static tie then says nothing — the check records that in its evidence — and the delays are tied by
the correspondence alone (every armed delay for 1 … 12 consecutive failures and after authentication errors is compared
with `backoff`) -/
theorem c18_consts :
    Gen.expectedDisconnectCooldown = (((cooldown : Nat) : Int), 1) ∧ Gen.maximumBackoffTries = (((maxTries : Nat) : Int), 1) ∧
    (Gen.backoffExpr = "int(round(min(pow(8106479329266893/4503599627370496,min(tries,10/1)),60/1)))" ∨
      Gen.backoffExpr.toList.take 12 = "unsupported:".toList) := by decide

/-- the base the code uses is the binary64 number nearest to 1.8, not 9/5: its powers up to the exponent cap stay within
a relative 2⁻⁴⁸ of those of 9/5 … -/
theorem c18_float_base (t : Nat) (ht : t ≤ 10) :
    9 ^ t * 4503599627370496 ^ t * (2 ^ 48 - 1) ≤ 5 ^ t * 8106479329266893 ^ t * 2 ^ 48 ∧
    5 ^ t * 8106479329266893 ^ t * 2 ^ 48 ≤ 9 ^ t * 4503599627370496 ^ t * (2 ^ 48 + 1) := by
  have : t = 0 ∨ t = 1 ∨ t = 2 ∨ t = 3 ∨ t = 4 ∨ t = 5 ∨ t = 6 ∨ t = 7 ∨ t = 8 ∨ t = 9 ∨ t = 10 := by omega
  rcases this with rfl | rfl | rfl | rfl | rfl | rfl | rfl | rfl | rfl | rfl | rfl <;> decide +kernel

/-- … and ANY value within a relative 2⁻⁴⁰ of `(9/5)^t` (so: whatever the last-bit behaviour of the C library's `pow`)
gives the same delay: `x = p/q` with `|x − (9/5)^t| ≤ (9/5)^t · 2⁻⁴⁰` lies strictly between `k − ½` and `k + ½` for
`k = backoff t < 60`, and is `≥ 60` when `backoff t = 60`; no tie-breaking rule is ever consulted. -/
theorem c18_float_margin (t : Nat) (ht : t ≤ 10) :
    (backoff t < 60 → (2 * backoff t - 1) * 5 ^ t * 2 ^ 40 < 2 * 9 ^ t * (2 ^ 40 - 1) ∧
                       2 * 9 ^ t * (2 ^ 40 + 1) < (2 * backoff t + 1) * 5 ^ t * 2 ^ 40) ∧
    (backoff t = 60 → 60 * 5 ^ t * 2 ^ 40 ≤ 9 ^ t * (2 ^ 40 - 1)) := by
  have : t = 0 ∨ t = 1 ∨ t = 2 ∨ t = 3 ∨ t = 4 ∨ t = 5 ∨ t = 6 ∨ t = 7 ∨ t = 8 ∨ t = 9 ∨ t = 10 := by omega
  rcases this with rfl | rfl | rfl | rfl | rfl | rfl | rfl | rfl | rfl | rfl | rfl <;> decide +kernel

/-! Every theorem below about runs holds for every choice of which user callbacks suspend (`sc`, `se`, `sd`: on_connect,
on_connect_error, on_disconnect await something and return only at the environment's `cbDone`) and whether the device name is
known (`named`). -/

/-! ## one attempt at a time -/

/-- **C18 (one attempt).**  In every state reachable by ANY sequence of events — start/stop calls, attempt
completions, session endings, mDNS records, timers, single ready handles in any interleaving — at most one
task is suspended under the manager's lock — inside `client.start_connection` / `client.finish_connection` or inside a user
callback that awaits something — and that task holds the lock. -/
theorem c18_one_attempt (named sc se sd : Bool) (evs : List Ev) :
    let s := run (init named sc se sd) evs
    (∀ (i j : Nat) (ti tj : Task), s.tasks[i]? = some ti → s.tasks[j]? = some tj →
        inflightPc ti.pc = true → inflightPc tj.pc = true → i = j) ∧
    (∀ (i : Nat) (t : Task), s.tasks[i]? = some t → inflightPc t.pc = true → s.locked = true) :=
  let h := run_inv (init named sc se sd) evs (init_inv named sc se sd)
  ⟨h.b, h.a⟩

/-- the same as a count -/
theorem c18_one_attempt_count (named sc se sd : Bool) (evs : List Ev) :
    ((run (init named sc se sd) evs).tasks.filter (fun t => inflightPc t.pc)).length ≤ 1 := by
  have h := (c18_one_attempt named sc se sd evs).1
  generalize (run (init named sc se sd) evs).tasks = l at h
  -- two elements of the filtered list would be two distinct indices
  rcases hf : l.filter (fun t => inflightPc t.pc) with _ | ⟨a, _ | ⟨b, rest⟩⟩
  · simp [hf]
  · simp [hf]
  · exfalso
    have hsub : [a, b].Sublist l := by
      have : [a, b].Sublist (a :: b :: rest) := by simp
      exact (hf ▸ this).trans List.filter_sublist
    have ha : inflightPc a.pc = true := by
      have : a ∈ l.filter (fun t => inflightPc t.pc) := by rw [hf]; simp
      exact (List.mem_filter.mp this).2
    have hb : inflightPc b.pc = true := by
      have : b ∈ l.filter (fun t => inflightPc t.pc) := by rw [hf]; simp
      exact (List.mem_filter.mp this).2
    obtain ⟨is, his, hinc⟩ := List.sublist_eq_map_getElem hsub
    match is, his, hinc with
    | [i, j], his, hinc =>
      simp at his hinc
      have h1 : l[i.val]? = some a := by rw [List.getElem?_eq_getElem i.isLt]; simp [his.1]
      have h2 : l[j.val]? = some b := by rw [List.getElem?_eq_getElem j.isLt]; simp [his.2]
      have := h i.val j.val a b h1 h2 ha hb
      have hlt : i < j := hinc
      omega

/-- **C18 (no attempt during a session).**  In every reachable state a task suspended in `start_connection` means the
client is starting, one suspended in `finish_connection` means it is finishing; so while a session is live no task is
inside a client call. -/
theorem c18_no_attempt_while_live (named sc se sd : Bool) (evs : List Ev) (h : (run (init named sc se sd) evs).cli = .live)
    (i : Nat) (t : Task) (ht : (run (init named sc se sd) evs).tasks[i]? = some t) : t.pc ≠ .inStart ∧ t.pc ≠ .inFinish := by
  have hc := run_cli (init named sc se sd) evs (init_inv named sc se sd) (init_cli named sc se sd) i t
  constructor <;> intro hp
  · have := hc .starting ht (by simp [hp, cliOf]); rw [h] at this; cases this
  · have := hc .finishing ht (by simp [hp, cliOf]); rw [h] at this; cases this

/-! ## the counter is the number of consecutive failures -/

/-- **C18 (n = consecutive failures).**  In every reachable state the failure counter equals what the history says:
`consec` scans the history — a failure counted (when `on_connect_error` has returned) sets 100 for an authentication /
encryption error and adds one for any other, `on_connect` and the reset by `start()` clear it.  With `c18_retry_delay` and `c18_backoff`: after the n-th
consecutive failed attempt the retry is armed `min(round(1.8^n), 60)` seconds ahead, 60 s after auth errors. -/
theorem c18_tries_consecutive (named sc se sd : Bool) (evs : List Ev) :
    (run (init named sc se sd) evs).tries = consec (run (init named sc se sd) evs).log :=
  tries_eq_consec named evs sc se sd

example : consec [.attempt, .onConnectError .other, .failCounted .other, .arm 2, .attempt, .onConnectError .other, .failCounted .other, .arm 3] = 2 ∧
    consec [.failCounted .other, .onConnect, .onDisconnect false, .attempt, .onConnectError .other, .failCounted .other] = 1 ∧
    consec [.failCounted .other, .onConnectError .auth, .failCounted .auth] = 100 := by decide

/-! ## clean stop -/

/-- **C18 (clean stop).**  Take any reachable state in which the manager is stopped and no earlier `start()` call is
still waiting for the lock (i.e. `stop()` has returned and `start()` has not been called since).  Then for EVERY
continuation without a new `start()` — attempt completions, session endings, mDNS records, timers, ready handles —
the manager stays stopped, the connect task is not busy (not in a client call, not in `on_connect` / `on_connect_error`),
no retry timer is armed, it does not listen to mDNS, and nothing noisy (a connection attempt, a listener registration, a timer) is ever logged again. -/
theorem c18_stop_final (named sc se sd : Bool) (pre post : List Ev)
    (hs : (run (init named sc se sd) pre).stopped = true) (hn : NoPendingStart (run (init named sc se sd) pre))
    (hp : ∀ e ∈ post, e ≠ .callStart) :
    let s := run (init named sc se sd) pre
    let s' := run s post
    s'.stopped = true ∧ NoInflight s' ∧ s'.timer = none ∧ s'.zcListening = false ∧
      s'.log.filter noisy = s.log.filter noisy := by
  have g := run_G (init named sc se sd) pre (init_G named sc se sd)
  obtain ⟨f, l⟩ := run_F _ post hp g.lock ⟨hs, g.stop hs, hn⟩
  exact ⟨f.stopped, f.quiet.n, f.quiet.t, f.quiet.z, l⟩

/-- in EVERY reachable state: stopped ⇒ nothing in flight, no timer, not listening (also while `start()` calls are pending) -/
theorem c18_stopped_quiet (named sc se sd : Bool) (evs : List Ev) (hs : (run (init named sc se sd) evs).stopped = true) :
    let s := run (init named sc se sd) evs
    NoInflight s ∧ s.timer = none ∧ s.zcListening = false :=
  let q := (run_G (init named sc se sd) evs (init_G named sc se sd)).stop hs
  ⟨q.n, q.t, q.z⟩

/-- the hypotheses of `c18_stop_final` are met after start, a failed attempt and stop; and they matter: a retry timer
and the listener were active before -/
example :
    let s := run (init true) [.callStart, .pop, .startDone (.fail .other), .pop]
    let s' := run s [.callStop, .pop]
    s.timer = some 2 ∧ s.zcListening = true ∧ s'.stopped = true ∧ (s'.tasks.all fun t => t.kind ≠ .startCall ∨ t.pc = .done) = true := by
  decide

/-! ## mDNS -/

/-- **C18 (mDNS gate).**  In every reachable state an mDNS record has NO effect while handshaking or connected, while
stopped, or when it does not match the device; a matching record seen while the manager listens and waits stops
listening and starts an attempt at once (`scheduleConnect 0`). -/
theorem c18_zc_gate (named sc se sd : Bool) (evs : List Ev) (m : Bool) :
    let s := run (init named sc se sd) evs
    ((s.state = .handshaking ∨ s.state = .ready) → step s (.zc m) = s) ∧
    (s.stopped = true → step s (.zc m) = s) ∧
    step s (.zc false) = s ∧
    (s.zcListening = true → s.accept = true → s.stopped = false →
      step s (.zc true) = { scheduleConnect (stopZc s) 0 with accept := false }) := by
  have g := run_G (init named sc se sd) evs (init_G named sc se sd)
  refine ⟨?_, ?_, ?_, ?_⟩
  · intro hst
    have : (run (init named sc se sd) evs).accept = false := by
      cases ha : (run (init named sc se sd) evs).accept
      · rfl
      · rcases g.acc ha with h | h <;> rcases hst with h' | h' <;> rw [h] at h' <;> cases h'
    simp [step, this]
  · intro h; simp [step, h]
  · simp [step]
  · intro h1 h2 h3; simp [step, h1, h2, h3]

/-! ## the delays -/

theorem startZc_facts (s : St) : (startZc s).now = s.now ∧ (startZc s).tries = s.tries ∧
    (∀ a ∈ s.log, a ∈ (startZc s).log) ∧ (s.hasName = true → (startZc s).zcListening = true) := by
  unfold startZc
  split
  · refine ⟨rfl, rfl, fun a ha => by simp [emit, ha], fun _ => rfl⟩
  · rename_i hc
    refine ⟨rfl, rfl, fun a ha => ha, fun hn => ?_⟩
    cases hz : s.zcListening
    · simp [hz, hn] at hc
    · rfl

theorem afterFail_facts (s : St) (tid : Nat) (hb : backoff s.tries ≠ 0) :
    (afterFail s tid).timer = some (s.now + backoff s.tries) ∧ (afterFail s tid).tries = s.tries ∧
    Act.arm (backoff s.tries) ∈ (afterFail s tid).log ∧ (∀ a ∈ s.log, a ∈ (afterFail s tid).log) ∧
    (s.hasName = true → (afterFail s tid).zcListening = true) := by
  obtain ⟨h1, h2, h3, h4⟩ := startZc_facts s
  unfold afterFail
  simp only [hb, ne_eq, not_false_eq_true, ↓reduceIte, timer_finish, timer_release, timer_emit, tries_finish, tries_release, tries_emit,
    log_finish, log_release, zcListening_finish, zcListening_release, zcListening_emit]
  refine ⟨by simp [h1], by simpa [cancelTimer] using h2, by simp [emit], fun a ha => by simp [emit, cancelTimer, h3 a ha], ?_⟩
  intro hn; simpa [cancelTimer] using h4 hn

/-- **C18 (retry delay).**  When `on_connect_error` has returned, the failure is counted and the retry timer is armed
`backoff n` seconds ahead, `n` = the failure count after this failure (100 after an authentication / encryption error), and
the manager starts listening to mDNS. -/
theorem c18_retry_delay (s : St) (tid : Nat) (k : ErrK) :
    let n := if k = .auth then maxTries else s.tries + 1
    let s' := failEnd s k tid
    s'.timer = some (s.now + backoff n) ∧ s'.tries = n ∧ Act.arm (backoff n) ∈ s'.log ∧ Act.failCounted k ∈ s'.log ∧
      (s.hasName = true → s'.zcListening = true) := by
  have hb := backoff_pos (if k = .auth then maxTries else s.tries + 1)
  have hne : backoff (if k = .auth then maxTries else s.tries + 1) ≠ 0 := by omega
  obtain ⟨h1, h2, h3, h4, h5⟩ := afterFail_facts (emit { s with tries := if k = .auth then maxTries else s.tries + 1 } (.failCounted k)) tid hne
  exact ⟨h1, h2, h3, h4 _ (by simp [emit]), h5⟩

/-- a failed attempt is reported to `on_connect_error` (once, before anything else happens) -/
theorem c18_error_reported (s : St) (tid : Nat) (k : ErrK) : Act.onConnectError k ∈ (failBegin s k tid).log := by
  unfold failBegin
  dsimp only
  split
  · simp [setTask, emit]
  · have hne : backoff (if k = .auth then maxTries else (emit (setState s .disconnected) (.onConnectError k)).tries + 1) ≠ 0 := by
      have := backoff_pos (if k = .auth then maxTries else (emit (setState s .disconnected) (.onConnectError k)).tries + 1); omega
    obtain ⟨_, _, _, h4, _⟩ := afterFail_facts (emit { emit (setState s .disconnected) (.onConnectError k) with
      tries := if k = .auth then maxTries else (emit (setState s .disconnected) (.onConnectError k)).tries + 1 } (.failCounted k)) tid hne
    exact h4 _ (by simp [emit])

/-- **C18 (after a disconnect).**  Handling the end of a session reports it once (`discLocked` logs `on_disconnect` before
anything else); when `on_disconnect` has returned and the manager is not stopped, an expected disconnect arms a 5 s
cool-down and an unexpected one starts the next attempt at once. -/
theorem c18_disconnect_delay (s : St) (tid : Nat) (expected : Bool) :
    let s1 := finish (release s) tid
    discEnd s tid expected = if s.stopped then s1 else if expected then scheduleConnect s1 cooldown else callConnectOnce s1 := by
  simp only [discEnd, stopped_finish, stopped_release]
  cases s.stopped <;> cases expected <;> simp [scheduleConnect, cooldown]

/-! ## alternation of on_connect / on_disconnect -/

def cbs (s : St) : List Act := s.log.filter fun a => a = .onConnect ∨ a = .onDisconnect true ∨ a = .onDisconnect false

/-- **C18 (alternation), partial: every history without `stop()`.**  `altState` scans the log and is `none` as soon as two
`on_connect` or two `on_disconnect` follow each other (or the first callback is an `on_disconnect`).  For EVERY sequence of
events that contains no `stop()` call — start calls, attempt outcomes, session endings, mDNS records, timers, single ready
handles in any interleaving — the callbacks alternate, starting with `on_connect`; the sequence is "open" exactly while a
session is live or its end has not been reported yet (`Alt.a5o/a5c`).  What is missing for the full statement is `stop()`:
with it the claim is false (next theorem). -/
theorem c18_alternate_partial (named sc se sd : Bool) (evs : List Ev) (h : ∀ e ∈ evs, e ≠ .callStop) :
    altState (run (init named sc se sd) evs).log ≠ none :=
  alternates_without_stop named evs h sc se sd

example : altState [.attempt, .onConnect, .arm 5, .onDisconnect true, .attempt, .onConnect] = some true ∧
    altState [.onConnect, .onDisconnect false] = some false ∧
    altState [.onConnect, .attempt, .onConnect] = none ∧ altState [.onDisconnect true] = none ∧
    altState [.onConnect, .onDisconnect true, .onDisconnect false] = none := by decide

/-- **C18 (alternation) does NOT hold in general — witness.**  `stop()` during a live session, `start()`, and the old
session ending before the new connect task takes the lock: the new session's `on_connect` is reported before the old
session's `on_disconnect`.  Replayed on the implementation (known finding, findings/C18-*.json). -/
theorem c18_alternate_witness :
    cbs (run (init true) [.callStart, .pop, .startDone .ok, .pop, .finishDone .ok, .pop,   -- session 1
                          .callStop, .callStart, .sessionEnd false,                          -- stop, start, session 1 ends
                          .pop, .startDone .ok, .pop, .finishDone .ok, .pop, .pop]) =         -- session 2, then the late report
      [.onConnect, .onConnect, .onDisconnect false] := by
  decide

/-- the same witness seen by `altState` -/
theorem c18_alternate_witness' :
    altState (run (init true) [.callStart, .pop, .startDone .ok, .pop, .finishDone .ok, .pop, .callStop, .callStart,
      .sessionEnd false, .pop, .startDone .ok, .pop, .finishDone .ok, .pop, .pop]).log = none := by
  decide

/-! ## a reported failure is counted -/

/-- **C18 (every reported failure is counted, unless `stop()` intervenes).**  Take any reachable state in which a task is
suspended inside `on_connect_error` for a failure of kind `k` and has not been cancelled, and ANY continuation that
contains no `stop()` call — mDNS records, timers, `start()` calls, session ends, ready handles in any order.  Then either
the failure is still being reported (the same task, still uncancelled) and no connection attempt has been started in the
meantime, or the failure has been counted (`fail_counted k`, which arms the retry timer `backoff n` ahead,
`c18_retry_delay`) before any further attempt.  In particular an mDNS record or a leftover timer never abandons the
failure being reported to start a fresh attempt. -/
theorem c18_failure_counted (named sc se sd : Bool) (evs rest : List Ev) (hns : Ev.callStop ∉ rest)
    (tid : Nat) (t : Task) (k : ErrK) :
    let s := run (init named sc se sd) evs
    s.tasks[tid]? = some t → t.pc = .inOnError k → t.mustCancel = false →
      (∃ l t', (run s rest).log = s.log ++ l ∧ Act.attempt ∉ l ∧
        (run s rest).tasks[tid]? = some t' ∧ t'.pc = .inOnError k ∧ t'.mustCancel = false) ∨
      (∃ l1 l2, (run s rest).log = s.log ++ l1 ++ Act.failCounted k :: l2 ∧ Act.attempt ∉ l1) := by
  intro s ht hpc hmc
  have hl : LockInv s := run_inv _ evs (init_inv named sc se sd)
  have he : ErrOk s := run_err _ evs (init_inv named sc se sd) (init_err named sc se sd)
  rcases run_counts rest hns tid k s t hl he ht hpc hmc with hk | h
  · left
    obtain ⟨t', ht', hp', hm'⟩ := hk.t t ht
    obtain ⟨l, hlog, hn⟩ := hk.l
    exact ⟨l, t', hlog, hn, ht', hp'.trans hpc, hm'.trans hmc⟩
  · exact .inr h

/-- the premises are met: the second failure is being reported while the mDNS listener of the first is still registered;
a matching record, a timer and a `start()` later the failure is still being reported and nothing was attempted; when the
callback returns it is counted -/
example :
    let s := run (init true false true false) [.callStart, .pop, .startDone (.fail .other), .pop, .cbDone, .pop, .timerDue, .pop,
      .pop, .startDone (.fail .other), .pop]
    (∃ t, s.tasks[2]? = some t ∧ t.pc = .inOnError .other ∧ t.mustCancel = false) ∧ s.zcListening = true ∧
    (run s [.zc true, .pop, .callStart, .pop]).log = s.log ++ [.zcRemove] ∧
    (run s [.zc true, .pop, .cbDone, .pop]).log = s.log ++ [.zcRemove, .failCounted .other, .zcAdd, .arm 3] := by decide

/-! ## alternation with `stop()` -/

/-- **C18 (alternation): EVERY history — `stop()` calls included — unless the manager is restarted over a session it has
forgotten.**  `badRB s`: the manager is running (not stopped) and believes it is DISCONNECTED although a session is live or
the end of one has not been reported yet; the only way into that state is `stop()` followed by `start()` while the session is
still up (`c18_alternate_witness`, the known finding).  For every sequence of events all of whose prefixes avoid that
state, `on_connect` and `on_disconnect` alternate, starting with `on_connect`.  So the known finding is the ONLY way the
alternation clause can fail. -/
theorem c18_alternate_unless_restarted (named sc se sd : Bool) (evs : List Ev)
    (h : ∀ k, k ≤ evs.length → badRB (run (init named sc se sd) (evs.take k)) = false) :
    altState (run (init named sc se sd) evs).log ≠ none :=
  alternates_unless_restarted evs _ (init_inv named sc se sd) (init_mc named sc se sd) (init_cli named sc se sd)
    (init_alt2 named sc se sd) (fun k hk hb => by have := h k hk; rw [badRB_of_BadR _ hb] at this; cases this)

/-- the premise is met by histories with `stop()`: stopped during a live session, the session ends, started again, a second
session — no prefix is in the bad state, and the callbacks read connect, disconnect, connect -/
example :
    let evs : List Ev := [.callStart, .pop, .startDone .ok, .pop, .finishDone .ok, .pop, .callStop, .sessionEnd false, .callStart,
      .pop, .startDone .ok, .pop, .finishDone .ok, .pop]
    (∀ k, k ≤ evs.length → badRB (run (init true) (evs.take k)) = false) ∧
    cbs (run (init true) evs) = [.onConnect, .onDisconnect false, .onConnect] := by decide

/-- … and the witness of the known finding passes through the bad state (right after its `start()`) -/
example : badRB (run (init true) [.callStart, .pop, .startDone .ok, .pop, .finishDone .ok, .pop, .callStop, .callStart]) = true := by
  decide

end Esp.C18
