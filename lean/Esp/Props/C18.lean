import Esp.Model.Reconnect
/-!
# C18 — reconnect manager: one attempt at a time, specified backoff, clean stop
-/
namespace Esp.C18
open Esp Reconnect

/-- nearest integer to `(9/5)^n` (never a tie for `n ≥ 1`) -/
def roundPow (n : Nat) : Nat := (2 * 9 ^ n + 5 ^ n) / (2 * 5 ^ n)

theorem pow_ge (n : Nat) (h : 7 ≤ n) : 61 * 5 ^ n ≤ 9 ^ n := by
  induction n with
  | zero => omega
  | succ k ih =>
    by_cases hk : k = 6
    · subst hk; decide
    · have := ih (by omega)
      rw [Nat.pow_succ, Nat.pow_succ]; omega

/-- **C18 (backoff).**  For EVERY failure count `n`, the delay computed by the code
(`int(round(min(1.8**min(n, 10), 60.0)))`) is `min(round(1.8^n), 60)`: the cap of the exponent at 10 and
the order of `min` and `round` are immaterial. -/
theorem c18_backoff (n : Nat) : backoff n = min (roundPow n) 60 := by
  by_cases h : n < 11
  · have : n = 0 ∨ n = 1 ∨ n = 2 ∨ n = 3 ∨ n = 4 ∨ n = 5 ∨ n = 6 ∨ n = 7 ∨ n = 8 ∨ n = 9 ∨ n = 10 := by omega
    rcases this with rfl | rfl | rfl | rfl | rfl | rfl | rfl | rfl | rfl | rfl | rfl <;> decide
  · have h10 : min n 10 = 10 := by omega
    have hb : backoff n = 60 := by
      unfold backoff; simp only [h10]; decide
    have hp := pow_ge n (by omega)
    have : 60 ≤ roundPow n := by
      unfold roundPow
      rw [Nat.le_div_iff_mul_le (Nat.mul_pos (by omega) (Nat.pow_pos (by omega)))]
      omega
    omega

/-- the table, for reading -/
example : (List.range 12).map backoff = [1, 2, 3, 6, 10, 19, 34, 60, 60, 60, 60, 60] := by decide

theorem backoff_pos (n : Nat) : 1 ≤ backoff n := by
  rw [c18_backoff]
  have : 1 ≤ roundPow n := by
    unfold roundPow
    rw [Nat.le_div_iff_mul_le (Nat.mul_pos (by omega) (Nat.pow_pos (by omega)))]
    have : 5 ^ n ≤ 9 ^ n := Nat.pow_le_pow_left (by omega) n
    omega
  omega

theorem backoff_le (n : Nat) : backoff n ≤ 60 := by rw [c18_backoff]; omega

/-- authentication / encryption errors: the count jumps to 100, i.e. the maximum delay -/
theorem c18_backoff_auth : backoff maxTries = 60 := by decide

end Esp.C18
