import Esp.Model.Ble
/-!
# C16 — Bluetooth operations are matched by address and handle and never cross-talk

Property theorems over `Esp.Ble`.  Each operation is a C11 request (`Props/C11`: exactly its
responses, nothing left behind, independent of the other calls) whose accept and stop predicates
are the filter below, so its result is the first message that `hits` it.
-/
namespace Esp.C16
open Esp Ble

/-- **C16 (the filter).**  A message ends a GATT read / write / notify operation for `(a, h)` iff it is
that operation's response or a GATT error carrying address `a` AND handle `h`, or a connection-state
message carrying address `a`; never otherwise. -/
theorem c16_filter (o : Op) (m : Msg) (hk : o.kind = .read ∨ o.kind = .write ∨ o.kind = .notify) :
    hits o m = true ↔
      ((m.kind = .error ∨ (o.kind = .read ∧ m.kind = .read) ∨ (o.kind = .write ∧ m.kind = .write) ∨
          (o.kind = .notify ∧ m.kind = .notify)) ∧ m.address = o.address ∧ m.handle = o.handle) ∨
      (isConn m.kind = true ∧ m.address = o.address) := by
  obtain ⟨ok, oa, oh⟩ := o
  obtain ⟨mk, ma, mh⟩ := m
  simp only at hk
  rcases hk with rfl | rfl | rfl <;> cases mk <;> simp [hits, listens, filter, isConn]

/-- **C16 (outcome).**  The first message that hits the operation decides it: its own response → the
result; a GATT error for its address and handle → the GATT error; a connection-state change for its
address → connection dropped; none → timeout. -/
theorem c16_outcome (o : Op) (pre : List Msg) (m : Msg) (post : List Msg)
    (hpre : ∀ x ∈ pre, hits o x = false) (hm : hits o m = true) :
    outcome o (pre ++ m :: post) = classify o m := by
  induction pre with
  | nil => simp [outcome, hm]
  | cons x xs ih =>
    have hx : hits o x = false := hpre x (by simp)
    simp only [List.cons_append, outcome, hx, Bool.false_eq_true, ↓reduceIte]
    exact ih (fun y hy => hpre y (by simp [hy]))

theorem c16_timeout (o : Op) (msgs : List Msg) (h : ∀ x ∈ msgs, hits o x = false) : outcome o msgs = .timeout := by
  induction msgs with
  | nil => rfl
  | cons x xs ih =>
    simp only [outcome, h x (by simp), Bool.false_eq_true, ↓reduceIte]
    exact ih (fun y hy => h y (by simp [hy]))

/-- **C16 (isolation).**  Messages that do not hit an operation — other addresses, other handles,
other types — never complete, fail or delay it: its outcome is a function of the sub-stream of
messages that hit it, for every stream and every order. -/
theorem c16_isolation (o : Op) (msgs : List Msg) : outcome o msgs = outcome o (msgs.filter (hits o)) := by
  induction msgs with
  | nil => rfl
  | cons x xs ih =>
    by_cases hx : hits o x = true
    · simp [outcome, List.filter, hx]
    · have hx' : hits o x = false := by simpa using hx
      simp only [outcome, List.filter, hx', Bool.false_eq_true, ↓reduceIte]
      exact ih

/-- two operations on different addresses, or GATT operations on the same address with different handles,
never share a non-connection message -/
theorem c16_disjoint (o1 o2 : Op) (m : Msg) (hg1 : o1.kind = .read ∨ o1.kind = .write ∨ o1.kind = .notify)
    (hg2 : o2.kind = .read ∨ o2.kind = .write ∨ o2.kind = .notify)
    (hd : o1.address ≠ o2.address ∨ (o1.handle ≠ o2.handle ∧ isConn m.kind = false)) :
    ¬(hits o1 m = true ∧ hits o2 m = true) := by
  intro ⟨h1, h2⟩
  rw [c16_filter o1 m hg1] at h1
  rw [c16_filter o2 m hg2] at h2
  rcases hd with hd | ⟨hd, hc⟩
  · rcases h1 with ⟨_, a1, _⟩ | ⟨_, a1⟩ <;> rcases h2 with ⟨_, a2, _⟩ | ⟨_, a2⟩ <;> exact hd (a1.symm.trans a2)
  · rcases h1 with ⟨_, _, b1⟩ | ⟨c1, _⟩
    · rcases h2 with ⟨_, _, b2⟩ | ⟨c2, _⟩
      · exact hd (b1.symm.trans b2)
      · simp [hc] at c2
    · simp [hc] at c1

/-! ## notify data -/

/-- **C16 (notify data).**  The data callback of a notify session for `(a, h)` receives exactly the data of the notify-data
messages carrying address `a` and handle `h` that arrive while it is registered, in order — for every stream. -/
theorem c16_notify_data (a h : Nat) (evs : List NEv) :
    notifyRun a h true evs =
      ((evs.takeWhile (· ≠ .remove)).filterMap fun e => match e with
        | .data m => if m.address = a ∧ m.handle = h then some m.data else none
        | .remove => none) := by
  have hfalse : ∀ es, notifyRun a h false es = [] := by
    intro es; induction es with
    | nil => rfl
    | cons e es ih => cases e <;> simp [notifyRun, ih]
  induction evs with
  | nil => rfl
  | cons e es ih =>
    cases e with
    | remove => simp [notifyRun, hfalse]
    | data m =>
      simp only [notifyRun, true_and, ne_eq, reduceCtorEq, not_false_eq_true, List.takeWhile_cons_of_pos, List.filterMap_cons]
      by_cases hm : m.address = a ∧ m.handle = h
      · simp [hm, ih]
      · simp [hm, ih]

example : notifyRun 1 2 true [.data ⟨1, 2, 10⟩, .data ⟨1, 3, 11⟩, .data ⟨9, 2, 12⟩, .data ⟨1, 2, 13⟩, .remove, .data ⟨1, 2, 14⟩] = [10, 13] := by
  decide

/-! ## device connect -/

/-- **C16 (connect timeout).**  For every event sequence: if the connect ends with the timeout error,
then before the error is raised the subscription was removed and a DISCONNECT request for that very
address was written — in that order — and nothing is subscribed afterwards. -/
theorem c16_connect_timeout (a : Nat) (evs : List CEv) :
    let s := cRun { address := a } evs
    (.raiseTimeout ∈ s.log → ∃ l1 l2, s.log = l1 ++ [.unsub, .writeDisconnect a] ++ l2 ∧ .raiseTimeout ∈ l2 ∧
        .raiseTimeout ∉ l1 ∧ s.subscribed = false) := by
  show (Act.raiseTimeout ∈ (cRun { address := a } evs).log → ∃ l1 l2,
      (cRun { address := a } evs).log = l1 ++ [.unsub, .writeDisconnect a] ++ l2 ∧ .raiseTimeout ∈ l2 ∧
        .raiseTimeout ∉ l1 ∧ (cRun { address := a } evs).subscribed = false)
  -- invariant over the run
  have inv : ∀ (evs : List CEv) (s0 : CSt), s0.address = a →
      ((s0.phase = .connecting → s0.log = [] ∧ s0.subscribed = true) ∧
       (s0.phase = .disconnecting → s0.log = [.unsub, .writeDisconnect a] ∧ s0.subscribed = false) ∧
       (s0.phase = .done false → s0.log = [.unsub, .writeDisconnect a, .raiseTimeout] ∧ s0.subscribed = false) ∧
       (s0.phase = .done true → s0.log = [.returnOk])) →
      let s1 := cRun s0 evs
      s1.address = a ∧
      ((s1.phase = .connecting → s1.log = [] ∧ s1.subscribed = true) ∧
       (s1.phase = .disconnecting → s1.log = [.unsub, .writeDisconnect a] ∧ s1.subscribed = false) ∧
       (s1.phase = .done false → s1.log = [.unsub, .writeDisconnect a, .raiseTimeout] ∧ s1.subscribed = false) ∧
       (s1.phase = .done true → s1.log = [.returnOk])) := by
    intro evs
    induction evs with
    | nil => intro s0 ha h; exact ⟨ha, h⟩
    | cons e es ih =>
      intro s0 ha h
      apply ih (cStep s0 e)
      · cases e <;> simp only [cStep] <;> (repeat' split) <;> simp_all
      · obtain ⟨h1, h2, h3, h4⟩ := h
        cases e <;> simp only [cStep] <;> (repeat' split) <;> simp_all
  obtain ⟨_, h1, h2, h3, h4⟩ := inv evs { address := a } rfl (by simp)
  generalize cRun { address := a } evs = s at *
  intro hr
  cases hp : s.phase with
  | connecting => have := (h1 hp).1; simp [this] at hr
  | disconnecting => have := (h2 hp).1; simp [this] at hr
  | done ok =>
    cases ok with
    | true => have := h4 hp; simp [this] at hr
    | false =>
      obtain ⟨hl, hs⟩ := h3 hp
      exact ⟨[], [.raiseTimeout], by simp [hl], by simp, by simp, hs⟩

/-! ## non-vacuity -/
example : outcome { kind := .read, address := 1, handle := 2 }
    [⟨.read, 9, 2⟩, ⟨.read, 1, 3⟩, ⟨.write, 1, 2⟩, ⟨.error, 1, 3⟩, ⟨.other, 1, 2⟩, ⟨.read, 1, 2⟩, ⟨.error, 1, 2⟩] =
    .result ⟨.read, 1, 2⟩ := by decide
example : outcome { kind := .write, address := 1, handle := 2 } [⟨.error, 1, 3⟩, ⟨.conn false, 2, 0⟩, ⟨.conn false, 1, 0⟩] =
    .dropped ⟨.conn false, 1, 0⟩ := by decide
example : (cRun { address := 7 } [.resp 8 true, .timeoutFire, .resp 7 true, .resp 8 false, .discTimeout]).log =
    [.unsub, .writeDisconnect 7, .raiseTimeout] := by decide
example : (cRun { address := 7 } [.resp 8 true, .resp 8 false, .resp 7 false, .timeoutFire]).log = [.returnOk] := by decide

/-- **C16 (connect is per address).**  Connection responses for other addresses never complete, fail or delay a device
connect: the run is the run on the events that are not responses for another address. -/
theorem c16_connect_isolation (a : Nat) (evs : List CEv) :
    cRun { address := a } evs = cRun { address := a } (evs.filter fun e => match e with | .resp b _ => b = a | _ => true) := by
  have key : ∀ (s : CSt), s.address = a →
      cRun s evs = cRun s (evs.filter fun e => match e with | .resp b _ => b = a | _ => true) := by
    induction evs with
    | nil => intro s _; rfl
    | cons e es ih =>
      intro s ha
      have haddr : ∀ e, (cStep s e).address = a := by
        intro e; cases e <;> simp only [cStep] <;> (repeat' split) <;> simp_all
      cases e with
      | resp b c =>
        by_cases hb : b = a
        · simp only [List.filter, hb, decide_true, cRun, List.foldl_cons]
          exact ih _ (haddr _)
        · have hs : cStep s (.resp b c) = s := by simp [cStep, ha, hb]
          simp only [List.filter, hb, decide_false, cRun, List.foldl_cons, hs]
          exact ih s ha
      | timeoutFire => simp only [List.filter, cRun, List.foldl_cons]; exact ih _ (haddr _)
      | discTimeout => simp only [List.filter, cRun, List.foldl_cons]; exact ih _ (haddr _)
  exact key _ rfl

/-! ## service discovery -/

def deciding (m : SMsg) : Bool := match m.kind with | .done | .error | .conn => true | _ => false
def listed (m : SMsg) : List Nat := match m.kind with | .services ids => ids | _ => []

/-- **C16 (service discovery, isolation).**  Messages for other addresses never complete, fail, delay or change a service
discovery: its outcome on ANY stream is its outcome on the sub-stream of its own address. -/
theorem c16_services_isolation (a : Nat) (ms : List SMsg) (acc : List Nat) :
    getServices a ms acc = getServices a (ms.filter (fun m => m.address = a)) acc := by
  induction ms generalizing acc with
  | nil => rfl
  | cons m ms ih =>
    by_cases h : m.address = a
    · simp only [List.filter, h, decide_true]
      unfold getServices
      simp only [h, ne_eq, not_true_eq_false, ↓reduceIte]
      cases m.kind <;> simp [ih]
    · simp only [List.filter, h, decide_false]
      rw [← ih]
      conv => lhs; unfold getServices
      simp [h]

/-- **C16 (service discovery, outcome).**  On its own messages: nothing deciding ⇒ it waits (timeout); otherwise the FIRST
done / error / connection-change decides — `done` returns exactly the services listed before it, in order; an error or a
connection change fails the call whatever was listed before. -/
theorem c16_services_outcome (a : Nat) (ms : List SMsg) (h : ∀ m ∈ ms, m.address = a) (acc : List Nat) :
    getServices a ms acc =
      match ms.find? deciding with
      | none => .timeout
      | some m => match m.kind with
        | .done => .services (acc ++ (ms.takeWhile (fun m => !deciding m)).flatMap listed)
        | .error => .gattError
        | .conn => .dropped
        | _ => .timeout := by
  induction ms generalizing acc with
  | nil => rfl
  | cons m ms ih =>
    have hm : m.address = a := h m (by simp)
    have ih' := fun acc => ih (fun x hx => h x (by simp [hx])) acc
    unfold getServices
    simp only [hm, ne_eq, not_true_eq_false, ↓reduceIte]
    cases hk : m.kind with
    | services ids =>
      simp only [List.find?, deciding, hk, List.takeWhile, Bool.not_false, List.flatMap_cons, listed]
      rw [ih']
      cases hf : ms.find? deciding with
      | none => rfl
      | some m' => cases m'.kind <;> simp [List.append_assoc, deciding]
    | other =>
      simp only [List.find?, deciding, hk, List.takeWhile, Bool.not_false, List.flatMap_cons, listed]
      rw [ih']
      cases hf : ms.find? deciding with
      | none => rfl
      | some m' => cases m'.kind <;> simp [deciding]
    | done => simp [List.find?, deciding, hk, List.takeWhile]
    | error => simp [List.find?, deciding, hk]
    | conn => simp [List.find?, deciding, hk]

example : getServices 1 [⟨.services [3, 4], 1⟩, ⟨.done, 2⟩, ⟨.error, 2⟩, ⟨.services [], 1⟩, ⟨.services [9], 2⟩, ⟨.services [5], 1⟩, ⟨.done, 1⟩,
    ⟨.conn, 1⟩] [] = .services [3, 4, 5] := by decide
example : getServices 1 [⟨.services [3], 1⟩, ⟨.conn, 1⟩, ⟨.done, 1⟩] [] = .dropped ∧
    getServices 1 [⟨.services [3], 1⟩, ⟨.error, 1⟩, ⟨.done, 1⟩] [] = .gattError ∧ getServices 1 [⟨.services [3], 1⟩, ⟨.done, 2⟩] [] = .timeout := by decide

end Esp.C16
