import Esp.Model.Bytes
/-!
# The buffered receive loop, generically

Both frame helpers run the same loop in `data_received`:

```
self._add_to_buffer(data)
while self._buffer_len:
    self._pos = 0
    <try to read one frame; `return` if bytes are missing or the frame is bad>
    self._remove_from_buffer()
    <hand the frame over>
```

`drain` is that loop for an arbitrary one-frame parser; `Plain` and `Noise`
instantiate it.  The retained buffer is what `_remove_from_buffer` leaves
behind (`_buffer[_pos:]`), so the `_pos/_buffer_len` arithmetic is represented
by `List.drop`/suffixes.
-/
namespace Esp

/-- outcome of trying to read one frame from the head of the buffer -/
inductive Parse (E F : Type) where
  | need : Parse E F                      -- bytes missing: `return`, keep the buffer
  | bad (e : E) : Parse E F               -- malformed: error, `return`
  | frame (f : F) (rest : Bytes) : Parse E F
deriving Repr

structure Splitter (E F : Type) where
  parseOne : Bytes → Parse E F
  /-- a complete frame strictly consumes input (termination of the `while`) -/
  shrink : ∀ b f r, parseOne b = .frame f r → r.length < b.length
  /-- a frame once recognised is not revised by later bytes -/
  stable_frame : ∀ b c f r, parseOne b = .frame f r → parseOne (b ++ c) = .frame f (r ++ c)

variable {E F : Type}

/-- the `while self._buffer_len:` loop: frames handed over, retained buffer, error -/
def drain (S : Splitter E F) (buf : Bytes) : List F × Bytes × Option E :=
  if _h : buf = [] then ([], [], none) else
  match hp : S.parseOne buf with
  | .need => ([], buf, none)
  | .bad e => ([], buf, some e)
  | .frame f rest =>
    have : rest.length < buf.length := S.shrink _ _ _ hp
    let r := drain S rest
    (f :: r.1, r.2.1, r.2.2)
termination_by buf.length

end Esp

namespace Esp
variable {E F : Type}

/-- a history of `data_received` calls on a helper that retains `b`: per-call hand-overs,
final retained buffer, error.  After an error the helper has closed its transport and gets
no more calls; the remaining chunks are recorded as delivering nothing. -/
def feedAll (S : Splitter E F) : Bytes → List Bytes → List (List F) × Bytes × Option E
  | b, [] => ([], b, none)
  | b, c :: cs =>
    match drain S (b ++ c) with
    | (es, b1, none) => let r := feedAll S b1 cs; (es :: r.1, r.2.1, r.2.2)
    | (es, b1, some e) => (es :: cs.map (fun _ => []), b1, some e)

end Esp
