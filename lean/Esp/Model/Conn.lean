/-!
# The connection LTS (C05, C07, C08, C09 — and the base of C06, C19)

`APIConnection` (`connection.py`) as a labelled transition system over the *atomic steps* of the
event loop: a caller starts an operation (eager task: runs to its first suspension), a task resumes,
a future done-callback runs, a timer fires, the transport delivers bytes / EOF / connection_lost.
asyncio is cooperative, so nothing else can interleave; every real schedule is a path of this LTS
(the LTS allows any enabled step next, asyncio picks FIFO).

Transcribed: `_cleanup`, `report_fatal_error`, `_wrap_fatal_connection_exception`, `send_messages`,
`start_connection` / `finish_connection` (with `async_interrupt.interrupt`: `_on_interrupt` is a
separately scheduled callback, `__aexit__` turns the cancellation into ConnectionInterruptedError),
`_connect_init_frame_helper`, `_connect_hello_login` (request = `Req`), keepalive callbacks,
`process_packet` incl. the three internal handlers, `disconnect`, `force_disconnect`, and the frame
helper's `data_received` loop / `connection_lost` / `eof_received` / `close`.

Time is abstracted: a timer event is enabled whenever the timer is armed (`Props/C10`, `C11` carry the
exact-time statements).  An event that is not enabled is a no-op.
-/
namespace Esp.Conn

inductive CSt | init | sockOpen | hsDone | connected | closed
deriving DecidableEq, Repr

inductive Err
  | resolve | socket | socketClosed | handshake | protocol | requiresEncryption | pingFailed | timeout
  | invalidAuth | badName | base | cancelledErr | unhandled | readFailed | notEstablished
deriving DecidableEq, Repr

/-- `_fatal_exception`: a library error or something else (ConnectionResetError, DecodeError, …) -/
inductive Fatal | api (e : Err) | raw
deriving DecidableEq, Repr

/-- an exception travelling up a connect phase -/
inductive Exc | api (e : Err) | interrupted | cancelled | os | other
deriving DecidableEq, Repr

inductive Outcome | ok | err (e : Err) | rawRuntime
deriving DecidableEq, Repr

inductive RFut | none | pending | ok | tmo | failed (e : Err) | cancelled
deriving DecidableEq, Repr

/-- one `send_messages_await_response_complex` call (C11) -/
structure Req where
  fut : RFut := .none
  registered : Bool := false
  inWaiters : Bool := false
  timer : Bool := false
deriving DecidableEq, Repr

inductive IFut | none | pending | done
deriving DecidableEq, Repr

inductive Ready | none | pending | ok | tmo | failed (e : Err)
deriving DecidableEq, Repr

inductive StartPc | idle | awaitResolve | awaitSocket | done (o : Outcome)
deriving DecidableEq, Repr
inductive FinishPc | idle | awaitTransport | awaitReady | awaitHello | done (o : Outcome)
deriving DecidableEq, Repr
inductive DiscPc | idle | awaitFinish | awaitResp | done
deriving DecidableEq, Repr

inductive Res | none | ok | fail
deriving DecidableEq, Repr

/-- the two responses the hello/login collector listens for, reduced to what the checks read:
`HelloResponse` (is `api_version_major ≤ 2`; does the name check pass) and `ConnectResponse` -/
inductive HResp | hello (majorOk nameOk : Bool) | connect (invalid : Bool)
deriving DecidableEq, Repr

/-- what a connect-phase task carries besides its pc -/
structure Tk where
  userCancel : Bool := false      -- `task.cancel()` by the caller, not yet delivered
  interrupted : Bool := false     -- `_Interrupt._interrupted`
  exited : Bool := false          -- `_Interrupt._exited`
  cbPending : Bool := false       -- the interrupt future is done, `_on_interrupt` is scheduled
  timedOut : Bool := false        -- an `asyncio.timeout` / handshake timer of the current await fired
deriving DecidableEq, Repr

structure State where
  noise : Bool := false
  login : Bool := false
  st : CSt := .init
  fatal : Option Fatal := none
  expected : Bool := false
  onStopHeld : Bool := true
  stops : List Bool := []
  -- resources
  sockAttached : Bool := false      -- `_socket is not None`
  sockClosed : Bool := false        -- the socket object has been closed (by us or by the transport)
  sockMade : Bool := false          -- happy-eyeballs produced a socket
  helperMade : Bool := false        -- the protocol object exists (create_connection's factory ran)
  fhSet : Bool := false             -- `_frame_helper is not None`
  transportOpen : Bool := false     -- transport exists and is not closing
  lostPending : Bool := false       -- `connection_lost` is scheduled
  lostExc : Bool := false           -- … with a (non-library) exception
  ready : Ready := .none
  hsTimer : Bool := false
  pingArmed : Bool := false
  pongArmed : Bool := false
  pendingPing : Bool := false
  internalReg : Bool := false
  resolveTimer : Bool := false
  tcpTimer : Bool := false
  discWaitTimer : Bool := false
  discWaiterDone : Bool := false    -- asyncio.wait's internal waiter has been released
  discCbPending : Bool := false     -- asyncio.wait's `_on_completion` callback on the finish future is scheduled
  writeOk : Bool := true
  -- interrupt futures
  startFut : IFut := .none
  finishFut : IFut := .none
  -- tasks
  start : StartPc := .idle
  startT : Tk := {}
  finish : FinishPc := .idle
  finishT : Tk := {}
  disc : DiscPc := .idle
  discCancel : Bool := false
  resolveRes : Res := .none
  sockRes : Res := .none
  transportWaiter : Bool := false   -- create_connection's waiter is done
  transportFailed : Bool := false   -- … with an OSError (the socket was closed under it)
  hello : Req := {}
  collected : List HResp := []      -- the collector's `responses`
  discReq : Req := {}
  discRaw : Bool := false           -- a non-library exception escaped `disconnect()` / `force_disconnect()`
  discCancelled : Bool := false     -- `disconnect()` ended with the CancelledError its caller requested
  -- history
  everConnected : Bool := false
  graceful : Bool := false          -- a local disconnect / force call has been made, or a peer DisconnectRequest dispatched
  gracefulAtClose : Option Bool := none   -- `graceful` at the step that closed the connection
  writes : Nat := 0
  deliveries : Nat := 0
deriving Repr

inductive Pkt
  | hresp (r : HResp)
  | discReq | discResp | pingReq | other
  | badPayload                 -- known type, undecodable payload
  | garbage                    -- bad preamble / indicator
deriving DecidableEq, Repr

inductive Ev
  | callStart | resolved (ok : Bool) | sockDone (ok : Bool) | wakeStart | cancelStart
  | callFinish | connMade | hsOk | wakeFinish | cancelFinish
  | cbStart | cbFinish
  | callDisc | wakeDisc | cancelDisc | force | cbDiscWait
  | data (pkts : List Pkt) | eof | lost | reset
  | fireResolve | fireTcp | fireHs | fireHello | firePing | firePong | fireDiscWait | fireDiscResp
  | setWrite (ok : Bool)
deriving Repr

def hsComplete (s : State) : Bool := s.st = .hsDone ∨ s.st = .connected

/-! ## shared handlers -/

/-- the error a waiter sees when `_cleanup` fails it -/
def waiterErr : Option Fatal → Err
  | none => .base
  | some (.api e) => e
  | some .raw => .readFailed

def failWaiter (f : Option Fatal) (r : Req) : Req :=
  if r.inWaiters then
    { r with fut := if r.fut = .pending then .failed (waiterErr f) else r.fut, inWaiters := false }
  else r

/-- `_cleanup` (no early return: every part is idempotent; `was_connected` is false once closed).
Written as ONE record update so that every field of the result is an explicit expression of the
old state. -/
def cleanup (s : State) : State :=
  { s with
    st := .closed
    gracefulAtClose := if s.st = .closed then s.gracefulAtClose else some s.graceful
    hello := failWaiter s.fatal s.hello
    discReq := failWaiter s.fatal s.discReq
    -- `_set_start_connect_future` / `_set_finish_connect_future`: the done-callbacks get scheduled
    startFut := if s.startFut = .pending then .done else s.startFut
    startT := { s.startT with cbPending := s.startT.cbPending || (s.startFut = .pending) }
    finishFut := if s.finishFut = .pending then .done else s.finishFut
    finishT := { s.finishT with cbPending := s.finishT.cbPending || (s.finishFut = .pending) }
    discCbPending := s.discCbPending || (s.finishFut = .pending ∧ s.disc = .awaitFinish)
    -- frame helper close(): transport.close() schedules connection_lost(None); noise also fails a pending ready future
    fhSet := false
    lostPending := s.lostPending || (s.fhSet ∧ s.transportOpen)
    transportOpen := s.transportOpen ∧ !s.fhSet
    ready := if s.fhSet ∧ s.noise ∧ s.ready = .pending then .failed .base else s.ready
    sockAttached := false
    sockClosed := s.sockClosed || s.sockAttached
    pongArmed := false
    pingArmed := false
    onStopHeld := s.onStopHeld ∧ !(s.st = .connected)
    stops := if s.onStopHeld ∧ s.st = .connected then s.stops ++ [s.expected] else s.stops }

/-- `report_fatal_error` -/
def reportFatal (s : State) (f : Fatal) : State :=
  cleanup { s with fatal := if s.fatal.isNone then some f else s.fatal }

/-- `send_messages`: `none` = written; `some e` = the exception raised -/
def send (s : State) : State × Option Exc :=
  if !hsComplete s then (s, some (.api .notEstablished))
  else if !s.fhSet then (s, some .other)     -- AttributeError on a `None` frame helper
  else if s.writeOk then ({ s with writes := s.writes + 1 }, none)
  else (reportFatal s (.api .socketClosed), some (.api .socketClosed))

/-- `_wrap_fatal_connection_exception` -/
def wrap (s : State) : Exc → Err
  | .api e => e
  | ex =>
    match s.fatal with
    | some (.api f) => f
    | _ => match ex with
      | .cancelled => .cancelledErr
      | .os => .socket
      | _ => .unhandled

/-- `_connect_hello_login` after the await: `responses.pop(0)` is treated as the HelloResponse
(`_process_hello_resp`: version, then name), and with login the next one as the ConnectResponse
(`_process_login_response`).  A response of the wrong type in a slot is an AttributeError. -/
def judge (login : Bool) : List HResp → Option Exc
  | .hello majorOk nameOk :: rest =>
    if !majorOk then some (.api .base)
    else if !nameOk then some (.api .badName)
    else if login then
      match rest with
      | .connect invalid :: _ => if invalid then some (.api .invalidAuth) else none
      | _ => some .other
    else none
  | _ => some .other

/-- the collector's handler: append, and stop on a response of the last expected type -/
def collect (s : State) (r : HResp) : State :=
  if s.hello.registered ∧ s.hello.fut = .pending then
    match r with
    | .hello _ _ => { s with collected := s.collected ++ [r], hello := if s.login then s.hello else { s.hello with fut := .ok } }
    | .connect _ => if s.login then { s with collected := s.collected ++ [r], hello := { s.hello with fut := .ok } } else s
  else s

/-- `handle_complex_message` for a collector whose stop predicate the packet satisfies -/
def resolveReq (r : Req) : Req :=
  if r.registered ∧ r.fut = .pending then { r with fut := .ok } else r

/-- the `finally` block of a request -/
def finishReq (r : Req) : Req := { r with registered := false, inWaiters := false, timer := false }

/-! ## incoming data -/

/-- `process_packet` for one decoded frame; `true` = an exception escaped (the receive loop stops,
the transport force-closes and reports `connection_lost(exc)`) -/
def processPacket (s : State) (p : Pkt) : State × Bool :=
  if s.st = .closed then (s, false) else        -- nothing is processed once closed
  match p with
  | .garbage => (s, false)   -- handled by the frame helper, never reaches process_packet
  | .badPayload =>
    (reportFatal s (.api .protocol), true)
  | _ =>
    let s := { s with pongArmed := false, pendingPing := false }
    match p with
    | .hresp r => (collect s r, false)
    | .discResp => ({ s with discReq := resolveReq s.discReq }, false)
    | .discReq =>
      if s.internalReg then
        let s := { s with expected := true, graceful := true }
        match send s with
        | (s, some _) => (s, true)
        | (s, none) => (cleanup s, false)
      else (s, false)
    | .pingReq =>
      if s.internalReg then
        match send s with
        | (s, some _) => (s, true)
        | (s, none) => (s, false)
      else (s, false)
    | .other => ({ s with deliveries := s.deliveries + 1 }, false)
    | _ => (s, false)

/-- the frame helper's receive loop over the frames of one `data_received` call -/
def feed : State → List Pkt → State
  | s, [] => s
  | s, .garbage :: _ =>
    -- `_handle_error_and_close`: fail a pending ready future, report, close; the loop returns
    let s := { s with ready := if s.ready = .pending then .failed .protocol else s.ready }
    let s := reportFatal s (.api .protocol)
    { s with lostPending := s.lostPending || s.transportOpen, transportOpen := false }
  | s, p :: ps =>
    match processPacket s p with
    | (s, true) =>
      -- exception out of data_received: asyncio force-closes the transport and calls connection_lost(exc)
      { s with lostPending := true, lostExc := true, transportOpen := false }
    | (s, false) => feed s ps

/-- `connection_lost(exc)` -/
def onLost (s : State) : State :=
  let f : Fatal := if s.lostExc then .raw else .api .socketClosed
  -- a raw OSError on the ready future becomes HandshakeAPIError in `_connect_init_frame_helper`
  let e : Err := if s.lostExc then .handshake else .socketClosed
  let s := { s with lostPending := false, transportOpen := false, sockClosed := s.sockClosed || s.sockMade,
                    ready := if s.ready = .pending then .failed e else s.ready }
  reportFatal s f

/-! ## the connect phases -/

/-- leaving `async with interrupt(...)` and the `except`/`finally` of a phase with exception `ex` -/
def failStart (s : State) (ex : Exc) : State :=
  let s := { s with startT := { s.startT with exited := true }, resolveTimer := false, tcpTimer := false }
  let s := cleanup s
  let e := wrap s ex
  let s := if s.startFut = .pending then { s with startFut := .done } else s
  { s with start := .done (.err e) }

def failFinish (s : State) (ex : Exc) : State :=
  let s := { s with finishT := { s.finishT with exited := true }, hsTimer := false }
  let s := cleanup s
  let e := wrap s ex
  let s := if s.finishFut = .pending then { s with finishFut := .done, discCbPending := s.disc = .awaitFinish } else s
  { s with finish := .done (.err e) }

/-- the exception a pending cancellation turns into when the task resumes -/
def cancelExc (t : Tk) : Option Exc :=
  if t.userCancel then some .cancelled
  else if t.interrupted then some .interrupted
  else none

def stepStart (s : State) : State :=
  match s.start with
  | .awaitResolve =>
    match cancelExc s.startT with
    | some ex => failStart s ex
    | none =>
      if s.startT.timedOut then failStart s (.api .resolve)
      else match s.resolveRes with
        | .none => s
        | .fail => failStart s (.api .resolve)
        | .ok => { s with resolveTimer := false, tcpTimer := true, start := .awaitSocket }
  | .awaitSocket =>
    match cancelExc s.startT with
    | some ex => failStart s ex     -- a cancelled await never hands a socket over
    | none =>
      if s.startT.timedOut then failStart s (.api .timeout)
      else match s.sockRes with
        | .none => s
        | .fail => failStart s (.api .socket)
        | .ok =>
          let s := { s with tcpTimer := false, sockAttached := true, sockMade := true,
                            startT := { s.startT with exited := true } }
          let s := if s.startFut = .pending then { s with startFut := .done, startT := { s.startT with cbPending := true } } else s
          -- closed in the same turn the phase completed: do not reopen
          if s.st = .closed then
            let s := cleanup s
            { s with start := .done (.err (wrap s .interrupted)) }
          else { s with st := .sockOpen, start := .done .ok }
  | _ => s

/-- `_connect_hello_login` up to its await -/
def sendHello (s : State) : State :=
  match send s with
  | (s, some ex) => failFinish s ex
  | (s, none) =>
    { s with hello := { fut := .pending, registered := true, inWaiters := true, timer := true }, finish := .awaitHello }

def afterReady (s : State) : State :=
  -- closed while the helper was being set up (same turn): do not reopen
  if s.st = .closed then failFinish s .interrupted else
  let s := { s with hsTimer := false, st := .hsDone, internalReg := true }
  sendHello s

def stepFinish (s : State) : State :=
  match s.finish with
  | .awaitTransport =>
    match cancelExc s.finishT with
    | some ex =>
      -- asyncio's create_connection closes the transport it made when its await is cancelled
      let s := if s.helperMade ∧ s.transportOpen then { s with transportOpen := false, lostPending := true } else s
      failFinish s ex
    | none =>
      if !s.transportWaiter then s else
      if s.transportFailed then failFinish s .os else
      let s := { s with fhSet := true, hsTimer := true }
      match s.ready with
      | .ok => afterReady s
      | .failed e => failFinish s (.api e)
      | _ => { s with finish := .awaitReady }
  | .awaitReady =>
    match cancelExc s.finishT with
    | some ex => failFinish s ex
    | none =>
      match s.ready with
      | .ok => afterReady s
      | .tmo => failFinish s (.api .timeout)
      | .failed e => failFinish s (.api e)
      | _ => s
  | .awaitHello =>
    match cancelExc s.finishT with
    | some ex => failFinish { s with hello := finishReq s.hello } ex
    | none =>
      match s.hello.fut with
      | .ok =>
        let s := { s with hello := finishReq s.hello }
        match judge s.login s.collected with
        | some ex => failFinish s ex
        | none =>
          -- `_async_schedule_keep_alive`
          let s := { s with pingArmed := true, pendingPing := true, finishT := { s.finishT with exited := true } }
          let s := if s.finishFut = .pending then
              { s with finishFut := .done, finishT := { s.finishT with cbPending := true }, discCbPending := s.disc = .awaitFinish }
            else s
          if s.st = .closed then
            let s := cleanup s
            { s with finish := .done (.err (wrap s .interrupted)) }
          else { s with st := .connected, everConnected := true, finish := .done .ok }
      | .tmo => failFinish { s with hello := finishReq s.hello } (.api .timeout)
      | .failed e => failFinish { s with hello := finishReq s.hello } (.api e)
      | _ => s
  | _ => s

/-- `_Interrupt._on_interrupt` -/
def onInterrupt (t : Tk) : Tk :=
  if t.exited then { t with cbPending := false }
  else { t with cbPending := false, interrupted := true }

/-! ## disconnect -/

def discSend (s : State) : State :=
  -- `self._expected_disconnect = True` (set on entry already), then the request if the handshake is complete
  if hsComplete s then
    match send s with
    | (s, some (.api _)) => { cleanup s with disc := .done }   -- `except APIConnectionError`: logged; then `_cleanup`
    | (s, some _) => { s with disc := .done, discRaw := true }   -- anything else escapes `disconnect()`
    | (s, none) =>
      { s with discReq := { fut := .pending, registered := true, inWaiters := true, timer := true }, disc := .awaitResp }
  else { cleanup s with disc := .done }

def stepDisc (s : State) : State :=
  match s.disc with
  | .awaitFinish =>
    if s.discCancel then { s with disc := .done, discCancelled := true, discWaitTimer := false, discCbPending := false }
    else if s.discWaiterDone then
      -- the wait ended: either the phase finished or 5 s passed
      let s := if s.finishFut = .pending then { s with fatal := if s.fatal.isNone then some (.api .timeout) else s.fatal } else s
      discSend { s with discWaitTimer := false }
    else s
  | .awaitResp =>
    if s.discCancel then { s with discReq := finishReq s.discReq, disc := .done, discCancelled := true }
    else match s.discReq.fut with
      | .pending => s
      | _ => { cleanup { s with discReq := finishReq s.discReq } with disc := .done }
  | _ => s

/-! ## the transition function -/

def step (s : State) : Ev → State
  | .callStart =>
    if s.start ≠ .idle then s
    else if s.st ≠ .init then { s with start := .done .rawRuntime }
    else { s with start := .awaitResolve, startFut := .pending, resolveTimer := true }
  | .resolved ok => if s.start = .awaitResolve ∧ s.resolveRes = .none then { s with resolveRes := if ok then .ok else .fail } else s
  | .sockDone ok =>
    if s.start = .awaitSocket ∧ s.sockRes = .none then
      { s with sockRes := if ok then .ok else .fail }
    else s
  | .wakeStart => stepStart s
  | .cancelStart =>
    match s.start with
    | .awaitResolve | .awaitSocket => { s with startT := { s.startT with userCancel := true } }
    | _ => s
  | .callFinish =>
    if s.finish ≠ .idle then s
    else if s.st ≠ .sockOpen then { s with finish := .done .rawRuntime }
    else { s with finish := .awaitTransport, finishFut := .pending }
  | .connMade =>
    if s.finish = .awaitTransport ∧ !s.helperMade ∧ !s.transportWaiter then
      if s.sockClosed then { s with transportWaiter := true, transportFailed := true }
      else { s with helperMade := true, transportOpen := true, transportWaiter := true,
                    ready := if s.noise then .pending else .ok }
    else s
  | .hsOk => if s.ready = .pending ∧ s.transportOpen then { s with ready := .ok } else s
  | .wakeFinish => stepFinish s
  | .cancelFinish =>
    match s.finish with
    | .awaitTransport | .awaitReady | .awaitHello =>
      { s with finishT := { s.finishT with userCancel := true },
               hello := if s.hello.fut = .pending then { s.hello with fut := .cancelled } else s.hello }
    | _ => s
  | .cbStart =>
    if s.startT.cbPending then { s with startT := onInterrupt s.startT } else s
  | .cbFinish =>
    if s.finishT.cbPending then
      let t := onInterrupt s.finishT
      -- `task.cancel()` also cancels the future the task is awaiting
      { s with finishT := t,
               hello := if t.interrupted ∧ s.hello.fut = .pending then { s.hello with fut := .cancelled } else s.hello }
    else s
  | .callDisc =>
    if s.disc ≠ .idle then s else
    let s := { s with expected := true, graceful := true }     -- the marker is set on entry
    if s.finishFut = .pending then { s with disc := .awaitFinish, discWaitTimer := true }
    else discSend s
  | .wakeDisc => stepDisc s
  | .cbDiscWait =>
    -- asyncio.wait's `_on_completion`: cancel the timeout handle, release the waiter
    if s.discCbPending then { s with discCbPending := false, discWaitTimer := false, discWaiterDone := true } else s
  | .cancelDisc => match s.disc with
    | .awaitFinish => { s with discCancel := true }
    | .awaitResp => { s with discCancel := true, discReq := if s.discReq.fut = .pending then { s.discReq with fut := .cancelled } else s.discReq }
    | _ => s
  | .force =>
    let s := { s with expected := true, graceful := true }
    if hsComplete s then
      match send s with
      | (s, some (.api _)) => cleanup s
      | (s, some _) => { s with discRaw := true }
      | (s, none) => cleanup s
    else cleanup s
  | .data pkts => if s.transportOpen then feed s pkts else s
  | .eof =>
    if s.transportOpen then
      let s := { s with ready := if s.ready = .pending then .failed .socketClosed else s.ready }
      let s := reportFatal s (.api .socketClosed)
      { s with lostPending := s.lostPending || s.transportOpen, transportOpen := false }
    else s
  | .reset =>
    if s.helperMade ∧ s.transportOpen then { s with transportOpen := false, lostPending := true, lostExc := true }
    else s
  | .lost => if s.lostPending then onLost s else s
  | .fireResolve => if s.resolveTimer ∧ s.start = .awaitResolve then { s with resolveTimer := false, startT := { s.startT with timedOut := true } } else s
  | .fireTcp => if s.tcpTimer ∧ s.start = .awaitSocket then { s with tcpTimer := false, startT := { s.startT with timedOut := true } } else s
  | .fireHs => if s.hsTimer then { s with hsTimer := false, ready := if s.ready = .pending then .tmo else s.ready } else s
  | .fireHello =>
    if s.hello.timer then { s with hello := { s.hello with timer := false, fut := if s.hello.fut = .pending then .tmo else s.hello.fut } } else s
  | .firePing =>
    if s.pingArmed then
      if s.pendingPing then
        match send s with
        | (s, some _) => s          -- the exception ends the timer callback: no re-arm (the connection is closed)
        | (s, none) => { s with pongArmed := true, pendingPing := true }
      else { s with pendingPing := true }
    else s
  | .firePong => if s.pongArmed then reportFatal { s with pongArmed := false } (.api .pingFailed) else s
  | .fireDiscWait => if s.discWaitTimer then { s with discWaitTimer := false, discWaiterDone := true } else s
  | .fireDiscResp =>
    if s.discReq.timer then
      { s with discReq := { s.discReq with timer := false, fut := if s.discReq.fut = .pending then .tmo else s.discReq.fut } }
    else s
  | .setWrite ok => { s with writeOk := ok }

def run (s : State) (evs : List Ev) : State := evs.foldl step s

def rank : CSt → Nat
  | .init => 0 | .sockOpen => 1 | .hsDone => 2 | .connected => 3 | .closed => 4

end Esp.Conn
