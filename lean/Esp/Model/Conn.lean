/-!
# The connection LTS (C05, C07, C08, C09 — and the base of C06, C19)

`APIConnection` (`connection.py`) as a labelled transition system over the *atomic steps* of the
event loop: a caller starts an operation (eager task: runs to its first suspension), a task resumes,
a future done-callback runs, a timer fires, the transport delivers bytes / EOF / connection_lost.
asyncio is cooperative, so nothing else can interleave; every real schedule is a path of this LTS
(the LTS allows any enabled step next, asyncio picks FIFO).

Transcribed: `_cleanup`, `report_fatal_error`, `_wrap_fatal_connection_exception`, `send_messages`,
`start_connection` / `finish_connection` (with `async_interrupt.interrupt`: `_on_interrupt` is a
separately scheduled callback, `__aexit__` turns the cancellation into ConnectionInterruptedError),
`_connect_init_frame_helper`, `_connect_hello_login` (request = `Req`), keepalive callbacks,
`process_packet` incl. the three internal handlers, `disconnect`, `force_disconnect`, and the frame
helper's `data_received` loop / `connection_lost` / `eof_received` / `close`.

Time is abstracted: a timer event is enabled whenever the timer is armed (`Props/C10`, `C11` carry the
exact-time statements).  An event that is not enabled is a no-op.
-/
namespace Esp.Conn

inductive CSt | init | sockOpen | hsDone | connected | closed
deriving DecidableEq, Repr

inductive Err
  | resolve | socket | socketClosed | handshake | protocol | requiresEncryption | pingFailed | timeout
  | invalidAuth | badName | base | cancelledErr | unhandled | readFailed | notEstablished
deriving DecidableEq, Repr

/-- `_fatal_exception`: a library error or something else (ConnectionResetError, DecodeError, …) -/
inductive Fatal | api (e : Err) | raw
deriving DecidableEq, Repr

/-- an exception travelling up a connect phase -/
inductive Exc | api (e : Err) | interrupted | cancelled | os | other
deriving DecidableEq, Repr

inductive Outcome | ok | err (e : Err)
deriving DecidableEq, Repr

inductive RFut | none | pending | ok | tmo | failed (e : Err) | cancelled
deriving DecidableEq, Repr

/-- one `send_messages_await_response_complex` call (C11) -/
structure Req where
  fut : RFut := .none
  registered : Bool := false
  inWaiters : Bool := false
  timer : Bool := false
deriving DecidableEq, Repr

inductive IFut | none | pending | done
deriving DecidableEq, Repr

inductive Ready | none | pending | ok | tmo | failed (e : Err)
deriving DecidableEq, Repr

inductive StartPc | idle | awaitResolve | awaitSocket | done (o : Outcome)
deriving DecidableEq, Repr
inductive FinishPc | idle | awaitTransport | awaitReady | awaitHello | done (o : Outcome)
deriving DecidableEq, Repr
inductive DiscPc | idle | awaitFinish | awaitResp | done
deriving DecidableEq, Repr

inductive Res | none | ok | fail
deriving DecidableEq, Repr

/-- the two responses the hello/login collector listens for, reduced to what the checks read:
`HelloResponse` (is `api_version_major ≤ 2`; does the name check pass) and `ConnectResponse` -/
inductive HResp | hello (majorOk nameOk : Bool) | connect (invalid : Bool)
deriving DecidableEq, Repr

/-- what a connect-phase task carries besides its pc -/
structure Tk where
  userCancel : Bool := false      -- `task.cancel()` by the caller, not yet delivered
  interrupted : Bool := false     -- `_Interrupt._interrupted`
  exited : Bool := false          -- `_Interrupt._exited`
  cbPending : Bool := false       -- the interrupt future is done, `_on_interrupt` is scheduled
  timedOut : Bool := false        -- an `asyncio.timeout` / handshake timer of the current await fired
deriving DecidableEq, Repr

structure State where
  noise : Bool := false
  login : Bool := false
  st : CSt := .init
  fatal : Option Fatal := none
  expected : Bool := false
  onStopHeld : Bool := true
  stops : List Bool := []
  -- resources
  sockAttached : Bool := false      -- `_socket is not None`
  sockClosed : Bool := false        -- the socket object has been closed (by us or by the transport)
  sockMade : Bool := false          -- happy-eyeballs produced a socket
  helperMade : Bool := false        -- the protocol object exists (create_connection's factory ran)
  fhSet : Bool := false             -- `_frame_helper is not None`
  transportOpen : Bool := false     -- transport exists and is not closing
  lostPending : Bool := false       -- `connection_lost` is scheduled
  lostExc : Bool := false           -- … with a (non-library) exception
  ready : Ready := .none
  hsTimer : Bool := false
  pingArmed : Bool := false
  pongArmed : Bool := false
  pendingPing : Bool := false
  internalReg : Bool := false
  resolveTimer : Bool := false
  tcpTimer : Bool := false
  discWaitTimer : Bool := false
  discWaiterDone : Bool := false    -- asyncio.wait's internal waiter has been released
  discCbPending : Bool := false     -- asyncio.wait's `_on_completion` callback on the finish future is scheduled
  writeOk : Bool := true
  -- interrupt futures
  startFut : IFut := .none
  finishFut : IFut := .none
  -- tasks
  start : StartPc := .idle
  startT : Tk := {}
  finish : FinishPc := .idle
  finishT : Tk := {}
  disc : DiscPc := .idle
  discCancel : Bool := false
  resolveRes : Res := .none
  sockRes : Res := .none
  sockFaulty : Bool := false       -- the socket handed over raises OSError from setsockopt / getpeername (peer reset after accept)
  transportWaiter : Bool := false   -- create_connection's waiter is done
  transportFailed : Bool := false   -- … with an OSError (the socket was closed under it)
  hello : Req := {}
  collected : List HResp := []      -- the collector's `responses`
  discReq : Req := {}
  discRaw : Bool := false           -- a non-library exception escaped `disconnect()` / `force_disconnect()`
  discCancelled : Bool := false     -- `disconnect()` ended with the CancelledError its caller requested
  -- history
  everConnected : Bool := false
  graceful : Bool := false          -- a local disconnect / force call has been made, or a peer DisconnectRequest dispatched
  gracefulAtClose : Option Bool := none   -- `graceful` at the step that closed the connection
  writes : Nat := 0
  deliveries : Nat := 0
  refused : Nat := 0                -- phase calls refused with RuntimeError by the state guards
deriving Repr

inductive Pkt
  | hresp (r : HResp)
  | discReq | discResp | pingReq | other
  | badPayload                 -- known type, undecodable payload
  | garbage                    -- bad preamble / indicator
  | wrongName                  -- a Noise ServerHello frame (indicator 0x01, "\x01name\0mac\0") naming ANOTHER device
deriving DecidableEq, Repr

inductive Ev
  | callStart | resolved (ok : Bool) | sockDone (ok : Bool) | sockFault | wakeStart | cancelStart
  | callFinish | connMade | hsOk | wakeFinish | cancelFinish
  | cbStart | cbFinish
  | callDisc | wakeDisc | cancelDisc | force | cbDiscWait
  | data (pkts : List Pkt) | eof | lost | reset
  | fireResolve | fireTcp | fireHs | fireHello | firePing | firePong | fireDiscWait | fireDiscResp
  | setWrite (ok : Bool)
deriving Repr

def hsComplete (s : State) : Bool := s.st = .hsDone ∨ s.st = .connected

/-! ## primitive actions

Every state change of the model is a composition of the small updates below (`Lemmas/ConnReach.lean`
shows each transition is a chain of them; invariants are proved once per primitive). -/

/-- the error a waiter sees when `_cleanup` fails it -/
def waiterErr : Option Fatal → Err
  | none => .base
  | some (.api e) => e
  | some .raw => .readFailed

def failWaiter (f : Option Fatal) (r : Req) : Req :=
  if r.inWaiters then
    { r with fut := if r.fut = .pending then .failed (waiterErr f) else r.fut, inWaiters := false }
  else r

/-- `_cleanup` (no early return: every part is idempotent; `was_connected` is false once closed).
ONE record update: every field of the result is an explicit expression of the old state. -/
def cleanup (s : State) : State :=
  { s with
    st := .closed
    gracefulAtClose := if s.st = .closed then s.gracefulAtClose else some s.graceful
    hello := failWaiter s.fatal s.hello
    discReq := failWaiter s.fatal s.discReq
    -- `_set_start_connect_future` / `_set_finish_connect_future`: the done-callbacks get scheduled
    startFut := if s.startFut = .pending then .done else s.startFut
    startT := { s.startT with cbPending := s.startT.cbPending || (s.startFut = .pending) }
    finishFut := if s.finishFut = .pending then .done else s.finishFut
    finishT := { s.finishT with cbPending := s.finishT.cbPending || (s.finishFut = .pending) }
    discCbPending := s.discCbPending || (s.finishFut = .pending ∧ s.disc = .awaitFinish)
    -- frame helper close(): transport.close() schedules connection_lost(None); noise also fails a pending ready future
    fhSet := false
    lostPending := s.lostPending || (s.fhSet ∧ s.transportOpen)
    transportOpen := s.transportOpen ∧ !s.fhSet
    ready := if s.fhSet ∧ s.noise ∧ s.ready = .pending then .failed .base else s.ready
    sockAttached := false
    sockClosed := s.sockClosed || s.sockAttached
    pongArmed := false
    pingArmed := false
    onStopHeld := s.onStopHeld ∧ !(s.st = .connected)
    stops := if s.onStopHeld ∧ s.st = .connected then s.stops ++ [s.expected] else s.stops }

def aSetFatal (f : Fatal) (s : State) : State := { s with fatal := if s.fatal.isNone then some f else s.fatal }
def aWrite (s : State) : State := { s with writes := s.writes + 1 }
def aMark (s : State) : State := { s with expected := true, graceful := true }
def aAlive (s : State) : State := { s with pongArmed := false, pendingPing := false }
def aDeliver (s : State) : State := { s with deliveries := s.deliveries + 1 }
def aReadyFail (e : Err) (s : State) : State := { s with ready := if s.ready = .pending then .failed e else s.ready }
def aTrClose (s : State) : State := { s with lostPending := s.lostPending || s.transportOpen, transportOpen := false }
def aTrAbort (s : State) : State := { s with lostPending := true, lostExc := true, transportOpen := false }
def aLostRun (s : State) : State :=
  { s with lostPending := false, transportOpen := false, sockClosed := s.sockClosed || s.sockMade }

/-- `handle_complex_message` for a collector whose stop predicate the packet satisfies -/
def resolveReq (r : Req) : Req :=
  if r.registered ∧ r.fut = .pending then { r with fut := .ok } else r
/-- the `finally` block of a request -/
def finishReq (r : Req) : Req := { r with registered := false, inWaiters := false, timer := false }
def startReq : Req := { fut := .pending, registered := true, inWaiters := true, timer := true }

def aDiscRespArr (s : State) : State := { s with discReq := resolveReq s.discReq }

/-- the collector's handler: append, and stop on a response of the last expected type -/
def collect (s : State) (r : HResp) : State :=
  if s.hello.registered ∧ s.hello.fut = .pending then
    match r with
    | .hello _ _ => { s with collected := s.collected ++ [r], hello := if s.login then s.hello else { s.hello with fut := .ok } }
    | .connect _ => if s.login then { s with collected := s.collected ++ [r], hello := { s.hello with fut := .ok } } else s
  else s

-- start task
def aStartExit (s : State) : State :=
  { s with startT := { s.startT with exited := true }, resolveTimer := false, tcpTimer := false }
def aStartFutQuiet (s : State) : State := { s with startFut := if s.startFut = .pending then .done else s.startFut }
def aStartDone (o : Outcome) (s : State) : State := { s with start := .done o }
def aStartToSocket (s : State) : State := { s with resolveTimer := false, tcpTimer := true, start := .awaitSocket }
def aStartAttach (s : State) : State :=
  { s with tcpTimer := false, sockAttached := true, sockMade := true, startT := { s.startT with exited := true } }
/-- `self._socket = sock` when configuring the socket then fails: attached, but the phase does not complete -/
def aSockAttachOnly (s : State) : State := { s with sockAttached := true, sockMade := true }
def aStartFutCb (s : State) : State :=
  if s.startFut = .pending then { s with startFut := .done, startT := { s.startT with cbPending := true } } else s
def aSockOpened (s : State) : State := { s with st := .sockOpen, start := .done .ok }
-- finish task
def aFinExit (s : State) : State := { s with finishT := { s.finishT with exited := true }, hsTimer := false }
def aFinFutQuiet (s : State) : State :=
  if s.finishFut = .pending then { s with finishFut := .done, discCbPending := s.disc = .awaitFinish } else s
def aFinDone (o : Outcome) (s : State) : State := { s with finish := .done o }
def aTrCancelled (s : State) : State :=
  if s.helperMade ∧ s.transportOpen then { s with transportOpen := false, lostPending := true } else s
def aFhAttach (s : State) : State := { s with fhSet := true, hsTimer := true }
def aFinToReady (s : State) : State := { s with finish := .awaitReady }
def aHsEnter (s : State) : State := { s with hsTimer := false, st := .hsDone, internalReg := true }
def aHelloStart (s : State) : State := { s with hello := startReq, finish := .awaitHello }
def aHelloFinally (s : State) : State := { s with hello := finishReq s.hello }
def aKeepalive (s : State) : State :=
  { s with pingArmed := true, pendingPing := true, finishT := { s.finishT with exited := true } }
def aFinFutCb (s : State) : State :=
  if s.finishFut = .pending then
    { s with finishFut := .done, finishT := { s.finishT with cbPending := true }, discCbPending := s.disc = .awaitFinish }
  else s
def aConnected (s : State) : State := { s with st := .connected, everConnected := true, finish := .done .ok }
-- disconnect
def aDiscDone (s : State) : State := { s with disc := .done }
def aDiscRaw (s : State) : State := { s with disc := .done, discRaw := true }
def aForceRaw (s : State) : State := { s with discRaw := true }
def aDiscReqStart (s : State) : State := { s with discReq := startReq, disc := .awaitResp }
def aDiscWaitOver (s : State) : State := { s with discWaitTimer := false }
def aDiscCancelledW (s : State) : State :=
  { s with disc := .done, discCancelled := true, discWaitTimer := false, discCbPending := false }
def aDiscCancelledR (s : State) : State := { s with discReq := finishReq s.discReq, disc := .done, discCancelled := true }
def aDiscReqFinally (s : State) : State := { s with discReq := finishReq s.discReq }

/-! ## shared handlers -/

/-- `report_fatal_error` -/
def reportFatal (s : State) (f : Fatal) : State := cleanup (aSetFatal f s)

/-- `send_messages`: `none` = written; `some e` = the exception raised -/
def send (s : State) : State × Option Exc :=
  if !hsComplete s then (s, some (.api .notEstablished))
  else if !s.fhSet then (s, some .other)     -- AttributeError on a `None` frame helper
  else if s.writeOk then (aWrite s, none)
  else (reportFatal s (.api .socketClosed), some (.api .socketClosed))

/-- `_wrap_fatal_connection_exception` -/
def wrap (s : State) : Exc → Err
  | .api e => e
  | ex =>
    match s.fatal with
    | some (.api f) => f
    | _ => match ex with
      | .cancelled => .cancelledErr
      | .os => .socket
      | _ => .unhandled

/-- `api_version.major > 2` is refused -/
def versionOk (major : Nat) : Bool := major ≤ 2
/-- the API-hello name check: an empty name means "not announced" and is accepted -/
def nameOk (expected : Option (List Nat)) (received : List Nat) : Bool :=
  received.isEmpty || expected.isNone || expected == some received

/-- `_connect_hello_login` after the await: `responses.pop(0)` is treated as the HelloResponse
(`_process_hello_resp`: version, then name), and with login the next one as the ConnectResponse
(`_process_login_response`).  A response of the wrong type in a slot is an AttributeError. -/
def judge (login : Bool) : List HResp → Option Exc
  | .hello majorOk nameOk :: rest =>
    if !majorOk then some (.api .base)
    else if !nameOk then some (.api .badName)
    else if login then
      match rest with
      | .connect invalid :: _ => if invalid then some (.api .invalidAuth) else none
      | _ => some .other
    else none
  | _ => some .other

/-! ## incoming data -/

/-- `process_packet` for one decoded frame; `true` = an exception escaped (the receive loop stops,
the transport force-closes and reports `connection_lost(exc)`) -/
def processPacket (s : State) (p : Pkt) : State × Bool :=
  if s.st = .closed then (s, false) else        -- nothing is processed once closed
  match p with
  | .garbage => (s, false)   -- handled by the frame helper, never reaches process_packet
  | .wrongName => (s, false)
  | .badPayload => (reportFatal s (.api .protocol), true)
  | .hresp r => (collect (aAlive s) r, false)
  | .discResp => (aDiscRespArr (aAlive s), false)
  | .discReq =>
    if s.internalReg then
      match send (aMark (aAlive s)) with
      | (s, some _) => (s, true)
      | (s, none) => (cleanup s, false)
    else (aAlive s, false)
  | .pingReq =>
    if s.internalReg then
      match send (aAlive s) with
      | (s, some _) => (s, true)
      | (s, none) => (s, false)
    else (aAlive s, false)
  | .other => (aDeliver (aAlive s), false)

/-- the frame helper's receive loop over the frames of one `data_received` call -/
def feed : State → List Pkt → State
  | s, [] => s
  | s, .garbage :: _ =>
    -- `_handle_error_and_close`: fail a pending ready future, report, close; the loop returns
    aTrClose (reportFatal (aReadyFail .protocol s) (.api .protocol))
  | s, .wrongName :: _ =>
    -- the Noise helper, waiting for the ServerHello, compares the announced name with the expected one: bad name, carrying
    -- the received name; the plaintext helper sees indicator 0x01: "requires encryption"; an established Noise session
    -- takes the frame for an encrypted one that does not authenticate (protocol error).  Always `_handle_error_and_close`.
    let e : Err := if s.noise then (if s.ready = .pending then .badName else .protocol) else .requiresEncryption
    aTrClose (reportFatal (aReadyFail e s) (.api e))
  | s, p :: ps =>
    match processPacket s p with
    | (s, true) => aTrAbort s   -- exception out of data_received: force close, connection_lost(exc)
    | (s, false) => feed s ps

/-- `connection_lost(exc)` -/
def onLost (s : State) : State :=
  -- a raw OSError on the ready future becomes HandshakeAPIError in `_connect_init_frame_helper`;
  -- the noise helper turns a reset that arrives before the server hello into HandshakeAPIError itself
  -- (approximated as "noise and the handshake not finished")
  reportFatal (aReadyFail (if s.lostExc then .handshake else .socketClosed) (aLostRun s))
    (if s.lostExc then (if s.noise ∧ s.ready = .pending then .api .handshake else .raw) else .api .socketClosed)

/-! ## the connect phases -/

/-- the socket was handed over (`self._socket = sock`) but configuring it raised: the phase leaves its guarded block and
`_cleanup` closes the socket again -/
def aSockFaultClose (s : State) : State := cleanup (aStartExit (aSockAttachOnly s))

/-- leaving `async with interrupt(...)` and the `except`/`finally` of a phase with exception `ex` -/
def failStart (s : State) (ex : Exc) : State :=
  let s := cleanup (aStartExit s)
  aStartDone (.err (wrap s ex)) (aStartFutQuiet s)

def failFinish (s : State) (ex : Exc) : State :=
  let s := cleanup (aFinExit s)
  aFinDone (.err (wrap s ex)) (aFinFutQuiet s)

/-- the exception a pending cancellation turns into when the task resumes -/
def cancelExc (t : Tk) : Option Exc :=
  if t.userCancel then some .cancelled
  else if t.interrupted then some .interrupted
  else none

/-- the end of `start_connection` once the socket is connected: attach it, leave the interrupt block,
`finally`, and — closed in the same turn the phase completed — do not reopen -/
def startOkPath (s : State) : State :=
  let s := aStartFutCb (aStartAttach s)
  if s.st = .closed then
    let s := cleanup s
    aStartDone (.err (wrap s .interrupted)) s
  else aSockOpened s

/-- the end of `finish_connection` once hello/login are accepted: `_async_schedule_keep_alive`, leave
the interrupt block, `finally`, closed-check, CONNECTED -/
def helloOkPath (s : State) : State :=
  let s := aFinFutCb (aKeepalive s)
  if s.st = .closed then
    let s := cleanup s
    aFinDone (.err (wrap s .interrupted)) s
  else aConnected s

def stepStart (s : State) : State :=
  match s.start with
  | .awaitResolve =>
    match cancelExc s.startT with
    | some ex => failStart s ex
    | none =>
      if s.startT.timedOut then failStart s (.api .resolve)
      else match s.resolveRes with
        | .none => s
        | .fail => failStart s (.api .resolve)
        | .ok => aStartToSocket s
  | .awaitSocket =>
    match cancelExc s.startT with
    | some ex => failStart s ex     -- a cancelled await never hands a socket over
    | none =>
      if s.startT.timedOut then failStart s (.api .timeout)
      else match s.sockRes with
        | .none => s
        | .fail => failStart s (.api .socket)
        | .ok =>
          if s.sockFaulty then
            let s := aSockFaultClose s
            aStartDone (.err (wrap s .os)) (aStartFutQuiet s)
          else startOkPath s
  | _ => s

/-- `_connect_hello_login` up to its await -/
def sendHello (s : State) : State :=
  match send s with
  | (s, some ex) => failFinish s ex
  | (s, none) => aHelloStart s

def afterReady (s : State) : State :=
  -- closed while the helper was being set up (same turn): do not reopen
  if s.st = .closed then failFinish s .interrupted else sendHello (aHsEnter s)

def stepFinish (s : State) : State :=
  match s.finish with
  | .awaitTransport =>
    match cancelExc s.finishT with
    | some ex => failFinish (aTrCancelled s) ex   -- asyncio closes the transport it made when its await is cancelled
    | none =>
      if !s.transportWaiter then s else
      if s.transportFailed then failFinish s .os else
      match s.ready with
      | .ok => afterReady (aFhAttach s)
      | .failed e => failFinish (aFhAttach s) (.api e)
      | _ => aFinToReady (aFhAttach s)
  | .awaitReady =>
    match cancelExc s.finishT with
    | some ex => failFinish s ex
    | none =>
      match s.ready with
      | .ok => afterReady s
      | .tmo => failFinish s (.api .timeout)
      | .failed e => failFinish s (.api e)
      | _ => s
  | .awaitHello =>
    match cancelExc s.finishT with
    | some ex => failFinish (aHelloFinally s) ex
    | none =>
      match s.hello.fut with
      | .ok =>
        match judge s.login s.collected with
        | some ex => failFinish (aHelloFinally s) ex
        | none => helloOkPath (aHelloFinally s)
      | .tmo => failFinish (aHelloFinally s) (.api .timeout)
      | .failed e => failFinish (aHelloFinally s) (.api e)
      | _ => s
  | _ => s

/-- `_Interrupt._on_interrupt` -/
def onInterrupt (t : Tk) : Tk :=
  if t.exited then { t with cbPending := false }
  else { t with cbPending := false, interrupted := true }

/-! ## disconnect -/

def discSend (s : State) : State :=
  -- (`_expected_disconnect = True` was set on entry) the request goes out if the handshake is complete
  if hsComplete s then
    match send s with
    | (s, some (.api _)) => aDiscDone (cleanup s)   -- `except APIConnectionError`: logged; then `_cleanup`
    | (s, some _) => aDiscRaw s                      -- anything else escapes `disconnect()`
    | (s, none) => aDiscReqStart s
  else aDiscDone (cleanup s)

def stepDisc (s : State) : State :=
  match s.disc with
  | .awaitFinish =>
    if s.discCancel then aDiscCancelledW s
    else if s.discWaiterDone then
      -- the wait ended: either the phase finished or 5 s passed
      if s.finishFut = .pending then discSend (aDiscWaitOver (aSetFatal (.api .timeout) s))
      else discSend (aDiscWaitOver s)
    else s
  | .awaitResp =>
    if s.discCancel then aDiscCancelledR s
    else match s.discReq.fut with
      | .pending => s
      | _ => aDiscDone (cleanup (aDiscReqFinally s))
  | _ => s

/-! ## the transition function -/

def aRefused (s : State) : State := { s with refused := s.refused + 1 }
def aStartBegin (s : State) : State := { s with start := .awaitResolve, startFut := .pending, resolveTimer := true }
def aResolveSet (ok : Bool) (s : State) : State := { s with resolveRes := if ok then .ok else .fail }
def aSockFaulty (s : State) : State := { s with sockFaulty := true }
def aSockSet (ok : Bool) (s : State) : State := { s with sockRes := if ok then .ok else .fail }
def aUserCancelStart (s : State) : State := { s with startT := { s.startT with userCancel := true } }
def aFinishBegin (s : State) : State := { s with finish := .awaitTransport, finishFut := .pending }
def aConnMadeFail (s : State) : State := { s with transportWaiter := true, transportFailed := true }
def aConnMadeOk (s : State) : State :=
  { s with helperMade := true, transportOpen := true, transportWaiter := true, ready := if s.noise then .pending else .ok }
def aReadyOk (s : State) : State := { s with ready := .ok }
def aUserCancelFinish (s : State) : State :=
  { s with finishT := { s.finishT with userCancel := true },
           hello := if s.hello.fut = .pending then { s.hello with fut := .cancelled } else s.hello }
def aCbStart (s : State) : State := { s with startT := onInterrupt s.startT }
/-- `_on_interrupt` of the finish phase; `task.cancel()` also cancels the future the task is awaiting -/
def aCbFinish (s : State) : State :=
  { s with finishT := onInterrupt s.finishT,
           hello := if (onInterrupt s.finishT).interrupted ∧ s.hello.fut = .pending then { s.hello with fut := .cancelled } else s.hello }
def aDiscBegin (s : State) : State := { s with disc := .awaitFinish, discWaitTimer := true }
/-- asyncio.wait's `_on_completion`: cancel the timeout handle, release the waiter -/
def aCbDiscWait (s : State) : State := { s with discCbPending := false, discWaitTimer := false, discWaiterDone := true }
def aDiscCancelW (s : State) : State := { s with discCancel := true }
def aDiscCancelR (s : State) : State :=
  { s with discCancel := true, discReq := if s.discReq.fut = .pending then { s.discReq with fut := .cancelled } else s.discReq }
def aFireResolve (s : State) : State := { s with resolveTimer := false, startT := { s.startT with timedOut := true } }
def aFireTcp (s : State) : State := { s with tcpTimer := false, startT := { s.startT with timedOut := true } }
def aFireHs (s : State) : State := { s with hsTimer := false, ready := if s.ready = .pending then .tmo else s.ready }
def aFireHello (s : State) : State :=
  { s with hello := { s.hello with timer := false, fut := if s.hello.fut = .pending then .tmo else s.hello.fut } }
def aPingRearm (s : State) : State := { s with pongArmed := true, pendingPing := true }
def aPingPend (s : State) : State := { s with pendingPing := true }
def aPongOff (s : State) : State := { s with pongArmed := false }
def aFireDiscWait (s : State) : State := { s with discWaitTimer := false, discWaiterDone := true }
def aFireDiscResp (s : State) : State :=
  { s with discReq := { s.discReq with timer := false, fut := if s.discReq.fut = .pending then .tmo else s.discReq.fut } }
def aSetWrite (ok : Bool) (s : State) : State := { s with writeOk := ok }

def step (s : State) : Ev → State
  | .callStart =>
    -- "Connection can only be used once": the guard refuses a used lifecycle state AND a start phase that is still in
    -- progress (`_start_connect_future is not None`; the state only advances when the phase completes)
    if s.st ≠ .init then aRefused s
    else if s.start ≠ .idle then aRefused s
    else aStartBegin s
  | .resolved ok => if s.start = .awaitResolve ∧ s.resolveRes = .none then aResolveSet ok s else s
  | .sockDone ok => if s.start = .awaitSocket ∧ s.sockRes = .none then aSockSet ok s else s
  | .sockFault => aSockFaulty s
  | .wakeStart => stepStart s
  | .cancelStart => if s.start = .awaitResolve ∨ s.start = .awaitSocket then aUserCancelStart s else s
  | .callFinish =>
    if s.st ≠ .sockOpen then aRefused s
    else if s.finish ≠ .idle then aRefused s     -- a finish phase still in progress (`_finish_connect_future is not None`)
    else aFinishBegin s
  | .connMade =>
    if s.finish = .awaitTransport ∧ !s.helperMade ∧ !s.transportWaiter then
      if s.sockClosed then aConnMadeFail s else aConnMadeOk s
    else s
  | .hsOk => if s.ready = .pending ∧ s.transportOpen then aReadyOk s else s
  | .wakeFinish => stepFinish s
  | .cancelFinish =>
    if s.finish = .awaitTransport ∨ s.finish = .awaitReady ∨ s.finish = .awaitHello then aUserCancelFinish s else s
  | .cbStart => if s.startT.cbPending then aCbStart s else s
  | .cbFinish => if s.finishT.cbPending then aCbFinish s else s
  | .callDisc =>
    if s.disc ≠ .idle then s
    -- the marker is set on entry
    else if s.finishFut = .pending then aDiscBegin (aMark s)
    else discSend (aMark s)
  | .wakeDisc => stepDisc s
  | .cbDiscWait => if s.discCbPending then aCbDiscWait s else s
  | .cancelDisc =>
    if s.disc = .awaitFinish then aDiscCancelW s
    else if s.disc = .awaitResp then aDiscCancelR s
    else s
  | .force =>
    if hsComplete s then
      match send (aMark s) with
      | (s, some (.api _)) => cleanup s
      | (s, some _) => aForceRaw s
      | (s, none) => cleanup s
    else cleanup (aMark s)
  | .data pkts => if s.transportOpen then feed s pkts else s
  | .eof =>
    if s.transportOpen then aTrClose (reportFatal (aReadyFail .socketClosed s) (.api .socketClosed)) else s
  | .reset => if s.helperMade ∧ s.transportOpen then aTrAbort s else s
  | .lost => if s.lostPending then onLost s else s
  | .fireResolve => if s.resolveTimer ∧ s.start = .awaitResolve then aFireResolve s else s
  | .fireTcp => if s.tcpTimer ∧ s.start = .awaitSocket then aFireTcp s else s
  | .fireHs => if s.hsTimer then aFireHs s else s
  | .fireHello => if s.hello.timer then aFireHello s else s
  | .firePing =>
    if s.pingArmed then
      if s.pendingPing then
        match send s with
        | (s, some _) => s          -- the exception ends the timer callback: no re-arm (the connection is closed)
        | (s, none) => aPingRearm s
      else aPingPend s
    else s
  | .firePong => if s.pongArmed then reportFatal (aPongOff s) (.api .pingFailed) else s
  | .fireDiscWait => if s.discWaitTimer then aFireDiscWait s else s
  | .fireDiscResp => if s.discReq.timer then aFireDiscResp s else s
  | .setWrite ok => aSetWrite ok s

def run (s : State) (evs : List Ev) : State := evs.foldl step s

def rank : CSt → Nat
  | .init => 0 | .sockOpen => 1 | .hsDone => 2 | .connected => 3 | .closed => 4

end Esp.Conn
