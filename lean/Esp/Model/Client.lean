/-!
# The client object across sessions (C19)

`APIClient` keeps at most one `APIConnection` (`_connection`).  The connection itself is the LTS of
`Esp/Model/Conn.lean`; here it is abstracted to the phase the client can observe.  Mirrors
`start_connection` (the "already connected" guard — a *closed* connection that is still attached
does not count), `_execute_connection_coro` (detach on failure), `_on_stop` (detach when an
established session ends), `finish_connection`, `disconnect`, `_get_connection` (the gate of every
API call) and the unsubscribe / stop closures handed out by earlier sessions.
-/
namespace Esp.Client

inductive Ph
  | starting        -- start_connection in progress
  | opened          -- between the two phases (socket open)
  | finishing       -- finish_connection in progress, handshake not complete
  | hello           -- finish_connection in progress, handshake complete (the send gate is open)
  | connected
  | closedStart     -- closed while start_connection is still unwinding
  | closedFinish    -- closed while finish_connection is still unwinding
  | closedIdle      -- closed with no phase in progress (closed between the phases, never connected)
deriving DecidableEq, Repr

inductive Res | ok | alreadyConnected | connError | rawError | noop
deriving DecidableEq, Repr

structure State where
  conn : Option Ph := none
  writes : Nat := 0
  last : Res := .noop
deriving Repr

inductive Ev
  | callStart | startOk | startFail
  | callFinish | hsDone | finishOk | finishFail
  | close                -- any close cause on the current connection: EOF, reset, protocol error, peer disconnect,
                         -- disconnect() / disconnect(force=True), ping timeout
  | disconnect           -- `disconnect(force=True)`: synchronous; whatever connection is attached is closed when it returns
  | api                  -- any command / subscription / request (goes through `_get_connection`)
  | closure              -- an unsubscribe / stop closure returned in an earlier session
deriving Repr

def inProgress : Ph → Bool
  | .starting | .finishing | .hello | .closedStart | .closedFinish => true
  | _ => false

def alive : Ph → Bool
  | .opened | .connected | .starting | .finishing | .hello => true
  | _ => false

def step (s : State) : Ev → State
  | .callStart =>
    match s.conn with
    | none => { s with conn := some .starting, last := .ok }
    -- a closed connection does not block (an attempt still unwinding on it only detaches *its own* connection)
    | some .closedIdle | some .closedStart | some .closedFinish => { s with conn := some .starting, last := .ok }
    | some _ => { s with last := .alreadyConnected }
  | .startOk => if s.conn = some .starting then { s with conn := some .opened } else s
  | .startFail => if s.conn = some .starting ∨ s.conn = some .closedStart then { s with conn := none } else s
  | .callFinish =>
    match s.conn with
    | some .opened => { s with conn := some .finishing, last := .ok }
    -- RuntimeError from the state guard; a closed connection (idle, or still being unwound by its task) is detached
    | some .closedIdle | some .closedStart | some .closedFinish => { s with conn := none, last := .rawError }
    | none => { s with last := .rawError }
    -- an attempt in progress / a session up: refused by the state guard (RuntimeError), the connection stays attached
    | some _ => { s with last := .rawError }
  | .hsDone => if s.conn = some .finishing then { s with conn := some .hello } else s
  | .finishOk => if s.conn = some .hello then { s with conn := some .connected } else s
  | .finishFail =>
    if s.conn = some .finishing ∨ s.conn = some .hello ∨ s.conn = some .closedFinish then { s with conn := none } else s
  | .close =>
    match s.conn with
    | some .starting => { s with conn := some .closedStart }
    | some .opened => { s with conn := some .closedIdle }
    | some .finishing => { s with conn := some .closedFinish }
    | some .hello => { s with conn := some .closedFinish }
    | some .connected => { s with conn := none }                          -- on_stop → `_on_stop` detaches
    | _ => s
  | .disconnect =>
    match s.conn with
    | some .starting => { s with conn := some .closedStart }
    | some .opened => { s with conn := some .closedIdle }
    | some .finishing => { s with conn := some .closedFinish }
    | some .hello => { s with conn := some .closedFinish }
    | some .connected => { s with conn := none }
    | _ => s
  | .api =>
    if s.conn = some .connected then { s with writes := s.writes + 1, last := .ok } else { s with last := .connError }
  | .closure =>
    if s.conn = some .connected then { s with writes := s.writes + 1, last := .ok } else { s with last := .noop }

def run (s : State) (evs : List Ev) : State := evs.foldl step s

end Esp.Client
