/-!
# Dispatch (C12)

Mirror of `connection.py`: `process_packet` (positional class lookup `tuple[id-1]`, decode,
pong-cancel / pending-ping-clear, iteration over a *copy* of the handler set),
`_add_message_callback_without_remove` / `_remove_message_callback` (set semantics), the three
internal handlers, `send_messages` (gate + write-failure wrapping), `report_fatal_error`,
`_cleanup` (the parts dispatch can reach).

Handlers are ids.  Ids 0,1,2 are the internal ones; a user handler `h ≥ 3` runs a *script*
(`Cfg.scripts h`): any sequence of subscribe / unsubscribe operations on any handler (itself
included) and any type.  Protobuf decoding is an oracle (`ok`); Python's set iteration order is an
oracle (`order`, which must be a permutation of the snapshot).
-/
namespace Esp.Dispatch

inductive Err | protocol | socketClosed | notEstablished
deriving DecidableEq, Repr

inductive Act
  | sub (h t : Nat)
  | unsub (h t : Nat)
deriving DecidableEq, Repr

structure Cfg where
  n : Nat                       -- len(MESSAGE_NUMBER_TO_PROTO)
  discReq : Nat
  discResp : Nat
  pingReq : Nat
  pingResp : Nat
  timeReq : Nat
  timeResp : Nat
  scripts : Nat → List Act

abbrev Table := Nat → List Nat

def hDisc : Nat := 0
def hPing : Nat := 1
def hTime : Nat := 2

structure St where
  table : Table := fun _ => []
  closed : Bool := false
  fatal : Option Err := none
  expected : Bool := false
  pendingPing : Bool := true
  pongArmed : Bool := false
  writeOk : Bool := true           -- does transport.write succeed (environment)
  writes : List Nat := []          -- message types written, oldest first
  log : List (Nat × Nat × Nat) := []   -- (packet sequence number, type, handler), oldest first
  seq : Nat := 0
  stops : List Bool := []          -- on_stop calls

/-- `_add_message_callback_without_remove`: a set per type -/
def addH (tb : Table) (h t : Nat) : Table :=
  fun x => if x = t then (if h ∈ tb t then tb t else tb t ++ [h]) else tb x

/-- `_remove_message_callback`: `discard` -/
def remH (tb : Table) (h t : Nat) : Table :=
  fun x => if x = t then (tb t).filter (· ≠ h) else tb x

def runAct (tb : Table) : Act → Table
  | .sub h t => addH tb h t
  | .unsub h t => remH tb h t

/-- `_register_internal_message_handlers` -/
def registerInternal (c : Cfg) (tb : Table) : Table :=
  addH (addH (addH tb hDisc c.discReq) hPing c.pingReq) hTime c.timeReq

/-- `_cleanup` as far as dispatch can see it (an established session) -/
def cleanup (s : St) : St :=
  if s.closed then s else
  { s with closed := true, pongArmed := false, stops := s.stops ++ [s.expected] }

/-- `report_fatal_error` -/
def reportFatal (s : St) (e : Err) : St :=
  cleanup { s with fatal := if s.fatal.isNone then some e else s.fatal }

/-- `send_messages`: gate on the handshake flag, one write, a failing write is fatal and re-raised -/
def send (s : St) (t : Nat) : St × Option Err :=
  if s.closed then (s, some .notEstablished)
  else if s.writeOk then ({ s with writes := s.writes ++ [t] }, none)
  else (reportFatal s .socketClosed, some .socketClosed)

/-- one handler invocation; `some e` = the exception that escapes it -/
def callHandler (c : Cfg) (s : St) (seq t h : Nat) : St × Option Err :=
  let s := { s with log := s.log ++ [(seq, t, h)] }
  if h = hDisc then
    -- `_handle_disconnect_request_internal`: marker first, then the response, then `_cleanup`
    let s := { s with expected := true }
    match send s c.discResp with
    | (s, some e) => (s, some e)
    | (s, none) => (cleanup s, none)
  else if h = hPing then send s c.pingResp
  else if h = hTime then send s c.timeResp
  else ({ s with table := (c.scripts h).foldl runAct s.table }, none)

/-- the `for handler in handlers_copy` loop: stops at the first escaping exception -/
def callAll (c : Cfg) (seq t : Nat) : St → List Nat → St × Option Err
  | s, [] => (s, none)
  | s, h :: hs =>
    match callHandler c s seq t h with
    | (s, some e) => (s, some e)
    | (s, none) => callAll c seq t s hs

/-- positional lookup `MESSAGE_NUMBER_TO_PROTO[id - 1]` with "IndexError → unknown";
`id = 0` is unknown too (it does not wrap around to the last class) -/
def klass (c : Cfg) (id : Nat) : Option Nat :=
  if 1 ≤ id ∧ id ≤ c.n then some id else none

inductive Out
  | ignored                       -- unknown type (or connection already closed): no effect
  | badPayload                    -- closed with a protocol error; the exception is re-raised
  | dispatched (raised : Option Err)
  | badOrder                      -- the `order` oracle is not a permutation of the snapshot
deriving DecidableEq, Repr

def isPerm (a b : List Nat) : Bool :=
  a.length == b.length && a.all (· ∈ b) && b.all (· ∈ a) && decide a.Nodup

/-- `process_packet(id, payload)`; `ok` = does the payload decode as class `id` -/
def processPacket (c : Cfg) (s : St) (id : Nat) (ok : Bool) (order : List Nat) : St × Out :=
  if s.closed then (s, .ignored) else
  match klass c id with
  | none => (s, .ignored)
  | some t =>
    if !ok then (reportFatal s .protocol, .badPayload)
    else
      let snap := s.table t
      if !isPerm order snap then (s, .badOrder) else
      let s := { s with pongArmed := false, pendingPing := false, seq := s.seq + 1 }
      let r := callAll c s.seq t s order
      (r.1, .dispatched r.2)

/-- operations of a dispatch history -/
inductive Op
  | sub (h t : Nat)                          -- add_message_callback from outside a callback
  | unsub (h t : Nat)
  | packet (id : Nat) (ok : Bool) (order : List Nat)
  | setWrite (ok : Bool)
  | tick                                      -- `_async_send_keep_alive` (as far as dispatch state is concerned)
  | lost                                      -- `connection_lost(None)` after the transport was closed
deriving Repr

def stepOp (c : Cfg) (s : St) : Op → St
  | .sub h t => { s with table := addH s.table h t }
  | .unsub h t => { s with table := remH s.table h t }
  | .packet id ok order => (processPacket c s id ok order).1
  | .setWrite ok => { s with writeOk := ok }
  | .tick =>
    if s.closed then s
    else if s.pendingPing then
      match send s c.pingReq with
      | (s, some _) => s
      | (s, none) => { s with pongArmed := true, pendingPing := true }
    else { s with pendingPing := true }
  | .lost => reportFatal s .socketClosed

def run (c : Cfg) (s : St) (ops : List Op) : St := ops.foldl (stepOp c) s

def init (c : Cfg) : St := { table := registerInternal c (fun _ => []) }

end Esp.Dispatch
