import Esp.Model.Seg
/-!
# Plaintext frame helper (`_frame_helper/plain_text.py`)
-/
namespace Esp

/-- a packet: `(message type, payload)` as handed to `process_packet` / `write_packets` -/
abbrev Packet := Nat × Bytes

inductive PlainErr where
  | requiresEncryption   -- preamble 0x01
  | protocol             -- any other non-zero preamble (incl. -1 = ran out of bytes)
deriving Repr, DecidableEq

namespace Plain

/-! ## reading -/

theorem readVarintAux_shrink : ∀ (b : Bytes) (acc sh v r), readVarintAux b acc sh = some (v, r) → r.length < b.length
  | [], _, _, _, _, h => by simp [readVarintAux] at h
  | x :: rest, acc, sh, v, r, h => by
    simp only [readVarintAux] at h
    split at h
    · simp only [Option.some.injEq, Prod.mk.injEq] at h; obtain ⟨_, rfl⟩ := h; simp
    · have := readVarintAux_shrink rest _ _ v r h; simp; omega

theorem readVarintAux_append : ∀ (b c : Bytes) (acc sh v r), readVarintAux b acc sh = some (v, r) →
    readVarintAux (b ++ c) acc sh = some (v, r ++ c)
  | [], _, _, _, _, _, h => by simp [readVarintAux] at h
  | x :: rest, c, acc, sh, v, r, h => by
    simp only [readVarintAux, List.cons_append] at h ⊢
    split at h
    · rename_i hx; simp only [hx, ↓reduceIte]
      simp only [Option.some.injEq, Prod.mk.injEq] at h; obtain ⟨rfl, rfl⟩ := h; rfl
    · rename_i hx; simp only [hx, ↓reduceIte]
      exact readVarintAux_append rest c _ _ v r h

/-- one iteration of the `while` body in `data_received`, up to `_remove_from_buffer` -/
def parseOne (buf : Bytes) : Parse PlainErr Packet :=
  match readVarint buf with
  | none => .bad .protocol                 -- `_read_varuint() == -1 != 0x00`
  | some (pre, r1) =>
    if pre ≠ 0 then .bad (if pre = 1 then .requiresEncryption else .protocol) else
    match readVarint r1 with
    | none => .need
    | some (len, r2) =>
      match readVarint r2 with
      | none => .need
      | some (ty, r3) =>
        if len = 0 then .frame (ty, []) r3 else      -- EMPTY_PACKET
        match readN r3 len with
        | none => .need
        | some (p, r4) => .frame (ty, p) r4

theorem parseOne_shrink (b : Bytes) (f : Packet) (r : Bytes) (h : parseOne b = .frame f r) :
    r.length < b.length := by
  unfold parseOne at h
  split at h; · simp at h
  rename_i pre r1 h1
  split at h; · simp at h
  split at h; · simp at h
  rename_i len r2 h2
  split at h; · simp at h
  rename_i ty r3 h3
  have s1 := readVarintAux_shrink _ _ _ _ _ h1
  have s2 := readVarintAux_shrink _ _ _ _ _ h2
  have s3 := readVarintAux_shrink _ _ _ _ _ h3
  split at h
  · simp only [Parse.frame.injEq] at h; obtain ⟨_, rfl⟩ := h; omega
  · split at h; · simp at h
    rename_i p r4 h4
    simp only [Parse.frame.injEq] at h; obtain ⟨_, rfl⟩ := h
    unfold readN at h4
    split at h4; · simp at h4
    simp only [Option.some.injEq, Prod.mk.injEq] at h4; obtain ⟨_, rfl⟩ := h4
    simp; omega

theorem readN_append (b c : Bytes) (n : Nat) (p r : Bytes) (h : readN b n = some (p, r)) :
    readN (b ++ c) n = some (p, r ++ c) := by
  unfold readN at h ⊢
  split at h; · simp at h
  rename_i hlen
  simp only [Option.some.injEq, Prod.mk.injEq] at h; obtain ⟨rfl, rfl⟩ := h
  have : ¬ (b ++ c).length < n := by simp; omega
  simp only [this, ↓reduceIte, Option.some.injEq, Prod.mk.injEq]
  constructor
  · rw [List.take_append_of_le_length (by omega)]
  · rw [List.drop_append_of_le_length (by omega)]

theorem parseOne_stable (b c : Bytes) (f : Packet) (r : Bytes) (h : parseOne b = .frame f r) :
    parseOne (b ++ c) = .frame f (r ++ c) := by
  unfold parseOne at h ⊢
  split at h; · simp at h
  rename_i pre r1 h1
  split at h; · simp at h
  rename_i hpre
  split at h; · simp at h
  rename_i len r2 h2
  split at h; · simp at h
  rename_i ty r3 h3
  unfold readVarint at h1 h2 h3 ⊢
  simp only [readVarintAux_append _ c _ _ _ _ h1, hpre, ↓reduceIte,
    readVarintAux_append _ c _ _ _ _ h2, readVarintAux_append _ c _ _ _ _ h3]
  split at h
  · rename_i hl; simp only [hl, ↓reduceIte]
    simp only [Parse.frame.injEq] at h; obtain ⟨rfl, rfl⟩ := h; rfl
  · rename_i hl; simp only [hl, ↓reduceIte]
    split at h; · simp at h
    rename_i p r4 h4
    simp only [readN_append _ c _ _ _ h4]
    simp only [Parse.frame.injEq] at h; obtain ⟨rfl, rfl⟩ := h; rfl

def splitter : Splitter PlainErr Packet where
  parseOne := parseOne
  shrink := parseOne_shrink
  stable_frame := parseOne_stable

/-! ## the helper as a state machine -/

structure State where
  buf : Bytes := []
  /-- `_handle_error_and_close` ran: the transport was closed, so the event loop makes no
  further `data_received` calls (environment assumption, see DESIGN §6) -/
  closed : Option PlainErr := none
deriving Repr

/-- one `data_received(chunk)` call: packets handed to `process_packet`, in order -/
def feed (s : State) (chunk : Bytes) : State × List Packet :=
  match s.closed with
  | some _ => (s, [])
  | none =>
    let r := drain splitter (s.buf ++ chunk)
    ({ buf := r.2.1, closed := r.2.2 }, r.1)

/-- a whole history of `data_received` calls; one delivery list per call -/
def run : State → List Bytes → State × List (List Packet)
  | s, [] => (s, [])
  | s, c :: cs =>
    let (s1, d) := feed s c
    let (s2, ds) := run s1 cs
    (s2, d :: ds)

/-! ## writing -/

/-- `write_packets`: `b"\0" + varuint(len(data)) + varuint(type) + data` per packet, joined -/
def encodeFrame (p : Packet) : Bytes :=
  0 :: (encodeVarint p.2.length ++ (encodeVarint p.1 ++ p.2))

def write (ps : List Packet) : Bytes := (ps.map encodeFrame).flatten

end Plain
end Esp
