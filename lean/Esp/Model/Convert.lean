import Esp.Model.Bytes
import Esp.Model.Names
/-!
# Wire message → model object conversion (`model.py`: `from_pb`, `__post_init__` converters,
`to_dict`, `from_dict`; `util.py`: `fix_float_single_double_conversion`)

A generic interpreter over the *generated* class table (`Gen.modelClasses`: field name and
converter kind per dataclass) and enum table (`Gen.modelEnums`).  Floats are exact: a float32 is
its bit pattern, its value an exact rational; the 7-significant-digit presentation is computed in
integer arithmetic — no `Float` anywhere.
-/
namespace Esp.Convert

/-! ## exact float32 values and the 7-significant-digit rounding -/

/-- value classes of a float32 bit pattern -/
inductive F32 where
  | zero (neg : Bool) | inf (neg : Bool) | nan
  | fin (neg : Bool) (num den : Nat)          -- ± num/den, num > 0, den a power of two
deriving Repr, DecidableEq

def decodeF32 (bits : Nat) : F32 :=
  let neg := (bits / 2 ^ 31) % 2 = 1
  let e := (bits / 2 ^ 23) % 256
  let m := bits % 2 ^ 23
  if e = 255 then (if m = 0 then .inf neg else .nan)
  else if e = 0 then (if m = 0 then .zero neg else .fin neg m (2 ^ 149))
  else if e ≥ 150 then .fin neg ((2 ^ 23 + m) * 2 ^ (e - 150)) 1
  else .fin neg (2 ^ 23 + m) (2 ^ (150 - e))

/-- `⌈log₁₀ (n/d)⌉` for `n, d > 0`: the unique `l` with `10^(l-1) < n/d ≤ 10^l`, found by
comparison with powers of ten.  `up`/`down` fuel bounds the search (float32: |l| ≤ 45). -/
def ceilLog10Up (n d : Nat) : Nat → Nat → Int
  | 0, l => l
  | fuel + 1, l => if n ≤ d * 10 ^ l then l else ceilLog10Up n d fuel (l + 1)

/-- for `n/d ≤ 1`: the largest `k ≥ 0` with `n * 10^k ≤ d`, negated -/
def ceilLog10Down (n d : Nat) : Nat → Nat → Int
  | 0, k => -(k : Int)
  | fuel + 1, k => if n * 10 ^ (k + 1) ≤ d then ceilLog10Down n d fuel (k + 1) else -(k : Int)

def ceilLog10 (n d : Nat) : Int :=
  if n ≤ d then ceilLog10Down n d 400 0 else ceilLog10Up n d 400 1

/-- round half to even of `a / b` (`b > 0`), as Python's `round` does on the exact value -/
def roundHalfEven (a : Int) (b : Nat) : Int :=
  let q := a / (b : Int)        -- floor division (Int.div rounds toward -∞ for positive divisor: `Int.ediv`)
  let r := a % (b : Int)
  if 2 * r < b then q else if 2 * r > b then q + 1 else if q % 2 = 0 then q else q + 1

/-- exact rational result of `fix_float_single_double_conversion` on a finite non-zero value
`±n/d`: `(numerator, denominator)` of `round(x, 7 - ⌈log₁₀|x|⌉)` -/
def fix7 (neg : Bool) (n d : Nat) : Int × Nat :=
  let l := ceilLog10 n d
  let prec := 7 - l
  let sn : Int := if neg then -(n : Int) else n
  if prec ≥ 0 then
    let p : Nat := 10 ^ prec.toNat
    (roundHalfEven (sn * (p : Int)) d, p)                         -- round(x·10^prec) / 10^prec
  else
    let p : Nat := 10 ^ (-prec).toNat
    (roundHalfEven sn (d * p) * (p : Int), 1)                     -- round(x / 10^-prec) · 10^-prec

/-! ## values -/

inductive WVal where
  | int (i : Int) | bool (b : Bool) | str (s : Bytes) | bytes (b : Bytes)
  | f32 (bits : Nat)
  | list (xs : List WVal)
  | msg (fields : List (Name × WVal))
deriving Repr

inductive MVal where
  | int (i : Int) | bool (b : Bool) | str (s : Bytes) | bytes (b : Bytes)
  | fzero (neg : Bool) | finf (neg : Bool) | fnan
  | rat (num : Int) (den : Nat)
  | none
  | enum (e : Name) (v : Int)
  | list (xs : List MVal)
  | obj (cls : Name) (fields : List (Name × MVal))
  | dict (kvs : List (Bytes × MVal))
  | error                                   -- the Python code raises here
deriving Repr

/-- float32 → Python float (lossless widening), as an exact value -/
def widen (bits : Nat) : MVal :=
  match decodeF32 bits with
  | .zero n => .fzero n | .inf n => .finf n | .nan => .fnan
  | .fin neg n d => .rat (if neg then -(n : Int) else n) d

/-- `fix_float_single_double_conversion` -/
def float7 (bits : Nat) : MVal :=
  match decodeF32 bits with
  | .zero n => .fzero n | .inf n => .finf n | .nan => .fnan      -- returned unchanged
  | .fin neg n d => let r := fix7 neg n d; .rat r.1 r.2

structure Tables where
  classes : List (Name × List (Name × Name))
  enums : List (Name × List (Name × Int))

def s (x : String) : Name := x.toList.map Char.toNat

/-- `APIIntEnum.convert`: the member with that number, else `None` -/
def enumConvert (T : Tables) (e : Name) (v : Int) : MVal :=
  match T.enums.lookup e with
  | some members => if members.any (·.2 == v) then .enum e v else .none
  | none => .error

def hexDigit (n : Nat) : Nat := if n < 10 then 48 + n else 87 + n

def hexN : Nat → Nat → List Nat
  | 0, _ => []
  | k + 1, x => hexDigit ((x / 16 ^ k) % 16) :: hexN k x

/-- `str(UUID(int=(high << 64) | low))` as UTF-8 bytes -/
def uuidStr (high low : Nat) : Bytes :=
  let h := hexN 16 (high % 2 ^ 64)
  let l := hexN 16 (low % 2 ^ 64)
  ((h.take 8 ++ [45] ++ (h.drop 8).take 4 ++ [45] ++ h.drop 12 ++ [45] ++ l.take 4 ++ [45] ++ l.drop 4).map UInt8.ofNat)

mutual
/-- identity conversion of a plain value (`getattr(pb, name)` stored as is) -/
def plain : WVal → MVal
  | .int i => .int i | .bool b => .bool b | .str x => .str x | .bytes b => .bytes b
  | .f32 bits => widen bits
  | .list xs => .list (plainList xs)
  | .msg _ => .error
def plainList : List WVal → List MVal
  | [] => []
  | x :: xs => plain x :: plainList xs
end

def enumList (T : Tables) (e : Name) : List WVal → List MVal
  | [] => []
  | .int v :: xs => (match enumConvert T e v with | .none => enumList T e xs | m => m :: enumList T e xs)
  | _ :: xs => .error :: enumList T e xs

def mapConv : List WVal → List (Bytes × MVal)
  | [] => []
  | .msg fs :: xs =>
    (match fs.lookup (s "key"), fs.lookup (s "value") with
     | some (.str k), some (.str v) => (k, .str v) :: mapConv xs
     | _, _ => ([], .error) :: mapConv xs)
  | _ :: xs => ([], .error) :: mapConv xs

/-- `from_pb` with fuel for nesting depth (the class table is finite and acyclic; fuel 8 suffices) -/
def fromPb (T : Tables) : Nat → Name → WVal → MVal
  | 0, _, _ => .error
  | fuel + 1, cls, .msg fs =>
    match T.classes.lookup cls with
    | none => .error
    | some spec =>
      .obj cls (spec.map fun (fname, kind) =>
        (fname,
          match fs.lookup fname with
          | none => MVal.error                       -- AttributeError: the message has no such field
          | some v =>
            if kind == s "id" then plain v
            else if kind == s "float7" then (match v with | .f32 b => float7 b | _ => .error)
            else if kind == s "list" then (match v with | .list xs => .list (plainList xs) | _ => .error)
            else if kind == s "map" then (match v with | .list xs => .dict (mapConv xs) | _ => .error)
            else if kind == s "uuid" then
              (match v with | .list (.int h :: .int l :: _) => .str (uuidStr h.toNat l.toNat) | _ => .error)
            else if (s "enum:").isPrefixOf kind then
              (match v with | .int i => enumConvert T (kind.drop 5) i | _ => .error)
            else if (s "enumlist:").isPrefixOf kind then
              (match v with | .list xs => .list (enumList T (kind.drop 9) xs) | _ => .error)
            else if (s "nested:").isPrefixOf kind then fromPb T fuel (kind.drop 7) v
            else if (s "nestedlist:").isPrefixOf kind then
              (match v with | .list xs => .list (xs.map (fromPb T fuel (kind.drop 11))) | _ => .error)
            else .error))
  | _, _, _ => .error

end Esp.Convert
