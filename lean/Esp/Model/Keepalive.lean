/-!
# Keepalive automaton (C10)

Mirror of `connection.py`: `_async_schedule_keep_alive`, `_async_send_keep_alive`,
`_async_pong_not_received`, and the two lines of `process_packet` that cancel the pong timer
and clear `_send_pending_ping`.  Time is in ticks; the keepalive interval is `K = 2·k` ticks so
that the pong timeout `KEEP_ALIVE_TIMEOUT_RATIO · K = 4.5·K = 9·k` is integral
(`Gen.keepAliveTimeoutRatio = 9/2` is checked in `Props/C10.lean`).

Events are the atomic things the event loop can do to an established session:
a valid packet is processed, the ping timer fires, the pong timer fires, time passes
(urgent: never past an armed deadline), something else closes the connection.
The state carries the *history* (`log`, newest first); the property is stated over the log.
-/
namespace Esp.Keepalive

inductive Entry
  | msg (t : Nat)                 -- a valid packet was processed at `t`
  | tick (t : Nat) (ping : Bool)  -- `_async_send_keep_alive` ran at `t`; did it write a PingRequest
  | dead (t : Nat)                -- `_async_pong_not_received` ran at `t` (PingFailedAPIError, unexpected stop)
deriving DecidableEq, Repr

structure State where
  k : Nat
  now : Nat := 0
  alive : Bool := true
  pendingPing : Bool := true        -- `_send_pending_ping`
  pingAt : Nat                       -- deadline of `_ping_timer`
  pongAt : Option Nat := none        -- deadline of `_pong_timer`
  log : List Entry := []
deriving Repr

/-- `_async_schedule_keep_alive(now)` at the end of `finish_connection` -/
def init (k : Nat) : State := { k := k, pingAt := 2 * k }

inductive Ev
  | msg | tick | pong | advance (d : Nat) | close
deriving Repr

/-- `process_packet` (keepalive-relevant lines): any valid message cancels the pong timer and the
pending ping -/
def onMsg (s : State) : State :=
  { s with pongAt := none, pendingPing := false, log := .msg s.now :: s.log }

/-- `_async_send_keep_alive` followed by `_async_schedule_keep_alive(now)` -/
def onTick (s : State) : State :=
  let pongAt := if s.pendingPing then (match s.pongAt with | none => some (s.now + 9 * s.k) | some d => some d)
                else s.pongAt
  { s with pongAt := pongAt, pendingPing := true, pingAt := s.now + 2 * s.k,
           log := .tick s.now s.pendingPing :: s.log }

/-- `_async_pong_not_received` → `report_fatal_error(PingFailedAPIError)` → `_cleanup` -/
def onPong (s : State) : State :=
  { s with alive := false, pongAt := none, log := .dead s.now :: s.log }

def canAdvance (s : State) (d : Nat) : Bool :=
  !s.alive || (s.now + d ≤ s.pingAt && (match s.pongAt with | none => true | some p => s.now + d ≤ p))

def step (s : State) : Ev → State
  | .msg => if s.alive then onMsg s else s
  | .tick => if s.alive && s.now == s.pingAt then onTick s else s
  | .pong => if s.alive && s.pongAt == some s.now then onPong s else s
  | .advance d => if canAdvance s d then { s with now := s.now + d } else s
  | .close => { s with alive := false, pongAt := none }

def run (s : State) (evs : List Ev) : State := evs.foldl step s

/-! ## history functions the property is stated with (newest entry first) -/

/-- has a message been processed since the most recent tick (or since establishment)? -/
def msgSinceTick : List Entry → Bool
  | [] => false
  | .msg _ :: _ => true
  | .tick _ _ :: _ => false
  | .dead _ :: r => msgSinceTick r

/-- the earliest ping written since the most recent message (or since establishment) -/
def firstPingSinceMsg : List Entry → Option Nat
  | [] => none
  | .msg _ :: _ => none
  | .tick t true :: r => (match firstPingSinceMsg r with | some p => some p | none => some t)
  | _ :: r => firstPingSinceMsg r

def lastMsg : List Entry → Option Nat
  | [] => none
  | .msg t :: _ => some t
  | _ :: r => lastMsg r

def Entry.time : Entry → Nat
  | .msg t => t | .tick t _ => t | .dead t => t

/-- executable form of the C10 rules, used by the driver to judge a history observed on the
implementation (`Props/C10.lean::checkLog_complete`: a history satisfying the proven rules passes) -/
def checkLog (k : Nat) : List Entry → Option String
  | [] => none
  | .msg _ :: r => checkLog k r
  | .tick t p :: r => if p != !msgSinceTick r then some s!"ping-rule@{t}" else checkLog k r
  | .dead D :: r =>
    match firstPingSinceMsg r with
    | none => some s!"dead-without-unanswered-ping@{D}"
    | some p =>
      if D != p + 9 * k then some s!"dead-not-4.5K-after-first-ping@{D}" else
      match lastMsg r with
      | some t => if t + 11 * k ≤ D ∧ D ≤ t + 13 * k then checkLog k r else some s!"window@{D}"
      | none => if D = 11 * k then checkLog k r else some s!"window-fresh@{D}"

end Esp.Keepalive
