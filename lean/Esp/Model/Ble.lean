/-!
# Bluetooth operations (C16)

`client_callbacks.on_bluetooth_handle_message` / `on_bluetooth_message_types` as predicates,
`_send_bluetooth_message_await_response` (a C11 request whose accept = stop = the filter, so the
result is the FIRST matching message) with its post-processing, `_bluetooth_device_request(_watch_connection)`,
and the timeout branch of `bluetooth_device_connect`.
-/
namespace Esp.Ble

inductive Kind
  | read | write | notify                 -- the GATT response types
  | error                                 -- BluetoothGATTErrorResponse
  | conn (connected : Bool)               -- BluetoothDeviceConnectionResponse
  | pairing | unpairing | clearCache      -- device-request responses (address only)
  | other                                 -- anything else (notify data, advertisements, …)
deriving DecidableEq, Repr

structure Msg where
  kind : Kind
  address : Nat
  handle : Nat := 0
deriving DecidableEq, Repr

inductive OpKind | read | write | notify | pair | unpair | clearCache | disconnect
deriving DecidableEq, Repr

structure Op where
  kind : OpKind
  address : Nat
  handle : Nat := 0
deriving DecidableEq, Repr

def isConn : Kind → Bool | .conn _ => true | _ => false

/-- the message types the operation's handler is registered for -/
def listens (o : Op) (k : Kind) : Bool :=
  match o.kind, k with
  | .read, .read | .write, .write | .notify, .notify => true
  | .read, .error | .write, .error | .notify, .error => true
  | .pair, .pairing | .unpair, .unpairing | .clearCache, .clearCache => true
  | _, .conn _ => true
  | _, _ => false

/-- `on_bluetooth_handle_message(address, handle, msg)` for GATT operations,
`on_bluetooth_message_types(address, types, msg)` for device requests,
`msg.address == address and not msg.connected` for disconnect -/
def filter (o : Op) (m : Msg) : Bool :=
  match o.kind with
  | .read | .write | .notify =>
    if isConn m.kind then m.address == o.address else m.address == o.address && m.handle == o.handle
  | .pair | .unpair | .clearCache => m.address == o.address
  | .disconnect => m.address == o.address && m.kind == .conn false

/-- does this message end the operation -/
def hits (o : Op) (m : Msg) : Bool := listens o m.kind && filter o m

inductive Outcome
  | result (m : Msg)          -- the operation's own response
  | gattError (m : Msg)       -- BluetoothGATTAPIError
  | dropped (m : Msg)         -- BluetoothConnectionDroppedError
  | timeout
deriving DecidableEq, Repr

def classify (o : Op) (m : Msg) : Outcome :=
  match m.kind with
  | .error => .gattError m
  | .conn _ => if o.kind = .disconnect then .result m else .dropped m
  | _ => .result m

/-- the outcome of an operation given the messages dispatched after its request (no further message = timeout) -/
def outcome (o : Op) : List Msg → Outcome
  | [] => .timeout
  | m :: ms => if hits o m then classify o m else outcome o ms

/-! ## notify data -/

/-- `on_bluetooth_gatt_notify_data_response(address, handle, cb, msg)`: the data callback of a started notify session runs
for notify-data messages carrying its address AND handle, while it is registered -/
structure DataMsg where
  address : Nat
  handle : Nat
  data : Nat
deriving DecidableEq, Repr

inductive NEv | data (m : DataMsg) | remove     -- `remove` = stop_notify() or the remove_callback handed out
deriving DecidableEq, Repr

def notifyRun (a h : Nat) : Bool → List NEv → List Nat
  | _, [] => []
  | reg, .remove :: es => notifyRun a h false es
  | reg, .data m :: es => (if reg ∧ m.address = a ∧ m.handle = h then [m.data] else []) ++ notifyRun a h reg es

/-! ## service discovery (a collecting request) -/

/-- what `bluetooth_gatt_get_services` listens to; every one carries an address only -/
inductive SKind
  | services (ids : List Nat)     -- BluetoothGATTGetServicesResponse (the handles of the services it lists)
  | done                          -- BluetoothGATTGetServicesDoneResponse
  | error                         -- BluetoothGATTErrorResponse (any handle)
  | conn                          -- BluetoothDeviceConnectionResponse
  | other
deriving DecidableEq, Repr

structure SMsg where
  kind : SKind
  address : Nat
deriving DecidableEq, Repr

inductive SOutcome
  | services (ids : List Nat) | gattError | dropped | timeout
deriving DecidableEq, Repr

/-- `send_messages_await_response_complex` with `do_append` = own address ∧ (services | error | conn) and `do_stop` = own
address ∧ (done | error | conn), then the post-processing loop: a connection change or an error among the collected
messages raises (whatever was collected before it is dropped), otherwise the listed services are concatenated -/
def getServices (addr : Nat) : List SMsg → List Nat → SOutcome
  | [], _ => .timeout
  | m :: ms, acc =>
    if m.address ≠ addr then getServices addr ms acc
    else match m.kind with
      | .services ids => getServices addr ms (acc ++ ids)
      | .done => .services acc
      | .error => .gattError
      | .conn => .dropped
      | .other => getServices addr ms acc

/-! ## device connect, timeout branch -/

/-- `resp a c` = a `BluetoothDeviceConnectionResponse` for address `a` with `connected = c` -/
inductive CEv | resp (address : Nat) (connected : Bool) | timeoutFire | discTimeout
deriving Repr

inductive CPhase | connecting | disconnecting | done (ok : Bool)
deriving DecidableEq, Repr

inductive Act | unsub | writeDisconnect (address : Nat) | raiseTimeout | returnOk
deriving DecidableEq, Repr

structure CSt where
  address : Nat
  phase : CPhase := .connecting
  subscribed : Bool := true
  log : List Act := []

def cStep (s : CSt) : CEv → CSt
  | .resp a connected =>
    -- while connecting ANY connection state for the address resolves the call ("we do not want to wait the whole
    -- timeout if the device disconnects or we get an error"); while disconnecting only `connected = false` does
    if s.phase = .connecting ∧ a = s.address then { s with phase := .done true, log := s.log ++ [.returnOk] }
    else if s.phase = .disconnecting ∧ a = s.address ∧ !connected then { s with phase := .done false, log := s.log ++ [.raiseTimeout] }
    else s
  | .timeoutFire =>
    if s.phase = .connecting then
      -- unsubscribe first, then the disconnect request, then wait for it (bounded), then raise
      { s with phase := .disconnecting, subscribed := false, log := s.log ++ [.unsub, .writeDisconnect s.address] }
    else s
  | .discTimeout =>
    if s.phase = .disconnecting then { s with phase := .done false, log := s.log ++ [.raiseTimeout] } else s

def cRun (s : CSt) (evs : List CEv) : CSt := evs.foldl cStep s

end Esp.Ble
