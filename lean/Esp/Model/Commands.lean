import Esp.Model.Convert
/-!
# Entity commands (C15)

Every `*_command` method of `client.py` is "copy the supplied arguments into the request": a
*schema* lists, per argument, the presence flag (if the message has one), the value field(s) and the
transform (identity, seconds → whole milliseconds, colour tuple → components).  One generic
`encode` interprets a schema; the three legacy encodings are explicit functions of the negotiated
API version.
-/
namespace Esp.Commands
open Esp

inductive Val
  | b (x : Bool)
  | i (x : Int)
  | q (n : Int) (d : Nat)            -- a float argument, as the exact rational it denotes
  | s (x : List Nat)                 -- a string (code points)
  | t3 (a b c : Val)                 -- a colour tuple
deriving DecidableEq, Repr

inductive Tr | id | ms | rgb
deriving DecidableEq, Repr

structure Opt where
  arg : String
  flag : Option String               -- `has_<field>` if the message defines it
  fields : List String               -- value field(s)
  tr : Tr := .id
deriving Repr

structure Schema where
  msg : String
  req : List (String × String)       -- argument → field, always copied
  opts : List Opt
deriving Repr

/-- `int(round(x * 1000))` on the exact value (round half to even) -/
def toMs : Val → Val
  | .q n d => .i (Convert.roundHalfEven (n * 1000) d)
  | .i n => .i (n * 1000)
  | v => v

def encodeOpt (o : Opt) (v : Val) : List (String × Val) :=
  (match o.flag with | some f => [(f, Val.b true)] | none => []) ++
  (match o.tr, o.fields, v with
    | .id, [f], v => [(f, v)]
    | .ms, [f], v => [(f, toMs v)]
    | .rgb, [r, g, b], .t3 x y z => [(r, x), (g, y), (b, z)]
    | _, _, _ => [])

abbrev Args := String → Option Val

def encode (s : Schema) (a : Args) : List (String × Val) :=
  s.req.filterMap (fun p => (a p.1).map (fun v => (p.2, v))) ++
  s.opts.flatMap (fun o => match a o.arg with | some v => encodeOpt o v | none => [])

/-- every field name a schema can write -/
def Schema.fieldNames (s : Schema) : List String :=
  s.req.map Prod.snd ++ s.opts.flatMap (fun o => o.flag.toList ++ o.fields)

/-! ## legacy encodings -/

structure Ver where
  major : Nat
  minor : Nat
deriving DecidableEq, Repr

/-- `APIVersion.__ge__`: lexicographic -/
def Ver.ge (a b : Ver) : Bool := a.major > b.major || (a.major == b.major && a.minor ≥ b.minor)

/-- `cover_command`: at or above 1.1 the modern fields; below, open / close / stop as a legacy command
(1 = OPEN, 2 = CLOSE, 0 = STOP per `LegacyCoverCommand`) -/
def coverEncode (v : Ver) (position tilt : Option Val) (stop : Bool) : List (String × Val) :=
  if v.ge ⟨1, 1⟩ then
    (match position with | some p => [("has_position", .b true), ("position", p)] | none => []) ++
    (match tilt with | some t => [("has_tilt", .b true), ("tilt", t)] | none => []) ++
    (if stop then [("stop", Val.b true)] else [])
  else if stop then [("legacy_command", .i 2), ("has_legacy_command", .b true)]
  else if position = some (.q 1 1) then [("legacy_command", .i 0), ("has_legacy_command", .b true)]
  else if position = some (.q 0 1) then [("legacy_command", .i 1), ("has_legacy_command", .b true)]
  else []

/-- `climate_command(preset=…)`: below 1.5 the away flag, at or above the preset (`away` = is it ClimatePreset.AWAY) -/
def climatePreset (v : Ver) (preset : Int) (away : Bool) : List (String × Val) :=
  if v.ge ⟨1, 5⟩ then [("has_preset", .b true), ("preset", .i preset)]
  else [("has_legacy_away", .b true), ("legacy_away", .b away)]

/-- `execute_service`: integer arguments go to `int_` from 1.3 on, to `legacy_int` before -/
def serviceIntField (v : Ver) : String := if v.ge ⟨1, 3⟩ then "int_" else "legacy_int"

/-- `UserServiceArgType`; `other` = a number the model enum does not know (converted to `None`) -/
inductive ArgTy | bool | int | float | string | boolArr | intArr | floatArr | stringArr | other
deriving DecidableEq, Repr

/-- the `ExecuteServiceArgument` field an argument of this type is written to (`USER_SERVICE_MAP_*`
and the version rule for integers); `none` = the assertion fails -/
def serviceField (v : Ver) : ArgTy → Option String
  | .bool => some "bool_"
  | .int => some (serviceIntField v)
  | .float => some "float_"
  | .string => some "string_"
  | .boolArr => some "bool_array"
  | .intArr => some "int_array"
  | .floatArr => some "float_array"
  | .stringArr => some "string_array"
  | .other => none

structure SvcArg where
  name : String
  ty : ArgTy
deriving DecidableEq, Repr

/-- `execute_service`: one `ExecuteServiceArgument` per declared argument, in declaration order, each
carrying `data[name]` in the field of its type; `none` = the call raises (missing key / unknown type).
`α` is the type of supplied values — the method copies them. -/
def executeService {α : Type} (v : Ver) (data : String → Option α) : List SvcArg → Option (List (String × α))
  | [] => some []
  | a :: rest =>
    match data a.name, serviceField v a.ty, executeService v data rest with
    | some x, some f, some r => some ((f, x) :: r)
    | _, _, _ => none

/-! ## the schemas (transcribed from `client.py`; `lock_command` has NO flag for `code`, as in the code) -/

def hasOpt (arg : String) (tr : Tr := .id) : Opt := { arg := arg, flag := some ("has_" ++ arg), fields := [arg], tr := tr }
def bareOpt (arg : String) : Opt := { arg := arg, flag := none, fields := [arg] }

def schemas : List Schema := [
  { msg := "CoverCommandRequest", req := [("key", "key")], opts := [hasOpt "position", hasOpt "tilt", bareOpt "stop"] },
  { msg := "FanCommandRequest", req := [("key", "key")],
    opts := [hasOpt "state", hasOpt "speed", hasOpt "speed_level", hasOpt "oscillating", hasOpt "direction", hasOpt "preset_mode"] },
  { msg := "LightCommandRequest", req := [("key", "key")],
    opts := [hasOpt "state", hasOpt "brightness", hasOpt "color_mode", hasOpt "color_brightness",
             { arg := "rgb", flag := some "has_rgb", fields := ["red", "green", "blue"], tr := .rgb },
             hasOpt "white", hasOpt "color_temperature", hasOpt "cold_white", hasOpt "warm_white",
             hasOpt "transition_length" .ms, hasOpt "flash_length" .ms, hasOpt "effect"] },
  { msg := "SwitchCommandRequest", req := [("key", "key"), ("state", "state")], opts := [] },
  { msg := "ClimateCommandRequest", req := [("key", "key")],
    opts := [hasOpt "mode", hasOpt "target_temperature", hasOpt "target_temperature_low", hasOpt "target_temperature_high",
             hasOpt "fan_mode", hasOpt "swing_mode", hasOpt "custom_fan_mode", hasOpt "preset", hasOpt "custom_preset",
             hasOpt "target_humidity"] },
  { msg := "NumberCommandRequest", req := [("key", "key"), ("state", "state")], opts := [] },
  { msg := "DateCommandRequest", req := [("key", "key"), ("year", "year"), ("month", "month"), ("day", "day")], opts := [] },
  { msg := "TimeCommandRequest", req := [("key", "key"), ("hour", "hour"), ("minute", "minute"), ("second", "second")], opts := [] },
  { msg := "DateTimeCommandRequest", req := [("key", "key"), ("epoch_seconds", "epoch_seconds")], opts := [] },
  { msg := "SelectCommandRequest", req := [("key", "key"), ("state", "state")], opts := [] },
  { msg := "SirenCommandRequest", req := [("key", "key")], opts := [hasOpt "state", hasOpt "tone", hasOpt "volume", hasOpt "duration"] },
  { msg := "ButtonCommandRequest", req := [("key", "key")], opts := [] },
  { msg := "LockCommandRequest", req := [("key", "key"), ("command", "command")], opts := [bareOpt "code"] },
  { msg := "ValveCommandRequest", req := [("key", "key")], opts := [hasOpt "position", bareOpt "stop"] },
  { msg := "MediaPlayerCommandRequest", req := [("key", "key")],
    opts := [hasOpt "command", hasOpt "volume", hasOpt "media_url", hasOpt "announcement"] },
  { msg := "TextCommandRequest", req := [("key", "key"), ("state", "state")], opts := [] },
  { msg := "UpdateCommandRequest", req := [("key", "key"), ("command", "command")], opts := [] },
  { msg := "AlarmControlPanelCommandRequest", req := [("key", "key"), ("command", "command")], opts := [bareOpt "code"] }
]

end Esp.Commands
