/-!
# Bytes and varints

Mirror of `aioesphomeapi/_frame_helper/plain_text.py::_varuint_to_bytes` and
`aioesphomeapi/_frame_helper/base.py::_read_varuint`.

Python ints are unbounded, so values are `Nat`.  Bytes are `UInt8`, so "any
byte stream" in a theorem really is any byte stream, with no well-formedness
side condition.
-/
namespace Esp

abbrev Bytes := List UInt8

/-- `_varuint_to_bytes`, written with the same bit operations as the Python:
```
if value <= 0x7F: return bytes((value,))
while value:
    temp = value & 0x7F; value >>= 7
    result.append(temp | 0x80 if value else temp)
```
-/
def encodeVarint (n : Nat) : Bytes :=
  if n ≤ 0x7F then [UInt8.ofNat n]
  else UInt8.ofNat ((n &&& 0x7F) ||| 0x80) :: encodeVarint (n >>> 7)
termination_by n
decreasing_by
  rw [Nat.shiftRight_eq_div_pow]
  omega

/-- `_read_varuint` on the unread part of the buffer.  `acc`/`shift` are the
Python locals `result`/`bitpos`.  `none` is Python's `-1` (ran out of bytes). -/
def readVarintAux : Bytes → Nat → Nat → Option (Nat × Bytes)
  | [], _, _ => none
  | b :: rest, acc, shift =>
    let acc' := acc ||| ((b.toNat &&& 0x7F) <<< shift)
    if b.toNat &&& 0x80 = 0 then some (acc', rest) else readVarintAux rest acc' (shift + 7)

def readVarint (buf : Bytes) : Option (Nat × Bytes) := readVarintAux buf 0 0

/-- `_read(length)`: `none` when fewer than `length` bytes are available. -/
def readN (buf : Bytes) (n : Nat) : Option (Bytes × Bytes) :=
  if buf.length < n then none else some (buf.take n, buf.drop n)

/-- big-endian 16-bit value of two bytes: `(hi << 8) | lo` -/
def be16 (hi lo : UInt8) : Nat := (hi.toNat <<< 8) ||| lo.toNat

/-- `(x >> 8) & 0xFF` and `x & 0xFF` as the Python header code does (no range check). -/
def hi8 (x : Nat) : UInt8 := UInt8.ofNat ((x >>> 8) &&& 0xFF)
def lo8 (x : Nat) : UInt8 := UInt8.ofNat (x &&& 0xFF)

end Esp
