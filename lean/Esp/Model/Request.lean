/-!
# Request–response calls (C11)

Mirror of `connection.py::send_messages_await_response_complex` (send, register handler, add
waiter, arm timer — one atomic step; `await fut`; the `finally` block), `handle_complex_message`,
`handle_timeout`, and the waiter loop of `_cleanup`.

Messages are `(type, tag)`; a call's accept / stop predicates are arbitrary functions of the message
(`Cfg`).  Calls are indexed by `Nat`; the state of call `j` after an event depends only on the
global part of the state, on call `j` itself and on the event — which is what makes concurrent calls
independent (`Props/C11.lean`).
-/
namespace Esp.Request

abbrev Msg := Nat × Nat

inductive Err | timeout | notEstablished | socketClosed | conn (k : Nat)   -- `conn k`: the connection's fatal cause
deriving DecidableEq, Repr

inductive Fut | pending | ok | rawTimeout | failed (e : Err) | cancelled
deriving DecidableEq, Repr

inductive Outcome | ok (rs : List Msg) | err (e : Err) | cancelled
deriving DecidableEq, Repr

inductive Phase | idle | waiting | finished (o : Outcome)
deriving DecidableEq, Repr

structure Params where
  types : List Nat
  accept : Msg → Bool
  stop : Msg → Bool
  timeout : Nat

structure Call where
  phase : Phase := .idle
  fut : Fut := .pending
  responses : List Msg := []
  registered : Bool := false       -- handler present in `_message_handlers`
  inWaiters : Bool := false        -- future present in `_read_exception_futures`
  timerAt : Option Nat := none     -- armed `timeout_handle`
  cancelReq : Bool := false        -- the caller cancelled the task; delivered at the next wake
  -- history (ghost) fields
  t0 : Nat := 0
  since : List Msg := []           -- every message dispatched after the call's own step, oldest first
  resolvedAt : Option Nat := none  -- when the future was resolved
  byTimer : Bool := false
  byClose : Bool := false

structure Glob where
  now : Nat := 0
  closed : Bool := false
  fatal : Option Nat := none
  writeOk : Bool := true

structure State where
  g : Glob := {}
  calls : Nat → Call := fun _ => {}
  ids : List Nat := []             -- calls started so far

inductive Ev
  | call (i : Nat)
  | msg (m : Msg)
  | fire (i : Nat)
  | cancel (i : Nat)
  | wake (i : Nat)
  | close (cause : Option Nat)     -- `_cleanup` with `_fatal_exception = cause` (none: "Connection closed")
  | setWrite (ok : Bool)
  | advance (d : Nat)
deriving Repr

abbrev Cfg := Nat → Params

/-- `handle_complex_message` -/
def onMessage (p : Params) (c : Call) (m : Msg) : Call :=
  if c.fut = .pending then
    let c := if p.accept m then { c with responses := c.responses ++ [m] } else c
    if p.stop m then { c with fut := .ok } else c
  else c

/-- the connection's error as the waiters see it -/
def closeErr (fatal : Option Nat) : Err := .conn (fatal.getD 0)

/-- how one call reacts to one event, given the global state *before* the event -/
def stepCall (cfg : Cfg) (g : Glob) (j : Nat) (c : Call) : Ev → Call
  | .call i =>
    if i = j ∧ c.phase = .idle then
      if g.closed then { c with phase := .finished (.err .notEstablished), t0 := g.now }
      else if !g.writeOk then { c with phase := .finished (.err .socketClosed), t0 := g.now }
      else { c with phase := .waiting, registered := true, inWaiters := true,
                    timerAt := some (g.now + (cfg j).timeout), t0 := g.now }
    else c
  | .msg m =>
    if g.closed then c else
    match c.phase with
    | .waiting =>
      let c := { c with since := c.since ++ [m] }
      if c.registered ∧ m.1 ∈ (cfg j).types then
        let c' := onMessage (cfg j) c m
        if c.fut = .pending ∧ c'.fut ≠ .pending then { c' with resolvedAt := some g.now } else c'
      else c
    | _ => c
  | .fire i =>
    if i = j ∧ c.timerAt = some g.now then
      -- `handle_timeout`: the handle has fired (no longer armed); the future fails if still pending
      if c.fut = .pending then { c with timerAt := none, fut := .rawTimeout, resolvedAt := some g.now, byTimer := true }
      else { c with timerAt := none }
    else c
  | .cancel i =>
    if i = j ∧ c.phase = .waiting then
      -- `task.cancel()`: a pending awaited future is cancelled with it; either way the task resumes with CancelledError
      { c with cancelReq := true, fut := if c.fut = .pending then .cancelled else c.fut }
    else c
  | .wake i =>
    if i = j ∧ c.phase = .waiting ∧ (c.fut ≠ .pending ∨ c.cancelReq) then
      -- the `finally` block: cancel the timer unless it expired, remove the handler, discard the waiter
      let c := { c with timerAt := none, registered := false, inWaiters := false }
      if c.cancelReq then { c with phase := .finished .cancelled }
      else match c.fut with
        | .ok => { c with phase := .finished (.ok c.responses) }
        | .rawTimeout => { c with phase := .finished (.err .timeout) }
        | .failed e => { c with phase := .finished (.err e) }
        | .cancelled => { c with phase := .finished .cancelled }
        | .pending => c
    else c
  | .close cause =>
    if g.closed then c else
    -- `_cleanup`: every waiter whose future is not done fails with the connection's error; the set is cleared
    let fatal := if g.fatal.isSome then g.fatal else cause
    if c.inWaiters then
      if c.fut = .pending then
        { c with fut := .failed (closeErr fatal), inWaiters := false, resolvedAt := some g.now, byClose := true }
      else { c with inWaiters := false }
    else c
  | .setWrite _ => c
  | .advance _ => c

def timerOk (now d : Nat) (c : Call) : Bool :=
  match c.timerAt with | none => true | some t => now + d ≤ t

def canAdvance (s : State) (d : Nat) : Bool := s.ids.all (fun j => timerOk s.g.now d (s.calls j))

def stepGlob (s : State) : Ev → Glob
  | .close cause =>
    if s.g.closed then s.g else { s.g with closed := true, fatal := if s.g.fatal.isSome then s.g.fatal else cause }
  | .call i =>
    -- a failing write is fatal for the connection
    if (s.calls i).phase = .idle ∧ !s.g.closed ∧ !s.g.writeOk then
      { s.g with closed := true, fatal := if s.g.fatal.isSome then s.g.fatal else some 1 }
    else s.g
  | .setWrite ok => { s.g with writeOk := ok }
  | .advance d => if canAdvance s d then { s.g with now := s.g.now + d } else s.g
  | _ => s.g

def step (cfg : Cfg) (s : State) (e : Ev) : State :=
  let g' := stepGlob s e
  -- a failing write closes the connection *inside* the call step: the other waiters are failed too
  let e2 : Option Ev := match e with
    | .call i => if (s.calls i).phase = .idle ∧ !s.g.closed ∧ !s.g.writeOk then some (.close (some 1)) else none
    | _ => none
  { g := g'
    calls := fun j =>
      let c := stepCall cfg s.g j (s.calls j) e
      match e2 with
      | some e' => stepCall cfg s.g j c e'
      | none => c
    ids := match e with | .call i => if i ∈ s.ids then s.ids else i :: s.ids | _ => s.ids }

def run (cfg : Cfg) (s : State) (evs : List Ev) : State := evs.foldl (step cfg) s

/-! ## the specification: what a call must return -/

/-- scan the messages dispatched after the request was written: collect the accepted ones of the
call's types up to and including the first that satisfies `stop`; the flag says whether a stop
message was seen -/
def scan (p : Params) : List Msg → List Msg × Bool
  | [] => ([], false)
  | m :: ms =>
    if m.1 ∈ p.types then
      if p.stop m then ((if p.accept m then [m] else []), true)
      else let r := scan p ms; ((if p.accept m then m :: r.1 else r.1), r.2)
    else scan p ms

end Esp.Request
