import Esp.Model.Noise
/-!
# The symbolic AEAD the driver executes

`enc n m = tag(n, |m|) ++ m` with a 16-byte tag, so every ciphertext has exactly the length of
the real ChaCha20-Poly1305 one and all cut positions coincide.  It is an `Aead` (both laws
proved), and nothing else: theorems never mention it, they hold for every instance.
-/
namespace Esp

def beBytes : Nat → Nat → Bytes
  | 0, _ => []
  | k + 1, x => UInt8.ofNat ((x / 256 ^ k) % 256) :: beBytes k x

theorem beBytes_length (k x : Nat) : (beBytes k x).length = k := by
  induction k with
  | zero => rfl
  | succ k ih => simp [beBytes, ih]

def symTag (n len : Nat) : Bytes := [0xA5, 0x5A] ++ beBytes 8 n ++ beBytes 4 len ++ [0x01, 0xC3]

theorem symTag_length (n len : Nat) : (symTag n len).length = 16 := by
  simp [symTag, beBytes_length]

def symAead : Aead where
  enc n m := symTag n m.length ++ m
  dec n c := if 16 ≤ c.length ∧ c.take 16 = symTag n (c.length - 16) then some (c.drop 16) else none
  dec_enc := by
    intro n m
    have h := symTag_length n m.length
    simp [List.take_left' h, List.drop_left' h, h]
  len_enc := by intro n m; simp [symTag_length]; omega

end Esp
