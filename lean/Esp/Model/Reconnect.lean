/-!
# Reconnect manager (C18)

`aioesphomeapi/reconnect_logic.py::ReconnectLogic` as a labelled transition system whose steps are
the atomic pieces an asyncio loop executes: a call made by the environment (start / stop / an mDNS
record / the completion of the client call an attempt is waiting for / the end of a session / a timer
becoming due) runs synchronously up to the next suspension, and `pop` runs the next ready handle
(a task wake-up or the timer callback).

What is modelled rather than taken from the code:
* `asyncio.Lock` (CPython 3.12): `_locked`, the FIFO of waiter futures (pending / granted /
  cancelled), the fast path (`not locked and all waiters cancelled`), `_wake_up_first` (only the first
  waiter, only if pending), a cancelled waiter passing the grant on;
* `Task.cancel`: the awaited future is cancelled when pending (the wake-up is queued), otherwise the
  cancellation is delivered at the wake-up already queued;
* eager tasks (`create_eager_task`): a new task runs synchronously up to its first suspension;
* the client: `start_connection` refuses at once while a session is live, otherwise suspends; its
  completion, the completion of `finish_connection` and the end of a live session are chosen by the
  environment; a cancelled call ends as a failed attempt (`APIConnectionCancelledError`);
* user callbacks either return at once or suspend (per scenario and per callback) until the environment's `cbDone`.
-/
namespace Esp.Reconnect

inductive RState | connecting | handshaking | ready | disconnected
deriving DecidableEq, Repr

inductive ErrK | auth | other
deriving DecidableEq, Repr

inductive Res | ok | fail (k : ErrK)
deriving DecidableEq, Repr

inductive Kind | connect | disc (expected : Bool) | startCall | stopCall
deriving DecidableEq, Repr

/-- where a task is: `running` only while it executes (never between two events) -/
inductive Pc
  | running | lockWait
  | inStart | inFinish              -- suspended in `client.start_connection` / `client.finish_connection`
  | inOnConnect | inOnError (k : ErrK) | inOnDisc   -- suspended in a user callback that awaits something
  | done
deriving DecidableEq, Repr

/-- a task is identified by its position in `St.tasks` (creation order) -/
structure Task where
  kind : Kind
  pc : Pc
  mustCancel : Bool := false
  result : Option Res := none
deriving DecidableEq, Repr

inductive WFut | pending | granted | cancelled
deriving DecidableEq, Repr

inductive Cli | idle | starting | finishing | live
deriving DecidableEq, Repr

inductive RItem | wake (tid : Nat) | timerCb
deriving DecidableEq, Repr

/-- what the outside can see -/
inductive Act
  | attempt                     -- client.start_connection called
  | onConnect | onDisconnect (expected : Bool) | onConnectError (k : ErrK)
  | zcAdd | zcRemove
  | arm (delay : Nat)           -- retry timer armed
  | startRet | stopRet          -- start() / stop() returned
  | resetTries                  -- start() reset the failure count
  | failCounted (k : ErrK)      -- `_handle_connection_failure` updated the failure count (after `on_connect_error` returned)
deriving DecidableEq, Repr

structure St where
  state : RState := .disconnected
  accept : Bool := true
  stopped : Bool := true
  zcListening : Bool := false
  tries : Nat := 0
  timer : Option Nat := none          -- deadline of the armed, not yet fired timer handle
  timerQueued : Bool := false         -- the due handle is in the ready queue
  connectTask : Option Nat := none    -- `_connect_task`
  locked : Bool := false
  waiters : List (Nat × WFut) := []
  tasks : List Task := []
  ready : List RItem := []
  cli : Cli := .idle
  now : Nat := 0
  hasName : Bool := true
  suspConnect : Bool := false         -- the user's on_connect / on_connect_error / on_disconnect await something
  suspError : Bool := false           -- (then the manager's task stays suspended, holding the lock, until `cbDone`)
  suspDisc : Bool := false
  log : List Act := []
deriving Repr

/-! ## constants and the backoff -/

def cooldown : Nat := 5
def maxTries : Nat := 100

/-- `int(round(min(1.8**min(tries, 10), 60.0)))` on exact rationals: `(9/5)^t` is never half-way between
two integers for `t ≥ 1` (the denominator is odd), so round-half-even = round-to-nearest -/
def backoff (tries : Nat) : Nat :=
  let t := min tries 10
  if 60 * 5 ^ t ≤ 9 ^ t then 60 else (2 * 9 ^ t + 5 ^ t) / (2 * 5 ^ t)

/-! ## tasks -/

def getTask (s : St) (tid : Nat) : Option Task := s.tasks[tid]?

def setTask (s : St) (tid : Nat) (f : Task → Task) : St := { s with tasks := s.tasks.modify tid f }

def taskDone (s : St) (tid : Nat) : Bool :=
  match getTask s tid with
  | some t => t.pc = .done
  | none => true

def finish (s : St) (tid : Nat) : St := setTask s tid (fun t => { t with pc := .done, mustCancel := false, result := none })

def emit (s : St) (a : Act) : St := { s with log := s.log ++ [a] }

/-! ## the lock -/

def lockFree (s : St) : Bool := !s.locked && s.waiters.all (fun w => w.2 = .cancelled)

def wakeUpFirst (s : St) : St :=
  match s.waiters with
  | (t, .pending) :: rest => { s with waiters := (t, .granted) :: rest, ready := s.ready ++ [.wake t] }
  | _ => s

def release (s : St) : St := wakeUpFirst { s with locked := false }

/-- `Lock.acquire` up to its first suspension: `true` = acquired on the fast path -/
def acquire (s : St) (tid : Nat) : St × Bool :=
  if lockFree s then ({ s with locked := true }, true)
  else (setTask { s with waiters := s.waiters ++ [(tid, .pending)] } tid (fun t => { t with pc := .lockWait }), false)

/-- `Task.cancel()`; the manager only ever cancels its connect task (`_cancel_connect_task`) -/
def cancelTask (s : St) (tid : Nat) : St :=
  match getTask s tid with
  | none => s
  | some t =>
    if t.pc = .done ∨ t.kind ≠ .connect then s else
    let s := setTask s tid (fun t => { t with mustCancel := true })
    match t.pc with
    | .lockWait =>
      if s.waiters.any (fun w => w.1 = tid ∧ w.2 = .pending) then
        { s with waiters := s.waiters.map (fun w => if w.1 = tid then (w.1, .cancelled) else w), ready := s.ready ++ [.wake tid] }
      else s
    | _ => if s.ready.contains (.wake tid) then s else { s with ready := s.ready ++ [.wake tid] }

/-! ## the manager's helpers, in source order -/

def setState (s : St) (st : RState) : St :=
  { s with state := st, accept := st = .disconnected ∨ st = .connecting }

def startZc (s : St) : St :=
  if !s.zcListening && s.hasName then emit { s with zcListening := true } .zcAdd else s

def stopZc (s : St) : St :=
  if s.zcListening then emit { s with zcListening := false } .zcRemove else s

def cancelTimer (s : St) : St :=
  { s with timer := none, timerQueued := false, ready := s.ready.filter (· ≠ .timerCb) }

def cancelConnectTask (s : St) : St :=
  match s.connectTask with
  | some tid => { cancelTask s tid with connectTask := none }
  | none => s

def cancelConnect (s : St) : St := cancelConnectTask (cancelTimer s)


/-- the locked part of `_connect_once_or_reschedule` after a failed `_try_connect`; never re-enters
`_call_connect_once` because the delay is never 0 (`backoff_pos`) -/
def afterFail (s : St) (tid : Nat) : St :=
  let w := backoff s.tries
  let s := if w ≠ 0 then startZc s else s
  let s := emit { cancelTimer s with timer := some (s.now + w) } (.arm w)
  finish (release s) tid

/-- `_handle_connection_failure` after `await on_connect_error(err)` returned, and the rest of the locked section -/
def failEnd (s : St) (k : ErrK) (tid : Nat) : St :=
  afterFail (emit { s with tries := if k = .auth then maxTries else s.tries + 1 } (.failCounted k)) tid

/-- `_handle_connection_failure` up to `await on_connect_error(err)` (and through it when it does not suspend) -/
def failBegin (s : St) (k : ErrK) (tid : Nat) : St :=
  let s := emit (setState s .disconnected) (.onConnectError k)
  -- (a cancellation that brought the task here has been consumed: it was turned into the failure being reported)
  if s.suspError then setTask s tid (fun t => { t with pc := .inOnError k, result := none, mustCancel := false })
  else failEnd s k tid

/-- `_connect_once_or_reschedule` from the point where the lock is held -/
def connectLocked (s : St) (tid : Nat) : St :=
  if s.state ≠ .disconnected ∨ s.stopped then finish (release s) tid
  else
    let s := emit (setState s .connecting) .attempt
    if s.cli = .live then
      -- "Already connected": raised before anything is awaited
      failBegin s .other tid
    else setTask { s with cli := .starting } tid (fun t => { t with pc := .inStart, result := none })

/-- a new eager connect task -/
def spawnConnect (s : St) : St :=
  let tid := s.tasks.length
  let s := { s with tasks := s.tasks ++ [{ kind := .connect, pc := .running }] }
  let (s, got) := acquire s tid
  let s := if got then connectLocked s tid else s
  { s with connectTask := some tid }

def callConnectOnce (s : St) : St :=
  match s.connectTask with
  | some tid =>
    if taskDone s tid then spawnConnect s
    else if s.state ≠ .connecting then s
    else spawnConnect (setState (cancelConnectTask s) .disconnected)
  | none => spawnConnect s

def scheduleConnect (s : St) (delay : Nat) : St :=
  if delay = 0 then callConnectOnce s
  else emit { cancelTimer s with timer := some (s.now + delay) } (.arm delay)

/-- `_on_disconnect` after `await on_disconnect(expected)` returned -/
def discEnd (s : St) (tid : Nat) (expected : Bool) : St :=
  let s := finish (release s) tid
  if s.stopped then s else scheduleConnect s (if expected then cooldown else 0)

def discLocked (s : St) (tid : Nat) (expected : Bool) : St :=
  let s := emit (setState s .disconnected) (.onDisconnect expected)
  if s.suspDisc then setTask s tid (fun t => { t with pc := .inOnDisc, result := none }) else discEnd s tid expected

def startLocked (s : St) (tid : Nat) : St :=
  let s := { s with stopped := false }
  let s := if s.state ≠ .disconnected then s else scheduleConnect (emit { s with tries := 0 } .resetTries) 0
  emit (finish (release s) tid) .startRet

def stopLocked (s : St) (tid : Nat) : St :=
  let s := cancelConnect { s with stopped := true }
  let s := setState (stopZc s) .disconnected
  emit (finish (release s) tid) .stopRet

/-- the body of a task once it holds the lock -/
def lockedBody (s : St) (tid : Nat) (k : Kind) : St :=
  match k with
  | .connect => connectLocked s tid
  | .disc e => discLocked s tid e
  | .startCall => startLocked s tid
  | .stopCall => stopLocked s tid

def spawn (s : St) (k : Kind) : St :=
  let tid := s.tasks.length
  let s := { s with tasks := s.tasks ++ [{ kind := k, pc := .running }] }
  let (s, got) := acquire s tid
  if got then lockedBody s tid k else s

/-! ## wake-ups -/

def removeWaiter (s : St) (tid : Nat) : St := { s with waiters := s.waiters.filter (·.1 ≠ tid) }

def wakeTask (s : St) (tid : Nat) (t : Task) : St :=
  match t.pc with
  | .done | .running => s
  | .lockWait =>
    let grantedFut := s.waiters.any (fun w => w.1 = tid ∧ w.2 = .granted)
    if t.mustCancel then
      -- CancelledError out of `Lock.acquire` (the waiter future was cancelled, or the cancellation is delivered at the
      -- wake-up of a grant): pass the grant on, the task ends cancelled
      let s := removeWaiter s tid
      finish (if s.locked then s else wakeUpFirst s) tid
    else if grantedFut then
      lockedBody (setTask { removeWaiter s tid with locked := true } tid (fun t => { t with pc := .running })) tid t.kind
    else s   -- a task is only woken once its future is done
  | .inStart =>
    if t.mustCancel then failBegin { s with cli := .idle } .other tid
    else match t.result with
      | some .ok =>
        let s := setState (stopZc { s with cli := .finishing }) .handshaking
        setTask s tid (fun t => { t with pc := .inFinish, result := none })
      | some (.fail k) => failBegin { s with cli := .idle } k tid
      | none => s
  | .inFinish =>
    if t.mustCancel then failBegin { s with cli := .idle } .other tid
    else match t.result with
      | some .ok =>
        let s := emit (setState { s with cli := .live, tries := 0 } .ready) .onConnect
        if s.suspConnect then setTask s tid (fun t => { t with pc := .inOnConnect, result := none })
        else finish (release s) tid
      | some (.fail k) => failBegin { s with cli := .idle } k tid
      | none => s
  | .inOnConnect =>
    -- `await self._on_connect_cb()` is the last statement under the lock: returned or cancelled, the lock is released
    if t.mustCancel ∨ t.result.isSome then finish (release s) tid else s
  | .inOnError k =>
    -- a cancellation delivered inside the callback propagates out of the locked section: nothing is counted or scheduled
    if t.mustCancel then finish (release s) tid
    else if t.result.isSome then failEnd s k tid else s
  | .inOnDisc =>
    if t.result.isSome then
      match t.kind with
      | .disc e => discEnd s tid e
      | _ => s
    else s

/-! ## events -/

inductive Ev
  | callStart | callStop
  | startDone (r : Res) | finishDone (r : Res)
  | sessionEnd (expected : Bool)
  | zc (matching : Bool)
  | cbDone                      -- the user callback some task is suspended in returns
  | timerDue
  | wait (dt : Nat)
  | pop
deriving DecidableEq, Repr

def complete (s : St) (pc : Pc) (r : Res) : St :=
  match s.tasks.findIdx? (fun t => t.pc = pc ∧ t.result = none ∧ !t.mustCancel) with
  | some tid => { setTask s tid (fun t => { t with result := some r }) with ready := s.ready ++ [.wake tid] }
  | none => s

def inCb : Pc → Bool | .inOnConnect | .inOnError _ | .inOnDisc => true | _ => false

def completeCb (s : St) : St :=
  match s.tasks.findIdx? (fun t => inCb t.pc ∧ t.result = none ∧ !t.mustCancel) with
  | some tid => { setTask s tid (fun t => { t with result := some .ok }) with ready := s.ready ++ [.wake tid] }
  | none => s

def step (s : St) : Ev → St
  | .callStart => spawn s .startCall
  | .callStop =>
    let s := if s.state = .disconnected ∨ s.state = .connecting then cancelConnect s else s
    spawn s .stopCall
  | .startDone r => complete s .inStart r
  | .finishDone r => complete s .inFinish r
  | .cbDone => completeCb s
  | .sessionEnd e => if s.cli = .live then spawn { s with cli := .idle } (.disc e) else s
  | .zc m =>
    if !s.zcListening ∨ !s.accept ∨ s.stopped ∨ !m then s
    else { scheduleConnect (stopZc s) 0 with accept := false }
  | .timerDue =>
    match s.timer with
    | some d => if s.timerQueued then s else { s with now := max s.now d, timerQueued := true, ready := s.ready ++ [.timerCb] }
    | none => s
  | .wait dt =>
    match s.timer with
    | some d => if s.timerQueued ∨ s.now + dt ≤ d then { s with now := s.now + dt } else s
    | none => { s with now := s.now + dt }
  | .pop =>
    match s.ready with
    | [] => s
    | .timerCb :: rest => callConnectOnce { s with ready := rest, timer := none, timerQueued := false }
    | .wake tid :: rest =>
      let s := { s with ready := rest }
      match getTask s tid with
      | some t => wakeTask s tid t
      | none => s

def run (s : St) (evs : List Ev) : St := evs.foldl step s

def init (hasName : Bool) (suspConnect suspError suspDisc : Bool := false) : St :=
  { hasName := hasName, suspConnect := suspConnect, suspError := suspError, suspDisc := suspDisc }

end Esp.Reconnect
