/-! names in generated tables are lists of code points, cheap for the kernel to compare and split -/
namespace Esp
abbrev Name := List Nat

/-- `"A_B".endsWith ("_" ++ "B")`-style suffix test on code-point lists -/
def Name.endsWithSep (full suffix : Name) : Bool :=
  full == suffix || (suffix.length + 1 ≤ full.length && full.drop (full.length - suffix.length - 1) == 95 :: suffix)

end Esp
