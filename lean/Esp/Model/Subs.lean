/-!
# Subscriptions (C17)

`client_callbacks.on_state_msg` (one converted callback per state message; camera chunks
reassembled per entity key in a per-subscription dict) and `subscribe_voice_assistant`
(start request → task → `VoiceAssistantResponse(port | error)`; stop / audio / announcement
handlers; unsubscribe).
-/
namespace Esp.Subs

inductive Msg
  | state (ty id : Nat)                          -- a state message of state type `ty` (values abstracted to `id`)
  | cam (key : Nat) (data : List Nat) (done : Bool)
deriving DecidableEq, Repr

inductive Out
  | model (ty id : Nat)                          -- `on_state(cls.from_pb(msg))`
  | image (key : Nat) (data : List Nat)          -- `on_state(CameraState(key, data))`
deriving DecidableEq, Repr

/-- `image_stream`: key → chunks received since the last completed image -/
abbrev Stream := List (Nat × List (List Nat))

def getParts (s : Stream) (k : Nat) : List (List Nat) := (s.lookup k).getD []
def delParts (s : Stream) (k : Nat) : Stream := s.filter (fun e => e.1 != k)
def setParts (s : Stream) (k : Nat) (v : List (List Nat)) : Stream := (k, v) :: delParts s k

def onStateMsg (s : Stream) : Msg → Stream × List Out
  | .state ty id => (s, [.model ty id])
  | .cam k d done =>
    let parts := getParts s k ++ [d]
    if done then (delParts s k, [.image k parts.flatten]) else (setParts s k parts, [])

def run : Stream → List Msg → List Out
  | _, [] => []
  | s, m :: ms => (onStateMsg s m).2 ++ run (onStateMsg s m).1 ms

/-- the images a single camera's chunk stream must produce: every `done` chunk completes the
concatenation of the chunks since the previous completion (itself included) -/
def images : List (List Nat) → List (List Nat × Bool) → List (List Nat)
  | _, [] => []
  | acc, (d, done) :: cs => if done then (acc ++ [d]).flatten :: images [] cs else images (acc ++ [d]) cs

/-! ## voice assistant -/

inductive TaskSt | running | done | cancelled
deriving DecidableEq, Repr

inductive VaOut
  | respPort (p : Nat) | respError
  | hStart (id : Nat) | hStop (aborted : Bool) | hAudio | hAnnounce
deriving DecidableEq, Repr

structure Va where
  subscribed : Bool := true
  audioSub : Bool := true
  announceSub : Bool := true
  connAlive : Bool := true
  tasks : List (Nat × TaskSt) := []     -- start tasks, oldest first
  next : Nat := 0
  out : List VaOut := []

inductive VaEv
  | start                               -- VoiceAssistantRequest(start=true)
  | startDone (id : Nat) (res : Option Nat)   -- handle_start of task `id` returns a port / None
  | reqStop                             -- VoiceAssistantRequest(start=false)
  | audio (last : Bool)                 -- VoiceAssistantAudio(end=last)
  | announce
  | unsub
  | connGone
deriving Repr

def setTask (l : List (Nat × TaskSt)) (id : Nat) (st : TaskSt) : List (Nat × TaskSt) :=
  l.map (fun e => if e.1 = id then (e.1, st) else e)

def vaStep (v : Va) : VaEv → Va
  | .start =>
    if v.subscribed ∧ v.connAlive then
      { v with tasks := v.tasks ++ [(v.next, .running)], next := v.next + 1, out := v.out ++ [.hStart v.next] }
    else v
  | .startDone id res =>
    if v.tasks.lookup id = some .running then
      let v := { v with tasks := setTask v.tasks id .done }
      -- `_started`: answered unless the connection is gone
      if v.connAlive then { v with out := v.out ++ [match res with | some p => .respPort p | none => .respError] } else v
    else v
  | .reqStop => if v.subscribed ∧ v.connAlive then { v with out := v.out ++ [.hStop true] } else v
  | .audio last =>
    if v.subscribed ∧ v.audioSub ∧ v.connAlive then { v with out := v.out ++ [if last then .hStop false else .hAudio] } else v
  | .announce => if v.subscribed ∧ v.announceSub ∧ v.connAlive then { v with out := v.out ++ [.hAnnounce] } else v
  | .unsub =>
    -- callbacks are removed only while connected; the latest start task is cancelled in any case
    let v := if v.connAlive then { v with subscribed := false } else v
    match v.tasks.getLast? with
    | some (id, .running) => { v with tasks := setTask v.tasks id .cancelled }
    | _ => v
  | .connGone => { v with connAlive := false }

def vaRun (v : Va) (evs : List VaEv) : Va := evs.foldl vaStep v

/-! ## the other subscriptions: logs, service calls, home-assistant states, advertisements, connections-free -/

inductive OKind | log | svc | ha | adv | raw | free
deriving DecidableEq, Repr

inductive OEv
  | msg (k : OKind) (id : Nat) (once : Bool)     -- a device message (`once` is read for home-assistant state subscriptions only)
  | unsub (k : OKind)                             -- the unsubscribe function returned for `k` is called
deriving DecidableEq, Repr

inductive OOut
  | handler (k : OKind) (id : Nat)               -- the subscription's handler
  | request (id : Nat)                            -- the optional one-shot handler of `subscribe_home_assistant_states`
deriving DecidableEq, Repr

structure OSub where
  active : List OKind            -- kinds with a live subscription
  hasRequest : Bool              -- `on_state_request` was given
deriving Repr

/-- `on_subscribe_home_assistant_state_response`: the one-shot handler gets `once` messages if it was given; everything
else goes to the subscription handler; all other kinds: the handler, once -/
def oDeliver (s : OSub) (k : OKind) (id : Nat) (once : Bool) : List OOut :=
  if !s.active.contains k then []
  else if k = .ha ∧ s.hasRequest ∧ once then [.request id]
  else [.handler k id]

def oStep (s : OSub) : OEv → OSub × List OOut
  | .msg k id once => (s, oDeliver s k id once)
  | .unsub k => ({ s with active := s.active.filter (· ≠ k) }, [])

def oRun : OSub → List OEv → List OOut
  | _, [] => []
  | s, e :: es => (oStep s e).2 ++ oRun (oStep s e).1 es

end Esp.Subs
