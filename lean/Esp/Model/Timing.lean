/-!
# Timing of the awaited operations (C09)

Each awaited operation is a fixed sequence of *guarded waits*: the coroutine suspends, and a timer armed for
that wait ends it with a timeout error after its bound if nothing else does first.
  start_connection  : resolve (RESOLVE_TIMEOUT), socket connect (TCP_CONNECT_TIMEOUT)
  finish_connection : transport + frame-helper readiness (HANDSHAKE_TIMEOUT), hello / login (CONNECT_REQUEST_TIMEOUT)
  disconnect        : [the finish phase, if one is in progress (DISCONNECT_CONNECT_TIMEOUT)], DisconnectResponse
                      (DISCONNECT_RESPONSE_TIMEOUT)
The environment chooses, per wait, what happens and after how long (`silent` = nothing ever).
-/
namespace Esp.Timing

inductive Outcome | ok | err | silent
deriving DecidableEq, Repr

structure Ev where
  o : Outcome
  d : Nat          -- delay after the wait began (ignored for `silent`)
deriving Repr

inductive End | success | failed | timedOut
deriving DecidableEq, Repr

/-- completion time and kind of ending of a phase that begins at `t` with the waits `ws` (their bounds) under the
script `evs` (a missing script entry = silence) -/
def phase (t : Nat) : List Nat → List Ev → Nat × End
  | [], _ => (t, .success)
  | b :: _, [] => (t + b, .timedOut)
  | b :: ws, e :: es =>
    match e.o with
    | .silent => (t + b, .timedOut)
    | .ok => if e.d < b then phase (t + e.d) ws es else (t + b, .timedOut)
    | .err => if e.d < b then (t + e.d, .failed) else (t + b, .timedOut)

def startWaits : List Nat := [30, 60]
def finishWaits : List Nat := [30, 30]
def discWaits : List Nat := [10]
def discDuringFinishWaits : List Nat := [5, 10]

end Esp.Timing
