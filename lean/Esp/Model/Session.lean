import Esp.Model.Conn
/-!
# Who gets a session (C06), plaintext and noise

On a noise session the device name is checked twice: the name announced in the ServerHello (if any — devices older than
2022.2 send none; an announced EMPTY name is a name) against the expected name, before anything is sent; then, like on
plaintext, the name in the HelloResponse (an empty one counts as "not announced").
-/
namespace Esp.Conn

/-- `APINoiseFrameHelper._handle_hello`: `expected is not None and expected != server_name` rejects -/
def serverNameOk (expected : Option (List Nat)) (announced : Option (List Nat)) : Bool :=
  match expected, announced with
  | some e, some a => e == a
  | _, _ => true

inductive Verdict | accept | badServerName | reject (e : Exc)
deriving DecidableEq, Repr

/-- the outcome of connecting: `hello = (major, name)` of the HelloResponse, `invalid` the ConnectResponse flag -/
def judgeSession (noise : Bool) (announced : Option (List Nat)) (expected : Option (List Nat)) (login : Bool)
    (major : Nat) (name : List Nat) (invalid : Bool) : Verdict :=
  if noise ∧ !serverNameOk expected announced then .badServerName
  else match judge login [.hello (versionOk major) (nameOk expected name), .connect invalid] with
    | none => .accept
    | some e => .reject e

end Esp.Conn
