/-!
# Address resolution and zeroconf ownership (C20)

`host_resolver.async_resolve_host` as a pure function of the configured hosts and an oracle for
the three things it consults (`ipaddress.ip_address`, the mDNS service-info request, the OS
resolver), returning the result AND the log of lookups it made; `util.host_is_name_part` /
`address_is_local` on character lists; `ZeroconfManager` + `_async_zeroconf_get_service_info` as a
small state machine with a log of `async_close` calls.
-/
namespace Esp.Resolver

abbrev Host := List Char

/-- `"." not in address and ":" not in address` -/
def hostIsNamePart (h : Host) : Bool := !h.contains '.' && !h.contains ':'

def removeTrailingDot (h : Host) : Host :=
  match h.reverse with
  | '.' :: r => r.reverse
  | _ => h

/-- `address.removesuffix(".").endswith(".local")` -/
def addressIsLocal (h : Host) : Bool := ".local".toList.isSuffixOf (removeTrailingDot h)

/-- `host.partition(".")[0]` -/
def firstLabel (h : Host) : Host := h.takeWhile (· != '.')

inductive Addr | v4 (id : Nat) | v6 (id : Nat) | lit (h : Host)
deriving DecidableEq, Repr

inductive Err | zc | os | none    -- ResolveAPIError from mDNS / APIConnectionError from getaddrinfo / "got no results"
deriving DecidableEq, Repr

inductive Call | mdns (name : Host) | os (host : Host)
deriving DecidableEq, Repr

structure Oracle where
  isIp : Host → Bool                              -- does `ip_address(host)` parse
  mdns : Host → Option (List Nat × List Nat)      -- none = the request failed; else (v6 ids, v4 ids)
  os : Host → Option (List Addr)                  -- none = OSError

structure Acc where
  addrs : List Addr := []
  zcErr : Bool := false
  calls : List Call := []
  failed : Option Err := none

/-- one iteration of the `for host in hosts` loop -/
def stepHost (o : Oracle) (a : Acc) (host : Host) : Acc :=
  if a.failed.isSome then a else
  let isLocal := hostIsNamePart host || addressIsLocal host
  let name := firstLabel host
  -- mDNS first for bare / .local names: v6 results before v4
  let (hostAddrs, zcErr, calls) :=
    if isLocal then
      match o.mdns name with
      | some (v6s, v4s) => (v6s.map Addr.v6 ++ v4s.map Addr.v4, a.zcErr, a.calls ++ [Call.mdns name])
      | none => ([], true, a.calls ++ [Call.mdns name])
    else if o.isIp host then ([Addr.lit host], a.zcErr, a.calls)
    else ([], a.zcErr, a.calls)
  if hostAddrs.isEmpty then
    match o.os host with
    | some l => { a with addrs := a.addrs ++ l, zcErr := zcErr, calls := calls ++ [Call.os host] }
    | none => { a with zcErr := zcErr, calls := calls ++ [Call.os host], failed := some .os }
  else { a with addrs := a.addrs ++ hostAddrs, zcErr := zcErr, calls := calls }

def resolve (o : Oracle) (hosts : List Host) : Except Err (List Addr) × List Call :=
  let a := hosts.foldl (stepHost o) {}
  match a.failed with
  | some e => (.error e, a.calls)
  | none =>
    if a.addrs.isEmpty then (.error (if a.zcErr then .zc else .none), a.calls)
    else (.ok a.addrs, a.calls)

/-! ## ZeroconfManager -/

inductive Inst | supplied (id : Nat) | own (id : Nat)
deriving DecidableEq, Repr

structure Zc where
  created : Bool := false
  inst : Option Inst := none
  next : Nat := 1000          -- id of the next instance the manager creates
  closed : List Inst := []    -- `async_close()` calls made on instances, oldest first
  raised : Bool := false      -- the last operation raised RuntimeError ("different instance")
deriving Repr

/-- how the mDNS request of a lookup ends: answered, failed, or abandoned while it is in flight (the task running the
lookup is cancelled, or an enclosing timeout fires - the same thing for the coroutine) -/
inductive LEnd | ok | fail | cancelled
deriving DecidableEq, Repr

inductive ZOp
  | setInstance (id : Nat)
  | get
  | getFail                   -- `get_async_zeroconf()` when the library cannot create an instance (`AsyncZeroconf()` raises OSError)
  | close
  | lookup (e : LEnd)         -- `_async_zeroconf_get_service_info`, the request succeeding, failing or being abandoned
deriving Repr

def Inst.id : Inst → Nat | .supplied i => i | .own i => i

def zGet (z : Zc) : Zc :=
  match z.inst with
  | some _ => z
  | none => { z with inst := some (.own z.next), next := z.next + 1, created := true }

def zClose (z : Zc) : Zc :=
  match z.created, z.inst with
  | true, some i => { z with closed := z.closed ++ [i], inst := none, created := false }
  | _, _ => z

def zStep (z : Zc) : ZOp → Zc
  | .setInstance id =>
    match z.inst with
    | none => { z with inst := some (.supplied id), raised := false }
    | some i => if i.id = id then { z with raised := false } else { z with raised := true }
  | .get => { zGet z with raised := false }
  | .getFail => { z with raised := false }     -- an instance already held is returned; a failed creation leaves nothing behind
  | .close => { zClose z with raised := false }
  | .lookup _ =>
    let had := z.inst.isSome
    let z := zGet z
    if had then { z with raised := false } else { zClose z with raised := false }

def zRun (z : Zc) (ops : List ZOp) : Zc := ops.foldl zStep z

end Esp.Resolver
