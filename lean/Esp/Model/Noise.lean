import Esp.Model.Plain
/-!
# Noise frame helper (`_frame_helper/noise.py`)

Cryptography is abstract: an `Aead` is any pair of functions with the two laws below (never an
axiom — every theorem is for all instances).  The Noise handshake is a parameter `hs` telling
whether `read_message` accepts the responder's handshake payload.
-/
namespace Esp

structure Aead where
  enc : Nat → Bytes → Bytes
  dec : Nat → Bytes → Option Bytes
  dec_enc : ∀ n m, dec n (enc n m) = some m
  len_enc : ∀ n m, (enc n m).length = m.length + 16

/-- exceptions outside the library's hierarchy that the helper code can raise -/
inductive RawKind where
  | indexError      -- `msg[0]` / `msg[1]` on a too-short frame
  | unicodeError    -- `.decode()` of a non-UTF-8 name / explanation
  | noiseLibError   -- anything else `read_message` raises (wrong length, bad point …)
deriving Repr, DecidableEq

inductive NoiseErr where
  | protocol                    -- marker byte invalid / frame after close
  | handshake                   -- empty hello, unknown selector, error frame, reset during hello
  | invalidKey                  -- "Handshake MAC failure" or AEAD failure
  | badName (name : Bytes)      -- announced name ≠ expected name (carries the received name)
  | socketClosed                -- EOF / connection lost without exception
  | closedBase                  -- `close()` while readiness was pending: APIConnectionError
  | raw (k : RawKind)
  | other                       -- an exception object handed in from outside (OSError …)
deriving Repr, DecidableEq

inductive HsResult where
  | ok | invalidTag | raises
deriving Repr, DecidableEq

namespace Noise

structure Config where
  expectedName : Option Bytes
  /-- `self._proto.read_message(msg[1:])` -/
  hs : Bytes → HsResult
  /-- does `bytes.decode()` succeed -/
  utf8 : Bytes → Bool

inductive Phase where
  | hello | handshake | ready | closed
deriving Repr, DecidableEq

inductive Ready where
  | pending | ok | err (e : NoiseErr)
deriving Repr, DecidableEq

inductive Ev where
  | ready                     -- `ready_future.set_result(None)`
  | deliver (p : Packet)      -- `connection.process_packet(type, payload)`
  | fatal (e : NoiseErr)      -- `connection.report_fatal_error(e)` (every call, repeated ones too)
deriving Repr, DecidableEq

structure State where
  phase : Phase := .hello
  decNonce : Nat := 0
  ready : Ready := .pending
  serverName : Option Bytes := none
  /-- `transport.close()` was called or the transport died: the loop makes no more read calls -/
  transportClosed : Bool := false
deriving Repr

/-- `_decode_noise_psk`: `decoded` is what `binascii.a2b_base64` returned (`none` = it raised).
Runs in `__init__`, i.e. before a helper exists that could write anything. -/
def checkPsk (decoded : Option Bytes) : Except NoiseErr Bytes :=
  match decoded with
  | none => .error .invalidKey
  | some b => if b.length ≠ 32 then .error .invalidKey else .ok b

/-! ## the 3-byte header splitter (state independent) -/

def parseOne (buf : Bytes) : Parse Unit Bytes :=
  match buf with
  | m :: h :: l :: rest =>
    if m.toNat ≠ 1 then .bad () else
    match readN rest (be16 h l) with
    | none => .need
    | some (f, r) => .frame f r
  | _ => .need

theorem parseOne_shrink (b : Bytes) (f r : Bytes) (h : parseOne b = .frame f r) : r.length < b.length := by
  unfold parseOne at h
  split at h
  · split at h; · simp at h
    split at h; · simp at h
    rename_i m hh l rest _ f' r' h4
    simp only [Parse.frame.injEq] at h; obtain ⟨_, rfl⟩ := h
    unfold readN at h4; split at h4; · simp at h4
    simp only [Option.some.injEq, Prod.mk.injEq] at h4; obtain ⟨_, rfl⟩ := h4
    simp; omega
  · simp at h

theorem parseOne_stable (b c : Bytes) (f r : Bytes) (h : parseOne b = .frame f r) :
    parseOne (b ++ c) = .frame f (r ++ c) := by
  unfold parseOne at h
  split at h
  · rename_i m hh l rest
    split at h; · simp at h
    rename_i hm
    split at h; · simp at h
    rename_i f' r' h4
    simp only [Parse.frame.injEq] at h; obtain ⟨rfl, rfl⟩ := h
    simp only [parseOne, List.cons_append, hm, ↓reduceIte, Plain.readN_append _ c _ _ _ h4]
  · simp at h

def splitter : Splitter Unit Bytes where
  parseOne := parseOne
  shrink := parseOne_shrink
  stable_frame := parseOne_stable

/-! ## error plumbing -/

/-- `close()`: fail a pending readiness wait with the base error, mark closed, close transport -/
def close (s : State) : State :=
  { s with ready := (match s.ready with | .pending => .err .closedBase | r => r),
           phase := .closed, transportClosed := true }

/-- `_handle_error(exc)` for an already-classified error: first-wins on the ready future, then
`report_fatal_error`, whose `_cleanup` closes the helper. -/
def handleError (s : State) (e : NoiseErr) : State × List Ev :=
  let s := { s with ready := (match s.ready with | .pending => .err e | r => r) }
  (close s, [.fatal e])

/-- `_handle_error_and_close` -/
def handleErrorAndClose (s : State) (e : NoiseErr) : State × List Ev := handleError s e

/-- what a Python exception object looks like to `_handle_error` -/
inductive Exc where
  | invalidTag | reset | raw (k : RawKind) | other
deriving Repr, DecidableEq

/-- the mapping at the top of `APINoiseFrameHelper._handle_error` -/
def classify (s : State) : Exc → NoiseErr
  | .reset => if s.phase = .hello then .handshake else .other
  | .invalidTag => .invalidKey
  | .raw k => .raw k
  | .other => .other

/-- `connection_lost(exc)` -/
def connectionLost (s : State) (exc : Option Exc) : State × List Ev :=
  let r := match exc with
    | none => handleError s .socketClosed
    | some x => handleError s (classify s x)
  ({ r.1 with transportClosed := true }, r.2)

def eofReceived (s : State) : State × List Ev := handleError s .socketClosed

/-! ## frame handlers: `Except` = a Python exception escaping `data_received` -/

/-- the inbound cipher: `DecryptCipher.decrypt` under a given nonce.  The receive side uses only
this function, so receive-side theorems quantify over *any* such function (no law needed) -/
abbrev Dec := Nat → Bytes → Option Bytes

abbrev Handler := Except (State × List Ev × Exc) (State × List Ev)

/-- `bytes.find(b"\0", 1)` on the hello: the name bytes between index 1 and the first NUL at
index ≥ 1, if any -/
def findName (hello : Bytes) : Option Bytes :=
  let tl := hello.drop 1
  if tl.contains 0 then some (tl.takeWhile (· ≠ 0)) else none

def handleHello (cfg : Config) (s : State) (f : Bytes) : Handler :=
  match f with
  | [] => .ok (handleErrorAndClose s .handshake)                       -- "ServerHello is empty"
  | sel :: _ =>
    if sel.toNat ≠ 1 then .ok (handleErrorAndClose s .handshake) else  -- unknown protocol selector
    match findName f with
    | none => .ok ({ s with phase := .handshake }, [])
    | some name =>
      if !cfg.utf8 name then .error (s, [], .raw .unicodeError) else
      let s := { s with serverName := some name }
      match cfg.expectedName with
      | some e => if e ≠ name then .ok (handleErrorAndClose s (.badName name))
                  else .ok ({ s with phase := .handshake }, [])
      | none => .ok ({ s with phase := .handshake }, [])

/-- "Handshake MAC failure" -/
def macFailure : Bytes :=
  [72, 97, 110, 100, 115, 104, 97, 107, 101, 32, 77, 65, 67, 32, 102, 97, 105, 108, 117, 114, 101]

def handleHandshake (cfg : Config) (s : State) (f : Bytes) : Handler :=
  match f with
  | [] => .error (s, [], .raw .indexError)                             -- `msg[0]`
  | b :: rest =>
    if b.toNat ≠ 0 then
      if !cfg.utf8 rest then .error (s, [], .raw .unicodeError)
      else if rest = macFailure then .ok (handleErrorAndClose s .invalidKey)
      else .ok (handleErrorAndClose s .handshake)
    else match cfg.hs rest with
      | .ok => .ok ({ s with phase := .ready, ready := (match s.ready with | .pending => .ok | r => r),
                              decNonce := 0 }, [.ready])
      | .invalidTag => .error (s, [], .invalidTag)
      | .raises => .error (s, [], .raw .noiseLibError)

/-- inner layout: 2 bytes type, 2 bytes length (ignored by the client), payload = `msg[4:]` -/
def innerPacket (msg : Bytes) : Option Packet :=
  match msg with
  | th :: tl :: rest => some (be16 th tl, rest.drop 2)
  | _ => none

def handleFrame (D : Dec) (s : State) (f : Bytes) : Handler :=
  match D s.decNonce f with
  | none => .error (s, [], .invalidTag)
  | some msg =>
    let s := { s with decNonce := s.decNonce + 1 }
    match innerPacket msg with
    | none => .error (s, [], .raw .indexError)
    | some p => .ok (s, [.deliver p])

def handleClosed (s : State) : Handler := .ok (handleError s .protocol)

def dispatch (cfg : Config) (D : Dec) (s : State) (f : Bytes) : Handler :=
  match s.phase with
  | .ready => handleFrame D s f
  | .hello => handleHello cfg s f
  | .handshake => handleHandshake cfg s f
  | .closed => handleClosed s

/-- one frame, including what asyncio does with an escaping exception (`connection_lost(exc)`) -/
def step1 (cfg : Config) (D : Dec) (s : State) (f : Bytes) : State × List Ev :=
  match dispatch cfg D s f with
  | .ok r => r
  | .error (s1, ev, x) => let l := connectionLost s1 (some x); (l.1, ev ++ l.2)

/-- the body of the `while` loop over the complete frames of the buffer: returns the state, the
events, how many frames were consumed, and the exception that aborted the loop (if any) -/
def handleAll (cfg : Config) (D : Dec) : State → List Bytes → State × List Ev × Nat × Option Exc
  | s, [] => (s, [], 0, none)
  | s, f :: fs =>
    match dispatch cfg D s f with
    | .error (s1, ev, x) => (s1, ev, 0, some x)
    | .ok (s1, ev) =>
      let r := handleAll cfg D s1 fs
      (r.1, ev ++ r.2.1, r.2.2.1 + 1, r.2.2.2)

def framesLen (fs : List Bytes) : Nat := (fs.map (fun f => 3 + f.length)).sum

/-- the helper object: protocol state plus the receive buffer -/
structure Helper where
  st : State := {}
  buf : Bytes := []
deriving Repr

/-- one `data_received(chunk)` as the selector transport runs it: no call once the transport is
closed; an escaping exception becomes `connection_lost(exc)`, the frame stays in the buffer -/
def feed (cfg : Config) (D : Dec) (h : Helper) (chunk : Bytes) : Helper × List Ev :=
  if h.st.transportClosed then (h, []) else
  let buf := h.buf ++ chunk
  let d := drain splitter buf
  let r := handleAll cfg D h.st d.1
  match r.2.2.2 with
  | some x =>
    let l := connectionLost r.1 (some x)
    ({ st := l.1, buf := buf.drop (framesLen (d.1.take r.2.2.1)) }, r.2.1 ++ l.2)
  | none =>
    match d.2.2 with
    | some () =>                                   -- marker byte invalid
      let e := handleErrorAndClose r.1 .protocol
      ({ st := e.1, buf := d.2.1 }, r.2.1 ++ e.2)
    | none => ({ st := r.1, buf := d.2.1 }, r.2.1)

def run (cfg : Config) (D : Dec) : Helper → List Bytes → Helper × List (List Ev)
  | h, [] => (h, [])
  | h, c :: cs =>
    let (h1, d) := feed cfg D h c
    let (h2, ds) := run cfg D h1 cs
    (h2, d :: ds)

/-! ## writing (`write_packets`) -/

def innerHeader (p : Packet) : Bytes := [hi8 p.1, lo8 p.1, hi8 p.2.length, lo8 p.2.length]

def encodeFrame (A : Aead) (nonce : Nat) (p : Packet) : Bytes :=
  let frame := A.enc nonce (innerHeader p ++ p.2)
  [1, hi8 frame.length, lo8 frame.length] ++ frame

/-- one `write_packets` call starting at `EncryptCipher._nonce = n`: the bytes of the single
`_write_bytes` call and the next nonce -/
def write (A : Aead) : Nat → List Packet → Bytes × Nat
  | n, [] => ([], n)
  | n, p :: ps => let r := write A (n + 1) ps; (encodeFrame A n p ++ r.1, r.2)

/-- `MAX_NOISE_PAYLOAD_SIZE` / 16-bit type guard at the top of `write_packets` -/
def fits (p : Packet) : Bool := p.2.length ≤ 65515 && p.1 ≤ 0xFFFF

/-- `write_packets` as it is: the whole batch is checked before anything is encrypted; a batch
that does not fit raises (`none`): nothing is written and the nonce does not move -/
def writeChecked (A : Aead) (n : Nat) (ps : List Packet) : Option (Bytes × Nat) :=
  if ps.all fits then some (write A n ps) else none

/-- a session: successive `write_packets` calls; one byte string per call -/
def writeSession (A : Aead) : Nat → List (List Packet) → List Bytes × Nat
  | n, [] => ([], n)
  | n, b :: bs => let w := write A n b; let r := writeSession A w.2 bs; (w.1 :: r.1, r.2)

/-- `_send_hello_handshake`: NOISE_HELLO ++ header ++ 0x00 ++ handshake message -/
def helloHandshake (hsMsg : Bytes) : Bytes :=
  let n := hsMsg.length + 1
  [1, 0, 0] ++ [1, hi8 n, lo8 n] ++ [0] ++ hsMsg

end Noise
end Esp
