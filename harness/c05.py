"""C05 — lifecycle only moves forward; closed is final; one connect per object.
model: Esp.Conn (Lean LTS) ; implementation: real APIConnection stepped one event-loop handle at a time (connbench);
spec on the implementation: connlts.spec_c05 over the observed state trace (+ second start/finish refused)."""
from __future__ import annotations

import connlts
from common import Check

KEYS = ("st", "conn", "hs", "start", "finish", "refused")
PID = "C05"


def run(ck: Check, spec=None, keys=KEYS, what="connection LTS != implementation (lifecycle projection)", pid=PID, timed=False):
    scen = connlts.pool(ck, pairs=ck.tier == "thorough")
    scen = scen + connlts.sockfault_pool() + connlts.rawfail_pool()
    if timed:
        scen = scen + connlts.noise_pool()
    results = connlts.run_pool(scen, timed=timed)
    n_viol = 0
    dist = {"scenarios": len(scen), "steps": 0, "closed_at_end": 0, "connected_reached": 0, "events": {}}
    for (login, ops, tag), (lines, obs, info) in zip(scen, results):
        dist["steps"] += len(lines)
        if len(obs) < 2:
            continue
        dist["closed_at_end"] += "st=closed" in obs[-1]
        dist["connected_reached"] += any("st=connected" in o for o in obs)
        for l in lines[1:]:
            k = l.split(" ")[1] if l.startswith("cn.ev") else "nop"
            dist["events"][k] = dist["events"].get(k, 0) + 1
        r = (spec or default_spec)(obs, lines, info) if len(obs) > 1 else None
        if r:
            key, idx = r
            ck.violation(f"{pid.lower()}:{key}", f"{pid} violated on the implementation: {key} at step {idx} ({lines[idx]})",
                         {"login": login, "ops": ops, "events": lines[1: idx + 1], "observed": obs[max(1, idx - 2): idx + 1]},
                         kind="scenario")
            n_viol += 1
    compared = connlts.correspond(ck, scen, results, keys, what)
    ck.coverage.update({
        "evaluations": len(scen), "model_ops_compared": compared,
        "distinct_nontrivial": len({(l, str(o)) for l, o, _ in scen}),
        "rule": "case = happy-path skeleton (plaintext; login on/off; steady/disconnect/peer-disconnect/silent tail) with one "
                "(quick: + 1500 random pairs; thorough: pairs at all position pairs) fault sequences injected between any two "
                "atomic steps; distinct by (login, op list)",
        "traces_validated_against_impl": len(scen),
        "samples": [{"login": scen[i][0], "ops": scen[i][1], "tag": scen[i][2]} for i in (0, 7, len(scen) // 2, len(scen) - 1)],
        "distribution": dist, "spec_violations_on_impl": n_viol, "exhaustive": False,
        "faults": len(connlts.FAULTS),
    })
    ck.assumptions += [
        "asyncio semantics as realised by SimLoop (FIFO ready queue, eager tasks, call_soon per future callback)",
        "SimNet's transport mimics the selector transport (close -> connection_lost(None) later; exception out of "
        "data_received -> force close; cancelled create_connection closes the transport)",
        "plaintext framing; the noise handshake phase is covered by C03/C04 at the helper level",
    ]


def default_spec(obs, lines, info):
    return connlts.spec_c05(obs, info, lines)
