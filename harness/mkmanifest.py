"""Regenerates MANIFEST.json from the table below (keeps it valid at all times)."""
import json, os, sys
sys.path.insert(0, os.path.dirname(os.path.abspath(__file__)))
from manifest_data import CHECKS, NOT_APPLICABLE, HOOK_COMMITS

m = {
    "version": 1,
    "setup_cmd": "cd lean && lake build Esp driver",
    "hooks": {
        "guard": "AIOESPHOMEAPI_VERIF",
        "enable": "export AIOESPHOMEAPI_VERIF=1 (set by ./check); no source hooks are needed: every observation point is reached through the seams the repo's own tests use plus ownership of the event loop",
        "baseline_off_cmd": "cd /repo && env -u AIOESPHOMEAPI_VERIF /venv/bin/python -m pytest -ra -q -p no:cacheprovider --timeout=900 --continue-on-collection-errors",
        "source_commits": HOOK_COMMITS,
        "add_only": True,
    },
    "engines": [
        {"name": "lean-prover", "path": "lean/", "serves_properties": [c["property_id"] for c in CHECKS],
         "kind_free_text": "Lean 4 models (Esp/Model), property theorems (Esp/Props), axiom audit (Audit.lean)"},
        {"name": "translator", "path": "harness/translate.py", "serves_properties": ["C13", "C14"],
         "kind_free_text": "regenerates lean/Esp/Gen/*.lean from /repo (api.proto text parser + reflection) on every run"},
        {"name": "correspondence", "path": "harness/", "serves_properties": [c["property_id"] for c in CHECKS],
         "kind_free_text": "differential runs: real code in-process vs compiled Lean driver (line protocol), plus spec search for failing inputs"},
    ],
    "checks": [],
    "not_applicable": NOT_APPLICABLE,
    "notes": "Technique family: machine-checked proof in Lean 4. See DESIGN.md.",
}
for c in CHECKS:
    pid = c["property_id"]
    m["checks"].append({
        "property_id": pid,
        "quick_cmd": f"./check {pid} --tier quick",
        "thorough_cmd": f"./check {pid} --tier thorough",
        "evidence_file": f"evidence/{pid}.json",
        "replay_cmd_template": "./check replay {path}",
        "engine": "lean-prover+correspondence",
        "level_claimed": {"category": "proof", "text": c["text"], "design_ref": c.get("design_ref", f"DESIGN.md §5 {pid}")},
        "level_note": c["note"],
        "technique": c["technique"],
    })
json.dump(m, open(os.path.join(os.path.dirname(__file__), "..", "MANIFEST.json"), "w"), indent=1)
print("MANIFEST.json written:", len(m["checks"]), "checks,", len(NOT_APPLICABLE), "not applicable")
