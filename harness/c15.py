"""C15 — commands carry exactly the arguments the caller supplied.

implementation : every command method of the real APIClient on a live authenticated session with a negotiated API
                 version; the written frame is decoded independently (strict plaintext decoder + protobuf parse of the class
                 api.proto declares for the id)
model          : Esp.Commands via the Lean driver (`cmd.enc`, `cmd.cover`, `cmd.preset`, `cmd.svcint`)
spec (on impl) : a descriptor-driven oracle written from the property text and api.proto's has_<field> convention: for each
                 supplied argument x=v the request has x=v (durations: whole ms, half-even; colour tuple: components) and,
                 iff the message defines has_x, has_x=true; every other field at its default; legacy encodings below the
                 thresholds
Arguments: EVERY subset of the optional arguments x value class (falsy / typical / extreme), values pairwise distinct across the
arguments of one call so that swapped fields cannot cancel.
"""
from __future__ import annotations

import inspect
import itertools
import struct
from fractions import Fraction

from aioesphomeapi import api_pb2 as pb
from aioesphomeapi import model as M
from aioesphomeapi.core import MESSAGE_TYPE_TO_PROTO
from google.protobuf.descriptor import FieldDescriptor as FD

import common
from common import Check, run_driver_parallel
import live

COMMANDS = {
    "cover_command": "CoverCommandRequest", "fan_command": "FanCommandRequest", "light_command": "LightCommandRequest",
    "switch_command": "SwitchCommandRequest", "climate_command": "ClimateCommandRequest", "number_command": "NumberCommandRequest",
    "date_command": "DateCommandRequest", "time_command": "TimeCommandRequest", "datetime_command": "DateTimeCommandRequest",
    "select_command": "SelectCommandRequest", "siren_command": "SirenCommandRequest", "button_command": "ButtonCommandRequest",
    "lock_command": "LockCommandRequest", "valve_command": "ValveCommandRequest", "media_player_command": "MediaPlayerCommandRequest",
    "text_command": "TextCommandRequest", "update_command": "UpdateCommandRequest",
    "alarm_control_panel_command": "AlarmControlPanelCommandRequest",
}
ENUMS = {"FanSpeed": M.FanSpeed, "FanDirection": M.FanDirection, "ClimateMode": M.ClimateMode, "ClimateFanMode": M.ClimateFanMode,
         "ClimateSwingMode": M.ClimateSwingMode, "ClimatePreset": M.ClimatePreset, "LockCommand": M.LockCommand,
         "MediaPlayerCommand": M.MediaPlayerCommand, "UpdateCommand": M.UpdateCommand,
         "AlarmControlPanelCommand": M.AlarmControlPanelCommand}
MS_ARGS = {"transition_length", "flash_length"}


def f32(x: float) -> float:
    return struct.unpack("<f", struct.pack("<f", x))[0]


def value(ann: str, pname: str, idx: int, cls: str):
    """a value of the class for a parameter; distinct across idx"""
    a = ann.replace("typing.", "")
    for en, E in ENUMS.items():
        if en in a:
            ms = list(E)
            return {"falsy": ms[0], "typical": ms[(idx + 1) % len(ms)], "extreme": ms[-1]}[cls]
    if "tuple[float, float, float]" in a:
        return {"falsy": (0.0, 0.0, 0.0), "typical": (0.125 + idx / 64, 0.25 + idx / 64, 0.5 + idx / 64),
                "extreme": (1.0, 2.0 ** 60, 2.0 ** -60)}[cls]
    base = a.split("|")[0].strip()
    if base == "bool":
        return {"falsy": False, "typical": True, "extreme": True}[cls]
    if base == "int":
        return {"falsy": 0, "typical": 3 + idx, "extreme": 2 ** 31 - 1 - idx}[cls]
    if base == "float":
        if pname in MS_ARGS:
            # exactly representable, x*1000 exact in binary64; includes genuine ties (0.0625 s = 62.5 ms)
            return {"falsy": 0.0, "typical": [0.0625, 2.5, 0.1875, 1.0009765625][idx % 4], "extreme": 1048576.5 + idx}[cls]
        return {"falsy": 0.0, "typical": 0.125 * (idx + 1) + 0.0625, "extreme": f32(2.0 ** (100 + idx))}[cls]
    if base == "str":
        return {"falsy": "", "typical": f"a{idx}", "extreme": "ü☃" * 200 + "x" * 300 + str(idx)}[cls]
    raise ValueError((ann, pname))


def tok(v) -> str:
    if isinstance(v, bool):
        return f"b:{1 if v else 0}"
    if isinstance(v, int):
        return f"i:{int(v)}"
    if isinstance(v, float):
        fr = Fraction(v)
        return f"q:{fr.numerator}/{fr.denominator}"
    if isinstance(v, str):
        return "s:" + (v.encode("utf-8").hex() or "-")
    if isinstance(v, tuple):
        return "t:" + ",".join(tok(x)[2:] for x in v)
    raise ValueError(v)


def msg_fields(msg) -> list[str]:
    """all non-default fields of the decoded request as tokens (floats: the exact float32 value)"""
    out = []
    for fd in msg.DESCRIPTOR.fields:
        v = getattr(msg, fd.name)
        if fd.is_repeated:
            continue
        if fd.type == FD.TYPE_BOOL:
            if v:
                out.append(f"{fd.name}=b:1")
        elif fd.type in (FD.TYPE_FLOAT, FD.TYPE_DOUBLE):
            if v != 0.0:
                out.append(f"{fd.name}={tok(float(v))}")
        elif fd.type == FD.TYPE_STRING:
            if v != "":
                out.append(f"{fd.name}=s:{v.encode('utf-8').hex()}")
        else:
            if v != 0:
                out.append(f"{fd.name}=i:{int(v)}")
    return sorted(out)


def norm_model(line: str) -> list[str]:
    """drop default-valued fields (proto3 cannot distinguish them from absent) and sort"""
    out = []
    for t in line.split(" "):
        if not t:
            continue
        name, _, v = t.partition("=")
        if v in ("b:0", "i:0", "s:-") or (v.startswith("q:0/")):
            continue
        out.append(t)
    return sorted(out)


class WrongFrames(Exception):
    pass


def decode_one(tr):
    frames = [f for w in tr.writes for f in live.decode_plain(w)]
    if len(frames) != 1:
        raise WrongFrames(frames)
    t, payload = frames[0]
    m = MESSAGE_TYPE_TO_PROTO[t]()
    m.ParseFromString(payload)
    return m


def oracle(mname, supplied: dict, apiv) -> list[str]:
    """expected non-default fields, from the property text + the message descriptor"""
    desc = getattr(pb, mname).DESCRIPTOR
    names = {f.name for f in desc.fields}
    exp = {}
    for a, v in supplied.items():
        if mname == "CoverCommandRequest" and apiv < (1, 1):
            continue
        if mname == "ClimateCommandRequest" and a == "preset" and apiv < (1, 5):
            exp["has_legacy_away"] = True
            exp["legacy_away"] = (v == M.ClimatePreset.AWAY)
            continue
        if a == "rgb":
            exp["has_rgb"] = True
            exp["red"], exp["green"], exp["blue"] = v
            continue
        if a in MS_ARGS:
            ms = Fraction(v) * 1000
            fl = ms.numerator // ms.denominator
            rem = ms - fl
            r = fl + (1 if rem > Fraction(1, 2) or (rem == Fraction(1, 2) and fl % 2 == 1) else 0)
            exp[a] = int(r)
        else:
            exp[a] = v
        if "has_" + a in names:
            exp["has_" + a] = True
    if mname == "CoverCommandRequest" and apiv < (1, 1):
        pos, stop = supplied.get("position"), supplied.get("stop")
        if stop:
            exp = {"legacy_command": 2, "has_legacy_command": True}
        elif pos == 1.0:
            exp = {"legacy_command": 0, "has_legacy_command": True}
        elif pos == 0.0:
            exp = {"legacy_command": 1, "has_legacy_command": True}
        else:
            exp = {}
        exp["key"] = supplied["key"]
    out = []
    for k, v in exp.items():
        if isinstance(v, float):
            v = f32(v)
        t = tok(v if not hasattr(v, "value") else int(v))
        if t in ("b:0", "i:0", "s:-") or t.startswith("q:0/"):
            continue
        out.append(f"{k}={t}")
    return sorted(out)


def pre(ck: Check):
    import translate

    translate.run()   # Props/C15 ties the presence flags to api.proto's generated field tables


def run(ck: Check):
    rng, thorough = ck.rng, ck.tier == "thorough"
    lines, impl, metas = [], [], []
    dist = {"calls": 0, "commands": len(COMMANDS), "subsets": 0, "legacy_calls": 0, "service_calls": 0, "bare_followups": 0}
    viol_keys = set()

    def check_call(method, mname, kwargs, apiv):
        client, conn, tr, loop = live.make_client(api_version=apiv)
        try:
            getattr(client, method)(**kwargs)
        except Exception as e:  # noqa: BLE001
            ck.violation(f"c15:raised:{method}", f"{method}({kwargs}) raised {type(e).__name__}: {e}", {"method": method})
            return
        try:
            msg = decode_one(tr)
        except WrongFrames as e:
            ck.violation(f"c15:frames:{method}", f"{method}({kwargs}) wrote {len(e.args[0])} frames (types {[t for t, _ in e.args[0]]}), not exactly one request",
                         {"method": method, "kwargs": {k: str(v) for k, v in kwargs.items()}})
            return
        got = msg_fields(msg)
        dist["calls"] += 1
        # --- model
        plain = {k: (int(v) if hasattr(v, "value") else v) for k, v in kwargs.items()}
        if mname == "CoverCommandRequest" and apiv < (1, 1):
            p, t = plain.get("position"), plain.get("tilt")
            lines.append(f"cmd.cover {apiv[0]} {apiv[1]} {tok(p) if p is not None else '-'} {tok(t) if t is not None else '-'} "
                         f"{1 if plain.get('stop') else 0}")
            impl.append([g for g in got if not g.startswith("key=")])
            dist["legacy_calls"] += 1
        elif mname == "ClimateCommandRequest" and "preset" in plain and apiv < (1, 5):
            rest = {k: v for k, v in plain.items() if k != "preset"}
            lines.append("cmd.enc " + mname + " " + " ".join(f"{k}={tok(v)}" for k, v in rest.items()))
            impl.append([g for g in got if "legacy_away" not in g])
            metas.append((method, kwargs, apiv))
            lines.append(f"cmd.preset {apiv[0]} {apiv[1]} {plain['preset']} {1 if kwargs['preset'] == M.ClimatePreset.AWAY else 0}")
            impl.append([g for g in got if "legacy_away" in g])
            dist["legacy_calls"] += 1
        else:
            lines.append("cmd.enc " + mname + " " + " ".join(f"{k}={tok(v)}" for k, v in plain.items()))
            impl.append(got)
        metas.append((method, kwargs, apiv))
        # --- spec on the implementation
        want = oracle(mname, kwargs, apiv)
        if got != want:
            diff = sorted(set(got) ^ set(want))
            arg = diff[0].split("=")[0].replace("has_", "") if diff else "?"
            kind = "presence-flag" if any(d.startswith("has_") for d in diff) and len(diff) == 1 else "field"
            key = f"c15:{kind}:{method}.{arg}"
            if key not in viol_keys:
                viol_keys.add(key)
                ck.violation(key, f"{method}({ {k: (str(v)) for k, v in kwargs.items()} }) at API {apiv}: request carries {got}, "
                             f"the supplied arguments prescribe {want}", {"method": method, "kwargs": {k: str(v) for k, v in kwargs.items()},
                                                                            "api_version": list(apiv)})

    for method, mname in COMMANDS.items():
        sig = inspect.signature(getattr(live.APIClient, method))
        params = [p for n, p in sig.parameters.items() if n not in ("self",)]
        required = [p for p in params if p.default is inspect.Parameter.empty]
        optional = [p for p in params if p.default is not inspect.Parameter.empty]
        versions = [(1, 10)]
        if method == "cover_command":
            versions = [(1, 0), (1, 1), (1, 2), (2, 0), (0, 9)]
        if method == "climate_command":
            versions = [(1, 4), (1, 5), (1, 10), (2, 0), (1, 0)]
        subsets = list(itertools.chain.from_iterable(itertools.combinations(range(len(optional)), r) for r in range(len(optional) + 1)))
        for ss in subsets:
            dist["subsets"] += 1
            classes = ["falsy", "typical", "extreme"]
            if len(subsets) > 300 and not thorough:
                classes = [classes[len(ss) % 3], rng.choice(classes)]
            for cls in classes:
                for apiv in (versions if (len(subsets) <= 64 or thorough) else [rng.choice(versions)]):
                    kwargs = {}
                    for i, p in enumerate(required):
                        kwargs[p.name] = 77 if p.name == "key" else value(str(p.annotation), p.name, 20 + i, "typical" if cls == "falsy" and p.name != "state" else cls)
                    for i in ss:
                        p = optional[i]
                        c = cls if not thorough else rng.choice(["falsy", "typical", "extreme", cls])
                        kwargs[p.name] = value(str(p.annotation), p.name, i, c)
                    check_call(method, mname, kwargs, apiv)
                    # history: the same call again without the optional arguments must carry none of them (a request
                    # object or a default kept from an earlier call would show here)
                    if ss and (len(subsets) <= 64 or rng.random() < 0.2):
                        dist["bare_followups"] += 1
                        check_call(method, mname, {p.name: kwargs[p.name] for p in required}, apiv)
    # legacy cover: exact open/close positions
    for apiv in [(1, 0), (0, 5), (1, 1)]:
        for pos in (1.0, 0.0, 0.5, None):
            for stop in (False, True):
                kw = {"key": 5, "stop": stop}
                if pos is not None:
                    kw["position"] = pos
                check_call("cover_command", "CoverCommandRequest", kw, apiv)
    # execute_service: integer arguments around 1.3, every argument type
    AT = M.UserServiceArgType
    svc = M.UserService(name="s", key=9, args=[
        M.UserServiceArg(name="b", type=AT.BOOL), M.UserServiceArg(name="i", type=AT.INT), M.UserServiceArg(name="f", type=AT.FLOAT),
        M.UserServiceArg(name="s", type=AT.STRING), M.UserServiceArg(name="ba", type=AT.BOOL_ARRAY), M.UserServiceArg(name="ia", type=AT.INT_ARRAY),
        M.UserServiceArg(name="fa", type=AT.FLOAT_ARRAY), M.UserServiceArg(name="sa", type=AT.STRING_ARRAY)])
    for apiv in [(1, 0), (1, 2), (1, 3), (1, 4), (1, 10), (2, 0), (2, 2), (2, 3), (0, 99)]:
        for ival in (0, 5, -7, 2 ** 31 - 1):
            client, conn, tr, loop = live.make_client(api_version=apiv)
            data = {"b": ival % 2 == 0, "i": ival, "f": 0.25, "s": "x", "ba": [True, False], "ia": [1, ival], "fa": [0.5], "sa": ["p", ""]}
            try:
                client.execute_service(svc, data)
            except Exception as e:  # noqa: BLE001
                ck.violation("c15:raised:execute_service", f"execute_service at API {apiv} with one argument of every type raised "
                             f"{type(e).__name__}: {e}", {"api_version": list(apiv), "i": ival})
                continue
            try:
                msg = decode_one(tr)
            except WrongFrames as e:
                ck.violation("c15:frames:execute_service", f"execute_service wrote {len(e.args[0])} frames, not exactly one request", {"api_version": list(apiv)})
                continue
            dist["service_calls"] += 1
            lines.append(f"cmd.svcint {apiv[0]} {apiv[1]}")
            a = msg.args[1]
            used = "int_" if (a.int_ != 0 or (ival == 0 and apiv >= (1, 3))) and a.legacy_int == 0 else "legacy_int"
            if ival == 0:
                used = "int_" if apiv >= (1, 3) else "legacy_int"   # proto3 cannot show which field carried a zero
            impl.append([used])
            metas.append(("execute_service", {"i": ival}, apiv))
            want_field = "int_" if apiv >= (1, 3) else "legacy_int"
            ok = (getattr(a, want_field) == ival and getattr(a, "legacy_int" if want_field == "int_" else "int_") == 0
                  and msg.key == 9 and msg.args[0].bool_ == data["b"] and msg.args[2].float_ == 0.25 and msg.args[3].string_ == "x"
                  and list(msg.args[4].bool_array) == data["ba"] and list(msg.args[5].int_array) == data["ia"]
                  and list(msg.args[6].float_array) == data["fa"] and list(msg.args[7].string_array) == data["sa"])
            if not ok:
                ck.violation(f"c15:execute_service:{'>=1.3' if apiv >= (1, 3) else '<1.3'}",
                             f"execute_service at API {apiv} with i={ival}: arguments {msg.args}", {"api_version": list(apiv), "i": ival})
    # execute_service, whole calls: random signatures (any types in any order, repeated names, an unknown type number), data
    # with non-default values (so that the field that carried each one is visible after decoding), some values missing
    TY = {"b": AT.BOOL, "i": AT.INT, "f": AT.FLOAT, "s": AT.STRING, "B": AT.BOOL_ARRAY, "I": AT.INT_ARRAY, "F": AT.FLOAT_ARRAY,
          "S": AT.STRING_ARRAY, "u": 99}

    def sval(code, k):
        return {"b": True, "i": 3 + k, "f": 0.5 + k, "s": f"v{k}", "B": [True, False, True][: 1 + k % 3], "I": [k + 1, -k - 2],
                "F": [0.25 + k], "S": [f"x{k}", "y"]}.get(code, 1)

    def stok(v):
        if isinstance(v, (list, tuple)) or hasattr(v, "extend"):
            return "[" + ",".join(stok(x) for x in v) + "]"
        if isinstance(v, bool):
            return "T" if v else "F"
        if isinstance(v, float):
            return f"q{Fraction(v).numerator}/{Fraction(v).denominator}"
        if isinstance(v, int):
            return f"n{v}"
        return "s" + str(v).encode().hex()

    for _ in range(1500 if thorough else 300):
        apiv = rng.choice([(1, 0), (1, 2), (1, 3), (1, 4), (1, 10), (2, 0), (2, 2), (0, 99), (3, 1)])
        n = rng.randrange(0, 7)
        codes = [rng.choice("bifsBIFS" * 4 + "u") if rng.random() < 0.9 else "i" for _ in range(n)]
        names = [rng.choice(["a", "b", "c", "d", "e", "f", "g"]) for _ in range(n)]
        data, toks = {}, []
        vals = {}
        for k, (nm_, c) in enumerate(zip(names, codes)):
            if nm_ not in vals:
                vals[nm_] = None if rng.random() < 0.04 else sval(c, k)   # (a repeated name keeps the value of its first type)
        # a repeated name must carry a value every one of its types accepts: give repeated names one type
        first = {}
        for i_, nm_ in enumerate(names):
            first.setdefault(nm_, codes[i_])
            if codes[i_] != "u":
                codes[i_] = first[nm_] if first[nm_] != "u" else codes[i_]
        for nm_ in vals:
            c = first[nm_]
            if vals[nm_] is not None:
                vals[nm_] = sval(c if c != "u" else "i", len(nm_) + ord(nm_[0]) % 5)
                data[nm_] = vals[nm_]
        svc2 = M.UserService(name="s", key=11, args=[M.UserServiceArg(name=nm_, type=TY[c]) for nm_, c in zip(names, codes)])
        line = f"cmd.svc {apiv[0]} {apiv[1]} " + " ".join(f"{nm_}:{c}:{stok(vals[nm_]) if vals[nm_] is not None else '-'}" for nm_, c in zip(names, codes))
        client, conn, tr, loop = live.make_client(api_version=apiv)
        try:
            client.execute_service(svc2, data)
            msg = decode_one(tr)
            got = []
            for a in msg.args:
                lf = a.ListFields()
                got.append("+".join(f"{fd.name}={stok(v)}" for fd, v in lf))
            obs = ("ok " + " ".join(got)).strip() if got else "ok "
            if msg.key != 11 or len(msg.args) != n:
                ck.violation("c15:execute_service:shape", f"execute_service sent key {msg.key} with {len(msg.args)} arguments for {n} declared", {"line": line})
        except Exception as e:  # noqa: BLE001
            obs = "raises"
            if "u" not in codes and all(v is not None for v in vals.values()):
                ck.violation("c15:raised:execute_service", f"execute_service at API {apiv} raised {type(e).__name__}: {e} for a call "
                             f"with every declared argument supplied [{line}]", {"line": line, "api_version": list(apiv)})
            if tr.writes:
                ck.violation("c15:execute_service:written-then-raised", f"execute_service raised {type(e).__name__} after writing", {"line": line})
        dist["service_calls"] += 1
        # --- spec on the implementation, from the property text: each supplied value in the field of its declared type
        if obs != "raises":
            fieldof = {"b": "bool_", "f": "float_", "s": "string_", "B": "bool_array", "I": "int_array", "F": "float_array",
                       "S": "string_array", "i": "int_" if apiv >= (1, 3) else "legacy_int"}
            want = "ok " + " ".join(f"{fieldof.get(c, '?')}={stok(vals[nm_])}" for nm_, c in zip(names, codes))
            if obs.strip() != want.strip():
                ck.violation("c15:execute_service:args", f"execute_service at API {apiv}: sent [{obs}] for the call [{line}], the declared types prescribe [{want}]",
                             {"line": line, "api_version": list(apiv)})
        lines.append(line.strip())
        impl.append([obs.strip()])
        metas.append(("execute_service", line, apiv))
    # the version that decides the encoding is the one negotiated by the session the command is sent on: one client, a
    # session at version A that ends (device hangs up / EOF / reset / local disconnect), a second session at version B
    import simnet
    dist["cross_session_calls"] = 0
    CROSS = [((1, 0), (1, 9)), ((1, 9), (1, 0)), ((1, 4), (1, 5)), ((1, 5), (1, 4)), ((1, 10), (0, 9)), ((1, 2), (1, 3)), ((1, 3), (1, 2))]
    ENDS = ["peer", "eof", "reset", "disconnect", "force"]
    for ci, (va, vb) in enumerate(CROSS):
        for ei, end in enumerate(ENDS):
            net, client, conn, stops = simnet.established(api=va)
            loop = net.loop
            try:
                _ = client.api_version          # (the application looks at the version of the first session)
                client.cover_command(key=1, position=0.5)
                if end == "peer":
                    net.send(pb.DisconnectRequest())
                elif end == "eof":
                    net.eof()
                elif end == "reset":
                    net.reset(OSError(104, "reset"))
                else:
                    simnet.spawn(loop, client.disconnect(force=(end == "force")), "disc")
                    loop.run_idle()
                    net.send(pb.DisconnectResponse())
                loop.run_idle()

                async def on_stop2(expected):
                    pass

                o = simnet.spawn(loop, client.connect(on_stop=on_stop2, login=False), "connect2")
                loop.run_idle()
                net.send(simnet.hello_response(vb[0], vb[1]))
                loop.run_idle()
                if o.cls() != "ok":
                    raise common.LibraryMisbehaved("session-not-established", f"a second session of the same client (first ended by {end}) could "
                                                   f"not be established: connect() ended as {o.cls()}")
                calls = [("cover_command", "CoverCommandRequest", {"key": 3, "position": 0.25, "tilt": 0.75}),
                         ("cover_command", "CoverCommandRequest", {"key": 3, "stop": True}),
                         ("climate_command", "ClimateCommandRequest", {"key": 4, "preset": M.ClimatePreset.AWAY}),
                         ("climate_command", "ClimateCommandRequest", {"key": 4, "preset": M.ClimatePreset.HOME, "target_temperature": 21.5})]
                for method, mname, kwargs in calls:
                    n0 = len(net.written())
                    getattr(client, method)(**kwargs)
                    wr = net.written()[n0:]
                    dist["cross_session_calls"] += 1
                    if len(wr) != 1:
                        ck.violation(f"c15:frames:{method}", f"{method}({kwargs}) on the second session wrote {len(wr)} frames", {"method": method})
                        continue
                    m = MESSAGE_TYPE_TO_PROTO[wr[0][1]]()
                    m.ParseFromString(wr[0][2])
                    got, want = msg_fields(m), oracle(mname, kwargs, vb)
                    if got != want:
                        ck.violation(f"c15:version-of-another-session:{method}", f"{method}({ {k: str(v) for k, v in kwargs.items()} }) on a session "
                                     f"that negotiated API {vb}, after an earlier session of the same client at API {va} (ended by {end}): request "
                                     f"carries {got}, the supplied arguments prescribe {want}",
                                     {"method": method, "kwargs": {k: str(v) for k, v in kwargs.items()}, "first_session_api": list(va),
                                      "second_session_api": list(vb), "first_session_ended_by": end})
            finally:
                net.close()
    # ---- model vs implementation
    outs = run_driver_parallel([lines[i::16] for i in range(16)])
    compared = 0
    for i in range(16):
        if outs[i] is None:
            ck.disagreement("driver failed", {})
            continue
        for l, m, o, meta in zip(lines[i::16], outs[i], impl[i::16], metas[i::16]):
            compared += 1
            mm = norm_model(m) if not l.startswith("cmd.svc") else [m.strip()]
            if l.startswith("cmd.enc") or l.startswith("cmd.cover") or l.startswith("cmd.preset"):
                mm = [t for t in mm if not (l.startswith("cmd.cover") and t.startswith("key="))]
            if mm != o:
                ck.disagreement("command model != implementation", {"op": l[:300], "model": mm, "impl": o, "call": str(meta)[:300]})
    ck.coverage.update({
        "evaluations": dist["calls"] + dist["service_calls"], "model_ops_compared": compared,
        "distinct_nontrivial": len(set(lines)),
        "rule": "case = (command, subset of optional arguments, value class per call, negotiated API version); EVERY subset of "
                "every command's optional arguments is exercised (light: 4096, climate: 1024); distinct by the model operation line",
        "traces_validated_against_impl": compared,
        "samples": lines[:2] + lines[len(lines) // 2: len(lines) // 2 + 2],
        "distribution": dist, "exhaustive": False,
        "exhaustive_subspaces": {"all subsets of optional arguments of all 18 commands": True},
    })
    ck.assumptions += ["float arguments are float32-exact; durations are dyadic so that x*1000 is exact in binary64 "
                       "(genuine ties such as 0.0625 s = 62.5 ms included)"]
