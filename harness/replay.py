"""./check replay <file> — re-run a replay file against the current tree.

A replay names the property, the seed/tier that found it and the key (stable identity of the failing input /
scenario / obligation).  Modules that can re-run a single stored input implement `replay(ck, body) -> bool`;
otherwise the property's generator is re-run with the recorded seed and tier (every generator is a pure
function of the seed) and the replay "still fails" iff a violation with the same key is reported again.
Exit 1 iff the implementation still falsifies the spec on it, 0 if not, 2 on a usage problem.
"""
from __future__ import annotations

import importlib
import json
import os
import sys


def main(args) -> int:
    if not args:
        print("usage: ./check replay <file>", file=sys.stderr)
        return 2
    path = args[0]
    if not os.path.exists(path):
        alt = os.path.join(os.path.dirname(os.path.dirname(os.path.abspath(__file__))), path)
        if not os.path.exists(alt):
            print(f"no such replay file: {path}", file=sys.stderr)
            return 2
        path = alt
    body = json.load(open(path))
    pid = body["property"]
    os.environ["VERIF_SEED"] = str(body.get("seed", 0))
    from check import REGISTRY
    from common import Check

    modname, lean_modules = REGISTRY[pid]
    mod = importlib.import_module(modname)
    ck = Check(pid, body.get("tier", "quick"))
    ck.replaying = True
    if hasattr(mod, "pre"):
        mod.pre(ck)
    ck.prove(lean_modules)
    if hasattr(mod, "replay") and body.get("kind") != "obligation":
        still = bool(mod.replay(ck, body))
    else:
        try:
            mod.run(ck)
        except Exception as e:  # noqa: BLE001
            # the recorded failure was an exception raised inside the library while a scenario drove it: it recurs iff the
            # same exception class comes out again
            if ":library-raised:" in str(body.get("key", "")) and type(e).__name__ == body.get("exception"):
                ck.violation(body["key"], "raised again", {})
            else:
                raise
        if body.get("kind") == "obligation":
            still = bool(ck.proof_problems or ck.corr_problems or ck.violations)
        else:
            still = any(v.key == body.get("key") for v in ck.violations)
    print(f"[{pid}] replay {os.path.basename(path)}: " + ("STILL FAILS" if still else "no longer fails"))
    if still:
        print(f"VIOLATION property={pid} replay={path}")
    return 1 if still else 0
