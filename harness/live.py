"""A live authenticated plaintext session around the real APIClient/APIConnection without the connect
phase: the connection object is put into CONNECTED state with a real plaintext helper and a fake
transport.  Used by the sweeps that only need 'a session is up' (C13 usage, C15 commands, C16/C17)."""
from __future__ import annotations
import common

import asyncio

from aioesphomeapi import APIClient
from aioesphomeapi._frame_helper.plain_text import APIPlaintextFrameHelper
from aioesphomeapi.connection import CONNECTION_STATE_CONNECTED, APIConnection
from aioesphomeapi.model import APIVersion

import fh


def decode_plain(data: bytes):
    """independent strict decoder of plaintext frames -> [(type, payload)]"""
    out, pos = [], 0

    def varint():
        nonlocal pos
        shift = val = 0
        while True:
            b = data[pos]
            pos += 1
            val |= (b & 0x7F) << shift
            if not b & 0x80:
                return val
            shift += 7

    while pos < len(data):
        if data[pos] != 0:
            raise common.LibraryMisbehaved("malformed-plaintext-write", f"bytes written to the transport are not plaintext frames: {bytes(data[:24]).hex()}…")
        pos += 1
        ln = varint()
        ty = varint()
        out.append((ty, data[pos : pos + ln]))
        if pos + ln > len(data):
            raise common.LibraryMisbehaved("malformed-plaintext-write", f"a written plaintext frame announces {ln} payload bytes, {len(data) - pos} follow")
        pos += ln
    return out


def attach_session(client, api_version=(1, 10)):
    """a fresh authenticated session for an existing client (the previous one, if any, is replaced)"""
    stops = []
    conn = APIConnection(client._params, lambda expected: stops.append(expected), common.debug_flip(), "verif")
    tr = fh.FakeTransport()
    helper = APIPlaintextFrameHelper(connection=conn, client_info="verif", log_name="verif")
    helper.connection_made(tr)
    conn._frame_helper = helper
    conn._register_internal_message_handlers()
    conn._set_connection_state(CONNECTION_STATE_CONNECTED)
    conn.api_version = APIVersion(*api_version)
    client._connection = conn
    return conn, tr


def make_client(api_version=(1, 10), **kw):
    loop = fh.loop()
    client = APIClient("verif.local", 6053, None, **kw)
    conn, tr = attach_session(client, api_version)
    return client, conn, tr, loop


def spin(loop, n=3):
    for _ in range(n):
        loop.run_until_complete(asyncio.sleep(0))


def feed_message(conn, msg):
    """deliver a protobuf message to the connection as the frame helper would"""
    from aioesphomeapi.connection import PROTO_TO_MESSAGE_TYPE
    conn.process_packet(PROTO_TO_MESSAGE_TYPE[type(msg)], msg.SerializeToString())
