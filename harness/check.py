"""./check <PROPERTY> [--tier quick|thorough]      run one property check
   ./check replay <file>                          re-run a replay file against the current tree
"""
from __future__ import annotations

import argparse
import importlib
import os
import sys
import traceback

sys.path.insert(0, os.path.dirname(os.path.abspath(__file__)))

from common import Check  # noqa: E402

# property -> (python module, Lean modules whose theorems are the obligations)
REGISTRY = {
    "C01": ("c01", ["Esp.Props.C01"]),
    "C02": ("c02", ["Esp.Props.C02"]),
    "C03": ("c03", ["Esp.Props.C03"]),
    "C04": ("c04", ["Esp.Props.C04"]),
    "C05": ("c05", ["Esp.Props.C05"]),
    "C06": ("c06", ["Esp.Props.C06"]),
    "C07": ("c07", ["Esp.Props.C07"]),
    "C08": ("c08", ["Esp.Props.C08"]),
    "C09": ("c09", ["Esp.Props.C09"]),
    "C10": ("c10", ["Esp.Props.C10"]),
    "C11": ("c11", ["Esp.Props.C11"]),
    "C12": ("c12", ["Esp.Props.C12"]),
    "C13": ("c13", ["Esp.Props.C13"]),
    "C14": ("c14", ["Esp.Props.C14Tables", "Esp.Props.C14"]),
    "C15": ("c15", ["Esp.Props.C15"]),
    "C16": ("c16", ["Esp.Props.C16"]),
    "C17": ("c17", ["Esp.Props.C17"]),
    "C20": ("c20", ["Esp.Props.C20"]),
    "C18": ("c18", ["Esp.Props.C18"]),
    "C19": ("c19", ["Esp.Props.C19"]),
}


def main() -> int:
    ap = argparse.ArgumentParser()
    ap.add_argument("pid")
    ap.add_argument("rest", nargs="*")
    ap.add_argument("--tier", default=os.environ.get("VERIF_TIER", "quick"))
    a = ap.parse_args()
    if a.pid == "replay":
        import replay
        return replay.main(a.rest)
    pid = a.pid.upper()
    if pid not in REGISTRY:
        print(f"unknown property {pid}", file=sys.stderr)
        return 2
    modname, lean_modules = REGISTRY[pid]
    ck = Check(pid, a.tier if a.tier in ("quick", "thorough") else "quick")
    mod = importlib.import_module(modname)
    try:
        if hasattr(mod, "pre"):
            mod.pre(ck)  # regenerate Gen/*.lean from /repo
        ck.prove(lean_modules)
        mod.run(ck)
    except Exception as e:  # noqa: BLE001
        traceback.print_exc()
        # An exception the harness did not anticipate.  If it was RAISED INSIDE THE LIBRARY under test (innermost frame in
        # <repo>/aioesphomeapi) while a scenario was driving it, the implementation left the behaviour every scenario of this
        # check has on the unchanged tree: that is a concrete failing execution (the traceback is the replay).  If it was
        # raised in the harness itself it is a fault of the machinery: exit 2, no verdict.
        import common
        if isinstance(e, common.LibraryMisbehaved):
            ck.violation(f"{pid.lower()}:{e.key}", e.what + " (the remaining scenarios of this run were not executed)", dict(e.detail))
            return ck.finish()
        tb = traceback.extract_tb(e.__traceback__)
        lib = str(common.REPO.resolve() / "aioesphomeapi")
        inner = tb[-1] if tb else None
        if inner is not None and str(os.path.realpath(inner.filename)).startswith(lib):
            frames = [f"{os.path.relpath(f.filename, str(common.REPO.resolve())) if f.filename.startswith(str(common.REPO.resolve())) else os.path.basename(f.filename)}:{f.lineno} {f.name}" for f in tb]
            ck.violation(f"{pid.lower()}:library-raised:{type(e).__name__}:{os.path.basename(inner.filename)}:{inner.name}",
                         f"while the check was driving the implementation, {os.path.basename(inner.filename)}:{inner.lineno} ({inner.name}) raised "
                         f"{type(e).__name__}: {e} - on the unchanged tree no scenario of this check does",
                         {"exception": type(e).__name__, "message": str(e)[:500], "traceback": frames,
                          "note": "the scenario is the call chain above (harness frames name the generator and the operation); "
                                  "the remaining scenarios of this run were not executed"})
            return ck.finish()
        print(f"[{pid}] internal error in the check machinery (exit 2, not a verdict)", file=sys.stderr)
        return 2
    return ck.finish()


if __name__ == "__main__":
    sys.exit(main())
