"""C14 — models mirror the wire schema; conversion is total and value-preserving.

tables     : translator (Gen/Enums.lean, Gen/Fields.lean) + theorems of Esp.Props.C14Tables
conversion : Esp.Convert (Lean driver) vs Model.from_pb / to_dict / from_dict on generated messages
search     : the same table comparison in Python on the running modules (concrete failing member),
             and an exact-rational oracle for the 7-significant-digit float presentation
"""
from __future__ import annotations

import dataclasses
import math
import struct
from fractions import Fraction

import translate
from common import Check, run_driver_parallel


def pre(ck: Check):
    ck._c14 = translate.run()


def name_rule(wire: str, model: str) -> bool:
    return wire == model or wire.endswith("_" + model)


def table_search(ck: Check, info):
    """find the concrete enum member / class field on which the table theorems fail"""
    import aioesphomeapi.model as M
    from aioesphomeapi import api_pb2
    n = 0
    wire = dict(info["proto"]["text"][2])
    for p in info["enums"]["problems"] + info["fields"]["problems"]:
        ck.violation("unpaired:" + p, p, {"problem": p})
    for mname, wname in info["enums"]["enumPairs"]:
        members = info["enums"]["modelEnums"][mname]
        w = wire[wname]
        wnums = {v for _, v in w}
        seen = {}
        for mem, val in members:
            n += 1
            # confirm on the running module
            assert int(getattr(M, mname).__members__[mem].value) == val
            if val in seen:
                ck.violation(
                    f"enum-alias:{mname}.{mem}",
                    f"model enum {mname}: members {seen[val]} and {mem} share the number {val} (wire enum {wname}: "
                    f"{[k for k, v in w if v == val]}); {mname}({val}) can never be {mem}",
                    {"enum": mname, "member": mem, "value": val, "aliases": seen[val],
                     "wire_members": [[k, v] for k, v in w], "convert": repr(getattr(M, mname).convert(val))})
                continue
            seen[val] = mem
            if val not in wnums:
                ck.violation(f"enum-number:{mname}.{mem}", f"{mname}.{mem} = {val} is not a value of wire enum {wname}",
                             {"enum": mname, "member": mem, "value": val})
                continue
            wn = [k for k, v in w if v == val]
            if not any(name_rule(k, mem) for k in wn):
                ck.violation(f"enum-name:{mname}.{mem}", f"{mname}.{mem} = {val} names the wire value {wn[0]}",
                             {"enum": mname, "member": mem, "value": val, "wire_name": wn[0]})
        for k, v in w:
            n += 1
            if v not in {val for _, val in members}:
                # confirm: the wire value converts to None
                ck.violation(f"enum-missing:{mname}:{k}", f"wire value {wname}.{k} = {v} has no member in model enum {mname} "
                             f"({mname}.convert({v}) = {getattr(M, mname).convert(v)!r})",
                             {"enum": mname, "wire_member": k, "value": v})
    fields_text = dict(info["proto"]["text"][1])
    for cname, mname in info["fields"]["classPairs"]:
        n += 1
        cf = [f for f, _ in info["fields"]["modelClasses"][cname]]
        mf = [f[0] for f in fields_text[mname]]
        if set(cf) != set(mf):
            ck.violation(f"class-fields:{cname}", f"model class {cname} vs message {mname}: only in model {sorted(set(cf) - set(mf))}, "
                         f"only in message {sorted(set(mf) - set(cf))}", {"class": cname, "message": mname})
    ff, pf = info["fields"]["floatFields"], info["fields"]["pinnedFloatFields"]
    if sorted(map(tuple, ff)) != sorted(map(tuple, pf)):
        missing = sorted(set(map(tuple, pf)) - set(map(tuple, ff)))
        added = sorted(set(map(tuple, ff)) - set(map(tuple, pf)))
        ck.violation(f"float-fields:{missing}:{added}", f"designated float fields changed: converter dropped from {missing}, added to {added}",
                     {"dropped": missing, "added": added})
    return n


# ---------------------------------------------------------------------------------------------
# conversion correspondence


def f32bits(v: float) -> int:
    return struct.unpack("<I", struct.pack("<f", v))[0]


def tok_msg(msg) -> str:
    from google.protobuf.descriptor import FieldDescriptor as FD
    parts = [f"M{len(msg.DESCRIPTOR.fields)}"]

    def one(fd, v):
        t = fd.type
        if t == FD.TYPE_MESSAGE:
            return tok_msg(v)
        if t == FD.TYPE_BOOL:
            return "b1" if v else "b0"
        if t == FD.TYPE_STRING:
            return "s" + (v.encode().hex() or "-")
        if t == FD.TYPE_BYTES:
            return "y" + (bytes(v).hex() or "-")
        if t == FD.TYPE_FLOAT:
            return "f%08x" % f32bits(v)
        if t == FD.TYPE_DOUBLE:
            raise NotImplementedError("double field")
        return f"i{int(v)}"

    for fd in msg.DESCRIPTOR.fields:
        v = getattr(msg, fd.name)
        parts.append(fd.name)
        if fd.is_repeated:
            parts.append(f"L{len(v)}" + "".join(" " + one(fd, x) for x in v))
        else:
            parts.append(one(fd, v))
    return " ".join(parts)


def parse_m(toks, pos=0):
    """parse the driver's canonical model value into a Python tree"""
    t = toks[pos]
    tag, body = t[0], t[1:]
    if t in ("N", "ERR", "Fnan", "Finf", "F-inf", "F0", "F-0"):
        return (t,), pos + 1
    if tag == "i":
        return ("i", int(body)), pos + 1
    if tag == "b":
        return ("b", body == "1"), pos + 1
    if tag in "sy":
        return (tag, b"" if body == "-" else bytes.fromhex(body)), pos + 1
    if tag == "R":
        n, d = body.split("/")
        return ("R", Fraction(int(n), int(d))), pos + 1
    if tag == "e":
        e, v = body.split(":")
        return ("e", e, int(v)), pos + 1
    if tag == "L":
        out, pos = [], pos + 1
        for _ in range(int(body)):
            x, pos = parse_m(toks, pos)
            out.append(x)
        return ("L", out), pos
    if tag == "O":
        n = int(toks[pos + 1])
        out, pos = [], pos + 2
        for _ in range(n):
            name = toks[pos]
            x, pos = parse_m(toks, pos + 1)
            out.append((name, x))
        return ("O", body, out), pos
    if tag == "D":
        out, pos = [], pos + 1
        for _ in range(int(body)):
            k = toks[pos]
            x, pos = parse_m(toks, pos + 1)
            out.append((b"" if k == "-" else bytes.fromhex(k), x))
        return ("D", out), pos
    raise ValueError(t)


def same_float(tree, v) -> bool:
    if not isinstance(v, float):
        return False
    k = tree[0]
    if k == "Fnan":
        return v != v
    if k == "Finf":
        return v == math.inf
    if k == "F-inf":
        return v == -math.inf
    if k == "F0":
        return v == 0 and math.copysign(1, v) > 0
    if k == "F-0":
        return v == 0 and math.copysign(1, v) < 0
    if k == "R":
        return struct.pack("<d", float(tree[1])) == struct.pack("<d", v)
    return False


def cmp_tree(tree, obj, path=""):
    """None if the model's value equals the real object, else the path of the first difference"""
    import enum
    k = tree[0]
    if k == "ERR":
        return path + ": model says the conversion raises"
    if k == "N":
        return None if obj is None else f"{path}: model None, real {obj!r}"
    if k in ("Fnan", "Finf", "F-inf", "F0", "F-0", "R"):
        return None if same_float(tree, obj) else f"{path}: model {tree}, real {obj!r}"
    if k == "i":
        ok = isinstance(obj, int) and not isinstance(obj, (bool, enum.Enum)) and obj == tree[1]
        return None if ok else f"{path}: model int {tree[1]}, real {obj!r}"
    if k == "b":
        return None if isinstance(obj, bool) and obj == tree[1] else f"{path}: model bool {tree[1]}, real {obj!r}"
    if k == "s":
        return None if isinstance(obj, str) and obj.encode() == tree[1] else f"{path}: model str {tree[1]!r}, real {obj!r}"
    if k == "y":
        return None if isinstance(obj, (bytes, bytearray)) and bytes(obj) == tree[1] else f"{path}: model bytes, real {obj!r}"
    if k == "e":
        ok = isinstance(obj, enum.Enum) and type(obj).__name__ == tree[1] and int(obj) == tree[2]
        return None if ok else f"{path}: model {tree[1]}({tree[2]}), real {obj!r}"
    if k == "L":
        try:
            items = list(obj)
        except TypeError:
            return f"{path}: model list, real {obj!r}"
        if len(items) != len(tree[1]):
            return f"{path}: model list of {len(tree[1])}, real of {len(items)}"
        for i, (t, o) in enumerate(zip(tree[1], items)):
            r = cmp_tree(t, o, f"{path}[{i}]")
            if r:
                return r
        return None
    if k == "O":
        if type(obj).__name__ != tree[1] or not dataclasses.is_dataclass(obj):
            return f"{path}: model object {tree[1]}, real {type(obj).__name__}"
        names = [f.name for f in dataclasses.fields(obj)]
        if names != [n for n, _ in tree[2]]:
            return f"{path}: field lists differ"
        for n, t in tree[2]:
            r = cmp_tree(t, getattr(obj, n), f"{path}.{n}")
            if r:
                return r
        return None
    if k == "D":
        if not isinstance(obj, dict) or len(obj) != len({kk for kk, _ in tree[1]}):
            return f"{path}: model dict of {len(tree[1])}, real {obj!r}"
        for kk, t in tree[1]:
            if kk.decode() not in obj:
                return f"{path}: key {kk!r} missing"
        # later keys win, as in the dict comprehension
        last = {kk: t for kk, t in tree[1]}
        for kk, t in last.items():
            r = cmp_tree(t, obj[kk.decode()], f"{path}[{kk!r}]")
            if r:
                return r
        return None
    return f"{path}: unknown tree {tree}"


def float_patterns(ck: Check):
    rng, thorough = ck.rng, ck.tier == "thorough"
    pats = {0x00000000, 0x80000000, 0x7F800000, 0xFF800000, 0x7FC00000, 0x00000001, 0x007FFFFF, 0x00800000, 0x7F7FFFFF}
    for e in range(0, 255):
        for m in (0, 1, 0x400000, 0x7FFFFF, rng.getrandbits(23)):
            pats.add((e << 23) | m)
            pats.add(0x80000000 | (e << 23) | m)
    for k in range(-45, 39):
        b = f32bits(float(f"1e{k}")) if -45 <= k <= 38 else None
        if b is not None:
            for d in range(-3, 4):
                if 0 < b + d < 0x7F800000:
                    pats.add(b + d)
                    pats.add(0x80000000 | (b + d))
    for v in (0.1, 0.2, 0.3, 21.5, 21.55, 99.99999, 9.9999995, 1234567.5, 12345675.0, 0.05, 1e-7, 33.3333, 100.0, 999999.95):
        pats.add(f32bits(v))
    for _ in range(400000 if thorough else 12000):
        pats.add(rng.getrandbits(32))
    return sorted(pats)


def exact_fix7(bits: int):
    """independent exact-rational oracle of the 7-significant-digit presentation (spec of c14_fix7)"""
    v = struct.unpack("<f", struct.pack("<I", bits))[0]
    if v == 0 or v != v or abs(v) == math.inf:
        return None
    x = Fraction(v)
    a = abs(x)
    l = 0
    while Fraction(10) ** l < a:
        l += 1
    while Fraction(10) ** (l - 1) >= a:
        l -= 1
    q = Fraction(10) ** (7 - l)
    y = x * q
    r = math.floor(y)
    d = y - r
    if d > Fraction(1, 2) or (d == Fraction(1, 2) and r % 2 == 1):
        r += 1
    return Fraction(r) / q, l


def conversion(ck: Check, info):
    """(ops, checker callbacks) for the model-vs-implementation run + spec search on the implementation"""
    import aioesphomeapi.model as M
    from aioesphomeapi import api_pb2
    from aioesphomeapi.util import fix_float_single_double_conversion
    import protogen
    rng, thorough = ck.rng, ck.tier == "thorough"
    ops, checks = [], []
    stats = {"floats": 0, "messages": 0, "roundtrips": 0, "classes": 0}
    # 1. floats: model vs implementation, and implementation vs the exact oracle
    for bits in float_patterns(ck):
        v = struct.unpack("<f", struct.pack("<I", bits))[0]
        real = fix_float_single_double_conversion(v)
        stats["floats"] += 1
        ora = exact_fix7(bits)
        if ora is None:
            ok = (real != real and v != v) or struct.pack("<d", real) == struct.pack("<d", v)
        else:
            d, l = ora
            ok = struct.pack("<d", float(d)) == struct.pack("<d", real)
            # the spec itself: at most 7 significant digits, within half a unit of the 7th digit
            assert abs(d - Fraction(v)) <= Fraction(1, 2) * Fraction(10) ** (l - 7)
        if not ok:
            ck.violation(f"float7:{bits:08x}", f"fix_float_single_double_conversion({v!r}) = {real!r}, the value rounded to 7 "
                         f"significant digits is {float(ora[0]) if ora else v!r}", {"bits": f"{bits:08x}", "value": repr(v), "result": repr(real)})
        ops.append(f"conv.float7 {bits:08x}")
        checks.append((lambda out, real=real: None if same_float(parse_m(out.split(" "))[0], real) else f"model {out}, real {real!r}"))
    # 1b. the function must be a FUNCTION: the result for a value may not depend on what was converted before
    # (values that compare equal but are different floats: the two zeros; and plain repetition)
    seqs = [[0x00000000, 0x80000000, 0x00000000], [0x80000000, 0x00000000, 0x80000000],
            [f32bits(21.55), 0x80000000, f32bits(21.55), 0x00000000], [0x7FC00000, 0xFFC00000, 0x7FC00000]]
    for sq in seqs:
        outs_ = []
        for bits in sq:
            v = struct.unpack("<f", struct.pack("<I", bits))[0]
            outs_.append((bits, v, fix_float_single_double_conversion(v)))
        for bits, v, real in outs_:
            ora = exact_fix7(bits)
            want = float(ora[0]) if ora is not None else v
            ok = (real != real and v != v) or struct.pack("<d", want) == struct.pack("<d", real)
            if not ok:
                ck.violation(f"float7-history:{bits:08x}", f"fix_float_single_double_conversion({v!r}) = {real!r} when converted in the "
                             f"sequence {[f'{b:08x}' for b in sq]} (expected {want!r}: zero, infinities and NaN unchanged, sign included)",
                             {"sequence": [f"{b:08x}" for b in sq], "bits": f"{bits:08x}", "result": repr(real)})
    # 2. every paired class: from_pb on generated messages
    mods = {n: getattr(M, n) for n, _ in info["fields"]["classPairs"]}
    wire2model = {w: m for m, w in info["enums"]["enumPairs"]}
    families = (M.EntityInfo, M.EntityState, M.DeviceInfo, M.UserService, M.UserServiceArg)
    n_per = 40 if thorough else 8
    order_items = []
    from google.protobuf.descriptor import FieldDescriptor as FD
    for cname, mname in info["fields"]["classPairs"]:
        cls, pb = mods[cname], getattr(api_pb2, mname)
        stats["classes"] += 1
        for j in range(n_per):
            msg = protogen.random_message(pb, rng, p_set=[0.0, 1.0, 0.7, 0.5][j % 4])
            # repeated scalar fields with REPEATED values (a list is a list, not a set); key/value maps with EMPTY values
            if j % 4 == 1:
                for fd in pb.DESCRIPTOR.fields:
                    if fd.is_repeated and fd.type == FD.TYPE_MESSAGE and {"key", "value"} <= set(fd.message_type.fields_by_name) \
                            and fd.message_type.fields_by_name["value"].type == FD.TYPE_STRING:
                        e_ = getattr(msg, fd.name).add()
                        e_.key, e_.value = f"empty{j}", ""
                        e2_ = getattr(msg, fd.name).add()
                        e2_.key, e2_.value = "", "v"
                for fd in pb.DESCRIPTOR.fields:
                    if fd.is_repeated and fd.type not in (FD.TYPE_MESSAGE,):
                        lst = getattr(msg, fd.name)
                        if len(lst) == 0 and fd.type == FD.TYPE_STRING:
                            lst.append("dup")
                        if len(lst) > 0:
                            lst.extend([lst[0], lst[-1], lst[0]])
            # unknown enum numbers - in nested messages too (every element of a repeated message field is kept; only ITS enum
            # field becomes None)
            if j % 3 == 2:
                def inject_nested(m, depth=0):
                    for fd in m.DESCRIPTOR.fields:
                        if fd.type != FD.TYPE_MESSAGE or depth > 2:
                            continue
                        subs = list(getattr(m, fd.name)) if fd.is_repeated else ([getattr(m, fd.name)] if m.HasField(fd.name) else [])
                        if fd.is_repeated and len(subs) < 3 and any(f2.type == FD.TYPE_ENUM for f2 in fd.message_type.fields):
                            for _x in range(3 - len(subs)):
                                getattr(m, fd.name).add().CopyFrom(protogen.random_message(getattr(api_pb2, fd.message_type.name), rng, p_set=0.7))
                            subs = list(getattr(m, fd.name))
                        for k_, sub in enumerate(subs):
                            for f2 in sub.DESCRIPTOR.fields:
                                if f2.type == FD.TYPE_ENUM and not f2.is_repeated and k_ % 2 == (j // 3) % 2:
                                    nums2 = sorted(v.number for v in f2.enum_type.values)
                                    setattr(sub, f2.name, rng.choice([x for x in range(0, nums2[-1] + 2) if x not in nums2] + [2**31 - 1]))
                            inject_nested(sub, depth + 1)
                inject_nested(msg)
                for fd in pb.DESCRIPTOR.fields:
                    if fd.type == FD.TYPE_ENUM:
                        nums = sorted(v.number for v in fd.enum_type.values)
                        unk = [x for x in range(0, nums[-1] + 2) if x not in nums] + [2**31 - 1]
                        if fd.is_repeated:
                            del getattr(msg, fd.name)[:]
                            # unknown numbers first / in the middle / last, varying per message
                            shapes = ([unk[0], nums[0], nums[-1], unk[-1]], [nums[0], unk[0], nums[-1], unk[-1]],
                                      [unk[-1], unk[0], nums[-1]], [nums[0], nums[-1], unk[0]])
                            getattr(msg, fd.name).extend(shapes[(j // 3) % 4])
                        else:
                            setattr(msg, fd.name, rng.choice(unk))
            stats["messages"] += 1
            try:
                obj = cls.from_pb(msg)
                err = None
            except Exception as e:  # noqa: BLE001
                obj, err = None, e
            if err is not None:
                ck.violation(f"from-pb-raises:{cname}", f"{cname}.from_pb raised {type(err).__name__}: {err} on a valid {mname}",
                             {"class": cname, "message": mname, "payload": msg.SerializeToString().hex()})
                continue
            order_items.append((cname, mname, msg.SerializeToString().hex(), repr(obj)))
            ops.append(f"conv.frompb {cname} {tok_msg(msg)}")
            checks.append(lambda out, obj=obj: cmp_tree(parse_m(out.split(" "))[0], obj, type(obj).__name__))
            # spec on the implementation: identity fields preserved, enums -> member or None
            for f in dataclasses.fields(cls):
                kind = dict(info["fields"]["modelClasses"][cname])[f.name]
                wv, mv = getattr(msg, f.name), getattr(obj, f.name)
                fd = pb.DESCRIPTOR.fields_by_name[f.name]
                if kind == "id" and fd.type != FD.TYPE_FLOAT and not fd.is_repeated and fd.type != FD.TYPE_MESSAGE:
                    if mv != wv or type(mv) is not type(wv):
                        ck.violation(f"field-value:{cname}.{f.name}", f"{cname}.from_pb changed {f.name}: wire {wv!r}, model {mv!r}",
                                     {"class": cname, "field": f.name, "payload": msg.SerializeToString().hex()})
                # the enum a field is converted with is given by the WIRE field's enum type (through the enum pairing), not by
                # whatever converter the model class happens to name
                if kind.startswith(("enum:", "enumlist:")) and fd.enum_type is not None:
                    paired = wire2model.get(fd.enum_type.name)
                    if paired is not None and paired != kind.split(":", 1)[1]:
                        ck.violation(f"enum-field-type:{cname}.{f.name}", f"{cname}.{f.name} carries the wire enum {fd.enum_type.name} (model enum "
                                     f"{paired}) but is converted with {kind.split(':', 1)[1]}", {"class": cname, "field": f.name})
                        kind = kind.split(":", 1)[0] + ":" + paired
                if kind.startswith("enum:"):
                    members = {int(x) for x in getattr(M, kind[5:])}
                    want = getattr(M, kind[5:])(wv) if wv in members else None
                    if mv is not want:
                        ck.violation(f"enum-field:{cname}.{f.name}:{wv}", f"{cname}.from_pb: wire enum number {wv} became {mv!r}, "
                                     f"expected {want!r}", {"class": cname, "field": f.name, "value": wv})
                if fd.is_repeated and fd.type not in (FD.TYPE_FLOAT, FD.TYPE_MESSAGE, FD.TYPE_ENUM) and kind not in ("uuid", "map") \
                        and not kind.startswith(("enumlist:", "nested")) and isinstance(mv, (list, tuple)):
                    if list(mv) != list(wv):
                        ck.violation(f"list-field:{cname}.{f.name}", f"{cname}.from_pb changed the repeated field {f.name}: wire {list(wv)!r}, model "
                                     f"{list(mv)!r} (every element is kept, in order, repeats included)",
                                     {"class": cname, "field": f.name, "payload": msg.SerializeToString().hex()})
                if kind == "map" and fd.is_repeated and fd.type == FD.TYPE_MESSAGE:
                    want_map = {e.key: e.value for e in wv}
                    if dict(mv) != want_map:
                        ck.violation(f"map-field:{cname}.{f.name}", f"{cname}.from_pb: the wire map {f.name} {want_map!r} became {dict(mv)!r} "
                                     "(every entry is kept, empty values included)",
                                     {"class": cname, "field": f.name, "payload": msg.SerializeToString().hex()})
                if kind.startswith("nestedlist:"):
                    if len(mv) != len(wv):
                        ck.violation(f"nested-list-length:{cname}.{f.name}", f"{cname}.from_pb: the wire message lists {len(wv)} {kind[11:]} "
                                     f"entries, the model {len(mv)} (every element is kept; an unknown enum number inside one becomes None)",
                                     {"class": cname, "field": f.name, "payload": msg.SerializeToString().hex()})
                if kind.startswith("enumlist:"):
                    E = getattr(M, kind[9:])
                    members = {int(x) for x in E}
                    want = [E(x) for x in wv if x in members]
                    if list(mv) != want or any(a is not b for a, b in zip(mv, want)):
                        ck.violation(f"enum-list-field:{cname}.{f.name}", f"{cname}.from_pb: wire enum list {list(wv)} became {mv!r}, "
                                     f"expected the known members in order {want!r}",
                                     {"class": cname, "field": f.name, "value": list(wv), "payload": msg.SerializeToString().hex()})
            # to_dict / from_dict round trip for the four families
            if issubclass(cls, families):
                stats["roundtrips"] += 1
                try:
                    back = cls.from_dict(obj.to_dict())
                    ok = back == obj or _nan_equal(back, obj)
                except Exception as e:  # noqa: BLE001
                    ok, back = False, e
                if not ok:
                    ck.violation(f"roundtrip:{cname}", f"{cname}.from_dict(to_dict(x)) != x", {"class": cname, "payload": msg.SerializeToString().hex(),
                                                                                              "back": repr(back)[:300]})
    # 3. the conversion is a function of the message: the same payloads converted in a fresh interpreter in which the model
    # classes were first used in another order (bare base classes before any concrete class / concrete classes last to
    # first) must give the results judged above
    import inspect, json, os, subprocess, sys
    bases = [n for n, c in vars(M).items() if inspect.isclass(c) and dataclasses.is_dataclass(c) and c.__subclasses__()]
    stats["order_probes"] = 0
    for label, bare, items in (("bare base classes first", bases, order_items),
                               ("bare base classes first, concrete classes in reverse", bases, order_items[::-1]),
                               ("concrete classes in reverse", [], order_items[::-1])):
        try:
            pr = subprocess.run([sys.executable, os.path.join(os.path.dirname(os.path.abspath(__file__)), "c14_order.py")],
                                input=json.dumps({"bare": bare, "items": [list(i[:3]) for i in items]}), capture_output=True,
                                text=True, timeout=600, check=True)
            got = json.loads(pr.stdout)
        except Exception as e:  # noqa: BLE001
            raise RuntimeError(f"c14_order helper failed: {e}; {getattr(e, 'stderr', '')}") from e
        seen = set()
        for (cname, mname, hx, want), g in zip(items, got):
            stats["order_probes"] += 1
            if g != want and cname not in seen:
                seen.add(cname)
                ck.violation(f"order-dependent:{cname}", f"{cname}.from_pb gives another result for the same {mname} when the model classes "
                             f"were first used in another order ({label}): {g[:200]} instead of {want[:200]} - the conversion is not a "
                             "function of the message", {"class": cname, "message": mname, "payload": hx, "order": label,
                                                         "bare_first": bare, "result": g[:400], "expected": want[:400]})
    return ops, checks, stats


def _nan_equal(a, b):
    return repr(a) == repr(b)


def run(ck: Check):
    info = ck._c14
    n = table_search(ck, info)
    ops, checks, stats = conversion(ck, info)
    dis = 0
    if ck.driver_ok:
        nbk = 16
        outs = run_driver_parallel([ops[i::nbk] for i in range(nbk)])
        for b in range(nbk):
            if outs[b] is None:
                ck.disagreement("driver failed", {"batch": b})
                continue
            for op, out, chk in zip(ops[b::nbk], outs[b], checks[b::nbk]):
                try:
                    r = chk(out)
                except Exception as e:  # noqa: BLE001
                    r = f"unparsable model output {out[:80]!r}: {e}"
                if r:
                    dis += 1
                    ck.disagreement("conversion: model != implementation", {"op": op[:300], "diff": r[:300]})
    else:
        ck.disagreement("Lean driver unavailable (build failed): model not executed", {})
    n += len(ops)
    ck.coverage.update({
        "evaluations": n,
        "distinct_nontrivial": n - stats["classes"],
        "conversion": stats,
        "traces_validated_against_impl": len(ops) if ck.driver_ok else 0,
        "disagreements_checked": dis,
        "rule": "one evaluation = one enum member / wire enum value / class pair compared between model.py (reflection) and "
                "api.proto (text), one float32 bit pattern, or one generated message converted; distinct by key / bit pattern / "
                "payload; non-trivial = not the all-defaults message of a class",
        "enum_pairs": len(info["enums"]["enumPairs"]),
        "class_pairs": len(info["fields"]["classPairs"]),
        "regenerated": info["changed"],
        "samples": [list(p) for p in info["enums"]["enumPairs"][:3]] + [list(p) for p in info["fields"]["classPairs"][:3]],
    })
