"""C09 — bounded completion, classified errors, first cause wins (machinery: c05.py / connlts.py / connbench.py).
In addition to the shared pool, every scenario in which the environment falls silent is run on in VIRTUAL TIME until
nothing is armed any more: every awaited operation must then be finished, within its documented bound."""
import c05
import connlts


def run(ck):
    c05.run(ck, spec=lambda obs, lines, info: connlts.spec_c09(obs, lines, info),
            keys=("st", "fatal", "start", "finish", "disc"),
            what="connection LTS != implementation (error/outcome projection)", pid="C09", timed=True)
