"""C09 — bounded completion, classified errors, first cause wins (machinery: c05.py / connlts.py / connbench.py).
In addition to the shared pool, every scenario in which the environment falls silent is run on in VIRTUAL TIME until
nothing is armed any more: every awaited operation must then be finished, within its documented bound.

Timing correspondence (this file): the real start_connection / finish_connection (noise and plaintext) / disconnect are run
in virtual time under scripted environments - per guarded wait: answered after d seconds, failed after d seconds, or never
answered - and the instant and kind of their completion are compared with the Lean timing model (`tm.phase`) and with the
documented bounds."""
from __future__ import annotations

import itertools
from asyncio import tasks

from aioesphomeapi import api_pb2 as pb
from aioesphomeapi import core
from aioesphomeapi.connection import APIConnection, ConnectionParams
from aioesphomeapi.zeroconf import ZeroconfManager

import c05
import common
import connlts
import noisedev
import simnet

PSK = bytes(range(1, 33))


def mk_conn(noise, addresses=None):
    net = simnet.Net(base=500.0)
    net.auto_resolve = net.auto_sock = False
    params = ConnectionParams(addresses=list(addresses) if addresses else common.address_form(), port=6053, password=None, client_info="verif", keepalive=100000.0,
                              zeroconf_manager=ZeroconfManager(), noise_psk=noisedev.NoiseDevice.b64(PSK) if noise else None,
                              expected_name=None)
    conn = APIConnection(params, lambda e: None, common.debug_flip(), "verif")
    return net, conn


class Stamp:
    def __init__(self, loop, coro):
        self.loop, self.t0, self.t1 = loop, loop.time(), None
        self.task = tasks._PyTask(coro, loop=loop, eager_start=True)
        if self.task.done():
            self.t1 = loop.time()
        else:
            self.task.add_done_callback(lambda _t: setattr(self, "t1", loop.time()))

    def ending(self):
        t = self.task
        if not t.done():
            return None
        if t.cancelled():
            return "raw:CancelledError"
        e = t.exception()
        if e is None:
            return "success"
        if isinstance(e, core.TimeoutAPIError) or "imeout" in type(e).__name__:
            return "timeout"
        return "failed" if isinstance(e, core.APIConnectionError) else "raw:" + type(e).__name__


def adv(net, dt):
    net.loop.advance(dt)


def run_start(script, addresses=None, n_addr=1):
    net, conn = mk_conn(False, addresses)
    net.n_addr_infos = n_addr
    loop = net.loop
    st = Stamp(loop, conn.start_connection())
    loop.run_idle()
    stages = [("resolve", net.complete_resolve), ("sock", net.complete_sock)]
    for (name, complete), (o, d) in zip(stages, script):
        if st.task.done() or o == "silent":
            break
        adv(net, d)
        if st.task.done():
            break
        complete(OSError(111, "refused") if o == "err" else None)
        loop.run_idle()
    if not st.task.done():
        adv(net, 500.0)
    res = (st.t1 - st.t0 if st.t1 is not None else None, st.ending())
    for t in [st.task]:
        if t.done() and not t.cancelled():
            t.exception()
    net.close()
    return res


def run_finish(script, noise):
    net, conn = mk_conn(noise)
    loop = net.loop
    s0 = Stamp(loop, conn.start_connection())
    loop.run_idle(); net.complete_resolve(); loop.run_idle(); net.complete_sock(); loop.run_idle()
    if s0.ending() != "success":
        raise common.LibraryMisbehaved("start-connection", f"start_connection() with a resolver and a socket that answer at once ended as {s0.ending()}")
    st = Stamp(loop, conn.finish_connection(login=False))
    loop.run_idle()
    dev = None
    # wait 1: readiness of the frame helper (noise: the device's hello + handshake frames; plaintext: immediate)
    (o1, d1), (o2, d2) = (script + [("silent", 0), ("silent", 0)])[:2]
    ok1 = False
    if noise:
        if o1 != "silent":
            adv(net, d1)
            if not st.task.done():
                if o1 == "ok":
                    dev = noisedev.NoiseDevice(PSK, b"dev")
                    dev.read_client_hello(b"".join(d for _, d in net.tr.writes))
                    net.feed(noisedev.frame(dev.hello_body()) + noisedev.frame(dev.handshake_body()))
                    ok1 = True
                else:
                    net.tr._call_connection_lost(ConnectionResetError(104, "reset"))
                loop.run_idle()
    else:
        ok1 = True
    if ok1 and not st.task.done() and o2 != "silent":
        adv(net, d2)
        if not st.task.done():
            if o2 == "ok":
                hello = pb.HelloResponse(api_version_major=1, api_version_minor=10, name="dev", server_info="x")
                if noise:
                    net.feed(noisedev.frame(dev.seal(noisedev.inner(2, hello.SerializeToString()))[0]))
                else:
                    net.send(hello)
            else:
                net.tr._call_connection_lost(ConnectionResetError(104, "reset"))
            loop.run_idle()
    if not st.task.done():
        adv(net, 500.0)
    res = (st.t1 - st.t0 if st.t1 is not None else None, st.ending())
    for t in [s0.task, st.task]:
        if t.done() and not t.cancelled():
            t.exception()
    net.close()
    return res


def run_disc(script):
    net, client, conn, _ = simnet.established(keepalive=100000.0)
    loop = net.loop
    st = Stamp(loop, conn.disconnect())
    loop.run_idle()
    (o, d) = (script + [("silent", 0)])[0]
    if o != "silent":
        adv(net, d)
        if not st.task.done():
            if o == "ok":
                net.send(pb.DisconnectResponse())
            else:
                net.tr._call_connection_lost(ConnectionResetError(104, "reset"))
            loop.run_idle()
    if not st.task.done():
        adv(net, 500.0)
    # disconnect() itself never raises: a missing answer or a lost connection still ends in a closed connection
    res = (st.t1 - st.t0 if st.t1 is not None else None, st.ending())
    if st.task.done() and not st.task.cancelled():
        st.task.exception()
    net.close()
    return res


def timing(ck):
    rng, thorough = ck.rng, ck.tier == "thorough"
    lines, impl, meta = [], [], []
    delays = {"start": [[0, 1, 29, 30, 31], [0, 5, 59, 60, 61]], "finish": [[0, 2, 29, 30, 45], [0, 3, 29, 30, 31]], "disc": [[0, 4, 9, 10, 11]]}
    outcomes = ["ok", "err", "silent"]
    for kind in ("start", "finish-noise", "finish-plain", "disc"):
        base = kind.split("-")[0]
        per = []
        for i, ds in enumerate(delays[base]):
            if kind == "finish-plain" and i == 0:
                per.append([("ok", 0)])       # a plaintext helper is ready at once: the first wait is answered at 0
                continue
            per.append([(o, d) for o in outcomes for d in (ds if o != "silent" else [0])])
        scripts = list(itertools.product(*per))
        if not thorough:
            rng.shuffle(scripts)
            scripts = scripts[:40]
        # the connect bound holds whatever form the configured addresses have (IP literal, .local, bare name, DNS name, …)
        forms = common.ADDRESS_FORMS if kind == "start" else (None,)
        if kind == "start":
            # always part of the sample: the TCP connect that never completes, and the one that completes just in time
            for must in ([("ok", 0), ("silent", 0)], [("ok", 1), ("silent", 0)], [("ok", 0), ("ok", 59)], [("silent", 0), ("ok", 0)]):
                if tuple(must) not in [tuple(x) for x in scripts]:
                    scripts.append(tuple(must))
        for sc, form in itertools.product(scripts, forms):
            sc = list(sc)
            if kind == "start":
                # the documented bound is per connect, however many addresses the name resolved to (used where the TCP connect
                # does not fail: with several addresses a failed connect goes on to the next one)
                n_addr = 1 if len(sc) < 2 or sc[1][0] == "err" else 1 + (list(forms).index(form) % 2)   # one or two addresses
                dur, end = run_start(sc, form, n_addr)
            elif kind == "disc":
                dur, end = run_disc(sc)
            else:
                dur, end = run_finish(sc, noise=kind == "finish-noise")
            toks = " ".join(f"{o}:{d}" if o != "silent" else "silent" for o, d in sc)
            lines.append(f"tm.phase {base} 0 {toks}")
            impl.append((dur, end))
            meta.append((kind, sc if form is None else sc + [("addresses", list(form))]))
    out = common.run_driver(lines)
    bounds = {"start": 90.0, "finish": 60.0, "disc": 10.0}
    n = 0
    for l, m, (dur, end), (kind, sc) in zip(lines, out or [], impl, meta):
        n += 1
        base = kind.split("-")[0]
        rep = {"operation": kind, "script": sc, "observed_duration": dur, "observed_ending": end}
        if dur is None:
            ck.violation(f"c09:hang:{kind}", f"{kind} under script {sc} never completed (virtual time ran 500 s on)", rep)
            continue
        if dur > bounds[base] + 1e-6:
            ck.violation(f"c09:late:{kind}", f"{kind} under script {sc} completed after {dur:.3f} s, documented bound {bounds[base]} s", rep)
        if end.startswith("raw"):
            ck.violation(f"c09:raw:{kind}:{end}", f"{kind} under script {sc} let {end} escape", rep)
        mt, mend = m.split(" ")
        # disconnect() swallows the outcome of its wait: only the instant is compared; a timeout surfaces under different
        # library classes (ResolveAPIError for the resolver, TimeoutAPIError elsewhere): compared as success / no success
        same_end = True if base == "disc" else ((mend == "success") == (end == "success"))
        if abs(float(mt) - dur) > 1e-6 or not same_end:
            ck.disagreement("timing model != implementation", {**rep, "model": m})
    return n


def answered_calls(ck):
    """"request-response calls ... either with its result or with an error from the library's connection-error hierarchy":
    every awaiting APIClient entry point on a live session, the device answering with a message of each type the call
    subscribed to - same-named fields echoed from the request, every other field at its default or (second variant) booleans
    true and numbers 1; nothing but a result or an APIConnectionError may come out (bounded in virtual time)"""
    import inspect
    import apisurface
    import simnet
    from aioesphomeapi import api_pb2 as pb
    from aioesphomeapi.core import APIConnectionError, MESSAGE_TYPE_TO_PROTO
    from google.protobuf.descriptor import FieldDescriptor as FD
    n = 0
    seen = set()
    for name, fn in apisurface.entry_points():
        if not inspect.iscoroutinefunction(fn):
            continue
        # which types does the call subscribe to?  (probe once)
        for variant in ("defaults", "ones"):
            for pick in range(4):
                net, client, conn, _stops = simnet.established(keepalive=100000.0)
                loop = net.loop
                try:
                    before = {k: set(v) for k, v in conn._message_handlers.items()}
                    args, kwargs = apisurface.build_call(name, fn, all_optional=True)
                    n0 = len(net.written())
                    try:
                        coro = fn(client, *args, **kwargs)
                    except Exception:  # noqa: BLE001 — argument validation before anything is sent
                        break
                    o = simnet.spawn(loop, coro, "api")
                    loop.run_idle()
                    subs = sorted((k for k, v in conn._message_handlers.items() if set(v) - before.get(k, set())), key=lambda k: k.__name__)
                    if o.done or pick >= len(subs):
                        if not o.done:
                            o.task.cancel()
                            loop.run_idle()
                        o.cls()
                        break
                    last = None
                    for _t, ty, payload in net.written()[n0:]:
                        last = MESSAGE_TYPE_TO_PROTO[ty]()
                        last.MergeFromString(payload)
                    m = subs[pick]()
                    for fd in m.DESCRIPTOR.fields:
                        if fd.is_repeated or fd.message_type is not None:
                            continue
                        if last is not None and fd.name in last.DESCRIPTOR.fields_by_name and last.DESCRIPTOR.fields_by_name[fd.name].type == fd.type \
                                and not last.DESCRIPTOR.fields_by_name[fd.name].is_repeated:
                            setattr(m, fd.name, getattr(last, fd.name))
                        elif variant == "ones":
                            if fd.type == FD.TYPE_BOOL:
                                setattr(m, fd.name, True)
                            elif fd.type in (FD.TYPE_UINT32, FD.TYPE_INT32, FD.TYPE_UINT64, FD.TYPE_FIXED32, FD.TYPE_SINT32):
                                setattr(m, fd.name, 1)
                    net.send(m)
                    loop.run_idle()
                    for _ in range(14):
                        if o.done:
                            break
                        loop.advance(5.0)
                    n += 1
                    if not o.done:
                        ck.violation(f"c09:call-hangs:{name}", f"{name}() answered with {type(m).__name__} ({variant}) has not ended after 70 s of "
                                     "virtual time", {"entry": name, "answer": type(m).__name__, "variant": variant})
                        o.task.cancel()
                        loop.run_idle()
                        o.cls()
                    elif not o.task.cancelled() and o.task.exception() is not None and not isinstance(o.task.exception(), APIConnectionError):
                        e = o.task.exception()
                        key = f"c09:raw-escape:{name}:{type(e).__name__}"
                        if key not in seen:
                            seen.add(key)
                            ck.violation(key, f"{name}() answered by the device with {type(m).__name__} ({variant}: "
                                         f"{str(m).strip().replace(chr(10), ', ')[:120]}) let a raw {type(e).__name__} escape: {e}",
                                         {"entry": name, "answer": type(m).__name__, "variant": variant, "answer_payload": m.SerializeToString().hex()})
                finally:
                    net.close()
    return n


def run(ck):
    c05.run(ck, spec=lambda obs, lines, info: connlts.spec_c09(obs, lines, info),
            keys=("st", "fatal", "start", "finish", "disc"),
            what="connection LTS != implementation (error/outcome projection)", pid="C09", timed=True)
    n = timing(ck)
    ck.coverage["timing_scripts_compared"] = n
    ck.coverage["request_response_calls_answered"] = answered_calls(ck)
    ck.assumptions += ["timing scripts: one address, delays on a grid around each guard (0, small, bound-1, bound, bound+1); "
                       "disconnect is timed on an established session (its wait for a finish phase in progress is covered by the "
                       "shared pool and the bound check only)"]
