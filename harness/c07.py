"""C07 — stop callback exactly once per established session, with the right reason (see c05.py for the machinery)."""
import c05
import connlts


def run(ck):
    c05.run(ck, spec=lambda obs, lines, info: connlts.spec_c07(obs, lines), keys=("st", "stops"),
            what="connection LTS != implementation (stop-callback projection)", pid="C07")
