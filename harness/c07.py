"""C07 — stop callback exactly once per established session, with the right reason (see c05.py for the machinery)."""
import c05
import connlts


def client_level(ck):
    """"the stop callback GIVEN AT CONNECT TIME": through APIClient the callback belongs to the session it was given for.  A
    later connect() / start_connection() that is refused (a session is alive) or that starts the next session brings its own
    callback and must not take over the running session's."""
    import simnet
    from aioesphomeapi import api_pb2 as pb
    from aioesphomeapi.core import APIConnectionError

    n = 0
    for second in ("connect", "start_connection"):
        for other in ("callback", "none"):
            for ending in ("eof", "reset", "peer", "disconnect", "force"):
                a_calls, b_calls = [], []
                net = simnet.Net()
                loop = net.loop
                net.auto_resolve = net.auto_sock = True
                from aioesphomeapi.client import APIClient
                client = APIClient("10.0.0.1", 6053, None, keepalive=1e6)

                async def on_stop_a(expected):
                    a_calls.append(expected)

                async def on_stop_b(expected):
                    b_calls.append(expected)

                o = simnet.spawn(loop, client.connect(on_stop=on_stop_a, login=False), "connect")
                loop.run_idle()
                net.send(simnet.hello_response(1, 10, ""))
                loop.run_idle()
                refused = None
                cb = on_stop_b if other == "callback" else None
                coro = client.connect(on_stop=cb, login=False) if second == "connect" else client.start_connection(on_stop=cb)
                o2 = simnet.spawn(loop, coro, "second")
                loop.run_idle()
                exc2 = o2.task.exception() if o2.task.done() and not o2.task.cancelled() else None
                refused = isinstance(exc2, APIConnectionError)
                if ending == "eof":
                    net.eof()
                elif ending == "reset":
                    net.reset()
                elif ending == "peer":
                    net.send(pb.DisconnectRequest())
                elif ending == "disconnect":
                    d = simnet.spawn(loop, client.disconnect(), "disc")
                    loop.run_idle()
                    net.send(pb.DisconnectResponse())
                else:
                    simnet.spawn(loop, client.disconnect(force=True), "disc")
                loop.run_idle()
                loop.run_idle()
                want = [ending in ("peer", "disconnect", "force")]
                n += 1
                if o.cls() != "ok" or not refused or a_calls != want or b_calls:
                    ck.violation(f"c07:client-callback:{second}:{other}", f"session 1 connected with stop callback A (connect: {o.cls()}); a second "
                                 f"{second}() with {'callback B' if cb else 'no callback'} was {'refused' if refused else 'NOT refused: ' + repr(exc2)}; "
                                 f"then the session ended by {ending}: A called with {a_calls} (expected {want}), B called with {b_calls} (expected [])",
                                 {"second_call": second, "second_callback": other, "ending": ending, "a_calls": a_calls, "b_calls": b_calls})
                net.close()
    return n


def run(ck):
    c05.run(ck, spec=lambda obs, lines, info: connlts.spec_c07(obs, lines), keys=("st", "stops"),
            what="connection LTS != implementation (stop-callback projection)", pid="C07")
    ck.coverage["client_level_callback_binding_cases"] = client_level(ck)
