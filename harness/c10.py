"""C10 — keepalive: correspondence + spec search.

implementation : a session established through the real connect path (simnet), keepalive K, virtual time;
                 the harness owns the loop, runs one timer callback at a time and feeds device messages
model          : Esp.Keepalive via the Lean driver (`ka.*`): the harness replays exactly the atomic events the
                 real loop performed (message processed / keepalive tick / pong deadline / time passes);
                 a real event the model has disabled, a different set of armed deadlines, ping count or
                 liveness is a disagreement
spec           : `ka.spec` = Esp.Keepalive.checkLog (PingRule/DeadRule/WindowRule of Props/C10) evaluated on
                 the history OBSERVED on the implementation (message instants, tick instants and whether a
                 PingRequest hit the wire, instant and class of the close) + "a silent peer is dropped"
"""
from __future__ import annotations

import itertools

from aioesphomeapi import api_pb2 as pb
from aioesphomeapi.core import MESSAGE_TYPE_TO_PROTO

from common import Check, run_driver_parallel
import fh
import common
import simnet

PING_REQ = 7
U = 8  # ticks per keepalive interval K (k = 4 ticks, 4.5K = 36 ticks)

# server-originated message classes used as "any message" (must decode with empty payload and not close)
SERVER_TYPES = [
    pb.PingResponse, pb.SensorStateResponse, pb.BinarySensorStateResponse, pb.PingRequest, pb.GetTimeRequest,
    pb.SubscribeLogsResponse, pb.TextSensorStateResponse, pb.BluetoothLEAdvertisementResponse,
    pb.HomeassistantServiceResponse, pb.CameraImageResponse, pb.SwitchStateResponse, pb.DeviceInfoResponse,
]


class OffGrid(Exception):
    pass


def run_scenario(K: float, sched: dict[int, str], n_grid: int, gdiv: int, mtypes, close_at=None, chatter=False, hello_delay=0.0, awaited=False):
    """sched: grid index -> 'b' (message before the timers of that instant), 'a' (after), 'ba' (both).
    grid step = K/gdiv.  After n_grid steps the peer is silent; we run on until 7.5K past the end.
    Returns (ops, real_obs, log_entries, info)."""
    if hello_delay:
        # a device that takes its time to answer the hello: the keepalive clock starts when the session is ESTABLISHED
        from aioesphomeapi.client import APIClient
        net = simnet.Net()
        loop = net.loop
        net.auto_resolve = net.auto_sock = True
        client = APIClient("10.0.0.1", 6053, None, keepalive=K)
        stops = []

        async def on_stop(expected):
            stops.append((loop.time(), expected))

        o = simnet.spawn(loop, client.connect(on_stop=on_stop, login=False), "connect")
        loop.run_idle()
        loop.advance(hello_delay)
        net.send(simnet.hello_response())
        loop.run_idle()
        if o.cls() != "ok":
            raise common.LibraryMisbehaved("session-not-established", f"connect() with a hello answered after {hello_delay} s ended as {o.cls()}")
        conn = client._connection
    else:
        net, client, conn, stops = simnet.established(keepalive=K)
    loop = net.loop
    t_ref = loop.time()      # the instant of establishment: every instant below is relative to it
    tick_s = K / U  # seconds per model tick
    step_ticks = U // gdiv
    ops, obs, log = [f"ka.reset {U // 2}"], ["ok"], []
    mi = 0

    def to_ticks(t):
        n = round(t / tick_s)
        if abs(n * tick_s - t) >= 1e-6 * max(1.0, K):
            # every instant of a scenario is a multiple of K/8 and the deadlines are K and 4.5 K after such instants: an
            # instant off that grid is a wrong deadline
            raise OffGrid(t, tick_s)
        return n

    def observe(enabled=1):
        alive = conn.connection_state is not simnet.ac.CONNECTION_STATE_CLOSED
        pings = sum(1 for (_, ty, _) in net.written() if ty == PING_REQ)
        # (the timeout of an application request that is waiting for its answer is not a keepalive timer)
        timers = sorted(to_ticks(w - t_ref) for w, lab in loop.armed_timers()
                        if not (awaited and lab.endswith("handle_timeout"))) if alive else []
        ping_failed = fh.err_class(conn._fatal_exception) == "pingFailed"
        dead = [to_ticks(t - t_ref) for t, _ in stops] if ping_failed else []
        return (f"alive={1 if alive else 0} pings={pings} timers=[{' '.join(map(str, timers))}] "
                f"dead=[{' '.join(map(str, dead))}] enabled={enabled}")

    def do(op):
        ops.append(op)
        obs.append(observe())

    def msg():
        nonlocal mi
        m = mtypes[mi % len(mtypes)]()
        mi += 1
        alive = conn.connection_state is not simnet.ac.CONNECTION_STATE_CLOSED
        r = net.send(m)
        loop_ready_before = len(loop._ready)
        if r == "ok" and alive:
            log.append(f"m:{to_ticks(loop.time() - t_ref)}")
            do("ka.msg")
        # replies to PingRequest/GetTimeRequest are written synchronously; nothing is scheduled
        return r

    def timers_now():
        """run every due timer, one handle at a time, in the loop's own order"""
        loop.fire_due()
        while True:
            before = sum(1 for (_, ty, _) in net.written() if ty == PING_REQ)
            nstops = len(stops)
            lab = loop.step_one()
            if lab is None:
                break
            now = to_ticks(loop.time() - t_ref)
            if lab.endswith("_async_send_keep_alive"):
                after = sum(1 for (_, ty, _) in net.written() if ty == PING_REQ)
                log.append(f"t:{now}:{1 if after > before else 0}")
                do("ka.tick")
            elif lab.endswith("_async_pong_not_received"):
                # on_stop is delivered through a background task: drain it before observing
                loop.run_idle()
                log.append(f"d:{now}")
                do("ka.pong")
            else:
                # plumbing (transport.close -> connection_lost, on_stop task...): must not change observables
                pass

    total = n_grid + int(7.5 * gdiv) + 1
    info = {"closed_at": None, "cause": None}
    calls = []
    for i in range(1, total + 1):
        T = i * (K / gdiv)
        # urgency on the real side: never jump over an armed timer (all deadlines are on the grid by construction)
        nt = loop.next_timer()
        if nt is not None and nt - t_ref < T - 1e-9 * max(1.0, K):
            # a deadline off the grid: visit it first
            loop._vt = nt
            ops.append(f"ka.adv {to_ticks(nt - t_ref) - to_ticks(loop.time() - t_ref)}")
            obs.append(observe())
            timers_now()
        d = to_ticks(T) - to_ticks(loop.time() - t_ref)
        loop._vt = t_ref + T
        do(f"ka.adv {d}")
        what = sched.get(i, "") if i <= n_grid else ""
        if chatter and conn.is_connected:
            # the application keeps sending commands: what the CLIENT writes says nothing about the peer being alive
            client.switch_command(1, bool(i % 2))
        if awaited and conn.is_connected and i % gdiv == 1 and i <= n_grid:
            # the application waits for an answer the device never gives: the request times out half an interval later -
            # whether a request was answered says nothing about messages having arrived
            # (alternately a request that gives up within the interval and one that is still waiting at the next tick: a
            # request in flight is no reason to skip a ping)
            span = max(1, gdiv // 2) if (i // gdiv) % 2 == 0 else gdiv + max(1, gdiv // 2)
            calls.append(simnet.spawn(loop, conn.send_message_await_response(pb.ListEntitiesRequest(), pb.ListEntitiesDoneResponse,
                                                                              span * (K / gdiv)), f"call{i}"))
            loop.run_idle()
        if "b" in what:
            msg()
        if close_at == i:
            net.reset()
            loop.run_idle()
            do("ka.close")
        timers_now()
        if "a" in what:
            msg()
        loop.run_idle()
    alive = conn.connection_state is not simnet.ac.CONNECTION_STATE_CLOSED
    info["alive_at_end"] = alive
    info["fatal"] = fh.err_class(conn._fatal_exception) if conn._fatal_exception else "none"
    info["stops"] = list(stops)
    info["calls"] = [c.cls() for c in calls]
    info["unhandled"] = len(loop.unhandled)
    net.close()
    return ops, obs, log, info


def run(ck: Check):
    rng, thorough = ck.rng, ck.tier == "thorough"
    scen = []  # (K, sched, n_grid, gdiv, close_at)
    # 1. every subset of a K/4 grid over 3 periods, tie order alternating with the subset's parity (+ both orders for
    #    the subsets that touch a tick instant, on a sample)
    gdiv, n = 4, 12
    for mask in range(1 << n):
        sched = {}
        for i in range(n):
            if mask >> i & 1:
                at_tick = (i + 1) % gdiv == 0
                sched[i + 1] = ("b" if (mask ^ i) & 1 else "a") if at_tick else "b"
        scen.append((1.0, sched, n, gdiv, None))
    # 2. single and double messages at every K/8 instant over 7 periods, both tie orders
    gdiv, n = 8, 56
    for i in range(1, n + 1):
        for o in ("b", "a", "ba"):
            scen.append((2.0, {i: o}, n, gdiv, None))
    pairs = list(itertools.combinations(range(1, n + 1), 2))
    rng.shuffle(pairs)
    for (i, j) in pairs[: (len(pairs) if thorough else 300)]:
        scen.append((0.5, {i: rng.choice("ba"), j: rng.choice("ba")}, n, gdiv, None))
    # 3. keepalive values (non-dyadic too), random schedules, long runs
    Ks = [20.0, 7.25, 0.5, 0.008, 0.3, 90.0, 1.0, 15, 5, 600.0, 33]   # ints as callers pass them, odd values (4.5 K not whole)
    for _ in range(4000 if thorough else 400):
        K = rng.choice(Ks)
        gdiv = rng.choice([4, 8])
        n = rng.choice([12, 24, 48]) * (gdiv // 4)
        dens = rng.choice([0.02, 0.1, 0.3, 0.7])
        sched = {i: rng.choice(["b", "a", "ba"]) for i in range(1, n + 1) if rng.random() < dens}
        close_at = rng.randrange(1, n + 10) if rng.random() < 0.15 else None
        scen.append((K, sched, n, gdiv, close_at))
    # 4. steady traffic that must never be dropped: a message every 4K (< 4.5K) for 40 periods
    for K in (1.0, 20.0):
        gdiv, n = 4, 160
        scen.append((K, {i: "b" for i in range(1, n + 1) if i % 16 == 0}, n, gdiv, None))
        scen.append((K, {i: "a" for i in range(1, n + 1) if i % 17 == 0}, n, gdiv, None))

    batches, metas = [], []
    dist = {"scenarios": 0, "msgs": 0, "ticks": 0, "pings": 0, "deaths": 0, "closed_otherwise": 0, "tie_before": 0,
            "tie_after": 0}
    spec_lines, spec_meta = [], []
    for si, (K, sched, n, gdiv, close_at) in enumerate(scen):
        mt = SERVER_TYPES[si % len(SERVER_TYPES):] + SERVER_TYPES[: si % len(SERVER_TYPES)]
        try:
            # every fifth scenario: the device answers the hello late (by up to three grid steps, capped below the hello timeout)
            hd = [0.0, 0.0, 0.0, 0.0, min(K / gdiv, 7.3), 0.0, 0.0, 0.0, 0.0, min(3 * K / gdiv, 19.7)][si % 10]   # < the 30 s hello timeout
            ops, obs, log, info = run_scenario(K, sched, n, gdiv, mt, close_at, chatter=(si % 3 == 1), hello_delay=hd, awaited=(si % 4 == 2))
        except OffGrid as e:
            ck.violation("c10:deadline-off-grid", f"keepalive {K} s, messages at grid steps {sorted(sched)} (step K/{gdiv}): a keepalive / pong "
                         f"timer or the detection instant lies at t={e.args[0]:.6f} s, which is not a multiple of K/{U} = {e.args[1]} s - the ping "
                         "interval is K and the pong deadline exactly 4.5 K", {"keepalive": K, "schedule": {str(k): v for k, v in sched.items()},
                                                                                "grid_divisor": gdiv, "instant": e.args[0]})
            # the remaining analysis indexes scenarios by position: stop here with the concrete violation
            ck.coverage.update({"evaluations": len(batches) + 1, "exhaustive": False, "aborted_on": "deadline-off-grid"})
            return
        batches.append(ops)
        metas.append((si, obs, log, info))
        dist["scenarios"] += 1
        dist["msgs"] += sum(1 for e in log if e[0] == "m")
        dist["ticks"] += sum(1 for e in log if e[0] == "t")
        dist["pings"] += sum(1 for e in log if e[0] == "t" and e.endswith(":1"))
        dist["deaths"] += sum(1 for e in log if e[0] == "d")
        dist["closed_otherwise"] += 1 if close_at else 0
        for i, o in sched.items():
            if i % gdiv == 0:
                dist["tie_before"] += "b" in o
                dist["tie_after"] += "a" in o
        spec_lines.append(f"ka.spec {U // 2} " + " ".join(log))
        spec_meta.append(si)

    # --- spec on the implementation's observed histories (the verdict) ---------------------------------
    W = 16
    chunks = [spec_lines[i::W] for i in range(W)]
    outs = run_driver_parallel(chunks)
    n_spec = 0
    for w, out in enumerate(outs):
        if out is None:
            ck.disagreement("driver failed on ka.spec", {})
            continue
        for j, line in enumerate(out):
            si = spec_meta[w + j * W]
            n_spec += 1
            K, sched, n, gdiv, close_at = scen[si]
            info = metas[si][3]
            bad = None
            if line != "ok":
                bad = line
            elif close_at is None and info["alive_at_end"]:
                bad = "fail:silent-peer-not-dropped-within-6.5K"
            elif close_at is None and (info["fatal"] != "pingFailed" or [e for _, e in info["stops"]] != [False]):
                bad = f"fail:close-cause fatal={info['fatal']} stops={info['stops']}"
            if bad:
                ck.violation(
                    "keepalive:" + bad.split("@")[0],
                    f"keepalive history observed on the implementation violates the C10 rules: {bad}",
                    {"K": K, "grid_div": gdiv, "n_grid": n, "schedule": sched, "close_at": close_at,
                     "observed_log": metas[si][2], "verdict": bad, "info": {k: str(v) for k, v in info.items()}},
                    kind="scenario")
    # --- correspondence: the model replays the real loop's atomic events ---------------------------------
    outs = run_driver_parallel(batches)
    n_ops = 0
    for (si, obs, log, info), out in zip(metas, outs):
        if out is None:
            ck.disagreement("driver failed", {"scenario": si})
            continue
        n_ops += len(out)
        for j, (a, b) in enumerate(zip(out, obs)):
            if a != b:
                K, sched, n, gdiv, close_at = scen[si]
                ck.disagreement("keepalive model != implementation",
                                {"K": K, "schedule": sched, "grid_div": gdiv, "close_at": close_at, "op_index": j,
                                 "op": batches[si][j], "model": a, "impl": b})
                break
    ck.coverage.update({
        "evaluations": len(scen), "model_ops_compared": n_ops, "spec_histories_judged": n_spec,
        "distinct_nontrivial": len({(K, tuple(sorted(s.items())), c) for K, s, _, _, c in scen}),
        "rule": "case = (keepalive K, arrival schedule on a K/4 or K/8 grid with the tie order at tick instants, optional "
                "other close); distinct by that tuple; all are non-trivial (each runs to the death or close of the session)",
        "samples": [{"K": K, "schedule": s, "grid_div": g, "close_at": c, "observed_history": metas[i][2][:40]}
                    for i, (K, s, _, g, c) in list(enumerate(scen))[1000:1003] + list(enumerate(scen))[-3:]],
        "traces_validated_against_impl": len(scen),
        "exhaustive": False,
        "exhaustive_subspaces": {"all 4096 arrival subsets of a K/4 grid over 3 periods": True,
                                 "every single message instant on a K/8 grid over 7 periods x tie order": True,
                                 "all message pairs on that grid": thorough},
        "distribution": dist, "keepalive_values_s": sorted(set(K for K, *_ in scen)),
    })
    ck.assumptions += [
        "timers fire exactly at their deadline (virtual time); lateness of a real event loop is not modelled",
        "the session is established at t=0 through the real connect path; message types cycle through "
        + ", ".join(c.__name__ for c in SERVER_TYPES),
    ]
