"""Simulated network around the real APIClient / APIConnection, on a SimLoop.

Seams (the same ones the repo's tests patch):
  aioesphomeapi.host_resolver.async_resolve_host          -> completes when the scenario says so
  aioesphomeapi.connection.aiohappyeyeballs.start_connection -> completes when the scenario says so
  loop.create_connection(factory, sock=...)                -> SimTransport, connection_made via call_soon
The transport mimics asyncio's selector transport: close() schedules connection_lost(None) with
call_soon; an exception escaping data_received force-closes and schedules connection_lost(exc);
eof_received() returning falsy closes; nothing is delivered once closing.
"""
from __future__ import annotations
import common

import asyncio
import socket

import aioesphomeapi.connection as ac
import aioesphomeapi.host_resolver as hr
from aioesphomeapi import APIClient
from aioesphomeapi.api_pb2 import (  # type: ignore
    ConnectResponse,
    HelloResponse,
)
from aioesphomeapi.core import MESSAGE_TYPE_TO_PROTO

import fh
from simloop import SimLoop, install, uninstall

PROTO_TO_ID = {v: k for k, v in MESSAGE_TYPE_TO_PROTO.items()}


def varint(n: int) -> bytes:
    out = bytearray()
    while True:
        b = n & 0x7F
        n >>= 7
        if n:
            out.append(b | 0x80)
        else:
            out.append(b)
            return bytes(out)


def plain_frame(msg) -> bytes:
    data = msg.SerializeToString()
    return b"\x00" + varint(len(data)) + varint(PROTO_TO_ID[type(msg)]) + data


def plain_raw(t: int, data: bytes) -> bytes:
    return b"\x00" + varint(len(data)) + varint(t) + data


def decode_plain(data: bytes):
    """independent decoder of plaintext frames -> [(type, payload)]"""
    out, pos = [], 0

    def rv():
        nonlocal pos
        shift = val = 0
        while True:
            b = data[pos]
            pos += 1
            val |= (b & 0x7F) << shift
            if not b & 0x80:
                return val
            shift += 7

    while pos < len(data):
        if data[pos] != 0:
            raise ValueError("preamble")
        pos += 1
        ln = rv()
        ty = rv()
        if pos + ln > len(data):
            raise ValueError("truncated")
        out.append((ty, data[pos : pos + ln]))
        pos += ln
    return out


class FakeSocket:
    def __init__(self, fault=None):
        self.closed = False
        self.fault = fault     # "setsockopt" | "getpeername": that call raises OSError (the peer reset right after accept)

    def setblocking(self, _):
        pass

    def setsockopt(self, *a):
        if self.fault == "setsockopt":
            raise OSError(22, "Invalid argument")

    def getpeername(self):
        if self.fault == "getpeername":
            raise OSError(107, "Transport endpoint is not connected")
        return ("10.0.0.1", 6053)

    def getsockname(self):
        return ("10.0.0.2", 50000)

    def fileno(self):
        return 99

    def close(self):
        self.closed = True


class SimTransport(asyncio.Transport):
    def __init__(self, loop, protocol, sock):
        super().__init__()
        self.loop, self.protocol, self.sock = loop, protocol, sock
        self.writes: list[tuple[float, bytes]] = []
        self.closing = False
        self.lost_called = False
        self.fail_writes: BaseException | None = None
        self.writes_after_close = 0
        self.on_write = None  # observer called with the bytes of every write attempt

    def write(self, data):
        if self.on_write is not None:
            self.on_write(bytes(data))
        if self.fail_writes is not None:
            raise self.fail_writes
        if self.closing:
            self.writes_after_close += 1
            return
        self.writes.append((self.loop.time(), bytes(data)))

    def is_closing(self):
        return self.closing

    def close(self):
        if self.closing:
            return
        self.closing = True
        self.loop.call_soon(self._call_connection_lost, None)

    def _force_close(self, exc):
        if self.lost_called:
            return
        if not self.closing:
            self.closing = True
        self.loop.call_soon(self._call_connection_lost, exc)

    def abort(self):
        self._force_close(None)

    def _call_connection_lost(self, exc):
        if self.lost_called:
            return
        self.lost_called = True
        try:
            self.protocol.connection_lost(exc)
        finally:
            self.sock.close()

    def get_extra_info(self, name, default=None):
        if name == "socket":
            return self.sock
        return default


_res_counter = [0]


class Net:
    """One simulated device endpoint + the patched seams.  A fresh transport per connection."""

    def __init__(self, loop: SimLoop | None = None, base=0.0):
        self.loop = loop or install(base)
        self.resolve_futs: list[asyncio.Future] = []
        self.sock_futs: list[asyncio.Future] = []
        self.transports: list[SimTransport] = []
        self.sockets: list[FakeSocket] = []
        self.resolve_calls = 0
        self.sock_calls: list[float] = []
        self._orig = (hr.async_resolve_host, ac.aiohappyeyeballs.start_connection)
        hr.async_resolve_host = self._resolve
        ac.aiohappyeyeballs.start_connection = self._start_connection
        self.loop.create_connection = self._create_connection
        self.auto_resolve = False
        self.auto_sock = False

    def close(self):
        hr.async_resolve_host, ac.aiohappyeyeballs.start_connection = self._orig
        uninstall(self.loop)

    # -- seams -----------------------------------------------------------
    async def _resolve(self, addresses, port, zc=None):
        self.resolve_calls += 1
        if not self.auto_resolve:
            fut = self.loop.create_future()
            self.resolve_futs.append(fut)
            await fut
        # one address unless a scenario asks for more (`n_addr_infos`: + IPv6, + a second IPv4); with several the library tries
        # the remaining ones after a failed connect, so only scenarios whose connect does not FAIL use them
        n_addr = getattr(self, "n_addr_infos", 1)
        out = [hr.AddrInfo(family=socket.AF_INET, type=socket.SOCK_STREAM, proto=socket.IPPROTO_TCP,
                           sockaddr=hr.IPv4Sockaddr("10.0.0.1", port))]
        if n_addr >= 2:
            out.insert(0, hr.AddrInfo(family=socket.AF_INET6, type=socket.SOCK_STREAM, proto=socket.IPPROTO_TCP,
                                      sockaddr=hr.IPv6Sockaddr("fd00::1", port, 0, 0)))
        if n_addr >= 3:
            out.append(hr.AddrInfo(family=socket.AF_INET, type=socket.SOCK_STREAM, proto=socket.IPPROTO_TCP,
                                   sockaddr=hr.IPv4Sockaddr("10.0.0.2", port)))
        return out

    async def _start_connection(self, addr_infos, **kw):
        self.sock_calls.append(self.loop.time())
        if not self.auto_sock:
            fut = self.loop.create_future()
            self.sock_futs.append(fut)
            await fut
        s = FakeSocket(getattr(self, "sock_fault", None))
        self.sockets.append(s)
        return s

    async def _create_connection(self, factory, sock=None, **kw):
        """asyncio's create_connection(sock=...): the factory runs at once; connection_made and the waiter's result
        are separate call_soon handles; a cancelled await closes the transport that was made"""
        protocol = factory()
        tr = SimTransport(self.loop, protocol, sock)
        tr.fail_writes = getattr(self, "fail_writes", None)   # a write failure set before the transport existed
        self.all_transports = getattr(self, "all_transports", []) + [tr]
        waiter = self.loop.create_future()

        def connection_made():
            if sock is not None and getattr(sock, "closed", False):
                # the socket was closed under the transport: registration fails
                if not waiter.done():
                    waiter.set_exception(OSError(9, "Bad file descriptor"))
                return
            self.transports.append(tr)
            protocol.connection_made(tr)

        def waiter_done():
            if not waiter.done():
                waiter.set_result(None)

        self.loop.call_soon(connection_made)
        self.loop.call_soon(waiter_done)
        try:
            await waiter
        except BaseException:
            if tr in self.transports:
                tr.close()
            raise
        return tr, protocol

    # -- scenario side ----------------------------------------------------
    def complete_resolve(self, exc=None):
        fut = self.resolve_futs.pop(0)
        if fut.done():
            return False
        fut.set_exception(exc) if exc else fut.set_result(None)
        return True

    def complete_sock(self, exc=None):
        fut = self.sock_futs.pop(0)
        if fut.done():
            return False
        fut.set_exception(exc) if exc else fut.set_result(None)
        return True

    @property
    def tr(self) -> SimTransport | None:
        return self.transports[-1] if self.transports else None

    def feed(self, data: bytes) -> str:
        """one socket read. returns 'ok' | 'skipped' | 'raised:<cls>'"""
        tr = self.tr
        if tr is None or tr.closing:
            return "skipped"
        try:
            tr.protocol.data_received(data)
        except (SystemExit, KeyboardInterrupt):
            raise
        except BaseException as exc:  # noqa: BLE001
            tr._force_close(exc)
            return "raised:" + type(exc).__name__
        return "ok"

    def send(self, *msgs) -> str:
        return self.feed(b"".join(plain_frame(m) for m in msgs))

    def eof(self) -> str:
        tr = self.tr
        if tr is None or tr.closing:
            return "skipped"
        keep = tr.protocol.eof_received()
        if not keep:
            tr.close()
        return "ok"

    def reset(self, exc=None) -> str:
        tr = self.tr
        if tr is None or tr.lost_called:
            return "skipped"
        tr._force_close(exc or ConnectionResetError(104, "Connection reset by peer"))
        return "ok"

    def written(self, tr=None):
        """decoded plaintext packets written so far on the (latest) transport: [(time, type, payload)]"""
        tr = tr or self.tr
        out = []
        if tr is None:
            return out
        for t, data in tr.writes:
            for ty, p in decode_plain(data):
                out.append((t, ty, p))
        return out


def hello_response(major=1, minor=10, name="", server_info="sim"):
    return HelloResponse(api_version_major=major, api_version_minor=minor, name=name, server_info=server_info)


def connect_response(invalid=False):
    return ConnectResponse(invalid_password=invalid)


class Outcome:
    """result holder for a driven coroutine"""

    def __init__(self, task):
        self.task = task

    @property
    def done(self):
        return self.task.done()

    def cls(self) -> str:
        if not self.task.done():
            return "pending"
        if self.task.cancelled():
            return "raw:CancelledError"
        e = self.task.exception()
        return "ok" if e is None else fh.err_class(e)


def spawn(loop, coro, name) -> Outcome:
    t = loop.create_task(coro, name=name)
    return Outcome(t)


def established(keepalive=20.0, login=False, password=None, expected_name=None, name="", stops=None,
                api=(1, 10), **client_kw):
    """Drive the real connect path to CONNECTED on a plaintext device.  Returns (net, client, conn)."""
    net = Net()
    loop = net.loop
    net.auto_resolve = net.auto_sock = True
    client = APIClient("10.0.0.1", 6053, password, keepalive=keepalive, expected_name=expected_name, **client_kw)
    if common.debug_flip():
        client.set_debug(True)
    stops = stops if stops is not None else []

    async def on_stop(expected):
        stops.append((loop.time(), expected))

    o = spawn(loop, client.connect(on_stop=on_stop, login=login), "connect")
    loop.run_idle()
    msgs = [hello_response(api[0], api[1], name)]
    if login:
        msgs.append(connect_response(False))
    net.send(*msgs)
    loop.run_idle()
    if o.cls() != "ok":
        raise common.LibraryMisbehaved("session-not-established", f"a plain session with a conformant device (HelloResponse {api[0]}.{api[1]}, name "
                                       f"{name!r}, login={login}, keepalive={keepalive}) could not be established: connect() ended as {o.cls()}",
                                       {"login": login, "keepalive": keepalive, "expected_name": expected_name, "name": name, "outcome": o.cls()})
    conn = client._connection
    return net, client, conn, stops
