HOOK_COMMITS = []

ALL = [f"C{i:02d}" for i in range(1, 21)]

CHECKS = [
    {
        "property_id": "C01",
        "text": "Lean 4 theorems c01_reassembly / c01_prompt / c01_segmentation_independent: for every frame list (types, lengths in N), every incomplete tail and every chunking, the modelled receive loop delivers exactly the frames sent, each in the chunk that completes it, and retains exactly the tail. The hand-written model (Esp.Plain) is tied to plain_text.py/base.py by a differential run of ~10k (quick) boundary-catalogue streams x cut patterns through the real helper and the compiled model.",
        "note": "Trusted: Lean kernel + {propext, Classical.choice, Quot.sound}; the correspondence harness and its generators; bytes-like chunk types are covered by the correspondence only; SimTransport semantics (no data_received after transport.close()).",
        "technique": "Lean 4 proof (induction over the buffered drain loop; varint round-trip) + model/implementation correspondence",
    },
]
CHECKS.append({
    "property_id": "C02",
    "text": "Lean 4 theorems c02_plain (strict minimal-varint spec decoder inverts Plain.write for every packet list), c02_noise / c02_noise_total / c02_nonce_chain (for every AEAD instance, nonce and batch sequence the writes decode under strictly consecutive nonces from the session start; out-of-range batches are refused whole), c02_write_explicit. Tie: every registered message class, boundary payload sizes and long sessions sent through the real APIConnection.send_messages; plaintext bytes decoded by the Lean spec decoder, noise frames opened by an independent ChaCha20-Poly1305 with the spec's nonce layout and compared with the Lean model's output byte-for-byte (symbolic twin).",
    "note": "Trusted: Lean kernel + standard axioms; AEAD as an abstract structure (laws as hypotheses, never axioms); ChaCha20-Poly1305 (cryptography pkg), protobuf serialisation, api.proto text parser for ground-truth ids.",
    "technique": "Lean 4 proof (round-trip of writer against an independent strict decoder, induction over batches/sessions) + model/implementation correspondence",
})
CHECKS.append({
    "property_id": "C03",
    "text": "Lean 4 theorems c03_interop (for every AEAD instance, acceptable announced name, handshake payload the oracle accepts, message list and EVERY chunking of the conformant responder stream: events are exactly one readiness signal then exactly the messages in order; final nonce = message count), c03_no_early (for ANY byte stream no delivery precedes readiness), c03_name (accept iff no expectation or equal). Built on the generic segmentation lemmas drain_append / run_eq_onepass. Tie: the real APINoiseFrameHelper against an independent responder (stock noiseprotocol backend + cryptography ChaCha20Poly1305, spec nonce layout), every single cut / boundary pairs / byte-by-byte / random cuts; the Lean model runs the symbolic twin of the same stream with the same cuts.",
    "note": "Trusted: Lean kernel + standard axioms; the Noise handshake mathematics (seen through the oracle hs); symbolic-twin construction in harness/noise_bench.py; SimTransport semantics.",
    "technique": "Lean 4 proof (segmentation independence + invariant induction over all event histories) + model/implementation correspondence against an independent Noise responder",
})
CHECKS.append({
    "property_id": "C04",
    "text": "Lean 4 theorems c04_prefix (for every inbound cipher that is Genuine for the device's plaintext list S and EVERY byte stream in every chunking, the delivered packets are exactly the messages of the first k plaintexts: no forged, altered, replayed or reordered delivery), c04_terminal / c04_closed_frames (nothing after the first failure), the decision table c04_class_* (each deviation -> its specific error class, closed), c04_ready_same_error, c04_psk, c04_plain_wrong_preamble. Tie: fault catalogue (flip/truncate/duplicate/swap/drop/re-key/forge per frame and position, handshake-phase deviations, framing mismatches, transport events, key strings) on the real helper vs the model on the symbolic twin.",
    "note": "AEAD integrity is an explicit hypothesis (Genuine), satisfiable (lookupDec_genuine) and never an axiom; base64 leniency is binascii's (oracle input of checkPsk).",
    "technique": "Lean 4 proof (history invariant for all byte streams under an AEAD-genuineness hypothesis; case analysis of the handlers) + fault-catalogue correspondence",
})
CHECKS.append({
    "property_id": "C13",
    "text": "The model IS the generated tables (Esp/Gen, rewritten from /repo on every run by harness/translate.py: api.proto text via an own parser, compiled descriptors, registry dicts/tuples via reflection, per-entry-point traffic via an API-surface sweep). Lean 4 theorems over them: c13_registry_eq (registry = declared ids, sorted), c13_ids_contiguous, c13_names_unique, c13_positional (for EVERY id in 1..n the positional lookup selects the declared class; lifted from the table facts by lookup_of_range), c13_out_of_range, c13_desc_eq_text (messages, ids, sources, every field, every enum), c13_direction (everything written is client|both, everything subscribed is server|both). A changed table breaks a kernel-checked proof; the check then finds the concrete id / message / entry point on the running modules.",
    "note": "Trusted: Lean kernel + standard axioms (decide +kernel over the generated tables); translate.py / prototext.py; the API-surface sweep reaches the entry points listed in the evidence (unreached ones are listed too).",
    "technique": "Lean 4 proof over tables regenerated from the source on every run (translator) + lifting lemmas",
})
CHECKS.append({
    "property_id": "C14",
    "text": "Table part (translator): c14_enum_numbers (same numbers, no aliases, every model enum paired), c14_enum_names_partial (naming rule, one recorded exception), c14_fields (field-name sets equal for all 68 class/message pairs), c14_designated_floats (pinned list), c14_converter_kinds. Conversion part (hand model Esp.Convert, exact integer arithmetic): roundHalfEven_close / _tie / _exact, c14_fix7_close (presented value within half a unit of the 7th digit for every finite value), c14_fix7_digits, ceilLog10Up_spec, c14_float_special, c14_enum_convert, c14_enum_list, c14_plain_preserves. Tie: Model.from_pb on generated messages of every paired class (boundary ints, unknown enum numbers, unicode, nested/repeated) and ~12k (quick) float32 bit patterns compared with the Lean interpreter field by field (floats bitwise); to_dict/from_dict round trip and an independent exact-rational oracle checked on the implementation.",
    "note": "Trusted: CPython round()/float() correct rounding and protobuf float32->double widening; pairing lists in harness/pairs.py (every class/enum must be paired or excluded with a reason); uuid fields are generated with exactly [high, low] (protocol contract). to_dict/from_dict round trip is checked on the implementation only (no Lean theorem): partial.",
    "technique": "Lean 4 proof over translator-generated tables + proofs about an exact-arithmetic conversion model, tied by differential conversion of generated messages",
})
CHECKS.append({
    "property_id": "C10",
    "text": "Lean 4 theorems over the keepalive automaton Esp.Keepalive (mirror of _async_schedule_keep_alive / _async_send_keep_alive / _async_pong_not_received and the two keepalive lines of process_packet), for EVERY keepalive value k and EVERY event list (= every arrival schedule on an unbounded grid, both orders of events on one instant, other closes at any point): c10_ping_iff_idle (a tick writes a ping iff no message since the previous tick), c10_dead_exact (death exactly 9k = 4.5K after the first ping of the silence), c10_deadline_armed (while alive the clock cannot pass that deadline: never later), c10_silence (no message in the 4.5K before a death: never while messages keep arriving), c10_window (death in [t+5.5K, t+6.5K] after the last message at t, 5.5K after establishment if none), c10_ratio (the library constants, from the translator). Tie: sessions established through the real connect path in virtual time; the model replays the real loop's atomic events (labels of the timer callbacks, device messages) and must agree after every event on liveness, ping count, armed deadlines and death; the executable rule checker (checkLog, proved complete for the theorems' rules) judges the history observed on the implementation.",
    "note": "Trusted: Lean kernel + standard axioms; SimLoop (timers fire exactly at their deadline; a late real loop is not modelled); the establishment instant is t=0 with the first tick at K. Write failure of the ping itself belongs to C07/C09.",
    "technique": "Lean 4 proof (history invariant by induction over all event lists of a timed automaton) + model/implementation correspondence in virtual time",
})
CHECKS.append({
    "property_id": "C12",
    "text": "Lean 4 theorems over Esp.Dispatch (mirror of process_packet, add/remove message callback, the three internal handlers, send_messages, report_fatal_error): c12_unknown_inert / c12_undeclared_inert (for EVERY type number not declared in api.proto - 0, anything above the last id, any size - and every payload, the state is returned unchanged; tied to the generated registry through C13), c12_declared_known, c12_bad_payload (known type + undecodable payload: closed with protocol error, nothing delivered, first fatal cause kept), c12_exactly_once (for every handler table, every script of subscribe/unsubscribe operations the callbacks run - themselves included - and every set iteration order: the callbacks invoked are exactly the snapshot at dispatch start, once each), c12_sign_of_life, c12_order (every history: delivery log ordered by arrival, no handler twice per message), c12_reply_ping_time, c12_reply_disconnect (response first, then expected close, stop callback gets true), c12_reply_disconnect_write_fails. Tie: a session established through the real connect path; frames through the real plaintext helper (ids as varints up to 2^64-1; every undeclared id <= 65535 in thorough); subscribers running re-entrant scripts; model and implementation compared after every operation (closed, fatal class, stop calls, frames written, armed deadlines, callbacks invoked, handler table); the property's clauses are also judged directly on the implementation with api.proto's text as ground truth for ids.",
    "note": "Trusted: Lean kernel + standard axioms; protobuf decoding as an oracle; set iteration order as an oracle reported by the harness. Found and fixed on the unchanged tree: type 0 selected the last class (9fdfaf1). Packets fed after a close belong to C08.",
    "technique": "Lean 4 proof (case analysis of the dispatcher, induction over handler lists and operation histories, lifting through the C13 table theorems) + model/implementation correspondence",
})

_claimed = {c["property_id"] for c in CHECKS}
NOT_APPLICABLE = [
    {"property_id": p, "reason": "check under construction in this build phase (model and theorems not yet committed); see DESIGN.md §10 build order"}
    for p in ALL if p not in _claimed
]
