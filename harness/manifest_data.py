HOOK_COMMITS = []

ALL = [f"C{i:02d}" for i in range(1, 21)]

CHECKS = [
    {
        "property_id": "C01",
        "text": "Lean 4 theorems c01_reassembly / c01_prompt / c01_segmentation_independent: for every frame list (types, lengths in N), every incomplete tail and every chunking, the modelled receive loop delivers exactly the frames sent, each in the chunk that completes it, and retains exactly the tail. The hand-written model (Esp.Plain) is tied to plain_text.py/base.py by a differential run of ~10k (quick) boundary-catalogue streams x cut patterns through the real helper and the compiled model.",
        "note": "Trusted: Lean kernel + {propext, Classical.choice, Quot.sound}; the correspondence harness and its generators; bytes-like chunk types are covered by the correspondence only; SimTransport semantics (no data_received after transport.close()).",
        "technique": "Lean 4 proof (induction over the buffered drain loop; varint round-trip) + model/implementation correspondence",
    },
]

_claimed = {c["property_id"] for c in CHECKS}
NOT_APPLICABLE = [
    {"property_id": p, "reason": "check under construction in this build phase (model and theorems not yet committed); see DESIGN.md §10 build order"}
    for p in ALL if p not in _claimed
]
