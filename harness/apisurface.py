"""Enumerate the public APIClient entry points by reflection and synthesise arguments from signatures."""
from __future__ import annotations

import asyncio
import enum
import inspect
import typing

from aioesphomeapi import APIClient
from aioesphomeapi import model as M

SKIP = {
    # lifecycle entry points are the subject of C05-C09/C19, not of the traffic sweep
    "connect", "start_connection", "finish_connection", "disconnect", "set_debug",
    "set_cached_name_if_unset",
}


def entry_points():
    out = []
    for name, fn in inspect.getmembers(APIClient, predicate=inspect.isfunction):
        if name.startswith("_") or name in SKIP:
            continue
        out.append((name, fn))
    return out


async def _acoro(*a, **k):
    return None


def synth(name, ann, pname, variant=0):
    """a value for a parameter from its annotation string"""
    a = str(ann)
    if pname == "service":
        return M.UserService(name="svc", key=5, args=[
            M.UserServiceArg(name="a", type=M.UserServiceArgType.BOOL),
            M.UserServiceArg(name="b", type=M.UserServiceArgType.INT),
            M.UserServiceArg(name="c", type=M.UserServiceArgType.FLOAT_ARRAY)])
    if pname == "data" and name == "execute_service":
        return {"a": True, "b": 3, "c": [1.0]}
    if "Callable" in a:
        if "Coroutine" in a or "Awaitable" in a:
            return _acoro
        return lambda *x, **k: None
    if "tuple[float, float, float]" in a:
        return (0.25, 0.5, 0.75)
    for ename in ("FanSpeed", "FanDirection", "ClimateMode", "ClimateFanMode", "ClimateSwingMode", "ClimatePreset",
                  "LockCommand", "MediaPlayerCommand", "UpdateCommand", "AlarmControlPanelCommand", "LogLevel",
                  "BluetoothDeviceRequestType", "VoiceAssistantEventType", "VoiceAssistantTimerEventType"):
        if ename in a:
            return list(getattr(M, ename))[1 % len(list(getattr(M, ename)))]
    if "dict" in a.split("|")[0]:
        return {"k": "v"}
    if "bool" in a.split("|")[0]:
        return True
    if "int" in a.split("|")[0]:
        return 7
    if "float" in a.split("|")[0]:
        return 1.5
    if "bytes" in a.split("|")[0]:
        return b"\x01\x02"
    if "str" in a.split("|")[0]:
        return "x"
    if "dict" in a:
        return {}
    if "list" in a:
        return []
    if "VoiceAssistantAudioSettings" in a:
        return M.VoiceAssistantAudioSettings()
    return None


def build_call(name, fn, all_optional=True):
    sig = inspect.signature(fn)
    args, kwargs = [], {}
    for pname, p in list(sig.parameters.items())[1:]:
        required = p.default is inspect.Parameter.empty
        if not required and not all_optional:
            continue
        v = synth(name, p.annotation, pname)
        if v is None and not required:
            continue
        if p.kind in (p.POSITIONAL_ONLY, p.POSITIONAL_OR_KEYWORD):
            if kwargs:
                kwargs[pname] = v
            else:
                args.append(v)
        else:
            kwargs[pname] = v
    return args, kwargs
