"""Noise helper bench: build a device session (real bytes + symbolic twin), apply faults to both,
run the real APINoiseFrameHelper and produce the line-protocol ops/observations for the model."""
from __future__ import annotations

import asyncio
from dataclasses import dataclass, field

from aioesphomeapi import core
from aioesphomeapi._frame_helper.noise import APINoiseFrameHelper

import fh
import noisedev
from common import hx, phash


class LoggingFuture(asyncio.Future):
    """ready_future that logs its resolution into the shared event log (keeps event order)"""

    def __init__(self, log, loop):
        super().__init__(loop=loop)
        self._log = log

    def set_result(self, r):
        self._log.append("ready")
        super().set_result(r)


class BenchConnection(fh.FakeConnection):
    def __init__(self):
        super().__init__()
        self.log: list[str] = []

    def process_packet(self, t, data):
        data = bytes(data)
        self.delivered.append((t, data))
        self.log.append(f"d:{t}:{len(data)}:{phash(data)}")

    def report_fatal_error(self, err):
        self.errors.append(err)
        self.log.append("f:" + canon_err(err))
        if self.helper is not None:
            self.helper.close()


def canon_err(e) -> str:
    c = fh.err_class(e)
    if c == "badName":
        return "badName:" + hx((e.received_name or "").encode())
    if c.startswith("raw:"):
        k = c[4:]
        if k in ("IndexError", "UnicodeDecodeError"):
            return c
        if k in ("ConnectionResetError", "OSError", "BrokenPipeError", "RuntimeError"):
            return "other"
        return "raw:noiseLib"
    return c


def ready_state(h) -> str:
    f = h.ready_future
    if not f.done():
        return "pending"
    if f.cancelled():
        return "cancelled"
    e = f.exception()
    return "ok" if e is None else "err:" + canon_err(e)


@dataclass
class Frame:
    """one frame of the device stream: real body and the symbolic twin body"""
    real: bytes
    twin: bytes
    kind: str  # hello | hs | hserr | data
    msg: tuple | None = None  # (type, payload) for data frames

    def wire(self, twin=False) -> bytes:
        return noisedev.frame(self.twin if twin else self.real)


@dataclass
class Session:
    psk: bytes
    name: bytes | None
    expected: str | None
    frames: list = field(default_factory=list)
    client_key_ok: bool = True


def hs_twin(real_body: bytes, marker: int) -> bytes:
    # same length as the real handshake body; payload's first byte carries the oracle verdict
    return bytes([real_body[0], marker]) + real_body[2:] if len(real_body) >= 2 else real_body


def build_session(rng, *, name=b"dev", expected=None, msgs=(), client_psk=None):
    """A conformant device session for a client configured with client_psk (default: same key)."""
    psk = noisedev.new_psk(rng)
    cpsk = psk if client_psk is None else client_psk
    h, conn, tr = make_helper(cpsk, expected)
    dev = noisedev.NoiseDevice(psk, name)
    ok = dev.read_client_hello(tr.writes[0])
    s = Session(psk, name, expected, client_key_ok=ok)
    hb = dev.hello_body()
    s.frames.append(Frame(hb, hb, "hello"))
    hsb = dev.handshake_body()
    if ok:
        s.frames.append(Frame(hsb, hs_twin(hsb, 1), "hs"))
        for t, p in msgs:
            pt = noisedev.inner(t, p)
            real, twin = dev.seal(pt)
            s.frames.append(Frame(real, twin, "data", (t, p)))
    else:
        s.frames.append(Frame(hsb, hsb, "hserr"))
    return s, (h, conn, tr), dev


def make_helper(psk: bytes, expected: str | None):
    lp = fh.loop()
    conn = BenchConnection()
    h = APINoiseFrameHelper(connection=conn, noise_psk=noisedev.NoiseDevice.b64(psk), expected_name=expected,
                            client_info="verif", log_name="verif")
    h.ready_future = LoggingFuture(conn.log, lp)
    conn.helper = h
    tr = fh.FakeTransport()
    h.connection_made(tr)
    return h, conn, tr


def cut(stream: bytes, cuts):
    pts = [0, *cuts, len(stream)]
    return [stream[a:b] for a, b in zip(pts, pts[1:])]


def drive(bench, real_stream: bytes, twin_stream: bytes, cuts, expected, tail_events=()):
    """Feed the real helper chunk by chunk; returns (ops for the model, observations of the impl).
    tail_events: extra transport events after the data: 'eof', 'lost:none', 'lost:reset', 'lost:other'."""
    h, conn, tr = bench
    ops = [f"noise.reset {'none' if expected is None else hx(expected.encode())}"]
    obs = ["ok"]
    rc, tc = cut(real_stream, cuts), cut(twin_stream, cuts)
    for i, (r, t) in enumerate(zip(rc, tc)):
        conn.log.clear()
        fh.deliver(h, conn, tr, (bytes(r), bytearray(r), memoryview(r))[i % 3])
        ops.append(f"noise.feed {hx(t)}")
        obs.append(f"e [{' '.join(conn.log)}] ready={ready_state(h)} tclosed={'true' if tr.closed else 'false'}")
    for ev in tail_events:
        conn.log.clear()
        if ev == "eof":
            h.eof_received()
            ops.append("noise.eof")
        else:
            kind = ev.split(":")[1]
            exc = {"none": None, "reset": ConnectionResetError("reset"), "other": OSError("boom")}[kind]
            h.connection_lost(exc)
            tr.closed = True
            ops.append(f"noise.lost {kind}")
        obs.append(f"e [{' '.join(conn.log)}] ready={ready_state(h)} tclosed={'true' if tr.closed else 'false'}")
    return ops, obs


def strip_phase(line: str) -> str:
    return " ".join(w for w in line.split(" ") if not w.startswith("phase="))
