"""C20 — address resolution order and fallbacks; zeroconf instance ownership.

implementation : the real host_resolver.async_resolve_host / ZeroconfManager / _async_zeroconf_get_service_info with
                 fakes for the three things they consult: zeroconf's AsyncServiceInfo + AsyncZeroconf (recording the
                 query name and close calls), loop.getaddrinfo (recording hosts); ipaddress is the real one
model          : Esp.Resolver via the Lean driver (`rs.resolve`, `rs.local`, `zc.*`)
spec (on impl) : the property's clauses judged directly from the recorded calls: literals -> no lookup, verbatim (numeric
                 scope); bare/.local -> mDNS first with the first label, v6 before v4, OS iff mDNS gave nothing/failed; other
                 names -> OS only; configured order kept; never an empty result; a supplied instance is never closed, a
                 created one is
"""
from __future__ import annotations

import asyncio
import ipaddress
import itertools
import socket

import aioesphomeapi.host_resolver as hr
import aioesphomeapi.zeroconf as zcmod
from aioesphomeapi import util as u
from aioesphomeapi.core import APIConnectionError, ResolveAPIError

from common import Check, run_driver_parallel
import fh

PORT = 6053


class FakeZeroconf:
    """stands for zeroconf.Zeroconf"""
    n = 0

    def __init__(self):
        FakeZeroconf.n += 1
        self.ident = FakeZeroconf.n


class FakeAsyncZeroconf:
    created = []
    fail_next = False

    def __init__(self, zc=None):
        if zc is None and FakeAsyncZeroconf.fail_next:
            raise OSError(19, "No such device")
        self.zeroconf = zc if zc is not None else FakeZeroconf()
        self.closed = 0
        self.made_by_library = zc is None
        if zc is None:
            FakeAsyncZeroconf.created.append(self)

    async def async_close(self):
        self.closed += 1
        CLOSE_LOG.append(self.zeroconf.ident)


CLOSE_LOG: list[int] = []
MDNS: dict[str, object] = {}     # query first label -> "e" | (v6 list, v4 list)
MDNS_CALLS: list[tuple] = []
OS: dict[str, object] = {}
OS_CALLS: list[str] = []


class FakeServiceInfo:
    def __init__(self, type_, name, server=None):
        self.type, self.name, self.server = type_, name, server
        label = name.split(".")[0]
        if len(label) > 63 or not label:
            # like zeroconf's ServiceInfo: a name DNS cannot carry is refused when the request is BUILT (the attempt is logged
            # like any other lookup: it fails)
            from zeroconf import BadTypeInNameException
            JOINT.append("mdns:" + label.encode().hex())
            MDNS_CALLS.append((label, name, server, type_))
            raise BadTypeInNameException(f"Bad type in service name '{name[:20]}…'")

    async def async_request(self, zc, timeout):
        label = self.name.split(".")[0]
        MDNS_CALLS.append((label, self.name, self.server, self.type))
        r = MDNS.get(label, ([], []))
        if r == "e":
            raise OSError("mdns failed")
        if r == "hang":
            await asyncio.get_running_loop().create_future()   # never answered: only the caller giving up ends it
        self._r = r
        return bool(r[0] or r[1])

    def ip_addresses_by_version(self, version):
        from zeroconf import IPVersion

        v6, v4 = self._r
        if version == IPVersion.V6Only:
            return [ipaddress.IPv6Address(x) for x in v6]
        if version == IPVersion.V4Only:
            return [ipaddress.IPv4Address(x) for x in v4]
        return [ipaddress.ip_address(x) for x in v6 + v4]


async def fake_getaddrinfo(host, port, **kw):
    OS_CALLS.append(host)
    r = OS.get(host, [])
    if r == "e":
        raise OSError("gai failed")
    return [(socket.AF_INET, socket.SOCK_STREAM, socket.IPPROTO_TCP, "", (a, port)) for a in r]


class Patched:
    def __enter__(self):
        self.saved = (hr.AsyncServiceInfo, zcmod.AsyncZeroconf, zcmod.Zeroconf)
        hr.AsyncServiceInfo = FakeServiceInfo
        zcmod.AsyncZeroconf = FakeAsyncZeroconf
        zcmod.Zeroconf = FakeZeroconf
        self.loop = fh.loop()
        self.loop.getaddrinfo = fake_getaddrinfo
        return self

    def __exit__(self, *a):
        hr.AsyncServiceInfo, zcmod.AsyncZeroconf, zcmod.Zeroconf = self.saved
        try:
            del self.loop.getaddrinfo
        except AttributeError:
            pass


HOST_FORMS = ["10.0.0.5", "192.168.1.255", "fe80::1", "fe80::1%3", "fe80::2%eth0", "::1", "2001:db8::7", "fd00::1:2%2", "ff02::fb%5",
              "kitchen", "attic", "kitchen.local", "garage.local.", "x.local", "host.example.com", "sub.host.example.org.",
              "local", "kitchen.localx", "1234", "a.b.local", "kitchen.LOCAL", "a" * 64, "b" * 70 + ".local"]


def is_ip(h):
    try:
        ipaddress.ip_address(h)
        return True
    except ValueError:
        return False


def v6addr(i):
    return f"2001:db8::{i:x}"


def v4addr(i):
    return f"10.1.{i // 256}.{i % 256}"


def osaddr(i):
    return f"10.2.{i // 256 % 256}.{i % 256}"


def run_resolve(hosts, mdns_spec, os_spec):
    """hosts: list[str]; mdns_spec[i] in 'e' or (n6, n4); os_spec[i] in 'e' or n"""
    MDNS.clear(); OS.clear(); MDNS_CALLS.clear(); OS_CALLS.clear(); CLOSE_LOG.clear()
    toks = []
    id2tok = {}
    for i, h in enumerate(hosts):
        label = h.partition(".")[0]
        ms, osx = mdns_spec[i], os_spec[i]
        if len(label) > 63 or not label:
            ms = "e"    # a label DNS cannot carry: zeroconf refuses to build the request, the lookup can only fail
        if label not in MDNS:   # the oracle is a function of the name: first occurrence wins (as in the driver)
            if ms == "e":
                MDNS[label] = "e"
            else:
                v6 = [v6addr(100 * i + 1 + k) for k in range(ms[0])]
                v4 = [v4addr(100 * i + 51 + k) for k in range(ms[1])]
                MDNS[label] = (v6, v4)
                for k, a in enumerate(v6):
                    id2tok[a] = f"v6:{100 * i + 1 + k}"
                for k, a in enumerate(v4):
                    id2tok[a] = f"v4:{100 * i + 51 + k}"
        if h not in OS:
            if osx == "e":
                OS[h] = "e"
            else:
                OS[h] = [osaddr(1000 * i + 1 + k) for k in range(osx)]
                for k, a in enumerate(OS[h]):
                    id2tok[a] = f"v4:{1000 * i + 1 + k}"
        toks.append(f"{h.encode().hex()}:{1 if is_ip(h) else 0}:{'e' if ms == 'e' else f'{ms[0]}.{ms[1]}'}:{osx}")
    loop = fh.loop()
    mgr = zcmod.ZeroconfManager(FakeAsyncZeroconf(FakeZeroconf()))   # supplied: lookups must not close it
    supplied_ident = mgr._aiozc.zeroconf.ident
    try:
        res = loop.run_until_complete(hr.async_resolve_host(hosts, PORT, mgr))
        out = []
        for a in res:
            addr = a.sockaddr.address
            if addr in id2tok:
                out.append(id2tok[addr])
            else:
                # a literal: find which host it came from
                sc = getattr(a.sockaddr, "scope_id", 0)
                cands = [h for h in hosts if is_ip(h) and h.partition("%")[0] == addr]
                src = next((h for h in cands if (int(h.partition("%")[2]) if h.partition("%")[2].isdigit() else 0) == sc),
                           cands[0] if cands else None)
                out.append("lit:" + (src.encode().hex() if src else "??" + addr))
        line = "ok [" + " ".join(out) + "]"
    except ResolveAPIError as e:
        line = "err:zc" if "mDNS" in str(e) else "err:none"
        res = None
    except APIConnectionError:
        line = "err:os"
        res = None
    except Exception as e:  # noqa: BLE001 — anything else is not a resolution error of the library
        line = "raw:" + type(e).__name__
        res = None
    calls = []
    mi = oi = 0
    # interleave the two call logs in program order: they are appended as they happen, so rebuild from a joint log
    return toks, line, res, supplied_ident


JOINT: list[str] = []


def run(ck: Check):
    rng, thorough = ck.rng, ck.tier == "thorough"
    lines, impl, metas = [], [], []
    bad = 0
    with Patched():
        # make both fakes append to one joint log so that call ORDER is observable
        orig_req = FakeServiceInfo.async_request

        async def req(self, zc, timeout):
            JOINT.append("mdns:" + self.name.split(".")[0].encode().hex())
            return await orig_req(self, zc, timeout)

        FakeServiceInfo.async_request = req

        async def gai(host, port, **kw):
            JOINT.append("os:" + host.encode().hex())
            return await fake_getaddrinfo(host, port, **kw)

        fh.loop().getaddrinfo = gai
        # --- name classification
        for h in HOST_FORMS + ["", ".", ".local", "a.local..", "local.", "x.y.local"]:
            lines.append(f"rs.local {h.encode().hex() or '-'}")
            impl.append(f"namepart={1 if u.host_is_name_part(h) else 0} local={1 if u.address_is_local(h) else 0} "
                        f"first={h.partition('.')[0].encode().hex() or '-'}")
            metas.append(("local", h))
        # --- resolution: full product for 1 and 2 hosts over forms x mdns outcome x os outcome; random for 3
        MD = ["e", (0, 0), (1, 0), (0, 2), (2, 1)]
        OSX = ["e", 0, 2]
        cases = []
        for h in HOST_FORMS:
            for m in MD:
                for o in OSX:
                    cases.append(([h], [m], [o]))
        forms2 = HOST_FORMS if thorough else ["10.0.0.5", "fe80::1%3", "fd00::1:2%2", "kitchen", "garage.local.", "host.example.com", "attic"]
        for h1, h2 in itertools.product(forms2, forms2):
            if h1 == h2:
                continue
            for m1, m2, o1, o2 in itertools.product(MD, MD, OSX, OSX) if thorough else \
                    [tuple(rng.choice(x) for x in (MD, MD, OSX, OSX)) for _ in range(12)]:
                cases.append(([h1, h2], [m1, m2], [o1, o2]))
        for _ in range(3000 if thorough else 400):
            hs = rng.sample(HOST_FORMS, 3)
            cases.append((hs, [rng.choice(MD) for _ in hs], [rng.choice(OSX) for _ in hs]))
        dist = {"resolve_cases": len(cases), "ok": 0, "err_zc": 0, "err_os": 0, "err_none": 0}
        for hosts, ms, osx in cases:
            JOINT.clear()
            toks, line, res, supplied = run_resolve(hosts, ms, osx)
            lines.append("rs.resolve " + " ".join(toks))
            impl.append(line + " calls [" + " ".join(JOINT) + "]")
            metas.append(("resolve", hosts, ms, osx))
            dist["ok" if line.startswith("ok") else (line.replace(":", "_") if line.startswith("err") else "err_none")] += 1
            # ---- spec on the implementation --------------------------------------------------------------
            why = None
            if supplied in CLOSE_LOG:
                why = "a zeroconf instance supplied by the application was closed by a lookup"
            if res is not None and len(res) == 0:
                why = "an empty result was returned instead of an error"
            if line.startswith("raw:"):
                why = f"raw exception {line[4:]} escaped from async_resolve_host (a lookup that cannot be made is a failed lookup: the OS resolver is next, the error a resolve error)"
            # the lookups the property prescribes, host by host, written from its text
            exp_calls, aborted = [], False
            for i, h in enumerate(hosts):
                if aborted:
                    break
                local = ("." not in h and ":" not in h) or h.removesuffix(".").endswith(".local")
                got = False
                if local:
                    label = h.partition(".")[0]
                    exp_calls.append("mdns:" + label.encode().hex())
                    r = MDNS.get(label)
                    got = r != "e" and bool(r and (r[0] or r[1]))
                elif is_ip(h):
                    got = True
                if not got:
                    exp_calls.append("os:" + h.encode().hex())
                    if OS.get(h) == "e":
                        aborted = True
            if JOINT != exp_calls and why is None:
                why = f"lookups made {JOINT} but the resolution order prescribes {exp_calls}"
            for h in hosts:
                if is_ip(h) and not (u.host_is_name_part(h) or u.address_is_local(h)):
                    if ("os:" + h.encode().hex()) in JOINT:
                        why = f"IP literal {h} caused an OS lookup"
                    if res is not None:
                        want_addr = h.partition("%")[0]
                        scope = h.partition("%")[2]
                        hit = [a for a in res if a.sockaddr.address == want_addr]
                        want_scope = int(scope) if scope.isdigit() else 0
                        if not hit:
                            why = f"IP literal {h} is missing from the result"
                        elif ":" in h and not any(a.sockaddr.scope_id == want_scope for a in hit):
                            why = f"IP literal {h}: scope ids {[a.sockaddr.scope_id for a in hit]}"
            if why:
                bad += 1
                ck.violation("c20:" + why.split(" ")[0] + ":" + why.split(" ")[1], "C20 violated on the implementation: " + why,
                             {"hosts": hosts, "mdns": [str(m) for m in ms], "os": [str(o) for o in osx], "observed": impl[-1]})
        # --- manager ownership: all operation sequences of length <= 5 (quick: <= 4)
        OPS = ["set:1", "set:2", "get", "close", "lookup:1", "lookup:0", "lookup:c", "getfail"]
        L = 5 if thorough else 4
        nseq = 0
        n_abandon = [0]
        for sup in (None, 1):
            for n in range(0, L + 1):
                for seq in itertools.product(OPS, repeat=n):
                    nseq += 1
                    CLOSE_LOG.clear()
                    FakeAsyncZeroconf.created.clear()
                    FakeZeroconf.n = 1000 - 1   # library-made instances get ids 1000, 1001, … like the model's
                    objs = {}

                    def supplied_obj(i, plain):
                        if i not in objs:
                            z = FakeZeroconf.__new__(FakeZeroconf)
                            z.ident = i
                            objs[i] = z
                        return objs[i] if plain else FakeAsyncZeroconf(objs[i])

                    mgr = zcmod.ZeroconfManager(supplied_obj(1, False) if sup else None)
                    lines.append(f"zc.reset {sup if sup else '-'}")
                    impl.append(show_mgr(mgr, 0))
                    metas.append(("zc", sup, seq, -1))
                    for k, op in enumerate(seq):
                        raised = 0
                        try:
                            if op.startswith("set:"):
                                mgr.set_instance(supplied_obj(int(op[4:]), plain=(k % 2 == 1)))
                            elif op == "get":
                                mgr.get_async_zeroconf()
                            elif op == "getfail":
                                # the library cannot create an instance (no usable interface): nothing may be left behind
                                FakeAsyncZeroconf.fail_next = mgr._aiozc is None
                                try:
                                    mgr.get_async_zeroconf()
                                except OSError:
                                    pass
                                finally:
                                    FakeAsyncZeroconf.fail_next = False
                            elif op == "close":
                                fh.loop().run_until_complete(mgr.async_close())
                            else:
                                MDNS.clear()
                                MDNS["dev"] = ([], ["10.9.9.9"]) if op.endswith("1") else "e"
                                had, ncl = mgr._aiozc, len(CLOSE_LOG)
                                if op.endswith("c"):
                                    # the lookup is abandoned while the mDNS request is in flight: the caller's task is
                                    # cancelled / an enclosing timeout (asyncio.timeout, wait_for) fires, alternately
                                    MDNS["dev"] = "hang"
                                    n_abandon[0] += 1
                                    lp = fh.loop()
                                    coro = hr._async_zeroconf_get_service_info(mgr, hr.SERVICE_TYPE, "dev." + hr.SERVICE_TYPE, "dev.local.", 1.0)

                                    async def abandoned(coro=coro, use_timeout=(n_abandon[0] % 2 == 0)):
                                        if use_timeout:
                                            try:
                                                async with asyncio.timeout(0.001):
                                                    await coro
                                            except TimeoutError:
                                                pass
                                        else:
                                            t = asyncio.ensure_future(coro)
                                            await asyncio.sleep(0)
                                            await asyncio.sleep(0)
                                            t.cancel()
                                            try:
                                                await t
                                            except asyncio.CancelledError:
                                                pass
                                    try:
                                        lp.run_until_complete(abandoned())
                                    except ResolveAPIError:
                                        pass
                                else:
                                    try:
                                        fh.loop().run_until_complete(hr._async_zeroconf_get_service_info(
                                            mgr, hr.SERVICE_TYPE, "dev." + hr.SERVICE_TYPE, "dev.local.", 1.0))
                                    except ResolveAPIError:
                                        pass
                                # a lookup closes only an instance it caused to be created itself: one the manager already
                                # held (supplied, or made earlier by the library and still in use) survives it
                                # ... and one it caused to be created is closed again whatever way the lookup ended (answered,
                                # failed, abandoned in flight): nothing the library created stays open behind a lookup
                                if had is None and (mgr._aiozc is not None or len(CLOSE_LOG) != ncl + 1):
                                    ck.violation("c20:lookup-left-created-instance-open", "C20 violated on the implementation: an mDNS lookup "
                                                 f"({'abandoned in flight' if op.endswith('c') else 'failing' if op.endswith('0') else 'answered'}) "
                                                 "that found no zeroconf instance did not close the one the library created for it",
                                                 {"constructed_with_instance": bool(sup), "ops": list(seq[: k + 1]), "close_log": list(CLOSE_LOG),
                                                  "manager_still_holds_instance": mgr._aiozc is not None})
                                if had is not None and (mgr._aiozc is not had or len(CLOSE_LOG) != ncl):
                                    ck.violation("c20:lookup-closed-instance-in-use", "C20 violated on the implementation: an mDNS lookup "
                                                 "closed / dropped a zeroconf instance the manager already held before the lookup",
                                                 {"constructed_with_instance": bool(sup), "ops": list(seq[: k + 1]), "close_log": list(CLOSE_LOG)})
                        except RuntimeError:
                            raised = 1
                        lines.append(f"zc.op {op}")
                        impl.append(show_mgr(mgr, raised))
                        metas.append(("zc", sup, seq, k))
                        if any(i < 1000 for i in CLOSE_LOG):
                            ck.violation("c20:supplied-instance-closed", "C20 violated on the implementation: a zeroconf instance "
                                         "supplied by the application was closed by the library",
                                         {"constructed_with_instance": bool(sup), "ops": list(seq[: k + 1]), "close_log": list(CLOSE_LOG)})
        FakeServiceInfo.async_request = orig_req
    # ---- model vs implementation
    outs = run_driver_parallel([lines])   # one stream: zc.* ops are stateful
    out = outs[0]
    compared = 0
    if out is None:
        ck.disagreement("driver failed", {})
    else:
        for m, o, meta in zip(out, impl, metas):
            compared += 1
            if m != o:
                ck.disagreement("resolver model != implementation", {"case": [str(x) for x in meta], "model": m, "impl": o})
    ck.coverage.update({
        "evaluations": len(lines), "model_ops_compared": compared,
        "distinct_nontrivial": len(cases) + nseq,
        "rule": "resolution case = (1-3 configured hosts from 19 literal/bare/.local/FQDN forms, mDNS outcome per name, OS outcome "
                "per host); manager case = operation sequence (set same/different as AsyncZeroconf or plain Zeroconf, get, close, "
                "lookup ok/failing/abandoned in flight) from a manager constructed with/without an instance",
        "traces_validated_against_impl": len(lines),
        "samples": [{"hosts": c[0], "mdns": [str(x) for x in c[1]], "os": [str(x) for x in c[2]]} for c in cases[:2]] + [{"zc_ops": list(OPS)}],
        "distribution": dist, "manager_sequences": nseq, "exhaustive": False,
        "exhaustive_subspaces": {"single host: 19 forms x 5 mDNS outcomes x 3 OS outcomes": True,
                                 f"manager: all sequences of length <= {L} over 8 operations x constructed with/without": True},
    })
    ck.assumptions += ["real mDNS and the OS resolver are replaced by recording fakes; ipaddress is the real module"]


def show_mgr(mgr, raised):
    a = mgr._aiozc
    if a is None:
        inst = "none"
    else:
        i = a.zeroconf.ident
        inst = f"o:{i}" if i >= 1000 else f"s:{i}"
    closed = " ".join((f"o:{i}" if i >= 1000 else f"s:{i}") for i in CLOSE_LOG)
    return f"inst={inst} created={1 if mgr._created else 0} closed=[{closed}] raised={raised}"
