"""Frame-helper level test bench: a fake connection + fake transport around the real helpers."""
from __future__ import annotations

import asyncio

from aioesphomeapi import core
from aioesphomeapi._frame_helper.plain_text import APIPlaintextFrameHelper

_loop = None


def loop():
    global _loop
    if _loop is None:
        _loop = asyncio.new_event_loop()
    asyncio.set_event_loop(_loop)   # (a SimLoop bench may have unset the current loop meanwhile)
    return _loop


ERR_CLASSES = [
    # most specific first
    ("requiresEncryption", core.RequiresEncryptionAPIError),
    ("invalidKey", core.InvalidEncryptionKeyAPIError),
    ("badName", core.BadNameAPIError),
    ("handshake", core.HandshakeAPIError),
    ("protocol", core.ProtocolAPIError),
    ("socketClosed", core.SocketClosedAPIError),
    ("pingFailed", core.PingFailedAPIError),
    ("timeout", core.TimeoutAPIError),
    ("invalidAuth", core.InvalidAuthAPIError),
    ("resolve", core.ResolveAPIError),
    ("notEstablished", core.ConnectionNotEstablishedAPIError),
    ("readFailed", core.ReadFailedAPIError),
    ("cancelled", core.APIConnectionCancelledError),
    ("unhandled", core.UnhandledAPIConnectionError),
    ("socket", core.SocketAPIError),
    ("base", core.APIConnectionError),
]


def err_class(e) -> str:
    if e is None:
        return "none"
    if isinstance(e, type):
        e = e()
    for name, k in ERR_CLASSES:
        if isinstance(e, k):
            return name
    if isinstance(e, asyncio.CancelledError):
        return "raw:CancelledError"
    return "raw:" + type(e).__name__


class FakeTransport:
    def __init__(self):
        self.writes: list[bytes] = []
        self.closed = False
        self.fail_writes = None

    def write(self, data):
        if self.fail_writes is not None:
            raise self.fail_writes
        self.writes.append(bytes(data))

    def close(self):
        self.closed = True

    def is_closing(self):
        return self.closed

    def get_extra_info(self, *_a, **_k):
        return None


class FakeConnection:
    """What a frame helper sees of APIConnection.  `report_fatal_error` closes the helper, as the
    real `_cleanup` does."""

    def __init__(self):
        self.delivered: list[tuple[int, bytes]] = []
        self.errors: list[BaseException] = []
        self.helper = None

    def process_packet(self, t, data):
        self.delivered.append((t, bytes(data)))

    def report_fatal_error(self, err):
        self.errors.append(err)
        if self.helper is not None:
            self.helper.close()


def make_plain():
    loop()
    conn = FakeConnection()
    h = APIPlaintextFrameHelper(connection=conn, client_info="verif", log_name="verif")
    conn.helper = h
    tr = FakeTransport()
    h.connection_made(tr)
    return h, conn, tr


def deliver(h, conn, tr, chunk) -> str | None:
    """One transport read, as asyncio's selector transport does it: no call once the transport is
    closed; an exception escaping data_received becomes connection_lost(exc).
    Returns 'skipped' / 'raised:<cls>' / None."""
    if tr.closed:
        return "skipped"
    try:
        h.data_received(chunk)
    except Exception as exc:  # noqa: BLE001
        tr.closed = True
        h.connection_lost(exc)
        return "raised:" + type(exc).__name__
    return None
