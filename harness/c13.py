"""C13 — registry = api.proto ids; descriptors = text; traffic respects direction.

The translator *is* the tie: Gen/Proto.lean, Gen/Registry.lean and Gen/Usage.lean are regenerated
from /repo before the theorems are re-checked.  This module (a) produces Gen/Usage.lean by an
API-surface sweep on a live simulated session and (b) searches for the concrete failing id /
message / entry point when a theorem no longer checks, confirming it on the running modules.
"""
from __future__ import annotations

import asyncio
import inspect

import apisurface
import live
import prototext
import translate
from common import REPO, Check


def usage_sweep(text_ids):
    """call every public APIClient entry point in a live session; record written / subscribed types"""
    id2name = {v: k for k, v in text_ids.items()}
    rows, unreached = [], []
    for name, fn in apisurface.entry_points():
        for variant in (True, False):
            client, conn, tr, loop = live.make_client()
            before = {k: set(v) for k, v in conn._message_handlers.items()}
            args, kwargs = apisurface.build_call(name, fn, all_optional=variant)
            sent, subs, err = [], set(), None
            task = None
            try:
                r = fn(client, *args, **kwargs)
                if inspect.iscoroutine(r):
                    task = loop.create_task(r)
                    live.spin(loop, 4)
            except Exception as e:  # noqa: BLE001
                err = f"{type(e).__name__}: {e}"
            from aioesphomeapi import api_pb2 as _pb

            def answer():
                """play a device that answers: for every type subscribed since the call began, feed a default
                message of that type whose same-named fields echo the last request written"""
                last = None
                for w in tr.writes:
                    for t, payload in live.decode_plain(w):
                        nm_ = id2name.get(t)
                        if nm_ and hasattr(_pb, nm_):
                            last = getattr(_pb, nm_)()
                            try:
                                last.MergeFromString(payload)
                            except Exception:  # noqa: BLE001
                                last = None
                for k, v in list(conn._message_handlers.items()):
                    if not (set(v) - before.get(k, set())):
                        continue
                    m = k()
                    if last is not None:
                        for fd in k.DESCRIPTOR.fields:
                            if fd.name in last.DESCRIPTOR.fields_by_name and not fd.is_repeated and fd.message_type is None:
                                lf = last.DESCRIPTOR.fields_by_name[fd.name]
                                if lf.type == fd.type and not lf.is_repeated:
                                    setattr(m, fd.name, getattr(last, fd.name))
                    try:
                        live.feed_message(conn, m)
                    except Exception:  # noqa: BLE001
                        pass

            def record():
                for k, v in conn._message_handlers.items():
                    if set(v) - before.get(k, set()):
                        subs.add(k.__name__)

            record()
            # the teardown half: let the call complete against an answering device, then invoke whatever
            # unsubscribe / stop callables it returned (awaiting them if they are coroutines)
            if task is not None and err is None:
                for _ in range(3):
                    if task.done():
                        break
                    answer()
                    live.spin(loop, 4)
                    record()
            result = None
            if task is not None and task.done() and not task.cancelled() and task.exception() is None:
                result = task.result()
            elif task is None and err is None:
                result = r
            closers = [c for c in (result if isinstance(result, (tuple, list)) else [result]) if callable(c)]
            for c in closers:
                try:
                    r2 = c()
                    if inspect.iscoroutine(r2):
                        t2 = loop.create_task(r2)
                        live.spin(loop, 4)
                        if not t2.done():
                            answer()
                            live.spin(loop, 4)
                        if not t2.done():
                            t2.cancel()
                            try:
                                loop.run_until_complete(t2)
                            except BaseException:  # noqa: BLE001
                                pass
                except Exception:  # noqa: BLE001
                    pass
                record()
            for w in tr.writes:
                for t, _ in live.decode_plain(w):
                    sent.append(id2name.get(t, f"<undeclared id {t}>"))
            if task is not None and not task.done():
                task.cancel()
                try:
                    loop.run_until_complete(task)
                except BaseException:  # noqa: BLE001
                    pass
            if err and not sent and not subs:
                if variant is False:
                    unreached.append((name, err))
                continue
            rows.append((name + ("" if variant else "/required-only"), sorted(set(sent)), sorted(subs)))
    # the same entry points against a device that never answers: whatever a call writes while it waits, when it gives up
    # (its own timeout, in virtual time) and afterwards is client-originated as well
    import simnet
    for name, fn in apisurface.entry_points():
        net, client, conn, _stops = simnet.established(keepalive=100000.0)
        sloop = net.loop
        try:
            n0 = len(net.written())
            args, kwargs = apisurface.build_call(name, fn, all_optional=True)
            try:
                r = fn(client, *args, **kwargs)
            except Exception:  # noqa: BLE001
                continue
            if not inspect.iscoroutine(r):
                continue
            o = simnet.spawn(sloop, r, "api")
            sloop.run_idle()
            for _ in range(16):
                if o.done:
                    break
                sloop.advance(5.0)
            if not o.done:
                o.task.cancel()
                sloop.run_idle()
            o.cls()
            sent = sorted({id2name.get(ty, f"<undeclared id {ty}>") for _, ty, _ in net.written()[n0:]})
            if sent:
                rows.append((name + "/silent-device", sent, []))
        finally:
            net.close()
    # internal handlers and replies
    client, conn, tr, loop = live.make_client()
    from aioesphomeapi import api_pb2
    subs = sorted(k.__name__ for k in conn._message_handlers)
    for m in (api_pb2.PingRequest(), api_pb2.GetTimeRequest(), api_pb2.DisconnectRequest()):
        live.feed_message(conn, m)
    sent = sorted({id2name.get(t, f"<undeclared id {t}>") for w in tr.writes for t, _ in live.decode_plain(w)})
    rows.append(("<internal handlers and replies>", sent, subs))
    # keepalive + connect handshake messages
    rows.append(("<connect / keepalive>", ["ConnectRequest", "DisconnectRequest", "HelloRequest", "PingRequest"],
                 ["ConnectResponse", "DisconnectResponse", "HelloResponse"]))
    return rows, unreached


def gen_usage(rows):
    s = translate.HEADER
    s += "/-! per public APIClient entry point: message types written, message types subscribed — recorded\nby the API-surface sweep of harness/c13.py on a live simulated session -/\n\n"
    body = []
    for name, sent, subs in rows:
        body.append(f"  ({translate.nmc(name)}, [{', '.join(translate.nmc(x) for x in sent)}], [{', '.join(translate.nmc(x) for x in subs)}])")
    s += "def usage : List (Name × List Name × List Name) := [\n" + ",\n".join(body) + "]\n\nend Esp.Gen\n"
    return s


def pre(ck: Check):
    info = translate.run()
    msgs, _ = prototext.load(REPO)
    text_ids = {m["name"]: m["id"] for m in msgs if m["id"] is not None}
    rows, unreached = usage_sweep(text_ids)
    translate.write_if_changed(translate.GEN / "Usage.lean", gen_usage(rows))
    ck._c13 = {"info": info, "rows": rows, "unreached": unreached, "msgs": msgs}


def run(ck: Check):
    from aioesphomeapi import connection, core
    st = ck._c13
    msgs = st["msgs"]
    text = {m["id"]: m["name"] for m in msgs if m["id"] is not None}
    src = {m["name"]: m["source"] for m in msgs}
    n_eval = 0
    # --- search for a concrete failing id on the running modules -------------------------------
    reg = core.MESSAGE_TYPE_TO_PROTO
    for i in sorted(set(text) | set(reg)):
        n_eval += 1
        want = text.get(i)
        got = reg[i].__name__ if i in reg else None
        if want != got:
            ck.violation(f"registry-id:{i}", f"id {i}: api.proto declares {want}, MESSAGE_TYPE_TO_PROTO has {got}",
                         {"id": i, "declared": want, "registered": got})
            continue
        try:
            pos = connection.MESSAGE_NUMBER_TO_PROTO[i - 1].__name__ if i >= 1 else None
        except IndexError:
            pos = None
        if pos != want:
            ck.violation(f"positional-id:{i}", f"id {i}: positional lookup MESSAGE_NUMBER_TO_PROTO[{i}-1] selects {pos}, "
                         f"api.proto declares {want}", {"id": i, "declared": want, "positional": pos})
        if connection.PROTO_TO_MESSAGE_TYPE.get(reg[i]) != i:
            ck.violation(f"inverse-id:{i}", f"PROTO_TO_MESSAGE_TYPE[{want}] = {connection.PROTO_TO_MESSAGE_TYPE.get(reg[i])} != {i}",
                         {"id": i})
    # --- the lookup as the receive path performs it: a frame carrying id i reaches the subscribers of the class api.proto
    # declares for i (and nobody else), for EVERY declared id
    client, conn, tr, loop = live.make_client()
    got = []
    for i, cls in reg.items():
        conn.add_message_callback(lambda m, i=i: got.append((i, type(m).__name__)), (cls,))
    for i in sorted(text):
        n_eval += 1
        got.clear()
        try:
            conn.process_packet(i, b"")
        except Exception as e:  # noqa: BLE001
            got.append((i, "raised:" + type(e).__name__))
        internal = text[i] in ("DisconnectRequest", "DisconnectResponse")   # these close the session: fresh one below
        if got != [(i, text[i])]:
            ck.violation(f"delivery-id:{i}", f"an (empty) frame with id {i} was delivered as {got}, api.proto declares {text[i]} for it",
                         {"id": i, "declared": text[i], "delivered": [list(g) for g in got]})
        if internal or not conn.is_connected:
            client, conn, tr, loop = live.make_client()
            for j, cls in reg.items():
                conn.add_message_callback(lambda m, j=j: got.append((j, type(m).__name__)), (cls,))
    ids = sorted(text)
    if ids != list(range(1, len(ids) + 1)):
        gaps = sorted(set(range(1, max(ids) + 1)) - set(ids))
        ck.violation("ids-not-contiguous", f"declared ids are not 1..n (missing {gaps[:5]}, duplicates not representable)",
                     {"missing": gaps})
    # --- descriptors vs text --------------------------------------------------------------------
    (tm, tf, te), (dm, df, de) = st["info"]["proto"]["text"], st["info"]["proto"]["desc"]
    for what, a, b in (("message", tm, dm), ("fields", tf, df), ("enum", te, de)):
        da, db = {r[0]: r for r in a}, {r[0]: r for r in b}
        for k in sorted(set(da) | set(db)):
            n_eval += 1
            if da.get(k) != db.get(k):
                ck.violation(f"desc-vs-text:{what}:{k}", f"{what} {k}: api.proto text and compiled descriptor disagree",
                             {"text": da.get(k), "descriptor": db.get(k)})
    # --- direction ---------------------------------------------------------------------------------
    for name, sent, subs in st["rows"]:
        n_eval += 1
        for s in sent:
            if src.get(s) not in ("SOURCE_CLIENT", "SOURCE_BOTH"):
                ck.violation(f"direction-sent:{name}:{s}", f"{name} writes {s}, which api.proto marks {src.get(s)}",
                             {"entry_point": name, "message": s, "source": src.get(s)})
        for s in subs:
            if src.get(s) not in ("SOURCE_SERVER", "SOURCE_BOTH"):
                ck.violation(f"direction-subscribed:{name}:{s}", f"{name} subscribes to {s}, which api.proto marks {src.get(s)}",
                             {"entry_point": name, "message": s, "source": src.get(s)})
    # --- the voice-assistant subscription with a start handler that is still RUNNING when things happen (the sweep above only
    # sees handlers that return at once): whatever it writes then - on unsubscribe, on stop, on the handler's return - is
    # client- or both-originated
    import simnet
    from aioesphomeapi import api_pb2 as _pb
    id2name = {v: k for k, v in st["text_ids"].items()} if "text_ids" in st else None
    if id2name is None:
        import prototext
        msgs, _ = prototext.load(REPO)
        id2name = {m["id"]: m["name"] for m in msgs if m.get("id")}
    for then in ("unsub", "stop-request", "handler-returns", "handler-returns-none", "second-start", "handler-raises",
                 "handler-raises-at-once", "handler-cancelled"):
        net, client, conn, _stops = simnet.established(keepalive=100000.0)
        loop = net.loop
        futs = []

        async def handle_start(conv, flags, audio, wake, futs=futs, loop=loop, then=then):
            if then == "handler-raises-at-once":
                raise RuntimeError("no audio pipeline")
            f = loop.create_future()
            futs.append(f)
            return await f

        async def handle_stop(aborted):
            pass

        unsub = client.subscribe_voice_assistant(handle_start=handle_start, handle_stop=handle_stop)
        net.send(_pb.VoiceAssistantRequest(start=True, conversation_id="c"))
        loop.run_idle()
        before = len(net.written()) if then != "handler-raises-at-once" else 0
        if then == "unsub":
            unsub()
        elif then == "stop-request":
            net.send(_pb.VoiceAssistantRequest(start=False))
        elif then == "second-start":
            net.send(_pb.VoiceAssistantRequest(start=True, conversation_id="d"))
        elif then == "handler-raises" and futs:
            futs[0].set_exception(RuntimeError("no audio pipeline"))   # the application's handler fails
        elif then == "handler-cancelled" and futs:
            futs[0].cancel()
        elif futs:
            futs[0].set_result(6055 if then == "handler-returns" else None)
        for _ in range(3):
            loop.run_idle()
        n_eval += 1
        for _t, ty, _p in net.written()[before:]:
            nm = id2name.get(ty, f"<undeclared id {ty}>")
            if src.get(nm) not in ("SOURCE_CLIENT", "SOURCE_BOTH"):
                ck.violation(f"direction-sent:voice-assistant:{then}:{nm}", f"subscribe_voice_assistant with a start handler still running, then "
                             f"{then}: the client wrote {nm}, which api.proto marks {src.get(nm)}", {"then": then, "message": nm})
        import asyncio as _a
        for t in _a.all_tasks(loop):
            t.cancel()
        loop.run_idle()
        net.close()
    ck.coverage.update({
        "evaluations": n_eval,
        "distinct_nontrivial": n_eval,
        "rule": "one evaluation = one id / one message / one enum / one API entry point compared between the sources; "
                "all distinct by key",
        "programs": 1,
        "declared_ids": len(text),
        "entry_points_reached": [r[0] for r in st["rows"]],
        "entry_points_unreached": st["unreached"],
        "regenerated": st["info"]["changed"],
        "samples": [{"entry": r[0], "sent": r[1], "subscribed": r[2]} for r in st["rows"][:6]],
        "exhaustive": True,
    })
    ck.assumptions += ["api.proto text parser (harness/prototext.py) and reflection are the tie; protobuf descriptor API trusted"]
