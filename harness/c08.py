"""C08 — closing releases everything and silences the connection (see c05.py for the machinery)."""
import c05
import connlts


def run(ck):
    c05.run(ck, spec=lambda obs, lines, info: connlts.spec_c08(obs, lines),
            keys=("st", "tr", "sock", "timers", "writes", "deliv", "start", "finish", "disc"),
            what="connection LTS != implementation (resource projection)", pid="C08")
    ck.coverage["noise_handshake_close_cases"] = noise_handshake_closes(ck)


def noise_handshake_closes(ck):
    """an encrypted session that is closed while the Noise handshake is still pending (the device has not answered the hello):
    once the connect phase has ended, no timer is left armed - the handshake timeout in particular - and nothing stays blocked"""
    import c09

    n = 0
    for cause in ("eof", "reset", "garbage", "force"):
        for answered_hello in (False, True):
            net, conn = c09.mk_conn(True)
            loop = net.loop
            s0 = c09.Stamp(loop, conn.start_connection())
            loop.run_idle(); net.complete_resolve(); loop.run_idle(); net.complete_sock(); loop.run_idle()
            st = c09.Stamp(loop, conn.finish_connection(login=False))
            loop.run_idle()
            if answered_hello:
                net.feed(b"\x01\x00\x01\x01")      # a ServerHello without a name; the handshake frame never comes
                loop.run_idle()
            extra = None
            if cause == "eof":
                net.eof()
            elif cause == "reset":
                net.reset()
            elif cause == "garbage":
                net.feed(b"\x07\x07\x07\x07")
            elif cause == "force":
                conn.force_disconnect()
            else:
                extra = c09.Stamp(loop, conn.disconnect())
            for _ in range(4):
                loop.run_idle()
            n += 1
            timers = [lab for _, lab in loop.armed_timers()]
            blocked = [name for name, s in (("finish_connection", st), ("disconnect", extra)) if s is not None and not s.task.done()]
            closed = conn.connection_state is c09.simnet.ac.CONNECTION_STATE_CLOSED if hasattr(c09.simnet, "ac") else not conn.is_connected
            if timers or blocked or not closed:
                ck.violation(f"c08:noise-handshake-close:{cause}", f"encrypted session closed by {cause} while the handshake was pending "
                             f"(ServerHello {'received' if answered_hello else 'not received'}): closed={closed}, timers still armed {timers}, "
                             f"calls still blocked {blocked}", {"cause": cause, "server_hello_received": answered_hello, "timers": timers,
                                                                "blocked": blocked})
            for s in (s0, st, extra):
                if s is not None and s.task.done() and not s.task.cancelled():
                    s.task.exception()
            net.close()
    return n
