"""C08 — closing releases everything and silences the connection (see c05.py for the machinery)."""
import c05
import connlts


def run(ck):
    c05.run(ck, spec=lambda obs, lines, info: connlts.spec_c08(obs, lines),
            keys=("st", "tr", "sock", "timers", "writes", "deliv", "start", "finish", "disc"),
            what="connection LTS != implementation (resource projection)", pid="C08")
